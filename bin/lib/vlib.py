"""Shared machinery for the json-c TLA+ conformance checks.

build variants of json-c from the *current* working tree of the repository, run TLC
(exhaustive / as-found / dump / trace validation), edge covers of dumped state graphs,
known-findings matching and evidence files.  Python 3 stdlib only.
"""
import fcntl
import hashlib
import json
import os
import re
import shutil
import subprocess
import sys
import time

VERIF = os.path.dirname(os.path.dirname(os.path.dirname(os.path.abspath(__file__))))
REPO = os.environ.get("VERIF_REPO", "/repo")
BUILD = os.path.join(VERIF, ".build")
WORK = os.path.join(VERIF, ".work")
SPEC = os.path.join(VERIF, "spec")
HARNESS = os.path.join(VERIF, "harness")
SEED = int(os.environ.get("VERIF_SEED", "1") or "1")
NCPU = os.cpu_count() or 4


class Broken(Exception):
    """Infrastructure failure: the check is broken, nothing is claimed (exit 2)."""


def log(*a):
    print(*a, file=sys.stderr, flush=True)


def sh(cmd, timeout=600, env=None, cwd=None, check=True, stdin=None):
    e = dict(os.environ)
    if env:
        e.update(env)
    p = subprocess.run(cmd, shell=isinstance(cmd, str), cwd=cwd, env=e, timeout=timeout,
                       stdout=subprocess.PIPE, stderr=subprocess.STDOUT, input=stdin)
    out = p.stdout.decode("utf-8", "replace")
    if check and p.returncode != 0:
        raise Broken("command failed (%d): %s\n%s" % (p.returncode, cmd, out[-4000:]))
    return p.returncode, out


def sha(*parts):
    h = hashlib.sha1()
    for p in parts:
        h.update(p if isinstance(p, bytes) else str(p).encode())
        h.update(b"\0")
    return h.hexdigest()


def file_sha(path):
    with open(path, "rb") as f:
        return hashlib.sha1(f.read()).hexdigest()


# --------------------------------------------------------------------------------------------
# building json-c variants + the harness from the repository's current working tree

def repo_sources():
    txt = open(os.path.join(REPO, "CMakeLists.txt")).read()
    m = re.search(r"set\(JSON_C_SOURCES\s*(.*?)\)", txt, re.S)
    names = re.findall(r"\$\{PROJECT_SOURCE_DIR\}/(\S+\.c)", m.group(1))
    for extra in ("json_pointer.c", "json_patch.c"):
        if extra not in names and os.path.exists(os.path.join(REPO, extra)):
            names.append(extra)
    return names


def harness_sources():
    return ["vh.c", "vhrt.c"] + sorted(f for f in os.listdir(HARNESS) if f.startswith("vh_") and f.endswith(".c"))


VARIANTS = {
    # name: (compiler, cflags, cmake args, ldflags)
    "san": ("clang", "-O1 -g -fsanitize=address,undefined -fno-sanitize-recover=undefined -fno-omit-frame-pointer",
            "", "-fsanitize=address,undefined"),
    "cnt": ("gcc", "-O2 -g", "", ""),
    "thr": ("gcc", "-O2 -g -DNDEBUG -pthread", "-DENABLE_THREADING=ON", "-pthread"),
    "thrnt": ("gcc", "-O2 -g -DNDEBUG -pthread", "", "-pthread"),
    "tsan": ("clang", "-O1 -g -DNDEBUG -fsanitize=thread -pthread", "-DENABLE_THREADING=ON", "-fsanitize=thread -pthread"),
}


def _cfg_dir(variant):
    """cmake-configured headers (config.h json_config.h json.h) for the variant."""
    cmake_args = VARIANTS[variant][2]
    ins = [os.path.join(REPO, "CMakeLists.txt")]
    for root, _, files in os.walk(os.path.join(REPO, "cmake")):
        ins += [os.path.join(root, f) for f in files]
    ins += [os.path.join(REPO, f) for f in os.listdir(REPO) if f.endswith((".in", ".cmakein"))]
    key = sha(cmake_args, REPO, *[file_sha(p) for p in sorted(ins)])[:12]
    d = os.path.join(BUILD, "cfg-%s-%s" % (cmake_args.replace("-D", "").replace("=", "") or "default", key))
    if not os.path.exists(os.path.join(d, "config.h")):
        shutil.rmtree(d, ignore_errors=True)
        os.makedirs(d)
        sh("cmake -G Ninja -S %s -B %s -DCMAKE_BUILD_TYPE=RelWithDebInfo -DBUILD_TESTING=OFF -DBUILD_APPS=OFF %s" % (REPO, d, cmake_args), timeout=300)
        if not os.path.exists(os.path.join(d, "config.h")):
            raise Broken("cmake configure produced no config.h")
    return d


def build(variant, harness_srcs, exe_name, extra_cflags="", redirect=True, repo_cflags="", objtag=""):
    """Compile json-c (variant) + harness sources into .build/<variant>/<exe_name>; returns path.

    Rebuilds from the repository's current working tree: objects are keyed by a hash of the
    preprocessed-input closure (all repo *.c/*.h, harness files, flags)."""
    os.makedirs(BUILD, exist_ok=True)
    lock = open(os.path.join(BUILD, ".lock"), "w")
    fcntl.flock(lock, fcntl.LOCK_EX)
    try:
        cc, cflags, _, ldflags = VARIANTS[variant]
        cfg = _cfg_dir(variant)
        srcs = repo_sources()
        hdr_hash = sha(*[file_sha(os.path.join(REPO, f)) for f in sorted(os.listdir(REPO)) if f.endswith(".h")],
                       *[file_sha(os.path.join(HARNESS, f)) for f in sorted(os.listdir(HARNESS)) if f.endswith(".h")])
        inc = "-D_GNU_SOURCE -DJSON_C_VERIF -I%s -I%s -I%s" % (cfg, REPO, HARNESS)
        red = ("-include %s/redirect.h" % HARNESS) if redirect else ""
        odir = os.path.join(BUILD, variant, "obj" + objtag)
        os.makedirs(odir, exist_ok=True)
        jobs = []
        objs = []
        for s in srcs:
            path = os.path.join(REPO, s)
            flags = "%s %s %s %s" % (cflags, inc, red, repo_cflags)
            key = sha(file_sha(path), hdr_hash, flags, cc)[:16]
            obj = os.path.join(odir, "%s.%s.o" % (s[:-2], key))
            objs.append(obj)
            if not os.path.exists(obj):
                for old in os.listdir(odir):
                    if old.startswith(s[:-2] + ".") and old.endswith(".o"):
                        os.unlink(os.path.join(odir, old))
                jobs.append("%s -std=gnu99 -w %s -c %s -o %s" % (cc, flags, path, obj))
        hobjs = []
        for s in harness_srcs:
            path = os.path.join(HARNESS, s)
            flags = "%s %s %s" % (cflags, inc, extra_cflags)
            key = sha(file_sha(path), hdr_hash, flags, cc)[:16]
            obj = os.path.join(odir, "h_%s.%s.o" % (s[:-2], key))
            hobjs.append(obj)
            if not os.path.exists(obj):
                for old in os.listdir(odir):
                    if old.startswith("h_" + s[:-2] + ".") and old.endswith(".o"):
                        os.unlink(os.path.join(odir, old))
                jobs.append("%s -std=gnu11 -Wall -Wno-unused-function %s -c %s -o %s" % (cc, flags, path, obj))
        if jobs:
            procs = [subprocess.Popen(j, shell=True, stdout=subprocess.PIPE, stderr=subprocess.STDOUT) for j in jobs]
            for j, p in zip(jobs, procs):
                out = p.communicate(timeout=600)[0].decode("utf-8", "replace")
                if p.returncode != 0:
                    raise Broken("compile failed: %s\n%s" % (j, out[-4000:]))
        # the executable's name carries the hash of what it was linked from: a check that runs concurrently against
        # another state of the repository (development self-tests) can neither overwrite nor pick up this one
        lkey = sha(*objs, *hobjs, ldflags)
        exe = os.path.join(BUILD, variant, "%s.%s" % (exe_name, lkey[:12]))
        if not os.path.exists(exe):
            sh("%s %s -o %s.tmp %s %s -lm" % (cc, ldflags, exe, " ".join(hobjs), " ".join(objs)), timeout=300)
            os.replace(exe + ".tmp", exe)
            now = time.time()
            for old in os.listdir(os.path.join(BUILD, variant)):
                op = os.path.join(BUILD, variant, old)
                if old.startswith(exe_name + ".") and op != exe and os.path.isfile(op) and now - os.path.getmtime(op) > 7200:
                    try:
                        os.unlink(op)
                    except OSError:
                        pass
        return exe
    finally:
        fcntl.flock(lock, fcntl.LOCK_UN)
        lock.close()


SAN_ENV = {"ASAN_OPTIONS": "detect_leaks=1:abort_on_error=0:exitcode=99:allocator_may_return_null=1",
           "UBSAN_OPTIONS": "print_stacktrace=1:halt_on_error=1:exitcode=98"}


def run_harness(exe, args, out_path=None, timeout=600, env=None, stdin=None):
    """Run a harness binary. Returns (rc, output). rc!=0 means the implementation died
    (sanitizer report, crash, timeout) - callers treat that as 'no next event'."""
    e = dict(os.environ)
    e.update(SAN_ENV)
    e["VERIF_SEED"] = str(SEED)
    if env:
        e.update(env)
    try:
        if out_path:
            with open(out_path, "wb") as f:
                p = subprocess.run([exe] + [str(a) for a in args], stdout=f, stderr=subprocess.PIPE, env=e,
                                   timeout=timeout, input=stdin)
            return p.returncode, p.stderr.decode("utf-8", "replace")
        p = subprocess.run([exe] + [str(a) for a in args], stdout=subprocess.PIPE, stderr=subprocess.PIPE,
                           env=e, timeout=timeout, input=stdin)
        return p.returncode, p.stdout.decode("utf-8", "replace") + p.stderr.decode("utf-8", "replace")
    except subprocess.TimeoutExpired:
        return 124, "TIMEOUT after %ss" % timeout


# --------------------------------------------------------------------------------------------
# TLC

TLC_JAR = "/opt/veriftools/tla/tla2tools.jar:/opt/veriftools/tla/CommunityModules-deps.jar"
_tlc_seq = [0]


class TlcResult:
    def __init__(self, rc, out, wall):
        self.rc, self.out, self.wall = rc, out, wall
        m = re.findall(r"(\d+) states generated, (\d+) distinct states found", out)
        self.generated = int(m[-1][0]) if m else 0
        self.distinct = int(m[-1][1]) if m else 0
        m = re.search(r"The depth of the complete state graph search is (\d+)", out)
        self.depth = int(m.group(1)) if m else 0
        self.violation = rc in (12, 13) or "is violated" in out
        self.ok = rc == 0 and "Model checking completed. No error has been found" in out

    def violated_what(self):
        m = re.search(r"Invariant (\S+) is violated|property (\S+) is violated|Temporal properties were violated", self.out)
        return m.group(0) if m else None


def tlc(module, cfg, workers=None, timeout=900, env=None, extra=None, xmx="4g", cwd=SPEC, simulate=None, quiet=True):
    """Run TLC on spec/<module>.tla with spec/cfg/<cfg>. Returns TlcResult."""
    _tlc_seq[0] += 1
    meta = os.path.join(WORK, "tlc", "%d-%d-%s" % (os.getpid(), _tlc_seq[0], os.path.basename(cfg)))
    shutil.rmtree(meta, ignore_errors=True)
    os.makedirs(meta, exist_ok=True)
    cfgp = cfg if os.path.isabs(cfg) else os.path.join(SPEC, "cfg", cfg)
    cmd = ["java", "-XX:+UseParallelGC", "-Xmx" + xmx, "-Xss64m", "-cp", TLC_JAR, "tlc2.TLC",
           "-workers", str(workers or 8), "-metadir", meta, "-config", cfgp, "-noGenerateSpecTE"]
    if simulate:
        cmd += ["-simulate", simulate]
    if extra:
        cmd += extra
    cmd.append(module if module.endswith(".tla") else module + ".tla")
    e = dict(os.environ)
    if env:
        e.update(env)
    t0 = time.time()
    try:
        p = subprocess.run(cmd, cwd=cwd, env=e, timeout=timeout, stdout=subprocess.PIPE, stderr=subprocess.STDOUT)
        rc, out = p.returncode, p.stdout.decode("utf-8", "replace")
    except subprocess.TimeoutExpired as ex:
        rc, out = 124, (ex.stdout or b"").decode("utf-8", "replace") + "\nTIMEOUT"
    shutil.rmtree(meta, ignore_errors=True)
    return TlcResult(rc, out, time.time() - t0)


def apalache(module, cinit, init, inv, length, timeout=600):
    """One proof obligation with Apalache (symbolic, unbounded integers): returns (ok, violated, wall, tail).
    ok = no error up to `length` steps from `init`; violated = a counterexample was produced (exit 12)."""
    _tlc_seq[0] += 1
    out = os.path.join(WORK, "apalache", "%d-%d" % (os.getpid(), _tlc_seq[0]))
    shutil.rmtree(out, ignore_errors=True)
    os.makedirs(out, exist_ok=True)
    cmd = ["apalache-mc", "check", "--out-dir=" + out, "--cinit=" + cinit, "--init=" + init, "--inv=" + inv, "--length=%d" % length,
           module if module.endswith(".tla") else module + ".tla"]
    t0 = time.time()
    try:
        p = subprocess.run(cmd, cwd=SPEC, timeout=timeout, stdout=subprocess.PIPE, stderr=subprocess.STDOUT)
        rc, txt = p.returncode, p.stdout.decode("utf-8", "replace")
    except subprocess.TimeoutExpired as ex:
        rc, txt = 124, (ex.stdout or b"").decode("utf-8", "replace") + "\nTIMEOUT"
    except FileNotFoundError:
        raise Broken("apalache-mc is not installed")
    shutil.rmtree(out, ignore_errors=True)
    ok = rc == 0 and "The outcome is: NoError" in txt
    return ok, rc == 12, time.time() - t0, txt[-2000:]


def tlc_exhaustive(module, cfg, **kw):
    """Exhaustive check that must pass. Violation of the model itself = broken check."""
    r = tlc(module, cfg, **kw)
    if not r.ok:
        raise Broken("TLC %s/%s did not pass (rc=%d):\n%s" % (module, cfg, r.rc, r.out[-3000:]))
    return r


def tlc_must_fail(module, cfg, **kw):
    """Anti-vacuity: the as-found / mutant switch must make TLC report a violation."""
    r = tlc(module, cfg, **kw)
    if r.ok or r.rc == 124:
        raise Broken("anti-vacuity config %s/%s was expected to be violated but rc=%d" % (module, cfg, r.rc))
    if not (r.violation or r.rc in (10, 11, 12, 13, 75, 150, 151, 255, 1)):
        raise Broken("anti-vacuity config %s/%s ended unexpectedly rc=%d\n%s" % (module, cfg, r.rc, r.out[-2000:]))
    return r


def validate_traces(module, cfg, trace_paths, timeout=900, par=None, env=None, xmx="2g"):
    """Trace validation, one TLC (workers 1) per trace file, run in parallel.
    Trace specs follow TraceBase.tla: a line that is not a step of the specification is printed
    as <<"MISMATCH", line>> and validation resumes at the next execution ("new" event); the
    postcondition prints <<"TRACE_DONE", lines>>.  Returns list of dicts {path, accepted, lines, ...}."""
    par = par or min(NCPU, 16)
    results = [None] * len(trace_paths)
    running = []
    idx = 0
    cfgp = cfg if os.path.isabs(cfg) else os.path.join(SPEC, "cfg", cfg)

    def start(i):
        _tlc_seq[0] += 1
        meta = os.path.join(WORK, "tlc", "%d-%d-tr" % (os.getpid(), _tlc_seq[0]))
        shutil.rmtree(meta, ignore_errors=True)
        os.makedirs(meta, exist_ok=True)
        e = dict(os.environ)
        if env:
            e.update(env)
        e["TRACE"] = trace_paths[i]
        cmd = ["java", "-XX:+UseSerialGC", "-Xmx" + xmx, "-Xss256m", "-cp", TLC_JAR, "tlc2.TLC", "-workers", "1",
               "-metadir", meta, "-config", cfgp, "-noGenerateSpecTE", module + ".tla"]
        p = subprocess.Popen(cmd, cwd=SPEC, env=e, stdout=subprocess.PIPE, stderr=subprocess.STDOUT)
        return (i, p, meta, time.time())

    while idx < len(trace_paths) or running:
        while idx < len(trace_paths) and len(running) < par:
            running.append(start(idx))
            idx += 1
        i, p, meta, t0 = running.pop(0)
        try:
            out = p.communicate(timeout=timeout)[0].decode("utf-8", "replace")
            rc = p.returncode
        except subprocess.TimeoutExpired:
            p.kill()
            out = p.communicate()[0].decode("utf-8", "replace") + "\nTIMEOUT"
            rc = 124
        shutil.rmtree(meta, ignore_errors=True)
        r = TlcResult(rc, out, time.time() - t0)
        mism = [int(x) for x in re.findall(r'^<<"MISMATCH", (\d+)>>$', out, re.M)]
        done = re.search(r'^<<"TRACE_DONE", (\d+)>>$', out, re.M)
        if rc != 0 or not done:
            raise Broken("trace validation of %s ended without verdict (rc=%d):\n%s" % (trace_paths[i], rc, out[-3000:]))
        tags = {}
        for tg, ln in re.findall(r'^<<"([A-Z_]+)", (\d+)>>$', out, re.M):
            if tg not in ("MISMATCH", "TRACE_DONE"):
                tags.setdefault(tg, set()).add(int(ln))
        results[i] = {"path": trace_paths[i], "accepted": not mism, "lines": sorted(set(mism)), "consumed": int(done.group(1)), "tags": tags,
                      "states": r.distinct, "generated": r.generated, "out": out}
    return results


# --------------------------------------------------------------------------------------------
# state-graph dump (dot, action labels) -> edge cover

def tlc_dump(module, cfg, timeout=900, workers=4, xmx="4g"):
    """Returns (nodes: {id: label}, edges: [(src, dst, label)], init_ids, TlcResult)."""
    os.makedirs(os.path.join(WORK, "dump"), exist_ok=True)
    dot = os.path.join(WORK, "dump", "%s-%d.dot" % (os.path.basename(cfg), os.getpid()))
    r = tlc(module, cfg, workers=workers, timeout=timeout, xmx=xmx, extra=["-dump", "dot,actionlabels", dot])
    if not r.ok:
        raise Broken("TLC dump %s/%s failed rc=%d\n%s" % (module, cfg, r.rc, r.out[-3000:]))
    nodes, edges, inits = {}, [], []
    node_re = re.compile(r'^(-?\d+) \[label="(.*)"(,style = filled)?\]\s*;?$')
    edge_re = re.compile(r'^(-?\d+) -> (-?\d+) \[label="(.*?)",')
    with open(dot) as f:
        for line in f:
            line = line.strip()
            m = edge_re.match(line)
            if m:
                edges.append((m.group(1), m.group(2), m.group(3).replace('\\"', '"')))
                continue
            m = node_re.match(line)
            if m:
                nodes[m.group(1)] = m.group(2)
                if m.group(3):
                    inits.append(m.group(1))
    os.unlink(dot)
    return nodes, edges, inits, r


def edge_cover(edges, inits, max_len=None, extend=0, rng=None):
    """One path per edge: BFS-shortest path from an initial state to the edge's source + edge.
    Paths that are prefixes of longer emitted paths are dropped. Returns list of label lists."""
    from collections import deque, defaultdict
    adj = defaultdict(list)
    for s, d, l in edges:
        adj[s].append((d, l))
    pred = {}
    dq = deque()
    for i in inits:
        pred[i] = None
        dq.append(i)
    while dq:
        u = dq.popleft()
        for d, l in adj[u]:
            if d not in pred:
                pred[d] = (u, l)
                dq.append(d)

    def path_to(n):
        p = []
        while pred.get(n) is not None:
            u, l = pred[n]
            p.append(l)
            n = u
        return p[::-1]

    covered = set()
    paths = []
    # greedy: walk from each uncovered edge forward through uncovered edges to make longer scripts
    order = sorted(((len(path_to(s)), s, d, l) for (s, d, l) in edges if s in pred), key=lambda t: -t[0])
    for _, s, d, l in order:
        if (s, d, l) in covered:
            continue
        p = path_to(s) + [l]
        covered.add((s, d, l))
        cur = d
        steps = 0
        while (max_len is None or len(p) < max_len) and steps < extend:
            nxt = [(dd, ll) for (dd, ll) in adj[cur] if (cur, dd, ll) not in covered]
            if not nxt:
                break
            dd, ll = nxt[0] if rng is None else rng.choice(nxt)
            covered.add((cur, dd, ll))
            p.append(ll)
            cur = dd
            steps += 1
        paths.append(p)
    return paths


def parse_action_label(label):
    """'Add("a", 1)' -> ('Add', ['a', 1]);  'Reset' -> ('Reset', [])"""
    m = re.match(r"^(\w+)(?:\((.*)\))?$", label.strip())
    if not m:
        return label, []
    name, args = m.group(1), m.group(2)
    if args is None or args.strip() == "":
        return name, []
    out = []
    depth = 0
    cur = ""
    instr = False
    for ch in args:
        if ch == '"':
            instr = not instr
        if not instr and ch in "<({[":
            depth += 1
        if not instr and ch in ">)}]":
            depth -= 1
        if ch == "," and depth == 0 and not instr:
            out.append(cur.strip())
            cur = ""
        else:
            cur += ch
    out.append(cur.strip())
    res = []
    for a in out:
        if a.startswith('"') and a.endswith('"'):
            res.append(a[1:-1])
        elif re.match(r"^-?\d+$", a):
            res.append(int(a))
        elif a in ("TRUE", "FALSE"):
            res.append(a == "TRUE")
        else:
            res.append(a)
    return name, res


# --------------------------------------------------------------------------------------------
# known findings

def load_findings(prop):
    """KNOWN_FINDINGS.txt lines:
       finding: property=C13 key=<k> match=<json object> :: text
       fixed: property=C10 <commit> text
    returns list of (key, matchdict, text) for 'finding:' lines of this property."""
    path = os.path.join(VERIF, "KNOWN_FINDINGS.txt")
    res = []
    if not os.path.exists(path):
        return res
    for line in open(path):
        line = line.strip()
        if not line.startswith("finding:"):
            continue
        m = re.match(r"finding:\s+property=(\S+)\s+key=(\S+)\s+match=(\{.*?\})\s+::\s*(.*)$", line)
        if not m:
            raise Broken("unparsable KNOWN_FINDINGS line: " + line)
        if m.group(1) == prop:
            res.append((m.group(2), json.loads(m.group(3)), m.group(4)))
    return res


def match_finding(findings, diag):
    """diag: dict describing a mismatch. A finding matches if every key of its predicate equals
    the same key in the diagnosis."""
    for key, pred, text in findings:
        if all(diag.get(k) == v for k, v in pred.items()):
            return key, text
    return None


# --------------------------------------------------------------------------------------------
# evidence / result plumbing

class Check:
    def __init__(self, prop, tier):
        self.prop, self.tier = prop, tier
        self.t0 = time.time()
        self.states = 0
        self.transitions = 0
        self.traces = 0
        self.events = 0
        self.samples = []
        self.stages = []
        self.violations = []       # (diag dict, replay path)
        self.known = {}            # key -> text
        self.assumptions = []
        self.extra = {}
        self.findings = load_findings(prop)
        os.makedirs(os.path.join(WORK, "replay"), exist_ok=True)
        # self-test runs against a changed copy of the repository (VERIF_EVIDENCE_DIR set) get a work directory of their own
        sub = prop + ("-alt-%s" % (os.environ.get("VERIF_WORK_TAG") or os.getpid()) if os.environ.get("VERIF_EVIDENCE_DIR") else "")
        os.makedirs(os.path.join(WORK, sub), exist_ok=True)
        self.dir = os.path.join(WORK, sub)

    def stage(self, name, t0, **info):
        d = {"stage": name, "wall_s": round(time.time() - t0, 2)}
        d.update(info)
        self.stages.append(d)
        log("[%s] %s %s" % (self.prop, name, json.dumps({k: v for k, v in d.items() if k != "stage"})))

    def add_tlc(self, r):
        self.states += r.distinct
        self.transitions += r.generated

    def mc(self, module, cfg, **kw):
        t0 = time.time()
        r = tlc_exhaustive(module, cfg, **kw)
        self.add_tlc(r)
        self.stage("tlc:" + cfg, t0, distinct=r.distinct, generated=r.generated, depth=r.depth)
        return r

    def mc_must_fail(self, module, cfg, **kw):
        t0 = time.time()
        r = tlc_must_fail(module, cfg, **kw)
        self.stage("tlc-asfound:" + cfg, t0, violated=r.violated_what() or ("rc=%d" % r.rc))
        self.extra.setdefault("anti_vacuity", []).append({"cfg": cfg, "result": r.violated_what() or ("rc=%d" % r.rc)})
        return r

    def prove(self, module, cinit, init, inv, length, must_fail=False):
        """An Apalache obligation that must hold (or, must_fail, must produce a counterexample: anti-vacuity)."""
        ok, viol, wall, tail = apalache(module, cinit, init, inv, length)
        if must_fail:
            if not viol:
                raise Broken("Apalache obligation %s/%s=>%s was expected to fail but did not:\n%s" % (module, init, inv, tail))
        elif not ok:
            raise Broken("Apalache obligation %s/%s=>%s did not hold:\n%s" % (module, init, inv, tail))
        d = {"stage": "apalache:%s(%s, %s => %s, %d step%s)%s" % (module, cinit, init, inv, length, "" if length == 1 else "s", " must fail" if must_fail else ""),
             "wall_s": round(wall, 2)}
        self.stages.append(d)
        self.extra.setdefault("inductive_invariant", []).append(d["stage"])
        log("[%s] %s %.1fs" % (self.prop, d["stage"], wall))

    def violation(self, diag, replay_src=None, replay_text=None):
        """Classify a mismatch: known finding or violation."""
        k = match_finding(self.findings, diag)
        if k:
            self.known[k[0]] = k[1]
            return False
        n = len(self.violations)
        if n >= 40:
            self.violations.append((diag, self.violations[-1][1]))
            return True
        path = os.path.join(WORK, "replay", "%s-%d-%d.json" % (self.prop, os.getpid(), n))
        with open(path, "w") as f:
            json.dump({"property": self.prop, "diagnosis": diag, "seed": SEED, "tier": self.tier,
                       "trace": replay_text}, f)
            f.write("\n")
        self.violations.append((diag, path))
        return True

    def finish(self, level="model_checking", rule="", exhaustive=False):
        cov = {"states": max(self.states, 0), "transitions": max(self.transitions, 0),
               "traces_validated_against_impl": self.traces, "events_validated": self.events,
               "samples": self.samples[:6] or ["(none)"], "rule": rule, "stages": self.stages,
               "exhaustive": exhaustive, "known_findings_reproduced": sorted(self.known)}
        cov.update(self.extra)
        ev = {"property_id": self.prop, "tier": self.tier, "seed": SEED, "level": level, "coverage": cov,
              "assumptions": self.assumptions, "wall_s": round(time.time() - self.t0, 2),
              "violations": len(self.violations)}
        evdir = os.environ.get("VERIF_EVIDENCE_DIR") or os.path.join(VERIF, "evidence")    # (the self-test writes elsewhere)
        os.makedirs(evdir, exist_ok=True)
        with open(os.path.join(evdir, self.prop + ".json"), "w") as f:
            json.dump(ev, f, indent=1)
            f.write("\n")
        for key in sorted(self.known):
            print("KNOWN-FINDING: property=%s %s" % (self.prop, self.known[key]))
        for diag, path in self.violations[:20]:
            print("VIOLATION property=%s replay=%s" % (self.prop, path))
            log("  diagnosis: " + json.dumps(diag)[:600])
        sys.stdout.flush()
        return 1 if self.violations else 0


def read_lines(path):
    with open(path) as f:
        return f.read().splitlines()


def split_trace(lines, nshards, reset_pred=lambda ln: ln.startswith('{"e":"new"')):
    """Split a concatenated trace (executions separated by reset events) into <= nshards pieces
    at reset boundaries. Returns list of (start_line_index, [lines])."""
    starts = [i for i, ln in enumerate(lines) if reset_pred(ln)]
    if not starts or starts[0] != 0:
        starts = [0] + starts
    per = max(1, (len(lines) + nshards - 1) // nshards)
    shards = []
    cur_start = 0
    for s in starts[1:] + [len(lines)]:
        if s - cur_start >= per or s == len(lines):
            if s > cur_start:
                shards.append((cur_start, lines[cur_start:s]))
            cur_start = s
    return shards


def execution_around(lines, idx, reset_pred=lambda ln: ln.startswith('{"e":"new"')):
    """lines of the execution (from the last reset at or before idx, up to idx inclusive)."""
    s = idx
    while s > 0 and not reset_pred(lines[s]):
        s -= 1
    return lines[s:idx + 1]


# --------------------------------------------------------------------------------------------
# the common conformance pipeline: trace file -> shards -> TLC -> classified rejections

def tlc_export_edges(module, cfg, timeout=900, xmx="4g"):
    """Run the export config (ACTION_CONSTRAINT printing <<"EDGE", ToJson(hist')>>) and return the
    list of histories (lists of call records): one history per transition of the graph (the
    history is a shortest one up to ties between workers); sorted, so the order is stable."""
    # the export is a pure function of the specification files: cache it by their content
    key = sha(module, open(os.path.join(SPEC, "cfg", cfg)).read(),
              *[file_sha(os.path.join(SPEC, f)) for f in sorted(os.listdir(SPEC)) if f.endswith(".tla")])[:20]
    cdir = os.path.join(BUILD, "export-cache")
    os.makedirs(cdir, exist_ok=True)
    cpath = os.path.join(cdir, "%s-%s.json" % (os.path.basename(cfg), key))
    if os.path.exists(cpath):
        try:
            d = json.load(open(cpath))
            r = TlcResult(0, d["tail"], 0.0)
            r.cached = True
            return d["hists"], r
        except (ValueError, KeyError, OSError):
            pass        # an unreadable cache entry (e.g. from an interrupted run) is recomputed
    r = tlc(module, cfg, workers=8, timeout=timeout, xmx=xmx)
    if not r.ok:
        raise Broken("TLC export %s/%s failed rc=%d\n%s" % (module, cfg, r.rc, r.out[-3000:]))
    hists = []
    for m in re.finditer(r'^<<"EDGE", "(.*)">>$', r.out, re.M):
        hists.append(json.loads(m.group(1).replace('\\"', '"').replace("\\\\", "\\")))
    hists.sort(key=lambda x: json.dumps(x, sort_keys=True))   # order independent of worker scheduling
    tail = "\n".join(ln for ln in r.out.splitlines() if "EDGE" not in ln)[-3000:]
    tmpc = "%s.%d.tmp" % (cpath, os.getpid())      # (checks running side by side must not write into one temporary file)
    with open(tmpc, "w") as f:
        json.dump({"hists": hists, "tail": tail}, f)
    os.replace(tmpc, cpath)
    # exports of earlier versions of the specification are of no use any more
    for old in os.listdir(cdir):
        if old.startswith(os.path.basename(cfg) + "-") and old != os.path.basename(cpath) and not old.endswith(".tmp"):
            try:
                os.unlink(os.path.join(cdir, old))
            except OSError:
                pass
    return hists, r


def run_executions(exe, args_of, total, out_path, timeout=900, env=None, max_restarts=12):
    """Run the harness over executions [0,total); args_of(start) gives the argv for starting at
    execution `start`.  If the implementation dies (sanitizer report, crash, timeout) the dying
    execution is recorded and the harness is restarted after it.  Returns list of deaths
    [{rc, err, index, lines}] and writes the concatenated events to out_path."""
    deaths = []
    start = 0
    open(out_path, "w").close()
    tmp = out_path + ".part"
    while start < total:
        rc, err = run_harness(exe, args_of(start), out_path=tmp, timeout=timeout, env=env)
        lines = read_lines(tmp)
        if rc != 0 and lines and not lines[-1].endswith("}"):
            lines = lines[:-1]
        nnew = sum(1 for ln in lines if ln.startswith('{"e":"new"'))
        if rc == 0:
            with open(out_path, "a") as f:
                f.write("".join(x + "\n" for x in lines))
            break
        # drop the dying execution's partial events from the validated trace, keep them for the report
        last_new = max([i for i, ln in enumerate(lines) if ln.startswith('{"e":"new"')] or [0])
        with open(out_path, "a") as f:
            f.write("".join(x + "\n" for x in lines[:last_new]))
        # harnesses that emit several executions per script (fault sweeps) say which script an execution belongs to
        script = None
        if lines and lines[last_new].startswith('{"e":"new"') and '"script":' in lines[last_new]:
            try:
                script = json.loads(lines[last_new]).get("script")
            except ValueError:
                script = None
        if script is not None:
            deaths.append({"rc": rc, "err": err, "index": script, "lines": lines[last_new:]})
            start = script + 1
        else:
            deaths.append({"rc": rc, "err": err, "index": start + max(nnew - 1, 0), "lines": lines[last_new:]})
            start += max(nnew, 1)
        # (a harness that stopped on its watchdog - status 86 - found a call that does not return: one is enough)
        if len(deaths) >= max_restarts or any(x["rc"] == 86 for x in deaths):
            break
    if os.path.exists(tmp):
        os.unlink(tmp)
    return deaths


def death_diag(name, d):
    err = d["err"]
    summ = ""
    for ln in err.splitlines():
        if "ERROR: AddressSanitizer" in ln or "runtime error" in ln or "TIMEOUT" in ln or "VH-WATCHDOG" in ln or "LeakSanitizer" in ln or "ThreadSanitizer" in ln:
            summ = ln.strip()
            break
    if not summ:
        for ln in err.splitlines():
            if "SUMMARY" in ln or "Assertion" in ln or "abort" in ln.lower():
                summ = ln.strip()
                break
    diag = {"stage": name, "died": True, "rc": d["rc"],
            "report": re.sub(r"0x[0-9a-f]+|==\d+==|pc \S+ bp \S+ sp \S+|T\d+\)?", "", summ)[:200].strip()}
    frames = re.findall(r"#\d+ 0x[0-9a-f]+ in (\w+) ", err)
    lib = [f for f in frames if not f.startswith(("__", "vh_", "verif_", "main", "ev_", "do_", "observe")) and "_main" not in f
           and f not in ("malloc", "free", "calloc", "realloc", "memcpy", "memset", "memmove", "strlen", "strdup", "replay", "drive")]
    diag["in"] = lib[0] if lib else (frames[0] if frames else "")
    return diag


def conformance(ck, name, module, cfg, trace_path, deaths, diag_of, nshards=16, min_events=1, timeout=900,
                env=None, xmx="2g", split_every=None):
    """Validate a recorded trace file with TLC. diag_of(record, execution_lines) -> diagnosis dict.
    Adds violations / known findings to ck; returns number of events."""
    t0 = time.time()
    lines = read_lines(trace_path)
    if len(lines) < min_events and not deaths:
        raise Broken("%s: harness produced only %d events" % (name, len(lines)))
    rejected = 0
    if lines:
        if split_every:
            # stateless trace specs (every event is checked on its own): cut anywhere
            per = max(split_every, (len(lines) + nshards - 1) // nshards)
            shards = [(i, lines[i:i + per]) for i in range(0, len(lines), per)]
        else:
            shards = split_trace(lines, nshards)
        paths = []
        for k, (start, ls) in enumerate(shards):
            p = "%s.shard%d" % (trace_path, k)
            with open(p, "w") as f:
                f.write("\n".join(ls) + "\n")
            paths.append(p)
        res = validate_traces(module, cfg, paths, timeout=timeout, env=env, xmx=xmx)
        for (start, ls), r in zip(shards, res):
            ck.states += r["states"]
            ck.transitions += r["generated"]
            if r["consumed"] != len(ls):
                raise Broken("%s: TLC consumed %d of %d lines" % (name, r["consumed"], len(ls)))
            for tg, lns in r["tags"].items():
                # informational observations of the trace spec (never a verdict)
                info = ck.extra.setdefault("informational", {}).setdefault(tg, {"count": 0, "of_events": 0, "examples": []})
                info["count"] += len(lns)
                for ln in sorted(lns)[:2]:
                    if len(info["examples"]) < 4:
                        info["examples"].append(ls[ln - 1][:300])
            for ln in r["lines"]:
                rejected += 1
                idx = ln - 1
                ex = [ls[idx]] if split_every else execution_around(ls, idx)
                try:
                    rec = json.loads(ls[idx])
                except Exception:
                    rec = {"raw": ls[idx]}
                diag = diag_of(rec, ex)
                diag["stage"] = name
                tg = sorted(t for t, lns in r["tags"].items() if ln in lns)
                if tg:
                    diag["tags"] = tg
                ck.violation(diag, replay_text=ex)
        for p in paths:
            os.unlink(p)
    for d in deaths:
        diag = death_diag(name, d)
        ck.violation(diag, replay_text=d["lines"] + ["<harness died> " + d["err"][-1500:]])
    nexec = sum(1 for ln in lines if ln.startswith('{"e":"new"'))
    # stateful traces: executions accepted in full; stateless ones: events accepted
    ck.traces += max(0, (len(lines) - nexec - rejected) if split_every else (nexec - rejected))
    ck.events += len(lines)
    if lines and len(ck.samples) < 6:
        news = [i for i, ln in enumerate(lines) if ln.startswith('{"e":"new"')]
        pick = next((i for i, j in zip(news, news[1:] + [len(lines)]) if j - i >= 4), news[0] if news else 0)
        ck.samples.append({"stage": name, "execution": [json.loads(x) for x in lines[pick:pick + 5]]})
    ck.stage(name, t0, events=len(lines), executions=nexec, rejected=rejected, deaths=len(deaths))
    return len(lines)
