"""C13 - JSON Patch application follows RFC 6902 and is safe on arbitrary patch documents."""
import os
import vlib
from checks import world

FINISH = dict(level="model_checking",
              rule="TLC: (value level) RFC 6902 step over 5 documents x 1100 operations with laws (add-then-test, "
                   "move = remove+add, copy keeps the source) and 4 as-found switches that must differ; (identity level) "
                   "every sequence of <= 3 operations on a heap holding document and patch values: patch unchanged, "
                   "nothing shared with the patch, nothing reachable twice; V: generated operation sequences tracking "
                   "the evolving document (escaped names, array ends, '-', overlapping from/path) and malformed / "
                   "arbitrary patch values, copy and in-place mode; each application validated by TLC with Patch!Apply")
ASF = ["string_prefix", "self_move_noop", "move_len_plus_one", "remove_escaped_key", "test_kind_strict"]


def diag_of(rec, ex):
    return {"op": rec.get("e", "patch"), "k": rec.get("k"), "site": rec.get("site"), "leak": rec.get("leak"), "mode": rec.get("mode"), "ret": rec.get("ret"), "idx": rec.get("idx"),
            "shared": [k for k in ("shared_self", "shared_patch", "shared_src") if rec.get(k)],
            "patch_changed": rec.get("patch") != rec.get("patch_after"),
            "nops": len(rec.get("patch", {}).get("e", [])) if rec.get("patch", {}).get("t") == "array" else -1}


def run(ck):
    thorough = ck.tier == "thorough"
    ck.assumptions += ["operations on the whole document (path or from \"\") are run for safety but their outcome is not judged",
                       "test compares numbers by numeric value (RFC 6902 4.6); documents hold integers and the doubles k.0 / k.5 for small k",
                       "the contents of *base after a failed in-place application are not judged",
                       "crashes / leaks / invalid accesses on malformed patches are observed by ASan/UBSan/LSan"]
    ck.mc("MCPatch", "C13_mc.cfg", workers=8, timeout=1200)
    ck.mc("MCPatchAlias", "C13_alias.cfg", workers=8, timeout=1200)
    for m in ASF:
        ck.mc_must_fail("MCPatch", "C13_asfound_%s.cfg" % m, workers=4, timeout=600)
    ck.mc_must_fail("MCPatchAlias", "C13_asfound_share_value.cfg", workers=4, timeout=600)
    # identity level, in the composed object model: what a patch adds / replaces / copies consists of fresh nodes, a replaced value
    # is released, and from every such state leaf sets and releases stay local (values are independent of their source)
    if thorough:
        ck.mc("MCWorld", "W_mc_patch.cfg", workers=12, xmx="8g", timeout=1800)
    ck.mc_must_fail("MCWorld", "W_asfound_patch_keeps_replaced.cfg", workers=4, timeout=600)
    exe = vlib.build("san", vlib.harness_sources(), "vh")
    # (W_g_patch.cfg checks the same invariants and properties as W_mc_patch.cfg while it exports one history per sampled patch
    # transition; the histories are replayed on the real library with every held node dumped after every call)
    world.run_world_g(ck, exe, "W_g_patch.cfg", "patch", 1 if thorough else 3)
    n = 30000 if thorough else 1500
    tp = os.path.join(ck.dir, "v.ndjson")
    deaths = vlib.run_executions(exe, lambda st: ["c13", "drive", st, n], n, tp, timeout=1200)
    vlib.conformance(ck, "V:generated-and-malformed-patches", "TracePatch", "trace.cfg", tp, deaths, diag_of, min_events=n, timeout=1800,
                     split_every=200)
    # world clients patch in place (add / replace / copy) trees they go on using: dumps with node identities after the calls
    world.run_world(ck, exe, 2000 if thorough else 150, first_exec=300000, mc=False)


def replay(path):
    import json
    d = json.load(open(path))
    print(json.dumps(d["diagnosis"]))
    tp = path + ".ndjson"
    with open(tp, "w") as f:
        f.write("\n".join(x for x in d["trace"] if x.startswith("{")) + "\n")
    r = vlib.validate_traces("TraceWorld" if d["diagnosis"].get("world") else "TracePatch", "trace.cfg", [tp])[0]
    os.unlink(tp)
    print("trace %s" % ("accepted" if r["accepted"] else "rejected at line(s) %s" % r["lines"]))
    return 0 if r["accepted"] else 1
