"""C15 - the nesting limit is exact and enforced for every configured depth."""
import os
import vlib

FINISH = dict(level="model_checking",
              rule="TLC: tokener transcription with limit D in 1..4 against the grammar fold's nesting profile for every "
                   "structure text up to 7 bytes (accepted iff no value is enclosed by more than D-1 containers, else "
                   "'depth' at the first such value), level stack bounded by D also under chunking (C03 product); "
                   "V: documents nested D-2..D+3 for D in 1..40, mixed arrays/objects, empty containers at the boundary, "
                   "one-shot and chunked, 10^5 unclosed openers with allocation peaks, D<1 refused; judged by TLC")
MC = ["C15_depth.cfg"]
MUTS = ["depth_off_array", "depth_off_object"]


def diag_of(rec, ex):
    txt = rec.get("text", [])
    return {"op": rec.get("e"), "D": rec.get("depth", rec.get("D")), "text": txt[:48], "len": len(txt),
            "got": rec.get("got", {}).get("st"), "end": rec.get("got", {}).get("end"), "cuts": rec.get("cuts")}


def run(ck):
    thorough = ck.tier == "thorough"
    ck.assumptions += ["'no more memory than the limit implies' is observed as: the peak number of live allocations made by json-c while parsing K unclosed openers is the same for every K beyond the limit (K up to 10^5)",
                       "the call stack cannot overflow because the parser is iterative: argued by the transcription (explicit level stack), observed by ASan on 10^5 openers"]
    for cfg in MC:
        ck.mc("MCTokGrammar", cfg, workers=8, xmx="12g", timeout=1800)
    ck.mc("MCTokSplit", "C03_struct.cfg", workers=8, xmx="12g", timeout=1800)
    for m in MUTS:
        ck.mc_must_fail("MCTokGrammar", "C15_asfound_%s.cfg" % m, workers=8, timeout=900)
    # every configured depth D >= 1 (a symbolic integer), any sequence of opens and closes: the level index stays inside the D
    # allocated levels and nothing deeper than D - 1 is ever entered (inductive invariant, Apalache); the off-by-one test must fail
    ck.prove("DepthInd", "CInit", "Init", "IndInv", 0)
    ck.prove("DepthInd", "CInit", "IndInv", "IndInv", 1)
    ck.prove("DepthInd", "CInit", "IndInv", "Safety", 0)
    ck.prove("DepthInd", "CInitBad", "IndInv", "IndInv", 1, must_fail=True)
    exe = vlib.build("san", vlib.harness_sources(), "vh")
    n = 8000 if thorough else 410
    tp = os.path.join(ck.dir, "v.ndjson")
    deaths = vlib.run_executions(exe, lambda st: ["tok", "depth-drive", st, n], n, tp, timeout=1200)
    vlib.conformance(ck, "V:documents-around-the-limit", "TraceTokGrammar", "trace.cfg", tp, deaths, diag_of, min_events=n, timeout=1800,
                     split_every=200)
    tp = os.path.join(ck.dir, "h.ndjson")
    deaths = vlib.run_executions(exe, lambda st: ["tok", "depth-hostile"], 1, tp, timeout=1200)
    vlib.conformance(ck, "V:hostile-unclosed-openers", "TraceTokGrammar", "trace.cfg", tp, deaths, diag_of, min_events=10, timeout=600,
                     split_every=100)

def replay(path):
    import json
    d = json.load(open(path))
    print(json.dumps(d["diagnosis"]))
    tp = path + ".ndjson"
    with open(tp, "w") as f:
        f.write("\n".join(x for x in d["trace"] if x.startswith("{")) + "\n")
    r = vlib.validate_traces("TraceTokGrammar", "trace.cfg", [tp])[0]
    os.unlink(tp)
    print("trace %s" % ("accepted" if r["accepted"] else "rejected at line(s) %s" % r["lines"]))
    return 0 if r["accepted"] else 1
