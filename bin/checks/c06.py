"""C06 - a JSON object behaves as an insertion-ordered map under any operation history."""
import os
import vlib
from checks import world

FINISH = dict(level="model_checking",
              rule="TLC: LinkHash (Mech: slots, tombstones, order list, resize; prescribed colliding hash) refines "
                   "OrderedMap (Abs) over every history of 5 keys from table size 3 up to 12; G: one script per "
                   "transition of that graph replayed on a real lh_table with the same hash and on a json_object; "
                   "V: seeded churn on json_objects (24 keys incl. empty/long/colliding, both string hashes, "
                   "add_ex flags, delete-while-iterating); every recorded call + all iteration forms + all "
                   "lookups validated by TLC against OrderedMap")
MUTS = ["stop_at_tomb", "no_wrap", "resize_slot_order", "delete_keeps_links", "iter_next_after_body", "resize_keeps_request"]
KID = {"a": 1, "b": 2, "c": 3, "d": 4, "e": 5}


def diag_of(rec, ex):
    return {"op": rec.get("op", rec.get("e")), "k": rec.get("k"), "ret": rec.get("ret"), "len": rec.get("len"),
            "history_len": len(ex)}


def script_of(hist):
    out = []
    for c in hist:
        op = c["op"]
        if op == "add":
            out.append("a %d %d" % (KID[c["k"]], c["v"]))
        elif op == "addnew":
            out.append("n %d %d" % (KID[c["k"]], c["v"]))
        elif op == "del":
            out.append("d %d" % KID[c["k"]])
        elif op == "resize":
            out.append("r %d" % c["v"])
        elif op == "fdel":
            out.append("f " + " ".join(str(KID[k]) for k in c["ks"]))
    return ";".join(out)


def run(ck):
    thorough = ck.tier == "thorough"
    os.environ["VH_WATCHDOG"] = "30"   # no call on these small tables takes a second; a probe loop without exit must not stall the check
    ck.assumptions += ["ASan/UBSan observe the real code during every replayed/recorded history",
                       "hash seeds: the seeded default hash is exercised with the seed of each harness process (several per run)",
                       "F stage: every allocation request of the last call of a history is failed in turn (interposed allocator); the call must then report failure with the map as it was, or succeed as usual"]
    ck.mc("MCLinkHash", "C06_mc.cfg", workers=8, xmx="8g", timeout=1800)
    for m in MUTS:
        ck.mc_must_fail("MCLinkHash", "C06_asfound_%s.cfg" % m, workers=4, timeout=600)
    # every table size in 1..INT_MAX and every resize request: an inductive invariant of the size / count arithmetic (Apalache) - the
    # unbounded insertion probe always finds a free slot (count < size whenever a table is probed), also while a user resize fills
    # its new table step by step; the resize that adopts the requested size (json-c as found, D06a) must break it
    ck.prove("LinkHashInd", "CInit", "Init", "IndInv", 0)
    ck.prove("LinkHashInd", "CInit", "IndInv", "IndInv", 1)
    ck.prove("LinkHashInd", "CInit", "IndInv", "Safety", 0)
    ck.prove("LinkHashInd", "CInitBad", "IndInv", "IndInv", 1, must_fail=True)
    exe = vlib.build("san", vlib.harness_sources(), "vh")
    # ---- G: edge cover of the LinkHash graph
    hists, r = vlib.tlc_export_edges("GLinkHash", "C06_g.cfg", timeout=1800, xmx="8g")
    ck.add_tlc(r)
    # ... and of the graph with lh_table_resize called by the user (sizes 1, 2, 5 on 4 keys)
    ck.mc("MCLinkHash", "C06_mc_rz.cfg", workers=8, xmx="8g", timeout=1800)
    hists2, r = vlib.tlc_export_edges("GLinkHash", "C06_g_rz.cfg", timeout=1800, xmx="8g")
    ck.add_tlc(r)
    hists2 = [h for h in hists2 if any(c["op"] == "resize" for c in h)]
    ck.extra["g_edges_resize"] = len(hists2)
    hists = hists + hists2
    stride = 1 if thorough else 16
    pick = [h for i, h in enumerate(hists) if i % stride == vlib.SEED % stride]
    scripts = [script_of(h) for h in pick]
    ck.extra["g_edges_total"] = len(hists)
    ck.extra["g_scripts"] = len(scripts)
    sp = os.path.join(ck.dir, "g.scripts")
    with open(sp, "w") as f:
        f.write("\n".join(scripts) + "\n")
    for lvl, name in ((0, "G:edge-cover-replay(lh_table,model hash)"), (1, "G:edge-cover-replay(json_object)")):
        tp = os.path.join(ck.dir, "g%d.ndjson" % lvl)
        deaths = vlib.run_executions(exe, lambda st: ["c06", "replay", sp, st, lvl], len(scripts), tp)
        vlib.conformance(ck, name, "TraceOrderedMap", "trace.cfg", tp, deaths, diag_of, min_events=len(scripts))
    # ---- F: the histories that end in an insertion, with every allocation request of that call failed in turn
    fscripts = [script_of(h) for i, h in enumerate(hists) if h[-1]["op"] in ("add", "addnew", "resize") and (thorough or i % 4 == vlib.SEED % 4)]
    ck.extra["f_scripts"] = len(fscripts)
    fp = os.path.join(ck.dir, "f.scripts")
    with open(fp, "w") as f:
        f.write("\n".join(fscripts) + "\n")
    for lvl, name in ((0, "F:histories-with-failing-allocations(lh_table)"), (1, "F:histories-with-failing-allocations(json_object)")):
        tp = os.path.join(ck.dir, "f%d.ndjson" % lvl)
        deaths = vlib.run_executions(exe, lambda st: ["c06", "replay", fp, st, lvl, 1], len(fscripts), tp)
        vlib.conformance(ck, name, "TraceOrderedMap", "trace.cfg", tp, deaths, diag_of, min_events=100)
    # ---- V: churn; several processes = several hash seeds
    n = 800 if thorough else 48
    nops = 1500 if thorough else 600
    chunks = 6 if thorough else 3
    for c in range(chunks):
        tp = os.path.join(ck.dir, "v%d.ndjson" % c)
        lo, hi = c * n // chunks, (c + 1) * n // chunks
        deaths = vlib.run_executions(exe, lambda st: ["c06", "drive", lo + st, hi, nops], hi - lo, tp)
        vlib.conformance(ck, "V:churn(process %d)" % c, "TraceOrderedMap", "trace.cfg", tp, deaths, diag_of,
                         min_events=hi - lo)
    # objects that were not built member by member: parsed (repeated names included), copied, patched, reached through pointers -
    # the world client's dumps walk them with all four iteration forms (composed model World.tla, model-checked under C05)
    world.run_world(ck, exe, 2000 if thorough else 150, first_exec=400000, mc=False)


def replay(path):
    import json
    d = json.load(open(path))
    print(json.dumps(d["diagnosis"]))
    tp = path + ".ndjson"
    with open(tp, "w") as f:
        f.write("\n".join(x for x in d["trace"] if x.startswith("{")) + "\n")
    r = vlib.validate_traces("TraceWorld" if d["diagnosis"].get("world") else "TraceOrderedMap", "trace.cfg", [tp])[0]
    os.unlink(tp)
    print("trace %s" % ("accepted" if r["accepted"] else "rejected at line(s) %s" % r["lines"]))
    return 0 if r["accepted"] else 1
