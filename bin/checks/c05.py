"""C05 - every node is destroyed exactly once, exactly when its last owner releases it."""
import os
import vlib
from checks import world

FINISH = dict(level="model_checking",
              rule="TLC: RefHeap (reference counts, client handles, container slots, user-data destructors) keeps "
                   "'alive iff reachable from a reference the client holds', count consistency and no dangling slot "
                   "for every history of ownership-respecting calls over <= 3 nodes (three op-set configs); G: one "
                   "history per transition replayed on the real library; V: random clients over a pool of handles "
                   "incl. deep copy and pointer set; every call validated by TLC (return value, exact destroyed "
                   "set, fired destructors, probe of a still-held node, allocation balance at the end); W: the composed "
                   "object model World.tla (RefHeap + typed leaf values + JsonValue + Serializer + Grammar): TLC proves for "
                   "every history over <= 3 nodes that releasing a reference never changes the value of a node still held, "
                   "copies are equal / fresh / independent, leaf sets are local, every serialization re-parses to the same "
                   "value; its histories are replayed and random world clients (parse, build, mutate, copy, patch, sort, "
                   "release) are validated with typed dumps incl. node identities, serializations, equality, pointer walks "
                   "and visitor order observed after the calls")
MUTS = ["replace_no_put", "del_no_put", "patch_remove_no_put"]
OPC = {"get": "G", "put": "P", "oadd": "O", "oaddnew": "Q", "odel": "D", "aadd": "A", "aput": "U", "ains": "I",
       "adel": "X", "borrow": "B", "setud": "S", "copy": "C"}


def diag_of(rec, ex):
    return {"op": rec.get("op", rec.get("e")), "ret": rec.get("ret"), "dead": len(rec.get("dead", [])),
            "fired": len(rec.get("fired", [])), "leak": rec.get("leak"), "history_len": len(ex)}


TM = {"k": 0, "i": 1, "-": 2}


def script_of(hist):
    out = []
    for c in hist:
        op = c["op"]
        if op == "new":
            out.append("N " + c["kind"])
        elif op in ("get", "put"):
            out.append("%s %d" % (OPC[op], c["a"]))
        elif op in ("oadd", "oaddnew"):
            out.append("%s %d %d %d" % (OPC[op], c["a"], c["b"], c["k"]))
        elif op == "odel":
            out.append("D %d %d" % (c["a"], c["k"]))
        elif op == "aadd":
            out.append("A %d %d" % (c["a"], c["b"]))
        elif op in ("aput", "ains"):
            out.append("%s %d %d %d" % (OPC[op], c["a"], c["b"], c["i"]))
        elif op == "adel":
            out.append("X %d %d %d" % (c["a"], c["i"], c["cnt"]))
        elif op == "borrow":
            out.append("B %d %d %d" % (c["a"], c["k"], c["i"]))
        elif op == "setud":
            out.append("S %d %d" % (c["a"], c["tok"]))
        elif op == "copy":
            out.append("C %d %d" % (c["a"], c["deflt"]))
        elif op == "ptrset":
            tm = {"k": 0, "i": 1, "-": 2}
            out.append("T %d %d %d" % (c["a"], c["b"], len(c["path"])) +
                       "".join(" %d %d" % (tm[t["t"]], t["v"]) for t in c["path"]))
        elif op == "premove":
            out.append("R %d %d" % (c["a"], len(c["path"])) + "".join(" %d %d" % (TM[t["t"]], t["v"]) for t in c["path"]))
        elif op == "pmove":
            out.append("M %d %d" % (c["a"], len(c["from"])) + "".join(" %d %d" % (TM[t["t"]], t["v"]) for t in c["from"]) +
                       " %d" % len(c["path"]) + "".join(" %d %d" % (TM[t["t"]], t["v"]) for t in c["path"]))
    return ";".join(out)


def run(ck):
    thorough = ck.tier == "thorough"
    ck.assumptions += ["destruction is observed twice: the allocator wrapper sees free() of every registered node, and a user-data destructor is installed on every constructor-made node",
                       "ASan/UBSan/LSan observe the real code; the client never creates cycles (documented rule)",
                       "json_patch remove / move applied in place are part of the client's repertoire (the copying operations add / replace / copy / test create no ownership transfer of tracked nodes and are exercised under C13)"]
    ck.mc("MCRefHeap", "C05_mc.cfg", workers=8, xmx="8g", timeout=1800)
    ck.mc("MCRefHeap", "C05_mc_b.cfg", workers=8, xmx="8g", timeout=1800)
    ck.mc("MCRefHeap", "C05_mc_c.cfg", workers=8, xmx="8g", timeout=1800)
    ck.mc("MCRefHeap", "C05_mc_d_t.cfg" if thorough else "C05_mc_d.cfg", workers=8, xmx="8g", timeout=1800)      # patch remove / move in place
    for m in MUTS:
        ck.mc_must_fail("MCRefHeap", "C05_asfound_%s.cfg" % m, workers=4, timeout=600)
    exe = vlib.build("san", vlib.harness_sources(), "vh")
    scripts = []
    total = 0
    for cfg in ("C05_g.cfg", "C05_g_b.cfg", "C05_g_c.cfg", "C05_g_d_t.cfg" if thorough else "C05_g_d.cfg"):
        hists, r = vlib.tlc_export_edges("GRefHeap", cfg, timeout=2400, xmx="8g")
        ck.add_tlc(r)
        total += len(hists)
        stride = 1 if thorough else 2
        scripts += [script_of(h) for i, h in enumerate(hists) if i % stride == vlib.SEED % stride]
    ck.extra["g_edges_total"] = total
    ck.extra["g_scripts"] = len(scripts)
    sp = os.path.join(ck.dir, "g.scripts")
    with open(sp, "w") as f:
        f.write("\n".join(scripts) + "\n")
    tp = os.path.join(ck.dir, "g.ndjson")
    deaths = vlib.run_executions(exe, lambda st: ["c05", "replay", sp, st], len(scripts), tp)
    vlib.conformance(ck, "G:edge-cover-replay", "TraceRefHeap", "trace.cfg", tp, deaths, diag_of, min_events=len(scripts))
    n = 4000 if thorough else 200
    tp = os.path.join(ck.dir, "v.ndjson")
    deaths = vlib.run_executions(exe, lambda st: ["c05", "drive", st, n, 200], n, tp)
    vlib.conformance(ck, "V:random-clients", "TraceRefHeap", "trace.cfg", tp, deaths, diag_of, min_events=n)
    # the composed object model: the same client with typed leaves, observing values / text / equality / walks at every step
    world.run_world(ck, exe, 3000 if thorough else 150, stride=1 if thorough else 4, mc=True)


def replay(path):
    import json
    d = json.load(open(path))
    print(json.dumps(d["diagnosis"]))
    tp = path + ".ndjson"
    with open(tp, "w") as f:
        f.write("\n".join(x for x in d["trace"] if x.startswith("{")) + "\n")
    r = vlib.validate_traces("TraceWorld" if d["diagnosis"].get("world") else "TraceRefHeap", "trace.cfg", [tp])[0]
    os.unlink(tp)
    print("trace %s" % ("accepted" if r["accepted"] else "rejected at line(s) %s" % r["lines"]))
    return 0 if r["accepted"] else 1
