"""The composed object model (spec/World.tla): bounded exhaustive check, TLC-generated histories replayed on the real
library, random world clients - all judged by TraceWorld.  Shared by the checks of C05 (ownership + usability of nodes
that outlive their parents) and C09 (copies and equality of trees with a history); it exercises C01/C02/C06/C07/C11/C12/
C17 behaviour on the way (parse, serialize, member order, array slots, string bytes, pointer walks, visitor order)."""
import os
import vlib

MUTS = ["replace_no_put", "copy_loses_leaf", "set_by_value", "text_unescaped"]
TM = {"k": 0, "i": 1, "-": 2}
OPC = {"get": "G", "put": "P", "odel": "D", "aadd": "A", "aput": "U", "adel": "X"}


def diag_of(rec, ex):
    return {"op": rec.get("op", rec.get("e")), "ret": rec.get("ret"), "dead": len(rec.get("dead", [])),
            "fired": len(rec.get("fired", [])), "leak": rec.get("leak"), "history_len": len(ex), "world": True}


def script_of(hist):
    out = []
    for c in hist:
        op = c["op"]
        if op == "new":
            out.append("L %d" % c["vi"] if c["kind"] == "l" else "N " + c["kind"])
        elif op in ("get", "put"):
            out.append("%s %d" % (OPC[op], c["a"]))
        elif op == "oadd":
            out.append("O %d %d %d" % (c["a"], c["b"], c["k"]))
        elif op == "odel":
            out.append("D %d %d" % (c["a"], c["k"]))
        elif op == "aadd":
            out.append("A %d %d" % (c["a"], c["b"]))
        elif op == "aput":
            out.append("U %d %d %d" % (c["a"], c["b"], c["i"]))
        elif op == "adel":
            out.append("X %d %d %d" % (c["a"], c["i"], c["cnt"]))
        elif op == "copy":
            out.append("C %d 0" % c["a"])     # (every node carries a destructor token: the copy callback that drops user data)
        elif op == "ptrset":
            out.append("T %d %d %d" % (c["a"], c["b"], len(c["path"])) + "".join(" %d %d" % (TM[t["t"]], t["v"]) for t in c["path"]))
        elif op == "wset":
            out.append("W %d %d" % (c["a"], c["vi"]))
        elif op == "asort":
            out.append("Y %d" % c["a"])
        elif op == "parse":
            out.append("Z %d %d" % (c["a"], c["f"]))
        elif op == "wpatch":
            out.append("H %d %d %d %d" % (c["a"], {"add": 0, "replace": 1, "copy": 2}[c["pop"]], c["vi"], len(c["path"])) +
                       "".join(" %d %d" % (TM[t["t"]], t["v"]) for t in c["path"]) + " %d" % len(c["from"]) +
                       "".join(" %d %d" % (TM[t["t"]], t["v"]) for t in c["from"]))
        else:
            raise vlib.Broken("world history has an operation the replayer does not know: %s" % op)
    return ";".join(out)


def run_world_g(ck, exe, gcfg, name, stride):
    """export the histories of a world model configuration and replay them on the real library (every held node observed after
    every call)"""
    hists, r = vlib.tlc_export_edges("GWorld", gcfg, timeout=2400, xmx="8g")
    ck.add_tlc(r)
    ck.stage("tlc:%s(invariants+properties+export)" % gcfg, __import__("time").time(), distinct=r.distinct, generated=r.generated, cached=bool(getattr(r, "cached", False)))
    scripts = [script_of(h) for i, h in enumerate(hists) if i % stride == vlib.SEED % stride]
    ck.extra["%s_edges" % name] = len(hists)
    ck.extra["%s_scripts" % name] = len(scripts)
    sp = os.path.join(ck.dir, name + ".scripts")
    with open(sp, "w") as f:
        f.write("\n".join(scripts) + "\n")
    tp = os.path.join(ck.dir, name + ".ndjson")
    deaths = vlib.run_executions(exe, lambda st: ["c05", "wreplay", sp, st], len(scripts), tp)
    vlib.conformance(ck, "WG:%s-model-histories-replayed" % name, "TraceWorld", "trace.cfg", tp, deaths, diag_of, min_events=len(scripts))


def run_world(ck, exe, n_random, first_exec=0, stride=4, mc=True):
    """mc: run the bounded model + anti-vacuity configs + replay of exported histories; always: n_random random world clients."""
    if mc:
        # (the export configuration W_g.cfg checks the same invariants and action properties over the same graph as W_mc.cfg
        # while it prints the histories: one exploration serves both in the quick tier)
        if ck.tier == "thorough":
            ck.mc("MCWorld", "W_mc.cfg", workers=8, xmx="8g", timeout=1800)
        for m in MUTS:
            ck.mc_must_fail("MCWorld", "W_asfound_%s.cfg" % m, workers=4, timeout=600)
        hists, r = vlib.tlc_export_edges("GWorld", "W_g.cfg", timeout=2400, xmx="8g")
        ck.add_tlc(r)
        ck.stage("tlc:W_g.cfg(invariants+properties+export)", __import__("time").time(), distinct=r.distinct, generated=r.generated, cached=bool(getattr(r, "cached", False)))
        scripts = [script_of(h) for i, h in enumerate(hists) if i % stride == vlib.SEED % stride]
        ck.extra["world_g_edges"] = len(hists)
        ck.extra["world_g_scripts"] = len(scripts)
        sp = os.path.join(ck.dir, "wg.scripts")
        with open(sp, "w") as f:
            f.write("\n".join(scripts) + "\n")
        tp = os.path.join(ck.dir, "wg.ndjson")
        deaths = vlib.run_executions(exe, lambda st: ["c05", "wreplay", sp, st], len(scripts), tp)
        vlib.conformance(ck, "WG:world-model-histories-replayed", "TraceWorld", "trace.cfg", tp, deaths, diag_of, min_events=len(scripts))
    tp = os.path.join(ck.dir, "wv.ndjson")
    deaths = vlib.run_executions(exe, lambda st: ["c05", "world", first_exec + st, first_exec + n_random, 150], n_random, tp)
    vlib.conformance(ck, "WV:random-world-clients", "TraceWorld", "trace.cfg", tp, deaths, diag_of, min_events=n_random)
