"""C18 - threaded build: shared reference counts are atomic; the hash seed is set once."""
import os
import subprocess
import vlib

FINISH = dict(level="model_checking",
              rule="TLC: all interleavings of 3 threads running balanced get/put programs on 2 shared nodes with one-step "
                   "(atomic) updates, then racing on the first use of the seeded hash with distinct candidates published "
                   "by compare-and-swap: no lost update, destroyed exactly once and only by the last release, no touch "
                   "after destruction, one seed for every hash evaluation (load/store counter, plain-store seed and "
                   "hashing with the own candidate must fail); V: the ENABLE_THREADING build under 2..16 threads x up to "
                   "10^6 get/put, repeated process starts racing on the first hash, disjoint trees per thread, and a "
                   "ThreadSanitizer twin of the counter run; each run validated by TLC against the atomic outcome")
ASF = ["nonatomic", "plain_store", "hash_own_candidate", "put_check_then_act", "publish_sentinel", "container_put_plain"]
SEEDDEF = "-DOVERRIDE_GET_RANDOM_SEED='return vh_seed_candidate()'"


def diag_of(rec, ex):
    return {"op": rec.get("e"), "threads": rec.get("threads"), "final_put": rec.get("final_put"), "destroyed": rec.get("destroyed"),
            "same": rec.get("all_same_full_width")}


def run(ck):
    thorough = ck.tier == "thorough"
    ck.assumptions += ["absence of a lost update / double seed over the runs is statistical (a single manifestation is definitive); the exhaustive part is the TLC model, which assumes each __sync_* operation is one atomic step",
                       "ThreadSanitizer observes the accesses of json_object_get/put in the production-flag threaded build (-DNDEBUG); the plain read of the published seed in lh_char_hash is not judged (the property claims data-race freedom for the reference counts)",
                       "each thread's seed candidate is made distinct through the upstream OVERRIDE_GET_RANDOM_SEED compile-time hook"]
    ck.mc("MCThreads", "C18_mc.cfg", workers=8, timeout=1200)
    ck.mc("MCThreads", "C18_mc_last.cfg", workers=8, timeout=1200)      # the last references released concurrently
    ck.mc("MCThreads", "C18_mc_via.cfg", workers=8, timeout=1200)       # references released by containers that held them
    for m in ASF:
        ck.mc_must_fail("MCThreads", "C18_asfound_%s.cfg" % m, workers=4, timeout=600)
    # unbounded histories (any number of get / put by 3 threads, counts in the integers): an inductive invariant checked by Apalache -
    # base case, inductive step, invariant => property; with load-and-store puts the invariant is not inductive
    ck.prove("RefCountInd", "CInit", "Init", "IndInv", 0)
    ck.prove("RefCountInd", "CInit", "IndInv", "IndInv", 1)
    ck.prove("RefCountInd", "CInit", "IndInv", "Safety", 0)
    ck.prove("RefCountInd", "CInitBad", "IndInv", "IndInv", 1, must_fail=True)
    exe = vlib.build("thr", ["vhthr.c", "vhrt.c"], "vhthr", repo_cflags=SEEDDEF, objtag="-c18")
    tsan = vlib.build("tsan", ["vhthr.c", "vhrt.c"], "vhthr", repo_cflags=SEEDDEF, objtag="-c18")
    m = 4000000 if thorough else 200000
    jobs = []
    for t in (2, 4, 8, 16):
        for k in (1, 4):
            jobs.append((exe, ["counter", t, m, k], {}))
    for i in range(600 if thorough else 60):
        jobs.append((exe, ["seed", 2 + (i % 4) * 4 if i % 4 else 8], {}))
    # the entropy source answers with json-c's "not chosen yet" value at first: 1 thread (deterministic) and several
    for t, s in ((1, 1), (1, 3), (2, 1), (4, 2), (8, 5), (8, 1)):
        jobs.append((exe, ["seed", t, s], {}))
    for t in (4, 16):
        jobs.append((exe, ["disjoint", t, 40000 if thorough else 10000], {}))
    for t in (2, 2, 3, 4, 8):
        jobs.append((exe, ["lastrefs", t, 400000 if thorough else 40000], {}))
    jobs.append((exe, ["highcount"], {}))
    jobs.append((tsan, ["lastrefs", 2, 3000], {"TSAN_OPTIONS": "exitcode=66 halt_on_error=0"}))
    jobs.append((tsan, ["counter", 4, 50000 if thorough else 20000, 2], {"TSAN_OPTIONS": "exitcode=66 halt_on_error=0"}))
    jobs.append((tsan, ["counter", 8, 5000, 1], {"TSAN_OPTIONS": "exitcode=66 halt_on_error=0"}))
    tp = os.path.join(ck.dir, "v.ndjson")
    deaths = []
    with open(tp, "w") as f:
        f.write('{"e":"new"}\n')
        for x, args, env in jobs:
            e = dict(os.environ)
            e.update(env)
            try:
                p = subprocess.run([x] + [str(a) for a in args], stdout=subprocess.PIPE, stderr=subprocess.PIPE, env=e, timeout=600)
                rc, out, err = p.returncode, p.stdout.decode(), p.stderr.decode("utf-8", "replace")
            except subprocess.TimeoutExpired:
                rc, out, err = 124, "", "TIMEOUT"
            good = [ln for ln in out.splitlines() if ln.startswith("{") and ln.endswith("}")]
            f.write("".join(ln + "\n" for ln in good))
            if rc != 0:
                deaths.append({"rc": rc, "err": err or ("signal %d" % -rc), "index": 0, "lines": good + ["args: %s" % args]})
    ck.extra["processes"] = len(jobs)
    vlib.conformance(ck, "V:threaded-build-runs", "TraceThreads", "trace.cfg", tp, deaths[:12], diag_of, min_events=len(jobs) // 2, timeout=900, split_every=1000)


def replay(path):
    import json
    d = json.load(open(path))
    print(json.dumps(d["diagnosis"]))
    tp = path + ".ndjson"
    with open(tp, "w") as f:
        f.write("\n".join(x for x in d["trace"] if x.startswith("{")) + "\n")
    r = vlib.validate_traces("TraceThreads", "trace.cfg", [tp])[0]
    os.unlink(tp)
    print("trace %s" % ("accepted" if r["accepted"] else "rejected at line(s) %s" % r["lines"]))
    return 0 if r["accepted"] else 1
