"""C03 - incremental parsing is independent of how the input is split into calls."""
import os
import vlib

FINISH = dict(level="model_checking",
              rule="TLC: product of two copies of the Tokener transcription (one-shot vs may-end-the-call-before-any-"
                   "character-while-it-would-report-continue) over six sub-alphabets x flag sets, invariant "
                   "SplitInvisible; G: every text of the number/structure spaces with every single split on the real "
                   "parser; V: generated, mutated and hand-picked texts x all 1-splits + k-splits x 5 flag sets; "
                   "TLC validates chunked outcome = outcome of one call on the same bytes; streams: TLC checks on the "
                   "transcription that every 1-/2-cut of every text over a 9-byte alphabet (len<=5 quick, 6 thorough) leaves the "
                   "sequence of documents of a clean stream unchanged (Tokener!Stream), V: generated streams of 2-5 documents "
                   "resumed at the reported end position on the real parser, chunked vs unchunked vs each document alone")
MC = ["C03_num.cfg", "C03_struct.cfg", "C03_esc.cfg", "C03_lit.cfg", "C03_cmt.cfg", "C03_utf8.cfg"]
NUM = [91, 93, 44, 49, 45, 43, 46, 101, 0, 32, 73]
STRUCT = [91, 93, 123, 125, 44, 58, 34, 97, 49, 32, 0]
ESC = [34, 92, 117, 100, 56, 99, 110]


def diag_of(rec, ex):
    txt = rec.get("text", [])
    return {"op": "split", "fl": rec.get("fl"), "cuts": rec.get("cuts"), "text": txt[:40], "len": len(txt),
            "ref": rec.get("ref", {}).get("st"), "got": rec.get("got", {}).get("st"),
            "ref_end": rec.get("ref", {}).get("end"), "got_end": rec.get("got", {}).get("end")}


def run(ck):
    thorough = ck.tier == "thorough"
    ck.assumptions += ["every parse call is given an exact-size heap copy of its bytes (ASan sees reads past the length)",
                       "the relation is checked between two runs of the real parser; the Tokener module's own prediction of "
                       "each chunked run is reported as informational agreement (coverage.informational.MECH = disagreements)"]
    for cfg in MC:
        ck.mc("MCTokSplit", cfg, workers=8, xmx="12g", timeout=1800)
    ck.mc_must_fail("MCTokSplit", "C03_asfound_numresume.cfg", workers=4, timeout=600)
    # streams: one tokener resumed at the reported end position, every 1- and 2-cut of every text
    ck.mc("MCTokStream", "C03_stream_t.cfg" if thorough else "C03_stream_q.cfg", workers=8, xmx="12g", timeout=1800)
    ck.mc_must_fail("MCTokStream", "C03_stream_nonvacuous.cfg", workers=4, timeout=600)      # the space does contain streams of 3+ documents
    ck.mc_must_fail("MCTokStream", "C03_asfound_stream_numresume.cfg", workers=4, timeout=600)
    exe = vlib.build("san", vlib.harness_sources(), "vh")
    # ---- G: the TLC spaces enumerated on the real parser, every single split
    jobs = [("num", 0, 3, 6 if not thorough else 7, NUM), ("num", 1, 3, 6 if not thorough else 7, NUM),
            ("struct", 0, 3, 5 if not thorough else 6, STRUCT), ("struct", 1, 3, 5, STRUCT), ("esc", 0, 2, 7, ESC)]
    for name, fl, depth, n, alpha in jobs:
        tp = os.path.join(ck.dir, "g-%s-%d.ndjson" % (name, fl))
        deaths = vlib.run_executions(exe, lambda st: ["tok", "split-enum", fl, depth, n] + alpha, 1, tp, timeout=1200)
        vlib.conformance(ck, "G:all-texts-all-splits(%s,flags %d,len<=%d)" % (name, fl, n), "TraceTokSplit", "trace.cfg", tp,
                         deaths, diag_of, min_events=100, nshards=16, timeout=1800, split_every=4000)
    # ---- V
    n = 8000 if thorough else 1000
    tp = os.path.join(ck.dir, "v.ndjson")
    deaths = vlib.run_executions(exe, lambda st: ["tok", "split-drive", st, n], n, tp, timeout=1200)
    vlib.conformance(ck, "V:corpus-all-1-splits", "TraceTokSplit", "trace.cfg", tp, deaths, diag_of, min_events=n, timeout=1800,
                     split_every=500)


    ns = 10000 if thorough else 400
    tp = os.path.join(ck.dir, "s.ndjson")
    deaths = vlib.run_executions(exe, lambda st: ["tok", "stream-drive", st, ns], ns, tp, timeout=1200)
    vlib.conformance(ck, "V:streams-of-documents-resumed-at-the-reported-end", "TraceTokSplit", "trace.cfg", tp, deaths, diag_of_stream,
                     min_events=ns, timeout=1800, split_every=500)


def diag_of_stream(rec, ex):
    txt = rec.get("text", [])
    return {"op": rec.get("e"), "fl": rec.get("fl"), "cuts": rec.get("cuts"), "text": txt[:60], "len": len(txt), "clean": rec.get("clean"),
            "ref": [(o.get("st"), o.get("end")) for o in rec.get("ref", [])], "got": [(o.get("st"), o.get("end")) for o in rec.get("got", [])]}


def replay(path):
    import json
    d = json.load(open(path))
    print(json.dumps(d["diagnosis"]))
    tp = path + ".ndjson"
    with open(tp, "w") as f:
        f.write("\n".join(x for x in d["trace"] if x.startswith("{")) + "\n")
    r = vlib.validate_traces("TraceTokSplit", "trace.cfg", [tp])[0]
    os.unlink(tp)
    print("trace %s" % ("accepted" if r["accepted"] else "rejected at line(s) %s" % r["lines"]))
    return 0 if r["accepted"] else 1
