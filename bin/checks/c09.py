"""C09 - equality is a structural equivalence and deep copy gives an equal, disjoint tree."""
import os
import vlib
from checks import world

FINISH = dict(level="model_checking",
              rule="TLC: JsonValue!Equal is reflexive (NaN-free), symmetric, transitive over all triples of a 32-value "
                   "universe (all kinds, int boundaries, NaN, +-0, strings with NUL, permuted members) and the two-"
                   "directional mechanism of json_object_equal computes it (2 mutant switches caught); V: generated "
                   "pairs (independent, twins with permuted members and the other integer store, single mutations) and "
                   "copy sources; TLC evaluates Equal on the dumps and checks copy = source, disjointness, identical "
                   "serialization under 64 flag sets, independence under mutation")
MUTS = ["eq_strcmp", "eq_one_direction"]


def diag_of(rec, ex):
    return {"op": rec.get("e"), "ab": rec.get("ab"), "ba": rec.get("ba"), "aa": rec.get("aa"), "rc": rec.get("rc"),
            "eq": rec.get("eq"), "disjoint": rec.get("disjoint"), "ser_same": rec.get("ser_same"),
            "kinds": [rec.get("a", rec.get("src", {})).get("t"), rec.get("b", rec.get("copy", {})).get("t")]}


def run(ck):
    thorough = ck.tier == "thorough"
    ck.assumptions += ["node identity (disjointness) is observed by comparing pointer sets of the two trees",
                       "a JSON null source (NULL pointer) cannot be deep-copied; the call must fail",
                       "ASan/UBSan observe the real code"]
    ck.mc("MCJsonValue", "C09_mc.cfg", workers=8, timeout=1200)
    for m in MUTS:
        ck.mc_must_fail("MCJsonValue", "C09_asfound_%s.cfg" % m, workers=4, timeout=600)
    exe = vlib.build("san", vlib.harness_sources(), "vh")
    n = 40000 if thorough else 1000
    tp = os.path.join(ck.dir, "v.ndjson")
    deaths = vlib.run_executions(exe, lambda st: ["c09", "drive", st, n], n, tp, timeout=1200)
    vlib.conformance(ck, "V:pairs-twins-mutations-copies", "TraceJsonValue", "trace.cfg", tp, deaths, diag_of, min_events=n, timeout=1800,
                     split_every=300)
    # the composed object model (World.tla, model-checked under C05): equality / copies / serialization of trees with a history
    world.run_world(ck, exe, 2000 if thorough else 150, first_exec=100000, mc=False)


def replay(path):
    import json
    d = json.load(open(path))
    print(json.dumps(d["diagnosis"]))
    tp = path + ".ndjson"
    with open(tp, "w") as f:
        f.write("\n".join(x for x in d["trace"] if x.startswith("{")) + "\n")
    r = vlib.validate_traces("TraceWorld" if d["diagnosis"].get("world") else "TraceJsonValue", "trace.cfg", [tp])[0]
    os.unlink(tp)
    print("trace %s" % ("accepted" if r["accepted"] else "rejected at line(s) %s" % r["lines"]))
    return 0 if r["accepted"] else 1
