"""C19 - the print buffer holds exactly what was written, NUL-terminated, in bounds."""
import os
import vlib

FINISH = dict(level="model_checking",
              rule="TLC: PrintBuf (Mech, real constants) refines Bytes (Abs) over all histories of the configured "
                   "size/offset sets; G: one script per transition of the TLC graph replayed on the real printbuf; "
                   "V: seeded random/boundary histories; every recorded call validated by TLC against Bytes")
MUTS = ["append_noguard", "append_no_nul_room", "append_no_nul", "memset_no_gapfill", "memset_bpos_always"]


def diag_of(rec, ex):
    d = {"op": rec.get("op", rec.get("e")), "n": rec.get("n"), "off": rec.get("off"), "ret": rec.get("ret"),
         "bpos": rec.get("bpos")}
    return d


def script_of(hist):
    out = []
    for c in hist:
        if c["ret"] == -2:
            return None   # accepted by the guards but beyond the modelled range: would really allocate
        op = c["op"]
        if op == "append":
            out.append("a %d %d %d 0" % (c["n"], c["b"], c["step"]))
        elif op == "memset":
            out.append("m %d %d %d" % (c["off"], c["ch"], c["n"]))
        elif op.startswith("sprintf"):
            out.append("s %d %d" % (c["n"], c["b"]))
        elif op == "reset":
            out.append("r")
    return ";".join(out)


def run(ck):
    thorough = ck.tier == "thorough"
    ck.assumptions += ["ASan/UBSan observe out-of-allocation accesses of the real code during every replayed/recorded history",
                       "requests the guards accept but that would allocate >= 1 MiB are not issued to the real library",
                       "vsnprintf/vasprintf of libc are trusted to format %s"]
    ck.mc("MCPrintBuf", "C19_mc_t.cfg" if thorough else "C19_mc.cfg", workers=16 if thorough else 8, xmx="16g", timeout=3000)
    for m in MUTS:
        ck.mc_must_fail("MCPrintBuf", "C19_asfound_%s.cfg" % m, workers=4, timeout=600)
    # every capacity, length and argument value (the size arithmetic over the integers with the real constants): an inductive
    # invariant checked by Apalache; the capacity test that forgets the terminator's byte must break it
    ck.prove("PrintBufInd", "CInit", "Init", "IndInv", 0)
    ck.prove("PrintBufInd", "CInit", "IndInv", "IndInv", 1)
    ck.prove("PrintBufInd", "CInit", "IndInv", "Safety", 0)
    ck.prove("PrintBufInd", "CInitBad", "IndInv", "IndInv", 1, must_fail=True)
    exe = vlib.build("san", vlib.harness_sources(), "vh")
    # ---- G
    hists, r = vlib.tlc_export_edges("GPrintBuf", "C19_g_t.cfg" if thorough else "C19_g.cfg", timeout=1800)
    ck.add_tlc(r)
    scripts = [s for s in (script_of(h) for h in hists) if s]
    sp = os.path.join(ck.dir, "g.scripts")
    with open(sp, "w") as f:
        f.write("\n".join(scripts) + "\n")
    tp = os.path.join(ck.dir, "g.ndjson")
    deaths = vlib.run_executions(exe, lambda st: ["c19", "replay", sp, st], len(scripts), tp)
    ck.extra["g_scripts"] = len(scripts)
    vlib.conformance(ck, "G:edge-cover-replay", "TracePrintBuf", "trace.cfg", tp, deaths, diag_of, min_events=len(scripts))
    # ---- V
    tp = os.path.join(ck.dir, "v.ndjson")
    n = 60000 if thorough else 3000
    deaths = vlib.run_executions(exe, lambda st: ["c19", "drive", st, n, 40], n, tp)
    vlib.conformance(ck, "V:random-histories", "TracePrintBuf", "trace.cfg", tp, deaths, diag_of, min_events=n)


def replay(path):
    import json
    d = json.load(open(path))
    print(json.dumps(d["diagnosis"]))
    tp = path + ".ndjson"
    with open(tp, "w") as f:
        f.write("\n".join(x for x in d["trace"] if x.startswith("{")) + "\n")
    r = vlib.validate_traces("TracePrintBuf", "trace.cfg", [tp])[0]
    os.unlink(tp)
    print("trace %s" % ("accepted" if r["accepted"] else "rejected at line(s) %s" % r["lines"]))
    return 0 if r["accepted"] else 1
