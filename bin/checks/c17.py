"""C17 - the tree visitor performs the documented traversal for any tree and callback."""
import os
import vlib

FINISH = dict(level="model_checking",
              rule="TLC: the recursive code shape of _json_c_visit (Mech) in lock step with the explicit-stack "
                   "reference traversal (Abs) for all 3292 labelled trees of <= 5 nodes and every assignment of the "
                   "6 return-code classes to calls; G: one code schedule per transition of that product replayed on "
                   "the real json_c_visit; V: random trees <= 300 nodes with biased random schedules; each run "
                   "validated by TLC by running the reference over the recorded codes")
MUTS = ["second_keeps_pop", "pop_skips_second"]


def diag_of(rec, ex):
    if rec.get("e") == "vdeep":
        return {"op": "vdeep", "n": rec.get("n"), "calls": rec.get("calls"), "ret": rec.get("ret"), "calls_err": rec.get("calls_err"),
                "ret_err": rec.get("ret_err")}
    calls = rec.get("calls", [])
    return {"op": "visit", "nodes": len(rec.get("nodes", [])), "ncalls": rec.get("ncalls"), "ret": rec.get("ret"),
            "codes": sorted(set(c["c"] for c in calls))[:8]}


def script_of(h):
    h = h[0]
    t = h["t"]
    parts = [str(len(t))]
    for nd in t:
        kids = nd["kids"]
        keys = nd["keys"] if nd["kind"] == "o" else [0] * len(kids)
        parts.append(nd["kind"] + " " + str(len(kids)) + "".join(" %d %d" % (a, b) for a, b in zip(kids, keys)))
    parts.append(str(len(h["codes"])) + "".join(" %d" % c for c in h["codes"]))
    return " ".join(parts)


def run(ck):
    thorough = ck.tier == "thorough"
    ck.assumptions += ["ASan/UBSan observe the real code",
                       "whether a container whose first visit returned SKIP still gets its flagged visit is left open (both admitted)"]
    ck.mc("MCVisit", "C17_mc.cfg", workers=8, xmx="8g", timeout=1800)
    for m in MUTS:
        ck.mc_must_fail("MCVisit", "C17_asfound_%s.cfg" % m, workers=4, timeout=600)
    exe = vlib.build("san", vlib.harness_sources(), "vh")
    hists, r = vlib.tlc_export_edges("GVisit", "C17_g.cfg", timeout=1800, xmx="8g")
    ck.add_tlc(r)
    stride = 1 if thorough else 8
    scripts = [script_of(h) for i, h in enumerate(hists) if i % stride == vlib.SEED % stride]
    ck.extra["g_edges_total"] = len(hists)
    ck.extra["g_scripts"] = len(scripts)
    sp = os.path.join(ck.dir, "g.scripts")
    with open(sp, "w") as f:
        f.write("\n".join(scripts) + "\n")
    tp = os.path.join(ck.dir, "g.ndjson")
    deaths = vlib.run_executions(exe, lambda st: ["c17", "replay", sp, st], len(scripts), tp)
    vlib.conformance(ck, "G:edge-cover-replay", "TraceVisit", "trace.cfg", tp, deaths, diag_of, min_events=len(scripts))
    n = 60000 if thorough else 3000
    tp = os.path.join(ck.dir, "v.ndjson")
    tpd = os.path.join(ck.dir, "d.ndjson")
    deaths = vlib.run_executions(exe, lambda st: ["c17", "deep"], 1, tpd, timeout=600)
    vlib.conformance(ck, "V:chains-of-tens-of-thousands-of-levels", "TraceVisit", "trace.cfg", tpd, deaths, diag_of, min_events=8)
    deaths = vlib.run_executions(exe, lambda st: ["c17", "drive", st, n, 300], n, tp)
    vlib.conformance(ck, "V:random-trees-and-schedules", "TraceVisit", "trace.cfg", tp, deaths, diag_of, min_events=n)


def replay(path):
    import json
    d = json.load(open(path))
    print(json.dumps(d["diagnosis"]))
    tp = path + ".ndjson"
    with open(tp, "w") as f:
        f.write("\n".join(x for x in d["trace"] if x.startswith("{")) + "\n")
    r = vlib.validate_traces("TraceVisit", "trace.cfg", [tp])[0]
    os.unlink(tp)
    print("trace %s" % ("accepted" if r["accepted"] else "rejected at line(s) %s" % r["lines"]))
    return 0 if r["accepted"] else 1
