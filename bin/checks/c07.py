"""C07 - a JSON array behaves as a sequence with null gaps under any operation history."""
import os
import vlib

FINISH = dict(level="model_checking",
              rule="TLC: ArrayList (Mech: array/length/size, growth rule, overflow guards over a small wrapping "
                   "size_t) refines SeqGap (Abs) over every history with indices/counts inside, at, beyond the bounds "
                   "and SIZE_MAX-adjacent; G: one script per transition replayed on a raw array_list and on "
                   "json_object arrays; V: seeded boundary-biased histories incl. sort/bsearch; every call validated "
                   "by TLC against SeqGap (return, released elements, length, every element, reads past the end)")
MUTS = ["no_mul_guard", "put_no_max_guard", "put_no_gapfill", "del_no_overflow_guard"]


def diag_of(rec, ex):
    return {"op": rec.get("op", rec.get("e")), "idx": rec.get("idx"), "count": rec.get("count"), "ret": rec.get("ret"),
            "len": rec.get("len")}


def script_of(hist):
    out = []
    for c in hist:
        op = c["op"]
        if op == "new":
            out.append("N %d" % c["in"])
        elif op == "add":
            out.append("a")
        elif op == "put":
            out.append("p %d %d" % (c["ib"], c["in"]))
        elif op == "insert":
            out.append("i %d %d" % (c["ib"], c["in"]))
        elif op == "del":
            out.append("d %d %d %d %d" % (c["ib"], c["in"], c["cb"], c["cn"]))
        elif op == "shrink":
            out.append("s %d" % c["cn"])
        elif op == "get":
            out.append("g %d %d" % (c["ib"], c["in"]))
    return ";".join(out)


def run(ck):
    thorough = ck.tier == "thorough"
    ck.assumptions += ["ASan/UBSan observe the real code during every replayed/recorded history",
                       "indices in (length+40, 2^50) are not issued to the real library (they would allocate for real); "
                       "2^50.. and SIZE_MAX-adjacent ones are",
                       "qsort/bsearch of libc are trusted; the comparator orders by id mod 7 with null first"]
    ck.mc("MCArrayList", "C07_mc_t.cfg" if thorough else "C07_mc.cfg", workers=16 if thorough else 8, xmx="16g", timeout=3000)
    for m in MUTS:
        ck.mc_must_fail("MCArrayList", "C07_asfound_%s.cfg" % m, workers=4, timeout=600)
    # every capacity, length and argument value in 0..SIZE_MAX (exact integers, real constants): an inductive invariant checked by
    # Apalache - no size_t computation wraps, no slot beyond the capacity is touched, length <= size <= SIZE_MAX/8; the shrink
    # with the weakened guard (a seeded change) must break it
    ck.prove("ArrayListInd", "CInit", "Init", "IndInv", 0)
    ck.prove("ArrayListInd", "CInit", "IndInv", "IndInv", 1)
    ck.prove("ArrayListInd", "CInit", "IndInv", "Safety", 0)
    ck.prove("ArrayListInd", "CInitBad", "IndInv", "IndInv", 1, must_fail=True)
    exe = vlib.build("san", vlib.harness_sources(), "vh")
    hists, r = vlib.tlc_export_edges("GArrayList", "C07_g.cfg", timeout=1800, xmx="8g")
    ck.add_tlc(r)
    stride = 1 if thorough else 12
    scripts = [script_of(h) for i, h in enumerate(hists) if i % stride == vlib.SEED % stride]
    ck.extra["g_edges_total"] = len(hists)
    ck.extra["g_scripts"] = len(scripts)
    sp = os.path.join(ck.dir, "g.scripts")
    with open(sp, "w") as f:
        f.write("\n".join(scripts) + "\n")
    for lvl, name in ((0, "G:edge-cover-replay(array_list)"), (1, "G:edge-cover-replay(json_object array)")):
        tp = os.path.join(ck.dir, "g%d.ndjson" % lvl)
        deaths = vlib.run_executions(exe, lambda st: ["c07", "replay", sp, st, lvl], len(scripts), tp)
        vlib.conformance(ck, name, "TraceSeqGap", "trace.cfg", tp, deaths, diag_of, min_events=len(scripts))
    # ---- F: the same histories with every allocation request of the LAST call failed in turn (C08 on C07's histories):
    # the call reports failure and the sequence is as it was, or succeeds as usual
    fscripts = [script_of(h) for h in hists if h[-1]["op"] in ("add", "put", "insert", "shrink")]
    ck.extra["f_scripts"] = len(fscripts)
    fp = os.path.join(ck.dir, "f.scripts")
    with open(fp, "w") as f:
        f.write("\n".join(fscripts) + "\n")
    for lvl, name in ((0, "F:histories-with-failing-allocations(array_list)"), (1, "F:histories-with-failing-allocations(json_object array)")):
        tp = os.path.join(ck.dir, "f%d.ndjson" % lvl)
        deaths = vlib.run_executions(exe, lambda st: ["c07", "replay", fp, st, lvl, 1], len(fscripts), tp)
        vlib.conformance(ck, name, "TraceSeqGap", "trace.cfg", tp, deaths, diag_of, min_events=1000)
    n = 20000 if thorough else 1200
    tp = os.path.join(ck.dir, "v.ndjson")
    deaths = vlib.run_executions(exe, lambda st: ["c07", "drive", st, n, 100], n, tp)
    vlib.conformance(ck, "V:boundary-biased-histories", "TraceSeqGap", "trace.cfg", tp, deaths, diag_of, min_events=n)


def replay(path):
    import json
    d = json.load(open(path))
    print(json.dumps(d["diagnosis"]))
    tp = path + ".ndjson"
    with open(tp, "w") as f:
        f.write("\n".join(x for x in d["trace"] if x.startswith("{")) + "\n")
    r = vlib.validate_traces("TraceSeqGap", "trace.cfg", [tp])[0]
    os.unlink(tp)
    print("trace %s" % ("accepted" if r["accepted"] else "rejected at line(s) %s" % r["lines"]))
    return 0 if r["accepted"] else 1
