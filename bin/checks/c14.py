"""C14 - parse/serialize are locale-independent and leave the caller's locale untouched."""
import os
import vlib

FINISH = dict(level="model_checking",
              rule="TLC: the locale bracket of json_tokener_parse_ex (size guard, duplocale, newlocale, uselocale, body, "
                   "restore, freelocale; each failure exit) for every initial global/thread locale: locale restored, no "
                   "locale object leaked, body under C numeric (3 mutant switches caught); V: a synthesised comma-decimal "
                   "locale installed globally and per thread x (19 parser outcome cases + generated documents whose numbers take "
                   "every printf shape, quick 40 / thorough 2000) x one call and 3 chunkings x injected duplocale/newlocale "
                   "failures + serialization of generated doubles under 5 flag sets and 3 configured formats; TLC checks "
                   "handle identity and printf probe after every call, leaks, and equality with the C-locale run (the libc "
                   "call path is recorded, not judged: the property does not prescribe it)")
MUTS = ["return_without_restore", "no_free", "leak_dup_on_new_failure"]


def diag_of(rec, ex):
    return {"op": rec.get("e"), "mode": rec.get("mode"), "loc": rec.get("loc"), "inject": rec.get("inject"), "st": rec.get("st"),
            "ref_st": rec.get("ref_st"), "calls": rec.get("calls"), "handle_same": rec.get("handle_same"), "loc_leak": rec.get("loc_leak"),
            "probe_changed": rec.get("probe_before") != rec.get("probe_after")}


def make_locale():
    import hashlib
    srcs = os.path.join(vlib.HARNESS, "locale")
    h = hashlib.sha1(open(os.path.join(srcs, "comma.src"), "rb").read() + open(os.path.join(srcs, "ascii.cm"), "rb").read()).hexdigest()[:10]
    d = os.path.join(vlib.BUILD, "locale-" + h)
    tgt = os.path.join(d, "xx_COMMA")
    if not os.path.exists(os.path.join(tgt, "LC_NUMERIC")):
        os.makedirs(d, exist_ok=True)
        src = os.path.join(vlib.HARNESS, "locale")
        rc, out = vlib.sh("localedef -c -f %s/ascii.cm -i %s/comma.src %s" % (src, src, tgt), check=False)
        if not os.path.exists(os.path.join(tgt, "LC_NUMERIC")):
            raise vlib.Broken("localedef failed: " + out[-800:])
    return d


def run(ck):
    ck.assumptions += ["the comma-decimal locale is synthesised offline with localedef from harness/locale/comma.src (LC_NUMERIC decimal_point ',')",
                       "uselocale/duplocale/newlocale/freelocale calls made by json-c are intercepted by macros (harness/redirect.h)",
                       "the configured build uses the uselocale bracket (HAVE_USELOCALE); a setlocale-only platform is not covered"]
    ck.mc("Locale", "C14_mc.cfg", workers=4, timeout=600)
    for m in MUTS:
        ck.mc_must_fail("Locale", "C14_asfound_%s.cfg" % m, workers=4, timeout=600)
    exe = vlib.build("san", vlib.harness_sources(), "vh")
    locdir = make_locale()
    tp = os.path.join(ck.dir, "v.ndjson")
    deaths = vlib.run_executions(exe, lambda st: ["c14", "drive", 2000 if ck.tier == "thorough" else 40], 1, tp, timeout=600, env={"LOCPATH": locdir,
                                        # glibc's own locale loading leaves allocations at exit; json-c's locale objects are counted by the wrappers
                                        "ASAN_OPTIONS": "detect_leaks=0:abort_on_error=0:exitcode=99:allocator_may_return_null=1"})
    vlib.conformance(ck, "V:locales-x-outcome-classes", "TraceLocale", "trace.cfg", tp, deaths, diag_of, min_events=100, timeout=900)


def replay(path):
    import json
    d = json.load(open(path))
    print(json.dumps(d["diagnosis"]))
    tp = path + ".ndjson"
    with open(tp, "w") as f:
        f.write("\n".join(x for x in d["trace"] if x.startswith("{")) + "\n")
    r = vlib.validate_traces("TraceLocale", "trace.cfg", [tp])[0]
    os.unlink(tp)
    print("trace %s" % ("accepted" if r["accepted"] else "rejected at line(s) %s" % r["lines"]))
    return 0 if r["accepted"] else 1
