"""C02 - serialization emits valid JSON denoting the tree; parse(serialize(T)) = T."""
import os
import vlib
from checks import world

FINISH = dict(level="model_checking",
              rule="TLC: the emitter transcription (Serializer.tla) against the RFC 8259 grammar fold for 152 trees "
                   "(strings with quote/backslash/slash/NUL/control/DEL/high bytes, 64-bit boundary integers, printf texts "
                   "incl. exponent forms and trailing zeros, retained number texts, nesting) x all 64 flag sets: valid "
                   "and denoting the tree; V: random/boundary trees x 64 flag sets on the real serializer: a rotating "
                   "subset of texts judged by TLC (validity, denotation with numbers by exact decimal value, length), "
                   "all 64 checked for re-parse equality and re-serialization identity")


def diag_of(rec, ex):
    return {"op": "ser", "naninf": rec.get("naninf"), "bad_len": rec.get("bad_len"), "bad_reparse": rec.get("bad_reparse"),
            "bad_reser": rec.get("bad_reser"), "bad_null": rec.get("bad_null"), "kind": rec.get("tree", {}).get("t"),
            "flags": [x.get("f") for x in rec.get("texts", [])]}


def run(ck):
    thorough = ck.tier == "thorough"
    ck.assumptions += ["printf(\"%.17g\") (C locale) is the trusted binary->decimal conversion, entered as data; the specification decides that json-c's post-processing preserves its exact decimal value",
                       "round trip through json-c's own parser: re-parse equality and re-serialization identity are recorded by the harness for all 64 flag sets (colour-free ones for the re-parse)",
                       "trees with NaN / infinities are outside the RFC-validity claim",
                       "all doubles / all byte strings: boundary lattice + seeded random sample"]
    ck.mc("MCSerializer", "C02_mc.cfg", workers=8, timeout=1200)
    ck.mc_must_fail("MCSerializer", "C02_asfound_nozero_exp.cfg", workers=4, timeout=600)
    exe = vlib.build("san", vlib.harness_sources(), "vh")
    n = 12000 if thorough else 800
    per = 16 if thorough else 6
    tp = os.path.join(ck.dir, "v.ndjson")
    deaths = vlib.run_executions(exe, lambda st: ["c02", "drive", st, n, per], n, tp, timeout=1200)
    vlib.conformance(ck, "V:trees-x-64-flag-sets", "TraceSerializer", "trace.cfg", tp, deaths, diag_of, min_events=n, timeout=2400,
                     split_every=60)
    # trees with a past (parsed, copied, mutated through containers / pointers / patches, leaves re-set): every serialization
    # the world client observes is judged against the composed model World.tla (model-checked under C05)
    world.run_world(ck, exe, 2000 if thorough else 200, first_exec=200000, mc=False)


def replay(path):
    import json
    d = json.load(open(path))
    print(json.dumps(d["diagnosis"]))
    tp = path + ".ndjson"
    with open(tp, "w") as f:
        f.write("\n".join(x for x in d["trace"] if x.startswith("{")) + "\n")
    r = vlib.validate_traces("TraceWorld" if d["diagnosis"].get("world") else "TraceSerializer", "trace.cfg", [tp])[0]
    os.unlink(tp)
    print("trace %s" % ("accepted" if r["accepted"] else "rejected at line(s) %s" % r["lines"]))
    return 0 if r["accepted"] else 1
