"""C16 - strict mode rejects every documented extension anywhere; default mode accepts it."""
import os
import vlib

FINISH = dict(level="model_checking",
              rule="TLC: for every text of the comment / quote / literal / control-character / number / structure spaces "
                   "(up to 6-7 bytes): what strict mode accepts uses none of the listed extensions (judged by a "
                   "permissive grammar fold that names the extensions used), and default mode accepts every text that is "
                   "valid up to them; V: each extension kind injected at every admissible position of generated valid "
                   "documents; strict must fail, default must succeed with the value of the RFC-valid equivalent, "
                   "strict+trailing accepts trailing bytes and reports the end of the value")
MC = ["C16_cmt.cfg", "C16_quote.cfg", "C16_lit.cfg", "C16_ctl.cfg", "C01_num.cfg", "C01_struct.cfg"]
ASF = ["C16_asfound_sq_name.cfg", "C16_asfound_leadzero.cfg", "C16_asfound_comment_star.cfg"]


def diag_of(rec, ex):
    txt = rec.get("text", [])
    return {"op": rec.get("e"), "kind": rec.get("kind"), "pos": rec.get("pos"), "text": txt[:48], "len": len(txt),
            "strict": rec.get("strict", {}).get("st"), "deflt": rec.get("deflt", {}).get("st"), "trail": rec.get("trail", {}).get("st")}


def run(ck):
    thorough = ck.tier == "thorough"
    ck.assumptions += ["the listed extensions are exactly those of the property statement; NaN/Infinity literals and a fraction without digits ('1.') are not among them and are not judged",
                       "value-neutrality is judged against an RFC-valid equivalent text supplied by the harness and validated by the grammar fold",
                       "ASan/UBSan observe the real parser"]
    for cfg in MC:
        ck.mc("MCTokGrammar", cfg, workers=8, xmx="12g", timeout=1800)
    for cfg in ASF:
        ck.mc_must_fail("MCTokGrammar", cfg, workers=8, timeout=900)
    exe = vlib.build("san", vlib.harness_sources(), "vh")
    n = 8000 if thorough else 250
    tp = os.path.join(ck.dir, "v.ndjson")
    deaths = vlib.run_executions(exe, lambda st: ["tok", "inject-drive", st, n], n, tp, timeout=1200)
    vlib.conformance(ck, "V:extensions-injected-at-every-position", "TraceTokGrammar", "trace.cfg", tp, deaths, diag_of, min_events=n,
                     timeout=1800, split_every=100)

def replay(path):
    import json
    d = json.load(open(path))
    print(json.dumps(d["diagnosis"]))
    tp = path + ".ndjson"
    with open(tp, "w") as f:
        f.write("\n".join(x for x in d["trace"] if x.startswith("{")) + "\n")
    r = vlib.validate_traces("TraceTokGrammar", "trace.cfg", [tp])[0]
    os.unlink(tp)
    print("trace %s" % ("accepted" if r["accepted"] else "rejected at line(s) %s" % r["lines"]))
    return 0 if r["accepted"] else 1
