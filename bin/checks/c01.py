"""C01 - parsing a valid JSON text yields exactly the value the text denotes."""
import os
import vlib

FINISH = dict(level="model_checking",
              rule="TLC: the tokener transcription against the RFC 8259 grammar fold for every text of six "
                   "sub-alphabets (structure, numbers, escapes/surrogates, UTF-8, literals, quotes) up to 6-13 bytes in "
                   "default and strict mode: valid texts accepted with exactly the denoted value; G/V: generated "
                   "RFC-valid documents (all escape forms, surrogate combinations, boundary integers, number shapes, "
                   "white space, duplicate names, nesting to 30), every 97th..all single \\uXXXX code unit, surrogate "
                   "pair/lone combinations, parsed by the real parser in both modes and judged by TLC with the grammar fold")
MC = ["C01_struct.cfg", "C01_num.cfg", "C01_esc.cfg", "C01_utf8.cfg", "C16_lit.cfg", "C16_quote.cfg"]


def diag_of(rec, ex):
    txt = rec.get("text", [])
    return {"op": rec.get("e"), "fl": rec.get("fl"), "text": txt[:48], "len": len(txt), "got": rec.get("got", {}).get("st"),
            "end": rec.get("got", {}).get("end"), "dbl_ok": rec.get("dbl_ok")}


def run(ck):
    thorough = ck.tier == "thorough"
    ck.assumptions += ["glibc strtod is the trusted reference for 'correctly rounded': the harness checks each double node == strtod(its retained token text) in the C locale, TLC checks the retained text is exactly the token",
                       "all Unicode scalar values / all number shapes: boundary lattice + seeded sample; exhaustive only in the TLC scopes and the \\uXXXX enumeration of the thorough tier",
                       "ASan/UBSan observe the real parser"]
    for cfg in MC:
        ck.mc("MCTokGrammar", cfg, workers=8, xmx="12g", timeout=1800)
    ck.mc_must_fail("MCTokGrammar", "C01_asfound_true_is_false.cfg", workers=4, timeout=600)      # Accepts is not vacuous
    exe = vlib.build("san", vlib.harness_sources(), "vh")
    stride = 1 if thorough else 29
    jobs = [("V:generated-valid-documents", ["tok", "valid-drive"], 12000 if thorough else 700),
            ]
    for name, args, n in jobs:
        tp = os.path.join(ck.dir, "v-docs.ndjson")
        deaths = vlib.run_executions(exe, lambda st: args + [st, n], n, tp, timeout=1200)
        vlib.conformance(ck, name, "TraceTokGrammar", "trace.cfg", tp, deaths, diag_of, min_events=n, timeout=1800, split_every=100)
    # the number lattice (fraction length x significant digits, exponent x mantissa digits, long integer parts)
    tp = os.path.join(ck.dir, "v-num.ndjson")
    deaths = vlib.run_executions(exe, lambda st: ["tok", "valid-numbers", 12 if thorough else 1], 1, tp, timeout=1200)
    vlib.conformance(ck, "G:number-lattice", "TraceTokGrammar", "trace.cfg", tp, deaths, diag_of, min_events=100, timeout=1800,
                     split_every=20)
    tp = os.path.join(ck.dir, "v-esc.ndjson")
    deaths = vlib.run_executions(exe, lambda st: ["tok", "valid-escapes", vlib.SEED % stride, 65536, stride], 1, tp, timeout=1200)
    vlib.conformance(ck, "G:single-escape-enumeration(stride %d)" % stride, "TraceTokGrammar", "trace.cfg", tp, deaths, diag_of,
                     min_events=100, timeout=1800, split_every=500)
    tp = os.path.join(ck.dir, "v-pairs.ndjson")
    npairs = 40000 if thorough else 3000
    deaths = vlib.run_executions(exe, lambda st: ["tok", "valid-pairs", npairs, -1], 1, tp, timeout=1200)
    vlib.conformance(ck, "V:surrogate-combinations", "TraceTokGrammar", "trace.cfg", tp, deaths, diag_of, min_events=100, timeout=1800,
                     split_every=500)
    # one high surrogate with all 1024 lows (the high rotates with the seed); thorough: 16 highs
    for k in range(16 if thorough else 1):
        hi = (vlib.SEED * 37 + k * 61) % 1024
        tp = os.path.join(ck.dir, "v-pairs-hi.ndjson")
        deaths = vlib.run_executions(exe, lambda st: ["tok", "valid-pairs", 1024, hi], 1, tp, timeout=1200)
        vlib.conformance(ck, "G:all-lows-for-high-%03x" % hi, "TraceTokGrammar", "trace.cfg", tp, deaths, diag_of, min_events=100,
                         timeout=1800, split_every=200)

def replay(path):
    import json
    d = json.load(open(path))
    print(json.dumps(d["diagnosis"]))
    tp = path + ".ndjson"
    with open(tp, "w") as f:
        f.write("\n".join(x for x in d["trace"] if x.startswith("{")) + "\n")
    r = vlib.validate_traces("TraceTokGrammar", "trace.cfg", [tp])[0]
    os.unlink(tp)
    print("trace %s" % ("accepted" if r["accepted"] else "rejected at line(s) %s" % r["lines"]))
    return 0 if r["accepted"] else 1
