"""C12 - JSON Pointer get/set resolve exactly per RFC 6901."""
import os
import vlib

FINISH = dict(level="model_checking",
              rule="TLC: the C-string mechanism of json_pointer.c (PointerMech) against RFC 6901 evaluation (Pointer) "
                   "for 4 trees with adversarial member names x every pointer string over {/ ~ 0 1 - a} up to length 5, "
                   "get and set, plus the set-then-get law; G: the same trees and every pointer string up to length 4 "
                   "(get, getf) / 3 (set, setf) on the real library; V: random trees with adversarial names and valid, "
                   "malformed and dangling pointers; each call validated by TLC with Pointer!Eval / Pointer!Set")
ALPHA = [47, 126, 48, 49, 45, 97]
MUTS = ["null_elem", "set_raw", "empty_idx"]


def diag_of(rec, ex):
    return {"op": rec.get("e"), "ptr": rec.get("ptr"), "f": rec.get("f"), "ret": rec.get("ret"), "errno": rec.get("errno"),
            "node": rec.get("node"), "same": rec.get("same"), "k": rec.get("k"), "site": rec.get("site"), "leak": rec.get("leak")}


def run(ck):
    thorough = ck.tier == "thorough"
    ck.assumptions += ["which of not-found / invalid-argument a failing lookup reports is not constrained",
                       "pointer strings with a '~' that starts no escape are no JSON Pointers; their evaluation is not judged",
                       "an array index beyond the end on set: both refusal and padding with nulls are admitted",
                       "ownership of the value on success/failure is observed by ASan/LSan (the harness releases it only after a failure)"]
    ck.mc("MCPointer", "C12_mc.cfg", workers=8, timeout=1200)
    for m in MUTS:
        ck.mc_must_fail("MCPointer", "C12_asfound_%s.cfg" % m, workers=4, timeout=600)
    exe = vlib.build("san", vlib.harness_sources(), "vh")
    for which in range(4):
        for doset, n in ((0, 5), (1, 4)):
            tp = os.path.join(ck.dir, "g-%d-%d.ndjson" % (which, doset))
            deaths = vlib.run_executions(exe, lambda st: ["c12", "enum", which, doset, n] + ALPHA, 1, tp, timeout=1200)
            vlib.conformance(ck, "G:all-pointers(tree %d,%s,len<=%d)" % (which, "set+setf" if doset else "get+getf", n),
                             "TracePointer", "trace.cfg", tp, deaths, diag_of, min_events=10, timeout=1800, nshards=1)
    n = 8000 if thorough else 200
    tp = os.path.join(ck.dir, "v.ndjson")
    deaths = vlib.run_executions(exe, lambda st: ["c12", "drive", st, n, 40], n, tp, timeout=1200)
    vlib.conformance(ck, "V:random-trees-and-pointers", "TracePointer", "trace.cfg", tp, deaths, diag_of, min_events=n, timeout=1800)


def replay(path):
    import json
    d = json.load(open(path))
    print(json.dumps(d["diagnosis"]))
    tp = path + ".ndjson"
    with open(tp, "w") as f:
        f.write("\n".join(x for x in d["trace"] if x.startswith("{")) + "\n")
    r = vlib.validate_traces("TracePointer", "trace.cfg", [tp])[0]
    os.unlink(tp)
    print("trace %s" % ("accepted" if r["accepted"] else "rejected at line(s) %s" % r["lines"]))
    return 0 if r["accepted"] else 1
