"""C20 - file-descriptor I/O is complete and exact under arbitrary short reads and writes."""
import os
import vlib

FINISH = dict(level="model_checking",
              rule="TLC: every schedule of per-call transfer sizes and failures for texts up to 4 bytes (write loop: "
                   "delivered = text exactly once in order, error iff a write failed) and for 8 small documents x "
                   "depths (accumulate-then-parse-once = the memory parse of the tokener transcription); V: documents up "
                   "to 64 KiB on the real json_object_to_fd / to_file_ext / from_fd(_ex) / from_file with scripted "
                   "short transfers (1 byte .. everything) and injected EIO/EINTR at any call; TLC replays each script "
                   "with FdIO!WriteRun / ReadRun and compares")
MUTS = ["ignore_short_write", "parse_per_read"]


def diag_of(rec, ex):
    return {"op": rec.get("e"), "via": rec.get("via"), "ret": rec.get("ret"), "errcls": rec.get("errcls"), "dlen": rec.get("dlen"),
            "textlen": rec.get("textlen", rec.get("blen")), "script": rec.get("script", [])[:8], "depth": rec.get("depth"),
            "got_value": rec.get("got_value"), "equal": rec.get("equal"), "leak": rec.get("leak")}


def run(ck):
    thorough = ck.tier == "thorough"
    ck.assumptions += ["read()/write() made by json-c are intercepted by macros (harness/redirect.h); the kernel side is a regular temp file",
                       "a write() returning 0 is outside the property's schedules and is not issued",
                       "the static last-error buffer is never cleared by the library: the message class is only judged after a failing call"]
    ck.mc("MCFdIO", "C20_mc.cfg", workers=8, timeout=1200)
    for m in MUTS:
        ck.mc_must_fail("MCFdIO", "C20_asfound_%s.cfg" % m, workers=4, timeout=600)
    # liveness: under fair scheduling and an operating system that moves at least one byte per successful call, both loops end
    ck.mc("FdLoop", "C20_live.cfg", workers=4, timeout=600)
    ck.mc_must_fail("FdLoop", "C20_asfound_eintr_steps_back.cfg", workers=2, timeout=300)
    exe = vlib.build("san", vlib.harness_sources(), "vh")
    n = 20000 if thorough else 600
    tp = os.path.join(ck.dir, "v.ndjson")
    deaths = vlib.run_executions(exe, lambda st: ["c20", "drive", st, n], n, tp, timeout=1200)
    vlib.conformance(ck, "V:scripted-short-transfers-and-errors", "TraceFdIO", "trace.cfg", tp, deaths, diag_of, min_events=n, timeout=1800,
                     split_every=150)


def replay(path):
    import json
    d = json.load(open(path))
    print(json.dumps(d["diagnosis"]))
    tp = path + ".ndjson"
    with open(tp, "w") as f:
        f.write("\n".join(x for x in d["trace"] if x.startswith("{")) + "\n")
    r = vlib.validate_traces("TraceFdIO", "trace.cfg", [tp])[0]
    os.unlink(tp)
    print("trace %s" % ("accepted" if r["accepted"] else "rejected at line(s) %s" % r["lines"]))
    return 0 if r["accepted"] else 1
