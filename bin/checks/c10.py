"""C10 - numeric accessors and mutators are exact when representable, else saturating."""
import os
import vlib

FINISH = dict(level="model_checking",
              rule="TLC: the limb arithmetic behind the Numeric specification compared with native integers for every "
                   "pair of 6-bit values and every shift (base 8); V: boundary lattice {0, +-1, 2^31, 2^53, 2^63, 2^64} "
                   "+-1 in both integer stores, doubles at those values and their neighbours, subnormals, infinities, "
                   "NaN, random 64-bit patterns, numeric-looking and non-numeric strings, every accessor, set-then-get, "
                   "(value, increment) pairs; every call evaluated by TLC with Numeric.tla at 64-bit width")


def diag_of(rec, ex):
    d = {"op": rec.get("e"), "src": rec.get("src", {}).get("kind")}
    if rec.get("e") == "acc":
        d.update({"i32": rec["i32"]["errno"], "i64": rec["i64"]["errno"], "u64": rec["u64"]["errno"], "src_v": rec.get("src")})
    if rec.get("e") == "inc":
        d.update({"store": rec.get("store"), "v": rec.get("v"), "inc": rec.get("inc")})
    return d


def run(ck):
    thorough = ck.tier == "thorough"
    ck.assumptions += ["integer -> double ((double) cast) and string -> double (strtod, C locale) are compiler/glibc conversions supplied as data",
                       "UBSan (float-cast-overflow, signed-integer-overflow) is fatal in the harness build: an undefined conversion inside json-c ends the run = violation",
                       "strings whose sign follows white space for get_uint64, and errno for null/container sources, are not judged",
                       "all 2^64 values: lattice + seeded random patterns, not exhaustive"]
    ck.mc("MCLimbs", "C10_limbs.cfg", workers=4, timeout=600)
    # json_object_int_inc for EVERY stored value (either store) and EVERY increment - 2^64 x 2^64 combinations symbolically (Apalache,
    # exact integers): the result is the true sum clamped to INT64_MIN..UINT64_MAX, representable in its store, and no C expression
    # of the function leaves the range of its type; the signed negation of the increment (json-c as found, D10c) must break it
    ck.prove("IntIncInd", "CInit", "Init", "IndInv", 0)
    ck.prove("IntIncInd", "CInit", "IndInv", "IndInv", 1)
    ck.prove("IntIncInd", "CInit", "IndInv", "Safety", 0)
    ck.prove("IntIncInd", "CInitBad", "IndInv", "IndInv", 1, must_fail=True)
    # the three integer accessors on EVERY integer node of either store: exact when it fits, the nearest bound and the range error
    # exactly when not; the test that reports INT32_MAX itself as out of range must fail
    ck.prove("GetIntInd", "CInit", "Init", "Correct", 0)
    ck.prove("GetIntInd", "CInitBad", "Init", "Correct", 0, must_fail=True)
    exe = vlib.build("san", vlib.harness_sources(), "vh")
    n = 30000 if thorough else 500
    tp = os.path.join(ck.dir, "v.ndjson")
    deaths = vlib.run_executions(exe, lambda st: ["c10", "drive", st, n], n, tp, timeout=1200)
    vlib.conformance(ck, "V:lattice-and-random-values", "TraceNumeric", "trace.cfg", tp, deaths, diag_of, min_events=n, timeout=1800,
                     split_every=300)


def replay(path):
    import json
    d = json.load(open(path))
    print(json.dumps(d["diagnosis"]))
    tp = path + ".ndjson"
    with open(tp, "w") as f:
        f.write("\n".join(x for x in d["trace"] if x.startswith("{")) + "\n")
    r = vlib.validate_traces("TraceNumeric", "trace.cfg", [tp])[0]
    os.unlink(tp)
    print("trace %s" % ("accepted" if r["accepted"] else "rejected at line(s) %s" % r["lines"]))
    return 0 if r["accepted"] else 1
