"""C08 - one allocation failure gives a clean failure: no leak, crash or corruption."""
import os
import vlib

FINISH = dict(level="fault_enumeration",
              rule="every allocation request index k of every workload variant (parse one-shot/chunked of 6 documents, "
                   "json_tokener_parse, 10 constructors, object add with table growth / replace / constant key, array "
                   "add/put/insert with growth, set_string growth of an inline string and re-growth / shrink / equal-length set of an already grown one, deep copy, 13 serializations, pointer set/get incl. "
                   "printf variants, a 6-operation patch and each operation alone) is failed in turn (thorough: plus a "
                   "random second failure), on the fixed set-up and again after each of H seeded pseudo-random histories of ordinary operations on the caller-owned objects (quick H=5, thorough H=149); a case is non-trivial when the failing request was reached; distinct = "
                   "distinct (workload, variant, history, k, k2); TLC validates each event against the Faults overlay; the "
                   "micro-step rollback models (Faults.tla) are model-checked for every failing position; generated valid / mutated / "
                   "chunked documents are parsed with each allocation request failing in turn (fault-free outcome, or no value with the "
                   "out-of-memory status; nothing left allocated)")
MUTS = ["objadd_key_leak", "attach_leak", "format_dangling"]


def diag_of(rec, ex):
    cls = "other"
    if rec.get("e") == "fault":
        if rec.get("leak"):
            cls = "leak"
        elif not rec.get("pre_ok"):
            cls = "pre_changed"
        elif rec.get("status") == 0 and not rec.get("same"):
            cls = "wrong_result"
        elif rec.get("status") == 2:
            cls = "no_documented_failure"
    return {"op": rec.get("e"), "w": rec.get("w"), "v": rec.get("v"), "h": rec.get("h"), "k": rec.get("k"), "site": rec.get("site"), "class": cls,
            "status": rec.get("status"), "leak": rec.get("leak")}


def diag_of_p(rec, ex):
    return {"op": rec.get("e"), "fl": rec.get("fl"), "k": rec.get("k"), "n": rec.get("n"), "hit": rec.get("hit"), "text": rec.get("text", [])[:60],
            "cuts": rec.get("cuts"), "clean": rec.get("clean", {}).get("st"), "got": rec.get("got", {}).get("st"), "leak": rec.get("leak")}


def run(ck):
    import json
    thorough = ck.tier == "thorough"
    ck.assumptions += ["allocation requests made by json-c (malloc/calloc/realloc/strdup) are intercepted by macros that also record the requesting function; allocations inside libc (vasprintf) cannot be failed",
                       "single faults are exhaustive per workload; double faults are sampled in the thorough tier",
                       "ASan/UBSan observe crashes, double frees and invalid accesses on the failure paths"]
    ck.mc("Faults", "C08_mc.cfg", workers=4, timeout=600)
    for m in MUTS:
        ck.mc_must_fail("Faults", "C08_asfound_%s.cfg" % m, workers=4, timeout=600)
    H = 150 if thorough else 6
    exe = vlib.build("san", vlib.harness_sources(), "vh")
    tp = os.path.join(ck.dir, "v.ndjson")
    deaths = vlib.run_executions(exe, lambda st: ["c08", "sweep", 0, 99, 1 if thorough else 0, 0, H], 1, tp, timeout=1800)
    lines = vlib.read_lines(tp)
    faults = [json.loads(x) for x in lines if x.startswith('{"e":"fault"')]
    hit = [f for f in faults if f["hit"]]
    ck.extra["evaluations"] = len(faults)
    ck.extra["distinct_nontrivial"] = len({(f["w"], f["v"], f.get("h", 0), f["k"], f["k2"]) for f in hit})
    ck.extra["workload_variants"] = len([x for x in lines if x.startswith('{"e":"clean"')])
    ck.extra["failing_sites"] = sorted({f["site"] for f in hit})
    vlib.conformance(ck, "V:every-allocation-index-failed", "TraceFaults", "trace.cfg", tp, deaths, diag_of, min_events=500, timeout=1800,
                     split_every=400)
    # ---- generated documents (valid, mutated, chunked) parsed with each allocation request failing in turn
    np_ = 1500 if thorough else 120
    tp2 = os.path.join(ck.dir, "p.ndjson")
    deaths = vlib.run_executions(exe, lambda st: ["tok", "fault-drive", st, np_], np_, tp2, timeout=1800)
    vlib.conformance(ck, "V:generated-documents-parsed-with-failing-allocations", "TraceFaults", "trace.cfg", tp2, deaths, diag_of_p, min_events=np_,
                     timeout=1800, split_every=400)
    ck.samples = [{"w": f["w"], "v": f["v"], "k": f["k"], "site": f["site"], "status": f["status"], "leak": f["leak"]} for f in hit[:3]] + ck.samples[:2]


def replay(path):
    import json
    d = json.load(open(path))
    print(json.dumps(d["diagnosis"]))
    tp = path + ".ndjson"
    with open(tp, "w") as f:
        f.write("\n".join(x for x in d["trace"] if x.startswith("{")) + "\n")
    r = vlib.validate_traces("TraceFaults", "trace.cfg", [tp])[0]
    os.unlink(tp)
    print("trace %s" % ("accepted" if r["accepted"] else "rejected at line(s) %s" % r["lines"]))
    return 0 if r["accepted"] else 1
