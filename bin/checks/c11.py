"""C11 - strings are length-counted byte sequences preserved through any mutation history."""
import os
import vlib

FINISH = dict(level="model_checking",
              rule="TLC: StrNode (Mech: len sign, inline capacity fixed at creation, separately allocated buffer, "
                   "ghost capacities and live-buffer set) refines StrBytes (Abs) for every history of lengths 0..5 "
                   "around pointer size 2; G: one script per transition, lengths scaled to pointer size 8; V: random "
                   "byte strings and length sequences; every call validated by TLC against StrBytes")
MUTS = ["zero_keeps_heap_flag", "inline_grow_in_place", "heap_no_free_on_grow"]


def diag_of(rec, ex):
    return {"op": rec.get("op", rec.get("e")), "n": rec.get("n"), "ret": rec.get("ret"), "len": rec.get("len"),
            "given": len(rec.get("data", []))}


def script_of(hist):
    out = []
    for c in hist:
        if c["op"] == "newlen":
            out.append("n %d %d" % (c["n"], c["v"]))
        elif c["op"] == "setlen":
            out.append("s %d %d" % (c["n"], c["v"]))
        elif c["op"] == "delete":
            out.append("d")
    return ";".join(out)


def run(ck):
    thorough = ck.tier == "thorough"
    ck.assumptions += ["ASan/UBSan/LeakSanitizer observe the real code; the counting allocator wrapper reports leaks per node",
                       "lengths >= INT_MAX-1 are only issued where the model says refused"]
    ck.mc("MCStrNode", "C11_mc.cfg", workers=8, xmx="8g", timeout=1800)
    for m in MUTS:
        ck.mc_must_fail("MCStrNode", "C11_asfound_%s.cfg" % m, workers=4, timeout=600)
    # every requested length in 0..SIZE_MAX (the length bookkeeping over the integers, real constants): an inductive invariant checked
    # by Apalache - writes stay inside the storage in use, the int the accessor returns is the count; the constructor without the
    # INT_MAX cap (json-c as found, D11a) must break it
    ck.prove("StrNodeInd", "CInit", "Init", "IndInv", 0)
    ck.prove("StrNodeInd", "CInit", "IndInv", "IndInv", 1)
    ck.prove("StrNodeInd", "CInit", "IndInv", "Safety", 0)
    ck.prove("StrNodeInd", "CInitBad", "IndInv", "IndInv", 1, must_fail=True)
    exe = vlib.build("san", vlib.harness_sources(), "vh")
    hists, r = vlib.tlc_export_edges("GStrNode", "C11_g.cfg", timeout=1800, xmx="8g")
    ck.add_tlc(r)
    stride = 1 if thorough else 4
    scripts = [script_of(h) for i, h in enumerate(hists) if i % stride == vlib.SEED % stride]
    ck.extra["g_edges_total"] = len(hists)
    ck.extra["g_scripts"] = len(scripts)
    sp = os.path.join(ck.dir, "g.scripts")
    with open(sp, "w") as f:
        f.write("\n".join(scripts) + "\n")
    tp = os.path.join(ck.dir, "g.ndjson")
    deaths = vlib.run_executions(exe, lambda st: ["c11", "replay", sp, st], len(scripts), tp)
    vlib.conformance(ck, "G:edge-cover-replay", "TraceStrBytes", "trace.cfg", tp, deaths, diag_of, min_events=len(scripts))
    n = 30000 if thorough else 1500
    tp = os.path.join(ck.dir, "v.ndjson")
    deaths = vlib.run_executions(exe, lambda st: ["c11", "drive", st, n, 14], n, tp)
    vlib.conformance(ck, "V:random-set-histories", "TraceStrBytes", "trace.cfg", tp, deaths, diag_of, min_events=n)


def replay(path):
    import json
    d = json.load(open(path))
    print(json.dumps(d["diagnosis"]))
    tp = path + ".ndjson"
    with open(tp, "w") as f:
        f.write("\n".join(x for x in d["trace"] if x.startswith("{")) + "\n")
    r = vlib.validate_traces("TraceStrBytes", "trace.cfg", [tp])[0]
    os.unlink(tp)
    print("trace %s" % ("accepted" if r["accepted"] else "rejected at line(s) %s" % r["lines"]))
    return 0 if r["accepted"] else 1
