"""C04 - the parser is total and memory-safe on arbitrary bytes and reusable after reset."""
import os
import vlib

FINISH = dict(level="model_checking",
              rule="TLC: product 'new parser vs parser reset after an arbitrary prefix' over three sub-alphabets x "
                   "flag sets (ResetLikeNew), trichotomy of outcomes, level-stack bound, fuel (termination of every "
                   "Feed); G: every prefix of the escape space x 17 probe texts on the real parser; V: arbitrary bytes "
                   "(random, NUL, invalid UTF-8, mutated documents), 5 flag sets, depth limits 1..5 and 32, random "
                   "chunkings, sequences dirty/(documents given without reset)/reset/parse mirrored on new parsers, data that "
                   "ends in a comment behind a complete inner value; streams of NUL-terminated documents on one parser lose "
                   "no value (TLC, all texts <= 8 over 6 bytes); TLC validates trichotomy, end <= "
                   "length, reused = new, nothing allocated after free")
MC = ["C04_reset.cfg", "C04_reset_num.cfg", "C04_reset_struct.cfg"]
ESC = [34, 92, 117, 100, 56, 99]
STRUCT = [91, 123, 34, 97, 58, 49, 44, 116]


def diag_of(rec, ex):
    txt = rec.get("text", [])
    return {"op": rec.get("e"), "fl": rec.get("fl"), "depth": rec.get("depth"), "cuts": rec.get("cuts"), "text": txt[:40],
            "len": len(txt), "reused": rec.get("reused", {}).get("st"), "fresh": rec.get("fresh", {}).get("st"),
            "leak": rec.get("leak")}


def run(ck):
    thorough = ck.tier == "thorough"
    ck.assumptions += ["memory safety of the real parser is observed by ASan/UBSan on exact-size heap copies of every chunk, not proved",
                       "termination: every harness run is under a timeout; the transcription consumes or ends on every Feed (TLC: fuel never exhausted)",
                       "the counting allocator wrapper reports allocations left after json_tokener_free"]
    for cfg in MC:
        ck.mc("MCTokReset", cfg, workers=8, xmx="12g", timeout=1800)
    ck.mc_must_fail("MCTokReset", "C04_asfound_resetbleed.cfg", workers=8, timeout=900)
    # streams of NUL-terminated documents on one parser without reset: no call returns holding a value only in its locals (D04b)
    ck.mc("MCTokStream", "C04_stream_nul.cfg", workers=12, xmx="12g", timeout=1800)
    ck.mc_must_fail("MCTokStream", "C04_asfound_inner_eof_success.cfg", workers=12, xmx="12g", timeout=900)
    exe = vlib.build("san", vlib.harness_sources(), "vh")
    for name, fl, depth, n, alpha in (("esc", 0, 2, 6 if not thorough else 7, ESC), ("esc", 1, 2, 6, ESC), ("struct", 0, 3, 4, STRUCT)):
        tp = os.path.join(ck.dir, "g-%s-%d.ndjson" % (name, fl))
        deaths = vlib.run_executions(exe, lambda st: ["tok", "reuse-enum", fl, depth, n] + alpha, 1, tp, timeout=1200)
        vlib.conformance(ck, "G:all-prefixes-reset-probes(%s,flags %d,len<=%d)" % (name, fl, n), "TraceTokReuse", "trace.cfg", tp,
                         deaths, diag_of, min_events=100, timeout=1800, split_every=2000)
    n = 20000 if thorough else 1200
    tp = os.path.join(ck.dir, "v.ndjson")
    deaths = vlib.run_executions(exe, lambda st: ["tok", "reuse-drive", st, n], n, tp, timeout=1200)
    vlib.conformance(ck, "V:arbitrary-bytes-reuse", "TraceTokReuse", "trace.cfg", tp, deaths, diag_of, min_events=n, timeout=1800,
                     split_every=500)


def replay(path):
    import json
    d = json.load(open(path))
    print(json.dumps(d["diagnosis"]))
    tp = path + ".ndjson"
    with open(tp, "w") as f:
        f.write("\n".join(x for x in d["trace"] if x.startswith("{")) + "\n")
    r = vlib.validate_traces("TraceTokReuse", "trace.cfg", [tp])[0]
    os.unlink(tp)
    print("trace %s" % ("accepted" if r["accepted"] else "rejected at line(s) %s" % r["lines"]))
    return 0 if r["accepted"] else 1
