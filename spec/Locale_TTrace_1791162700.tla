---- MODULE Locale_TTrace_1791162700 ----
EXTENDS Locale, Sequences, TLCExt, Toolbox, Naturals, TLC

_expression ==
    LET Locale_TEExpression == INSTANCE Locale_TEExpression
    IN Locale_TEExpression!expression
----

_trace ==
    LET Locale_TETrace == INSTANCE Locale_TETrace
    IN Locale_TETrace!trace
----

_inv ==
    ~(
        TLCGet("level") = Len(_TETrace)
        /\
        ret = ("error")
        /\
        new = (2)
        /\
        bodynum = ("C")
        /\
        pc = ("return")
        /\
        thr0 = (0)
        /\
        old = (0)
        /\
        num = (<<"COMMA", "C", "C", "C", "C", "C", "C", "C", "C">>)
        /\
        live0 = ({1})
        /\
        live = ({1, 2})
        /\
        dup = (2)
        /\
        thr = (2)
        /\
        gnum = ("C")
    )
----

_init ==
    /\ num = _TETrace[1].num
    /\ thr = _TETrace[1].thr
    /\ live = _TETrace[1].live
    /\ gnum = _TETrace[1].gnum
    /\ new = _TETrace[1].new
    /\ old = _TETrace[1].old
    /\ ret = _TETrace[1].ret
    /\ pc = _TETrace[1].pc
    /\ dup = _TETrace[1].dup
    /\ bodynum = _TETrace[1].bodynum
    /\ live0 = _TETrace[1].live0
    /\ thr0 = _TETrace[1].thr0
----

_next ==
    /\ \E i,j \in DOMAIN _TETrace:
        /\ \/ /\ j = i + 1
              /\ i = TLCGet("level")
        /\ num  = _TETrace[i].num
        /\ num' = _TETrace[j].num
        /\ thr  = _TETrace[i].thr
        /\ thr' = _TETrace[j].thr
        /\ live  = _TETrace[i].live
        /\ live' = _TETrace[j].live
        /\ gnum  = _TETrace[i].gnum
        /\ gnum' = _TETrace[j].gnum
        /\ new  = _TETrace[i].new
        /\ new' = _TETrace[j].new
        /\ old  = _TETrace[i].old
        /\ old' = _TETrace[j].old
        /\ ret  = _TETrace[i].ret
        /\ ret' = _TETrace[j].ret
        /\ pc  = _TETrace[i].pc
        /\ pc' = _TETrace[j].pc
        /\ dup  = _TETrace[i].dup
        /\ dup' = _TETrace[j].dup
        /\ bodynum  = _TETrace[i].bodynum
        /\ bodynum' = _TETrace[j].bodynum
        /\ live0  = _TETrace[i].live0
        /\ live0' = _TETrace[j].live0
        /\ thr0  = _TETrace[i].thr0
        /\ thr0' = _TETrace[j].thr0

\* Uncomment the ASSUME below to write the states of the error trace
\* to the given file in Json format. Note that you can pass any tuple
\* to `JsonSerialize`. For example, a sub-sequence of _TETrace.
    \* ASSUME
    \*     LET J == INSTANCE Json
    \*         IN J!JsonSerialize("Locale_TTrace_1791162700.json", _TETrace)

=============================================================================

 Note that you can extract this module `Locale_TEExpression`
  to a dedicated file to reuse `expression` (the module in the 
  dedicated `Locale_TEExpression.tla` file takes precedence 
  over the module `Locale_TEExpression` below).

---- MODULE Locale_TEExpression ----
EXTENDS Locale, Sequences, TLCExt, Toolbox, Naturals, TLC

expression == 
    [
        \* To hide variables of the `Locale` spec from the error trace,
        \* remove the variables below.  The trace will be written in the order
        \* of the fields of this record.
        num |-> num
        ,thr |-> thr
        ,live |-> live
        ,gnum |-> gnum
        ,new |-> new
        ,old |-> old
        ,ret |-> ret
        ,pc |-> pc
        ,dup |-> dup
        ,bodynum |-> bodynum
        ,live0 |-> live0
        ,thr0 |-> thr0
        
        \* Put additional constant-, state-, and action-level expressions here:
        \* ,_stateNumber |-> _TEPosition
        \* ,_numUnchanged |-> num = num'
        
        \* Format the `num` variable as Json value.
        \* ,_numJson |->
        \*     LET J == INSTANCE Json
        \*     IN J!ToJson(num)
        
        \* Lastly, you may build expressions over arbitrary sets of states by
        \* leveraging the _TETrace operator.  For example, this is how to
        \* count the number of times a spec variable changed up to the current
        \* state in the trace.
        \* ,_numModCount |->
        \*     LET F[s \in DOMAIN _TETrace] ==
        \*         IF s = 1 THEN 0
        \*         ELSE IF _TETrace[s].num # _TETrace[s-1].num
        \*             THEN 1 + F[s-1] ELSE F[s-1]
        \*     IN F[_TEPosition - 1]
    ]

=============================================================================



Parsing and semantic processing can take forever if the trace below is long.
 In this case, it is advised to uncomment the module below to deserialize the
 trace from a generated binary file.

\*
\*---- MODULE Locale_TETrace ----
\*EXTENDS Locale, IOUtils, TLC
\*
\*trace == IODeserialize("Locale_TTrace_1791162700.bin", TRUE)
\*
\*=============================================================================
\*

---- MODULE Locale_TETrace ----
EXTENDS Locale, TLC

trace == 
    <<
    ([ret |-> "none",new |-> 0,bodynum |-> "none",pc |-> "entry",thr0 |-> 0,old |-> 0,num |-> <<"COMMA", "C", "C", "C", "C", "C", "C", "C", "C">>,live0 |-> {1},live |-> {1},dup |-> 0,thr |-> 0,gnum |-> "C"]),
    ([ret |-> "none",new |-> 0,bodynum |-> "none",pc |-> "dup",thr0 |-> 0,old |-> 0,num |-> <<"COMMA", "C", "C", "C", "C", "C", "C", "C", "C">>,live0 |-> {1},live |-> {1},dup |-> 0,thr |-> 0,gnum |-> "C"]),
    ([ret |-> "none",new |-> 0,bodynum |-> "none",pc |-> "new",thr0 |-> 0,old |-> 0,num |-> <<"COMMA", "C", "C", "C", "C", "C", "C", "C", "C">>,live0 |-> {1},live |-> {1, 2},dup |-> 2,thr |-> 0,gnum |-> "C"]),
    ([ret |-> "none",new |-> 2,bodynum |-> "none",pc |-> "use",thr0 |-> 0,old |-> 0,num |-> <<"COMMA", "C", "C", "C", "C", "C", "C", "C", "C">>,live0 |-> {1},live |-> {1, 2},dup |-> 2,thr |-> 0,gnum |-> "C"]),
    ([ret |-> "none",new |-> 2,bodynum |-> "none",pc |-> "body",thr0 |-> 0,old |-> 0,num |-> <<"COMMA", "C", "C", "C", "C", "C", "C", "C", "C">>,live0 |-> {1},live |-> {1, 2},dup |-> 2,thr |-> 2,gnum |-> "C"]),
    ([ret |-> "error",new |-> 2,bodynum |-> "C",pc |-> "return",thr0 |-> 0,old |-> 0,num |-> <<"COMMA", "C", "C", "C", "C", "C", "C", "C", "C">>,live0 |-> {1},live |-> {1, 2},dup |-> 2,thr |-> 2,gnum |-> "C"])
    >>
----


=============================================================================

---- CONFIG Locale_TTrace_1791162700 ----
CONSTANTS
    MUTL = { "return_without_restore" }

INVARIANT
    _inv

CHECK_DEADLOCK
    \* CHECK_DEADLOCK off because of PROPERTY or INVARIANT above.
    FALSE

INIT
    _init

NEXT
    _next

CONSTANT
    _TETrace <- _trace

ALIAS
    _expression
=============================================================================
\* Generated on Mon Oct 05 01:11:41 UTC 2026