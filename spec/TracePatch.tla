---- MODULE TracePatch ----
(* Trace specification for C13: one event per json_patch_apply call with the target document and
   the patch document as typed dumps.  Alarming:
     - the patch document is the same afterwards, and (copy mode) so is the source document;
     - on success no node of the result is shared with the patch / the source, none occurs twice;
     - the result equals Patch!Apply(doc, patch).doc, or the call fails exactly when Apply fails,
       reporting the index of the first failing operation (and a message).
   Not judged: patches that replace, drop or move the whole document (Patch!WholeDoc); reading it (test "", copy from "") is judged. *)
EXTENDS Naturals, Integers, Sequences, TLC, Json, IOUtils
VARIABLES st, l
PA == INSTANCE Patch WITH AsFoundP <- {}
PK == INSTANCE Patch WITH AsFoundP <- {"test_kind_strict"}     \* json-c's `test`: numbers of different kinds are never equal (D13h)
Judged(r) == r.patch.t = "array" => \A i \in 1..Len(r.patch.e) : ~PA!WholeDoc(r.patch.e[i])
PatchOk(r) ==
    /\ r.patch_after = r.patch
    /\ r.mode = 0 => r.doc_after = r.doc
    /\ ~r.shared_self /\ ~r.shared_patch /\ ~r.shared_src
    /\ r.has_msg
    /\ IF ~Judged(r) THEN TRUE
       ELSE LET a == PA!Apply(r.doc, r.patch)
                Agree(x) == IF x.ok THEN r.ret = 0 /\ r.result = x.doc ELSE r.ret # 0 /\ (x.idx >= 0 => r.idx = x.idx)
            \* (a run that is not the RFC's but is exactly the kind-strict one is tagged: known finding D13h)
            IN Agree(a) \/ (Agree(PK!Apply(r.doc, r.patch)) /\ PrintT(<<"TESTNUM", l>>) /\ FALSE)
\* "fpatch": the same application while one allocation request of json_patch_apply was made to fail: patch and source
\* document untouched, nothing left allocated once *base is released; a normal return carries the RFC result (D13h aside)
FPatchOk(r) ==
    /\ r.patch_after = r.patch /\ r.doc_after = r.doc /\ r.leak = 0
    /\ (r.ret = 0 /\ Judged(r)) => LET a == PA!Apply(r.doc, r.patch)  b == PK!Apply(r.doc, r.patch) IN
                                    (a.ok /\ r.result = a.doc) \/ (b.ok /\ r.result = b.doc)
StepOfImpl(s, r) == [ok |-> IF r.e = "fpatch" THEN FPatchOk(r) ELSE PatchOk(r), st |-> s]
TraceLog == ndJsonDeserialize(IOEnv.TRACE)
T == INSTANCE TraceBase WITH Log <- TraceLog, InitSt <- 0, StepOf <- StepOfImpl, ResyncAtNew <- FALSE
Spec == T!Spec
Done == T!Done
====
