---- MODULE TraceOrderedMap ----
(* Trace specification for C06: each recorded call on a real lh_table / json_object must be an
   OrderedMap step, and everything observed afterwards - length, the key and value sequence of
   every iteration form (foreach macros, prev-links, iterator API, serialization, visitor), the
   lookup result of every key of the universe - must equal the abstract map. *)
EXTENDS Naturals, Integers, Sequences, TLC, Json, IOUtils
VARIABLES st, l
M == INSTANCE OrderedMap WITH om <- st, call <- l

Observed(m, r) ==
    /\ r.len = Len(m)
    /\ \A f \in 1..Len(r.it) : r.it[f] = M!KeysOf(m)
    /\ \A f \in 1..Len(r.itv) : r.itv[f] = M!ValsOf(m)
    /\ \A i \in 1..Len(r.look) : r.look[i] = M!Get(m, i)
    /\ M!Unique(m)

\* "end": the execution is over and its table / object released: nothing json-c allocated during it remains
\* raw tables are created with an entry-free callback: it runs once for every entry that leaves the table - by a
\* deletion, or with the table at the end - and never otherwise (r.nfree = calls since the previous event)
FreedOk(m, m2, r) == "nfree" \in DOMAIN r => r.nfree = (IF Len(m) > Len(m2) THEN Len(m) - Len(m2) ELSE 0)
StepOfImpl(m, r) == IF r.op = "end" THEN [ok |-> r.leak = 0 /\ ("nfree" \in DOMAIN r => r.nfree = Len(m)), st |-> m] ELSE
                    LET s == M!CallStep(m, r) IN
                    IF s.ok THEN [ok |-> Observed(s.om, r) /\ FreedOk(m, s.om, r), st |-> s.om] ELSE [ok |-> FALSE, st |-> m]
TraceLog == ndJsonDeserialize(IOEnv.TRACE)
T == INSTANCE TraceBase WITH Log <- TraceLog, InitSt <- <<>>, StepOf <- StepOfImpl, ResyncAtNew <- TRUE
Spec == T!Spec
Done == T!Done
====
