---- MODULE Patch ----
(* Abs layer for C13: RFC 6902 JSON Patch as a fold over the operations, on VALUES (the typed
   dump model of JsonValue: [t |-> "object", m |-> Seq([k, v])], [t |-> "array", e |-> Seq], scalars).
   Locations are RFC 6901 pointers (tokenised by Pointer.tla).
     Apply(doc, patch) = [ok |-> TRUE, doc |-> result] | [ok |-> FALSE, idx |-> index of the first failing operation]
   `patch` is itself a JSON value (any value: a non-array patch, non-object elements, missing /
   null / wrongly typed fields and unknown operations make the application fail - never crash).
   Value semantics: what add / replace / copy put into the document is a copy.
   `test` compares as RFC 6902 section 4.6 says: numbers "are considered equal if their values are numerically equal" - an
   integer and a non-integer spelling of the same value are equal (switch "test_kind_strict": json_object_equal's rule,
   different kinds are never equal - json-c as found, kept as known finding D13h).
   Not decided here (both outcomes admitted by the trace specification): operations whose path is the whole document. *)
EXTENDS Naturals, Integers, Sequences, FiniteSets
CONSTANT AsFoundP     \* as-found switches of json_patch.c (anti-vacuity): "string_prefix", "self_move_noop", "move_len_plus_one", "remove_escaped_key", "test_kind_strict"
P == INSTANCE Pointer
SZ == INSTANCE Serializer WITH AsFoundS <- {}     \* (for the exact decimal value of a number text: DecNorm)
Str(bytes) == [t |-> "string", s |-> bytes]
S_op == <<111, 112>>  S_path == <<112, 97, 116, 104>>  S_from == <<102, 114, 111, 109>>  S_value == <<118, 97, 108, 117, 101>>
S_add == <<97, 100, 100>>  S_remove == <<114, 101, 109, 111, 118, 101>>  S_replace == <<114, 101, 112, 108, 97, 99, 101>>
S_move == <<109, 111, 118, 101>>  S_copy == <<99, 111, 112, 121>>  S_test == <<116, 101, 115, 116>>
Fail == [ok |-> FALSE, v |-> [t |-> "none"]]
Ok(v) == [ok |-> TRUE, v |-> v]
MemberPos(m, k) == IF \E i \in 1..Len(m) : m[i].k = k THEN CHOOSE i \in 1..Len(m) : m[i].k = k ELSE 0
HasMember(v, k) == v.t = "object" /\ MemberPos(v.m, k) # 0
Member(v, k) == v.m[MemberPos(v.m, k)].v

\* ---- structural equality of values (C09): object members regardless of order
RECURSIVE EqualV(_, _)
\* the exact decimal value of a number leaf: integers by their digits, doubles by their text (zero is zero whatever its sign)
NumVal(v) == LET n == SZ!DecNorm(IF v.t = "int" THEN SZ!IntText(v) ELSE v.text) IN IF n.zero THEN [n EXCEPT !.neg = FALSE] ELSE n
IsNum(v) == v.t \in {"int", "double"}
EqualV(a, b) ==
    IF IsNum(a) /\ IsNum(b) /\ (a.t # b.t \/ a.t = "double")
    THEN (IF "test_kind_strict" \in AsFoundP /\ a.t # b.t THEN FALSE ELSE NumVal(a) = NumVal(b))
    ELSE IF a.t # b.t THEN FALSE
    ELSE IF a.t = "array" THEN Len(a.e) = Len(b.e) /\ \A i \in 1..Len(a.e) : EqualV(a.e[i], b.e[i])
    ELSE IF a.t = "object" THEN Len(a.m) = Len(b.m) /\ \A i \in 1..Len(a.m) :
                                   MemberPos(b.m, a.m[i].k) # 0 /\ EqualV(a.m[i].v, b.m[MemberPos(b.m, a.m[i].k)].v)
    ELSE a = b

\* ---- locations
RECURSIVE GetV(_, _, _)
GetV(v, toks, i) ==
    IF i > Len(toks) THEN Ok(v)
    ELSE IF v.t = "object" THEN
        (LET k == P!Unescape(toks[i]) IN IF MemberPos(v.m, k) = 0 THEN Fail ELSE GetV(Member(v, k), toks, i + 1))
    ELSE IF v.t = "array" THEN
        (IF P!IsIndex(toks[i]) /\ P!IndexVal(toks[i]) < Len(v.e) THEN GetV(v.e[P!IndexVal(toks[i]) + 1], toks, i + 1) ELSE Fail)
    ELSE Fail
\* rebuild v with the value at toks[i..] transformed by the last-step operation
\*   mode "add": RFC 6902 add (member set / element inserted, '-' appends), "replace": must exist, "remove": must exist
RECURSIVE EditV(_, _, _, _, _)
EditV(v, toks, i, mode, x) ==
    IF i = Len(toks) THEN
        \* last token: act on container v
        IF v.t = "object" THEN
            LET k == P!Unescape(toks[i])
                pos == MemberPos(v.m, k)
            IN IF mode = "add" THEN
                   (IF pos = 0 THEN Ok([v EXCEPT !.m = Append(v.m, [k |-> k, v |-> x])])
                    ELSE Ok([v EXCEPT !.m[pos].v = x]))
               ELSE IF pos = 0 THEN Fail
               ELSE IF mode = "replace" THEN Ok([v EXCEPT !.m[pos].v = x])
               ELSE IF "remove_escaped_key" \in AsFoundP
                    THEN (LET rp == MemberPos(v.m, toks[i]) IN      \* deletes the member spelled like the ESCAPED token, if any
                          IF rp = 0 THEN Ok(v) ELSE Ok([v EXCEPT !.m = SubSeq(v.m, 1, rp - 1) \o SubSeq(v.m, rp + 1, Len(v.m))]))
               ELSE Ok([v EXCEPT !.m = SubSeq(v.m, 1, pos - 1) \o SubSeq(v.m, pos + 1, Len(v.m))])
        ELSE IF v.t = "array" THEN
            IF mode = "add" /\ toks[i] = <<45>> THEN Ok([v EXCEPT !.e = Append(v.e, x)])
            ELSE IF ~P!IsIndex(toks[i]) THEN Fail
            ELSE LET ix == P!IndexVal(toks[i]) IN
                 IF mode = "add" THEN
                     (IF ix <= Len(v.e) THEN Ok([v EXCEPT !.e = SubSeq(v.e, 1, ix) \o <<x>> \o SubSeq(v.e, ix + 1, Len(v.e))])
                      ELSE IF mode = "add" /\ ix = Len(v.e) + 1 /\ "move_len_plus_one" \in AsFoundP /\ x.t # "none" /\ i > 0
                           THEN Ok([v EXCEPT !.e = v.e \o <<[t |-> "null"], x>>])
                      ELSE Fail)
                 ELSE IF ix >= Len(v.e) THEN Fail
                 ELSE IF mode = "replace" THEN Ok([v EXCEPT !.e[ix + 1] = x])
                 ELSE Ok([v EXCEPT !.e = SubSeq(v.e, 1, ix) \o SubSeq(v.e, ix + 2, Len(v.e))])
        ELSE Fail
    ELSE
        \* descend
        IF v.t = "object" THEN
            LET k == P!Unescape(toks[i])
                pos == MemberPos(v.m, k)
            IN IF pos = 0 THEN Fail
               ELSE LET r == EditV(v.m[pos].v, toks, i + 1, mode, x) IN
                    IF r.ok THEN Ok([v EXCEPT !.m[pos].v = r.v]) ELSE Fail
        ELSE IF v.t = "array" THEN
            IF P!IsIndex(toks[i]) /\ P!IndexVal(toks[i]) < Len(v.e)
            THEN LET ix == P!IndexVal(toks[i])
                     r == EditV(v.e[ix + 1], toks, i + 1, mode, x)
                 IN IF r.ok THEN Ok([v EXCEPT !.e[ix + 1] = r.v]) ELSE Fail
            ELSE Fail
        ELSE Fail
\* the three location operations on a whole document; path "" = the document itself
AtPath(path) == P!IsPtrShape(path) /\ \A i \in 1..Len(P!Tokens(path)) : P!WellEscaped(P!Tokens(path)[i])
Lookup(doc, path) == IF ~AtPath(path) THEN Fail ELSE GetV(doc, P!Tokens(path), 1)
Edit(doc, path, mode, x) ==
    IF ~AtPath(path) THEN Fail
    ELSE IF Len(path) = 0 THEN (IF mode = "remove" THEN Fail ELSE Ok(x))       \* whole document (see WholeDoc)
    ELSE EditV(doc, P!Tokens(path), 1, mode, x)
\* `from` is a proper prefix of `path` by tokens (a location cannot be moved into one of its children)
ProperPrefix(from, path) == LET a == P!Tokens(from)  b == P!Tokens(path) IN
                            Len(a) < Len(b) /\ \A i \in 1..Len(a) : P!Unescape(a[i]) = P!Unescape(b[i])

\* ---- one operation: element e of the patch array
IsStr(v) == v.t = "string"
OpStep(doc, e) ==
    IF e.t # "object" \/ ~HasMember(e, S_op) \/ ~HasMember(e, S_path) THEN Fail
    ELSE LET op == Member(e, S_op)
             path == Member(e, S_path)
         IN IF ~IsStr(op) \/ ~IsStr(path) THEN Fail
            ELSE IF op.s = S_test THEN
                (IF ~HasMember(e, S_value) THEN Fail
                 ELSE LET g == Lookup(doc, path.s) IN IF g.ok /\ EqualV(g.v, Member(e, S_value)) THEN Ok(doc) ELSE Fail)
            ELSE IF op.s = S_remove THEN Edit(doc, path.s, "remove", [t |-> "none"])
            ELSE IF op.s = S_add THEN (IF ~HasMember(e, S_value) THEN Fail ELSE Edit(doc, path.s, "add", Member(e, S_value)))
            ELSE IF op.s = S_replace THEN
                (IF ~HasMember(e, S_value) THEN Fail
                 ELSE IF ~Lookup(doc, path.s).ok THEN Fail ELSE Edit(doc, path.s, "replace", Member(e, S_value)))
            ELSE IF op.s \in {S_move, S_copy} THEN
                (IF ~HasMember(e, S_from) \/ ~IsStr(Member(e, S_from)) THEN Fail
                 ELSE LET from == Member(e, S_from).s
                          g == Lookup(doc, from)
                          strpref == Len(from) <= Len(path.s) /\ SubSeq(path.s, 1, Len(from)) = from
                      IN IF "string_prefix" \in AsFoundP /\ strpref /\ Len(from) < Len(path.s) THEN Fail
                         ELSE IF "self_move_noop" \in AsFoundP /\ from = path.s THEN Ok(doc)
                         ELSE IF ~g.ok THEN Fail
                         ELSE IF op.s = S_copy THEN Edit(doc, path.s, "add", g.v)
                         ELSE IF AtPath(path.s) /\ ProperPrefix(from, path.s) THEN Fail
                         ELSE IF AtPath(path.s) /\ P!Tokens(from) = P!Tokens(path.s) THEN Ok(doc)      \* moving a value onto itself
                         ELSE LET r == Edit(doc, from, "remove", [t |-> "none"]) IN
                              IF ~r.ok THEN Fail ELSE Edit(r.v, path.s, "add", g.v))
            ELSE Fail
\* Operations on the whole document.  Reading it is plain RFC 6902 and is judged: `test` with path "", `copy` with
\* from "".  Not judged: operations that REPLACE or drop the whole document (add / replace / copy / move / remove with
\* path "") - json-c represents the JSON value null as a NULL pointer, which its API cannot tell from "no document",
\* so a patch that makes the whole document null cannot be continued - and `move` from the whole document.
WholeDoc(e) == /\ e.t = "object" /\ HasMember(e, S_op) /\ IsStr(Member(e, S_op))
               /\ LET PathIsRoot == HasMember(e, S_path) /\ IsStr(Member(e, S_path)) /\ Len(Member(e, S_path).s) = 0
                      FromIsRoot == HasMember(e, S_from) /\ IsStr(Member(e, S_from)) /\ Len(Member(e, S_from).s) = 0
                  IN \/ (Member(e, S_op).s \in {S_add, S_replace, S_copy, S_move, S_remove} /\ PathIsRoot)
                     \/ (Member(e, S_op).s = S_move /\ FromIsRoot)
\* a `test` whose outcome hinges on comparing numbers of different kinds
RECURSIVE HasDouble(_)
HasDouble(v) == IF v.t = "double" THEN TRUE
                ELSE IF v.t = "array" THEN \E i \in 1..Len(v.e) : HasDouble(v.e[i])
                ELSE IF v.t = "object" THEN \E i \in 1..Len(v.m) : HasDouble(v.m[i].v)
                ELSE FALSE

RECURSIVE ApplyFrom(_, _, _)
ApplyFrom(doc, ops, i) ==
    IF i > Len(ops) THEN [ok |-> TRUE, doc |-> doc, idx |-> -1]
    ELSE LET r == OpStep(doc, ops[i]) IN
         IF r.ok THEN ApplyFrom(r.v, ops, i + 1) ELSE [ok |-> FALSE, doc |-> doc, idx |-> i - 1]
Apply(doc, patch) == IF patch.t # "array" THEN [ok |-> FALSE, doc |-> doc, idx |-> -2] ELSE ApplyFrom(doc, patch.e, 1)
====
