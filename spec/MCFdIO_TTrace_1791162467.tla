---- MODULE MCFdIO_TTrace_1791162467 ----
EXTENDS Sequences, TLCExt, Toolbox, Naturals, TLC, MCFdIO

_expression ==
    LET MCFdIO_TEExpression == INSTANCE MCFdIO_TEExpression
    IN MCFdIO_TEExpression!expression
----

_trace ==
    LET MCFdIO_TETrace == INSTANCE MCFdIO_TETrace
    IN MCFdIO_TETrace!trace
----

_inv ==
    ~(
        TLCGet("level") = Len(_TETrace)
        /\
        mode = ("w")
        /\
        depth = (0)
        /\
        sched = (<<1>>)
        /\
        text = (<<1, 2>>)
    )
----

_init ==
    /\ text = _TETrace[1].text
    /\ sched = _TETrace[1].sched
    /\ mode = _TETrace[1].mode
    /\ depth = _TETrace[1].depth
----

_next ==
    /\ \E i,j \in DOMAIN _TETrace:
        /\ \/ /\ j = i + 1
              /\ i = TLCGet("level")
        /\ text  = _TETrace[i].text
        /\ text' = _TETrace[j].text
        /\ sched  = _TETrace[i].sched
        /\ sched' = _TETrace[j].sched
        /\ mode  = _TETrace[i].mode
        /\ mode' = _TETrace[j].mode
        /\ depth  = _TETrace[i].depth
        /\ depth' = _TETrace[j].depth

\* Uncomment the ASSUME below to write the states of the error trace
\* to the given file in Json format. Note that you can pass any tuple
\* to `JsonSerialize`. For example, a sub-sequence of _TETrace.
    \* ASSUME
    \*     LET J == INSTANCE Json
    \*         IN J!JsonSerialize("MCFdIO_TTrace_1791162467.json", _TETrace)

=============================================================================

 Note that you can extract this module `MCFdIO_TEExpression`
  to a dedicated file to reuse `expression` (the module in the 
  dedicated `MCFdIO_TEExpression.tla` file takes precedence 
  over the module `MCFdIO_TEExpression` below).

---- MODULE MCFdIO_TEExpression ----
EXTENDS Sequences, TLCExt, Toolbox, Naturals, TLC, MCFdIO

expression == 
    [
        \* To hide variables of the `MCFdIO` spec from the error trace,
        \* remove the variables below.  The trace will be written in the order
        \* of the fields of this record.
        text |-> text
        ,sched |-> sched
        ,mode |-> mode
        ,depth |-> depth
        
        \* Put additional constant-, state-, and action-level expressions here:
        \* ,_stateNumber |-> _TEPosition
        \* ,_textUnchanged |-> text = text'
        
        \* Format the `text` variable as Json value.
        \* ,_textJson |->
        \*     LET J == INSTANCE Json
        \*     IN J!ToJson(text)
        
        \* Lastly, you may build expressions over arbitrary sets of states by
        \* leveraging the _TETrace operator.  For example, this is how to
        \* count the number of times a spec variable changed up to the current
        \* state in the trace.
        \* ,_textModCount |->
        \*     LET F[s \in DOMAIN _TETrace] ==
        \*         IF s = 1 THEN 0
        \*         ELSE IF _TETrace[s].text # _TETrace[s-1].text
        \*             THEN 1 + F[s-1] ELSE F[s-1]
        \*     IN F[_TEPosition - 1]
    ]

=============================================================================



Parsing and semantic processing can take forever if the trace below is long.
 In this case, it is advised to uncomment the module below to deserialize the
 trace from a generated binary file.

\*
\*---- MODULE MCFdIO_TETrace ----
\*EXTENDS IOUtils, TLC, MCFdIO
\*
\*trace == IODeserialize("MCFdIO_TTrace_1791162467.bin", TRUE)
\*
\*=============================================================================
\*

---- MODULE MCFdIO_TETrace ----
EXTENDS TLC, MCFdIO

trace == 
    <<
    ([mode |-> "w",depth |-> 0,sched |-> <<>>,text |-> <<1, 2>>]),
    ([mode |-> "w",depth |-> 0,sched |-> <<1>>,text |-> <<1, 2>>])
    >>
----


=============================================================================

---- CONFIG MCFdIO_TTrace_1791162467 ----
CONSTANTS
    MUTF = { "ignore_short_write" }
    MaxLen = 4
    Buf = 3

INVARIANT
    _inv

CHECK_DEADLOCK
    \* CHECK_DEADLOCK off because of PROPERTY or INVARIANT above.
    FALSE

INIT
    _init

NEXT
    _next

CONSTANT
    _TETrace <- _trace

ALIAS
    _expression
=============================================================================
\* Generated on Mon Oct 05 01:07:48 UTC 2026