---- MODULE RefHeap ----
(* C05.  The reference-counted heap of json_object nodes with a client that follows the
   documented ownership rules.
   State h = [n, ...]: n is a function from live node ids to records
       [kind ("o" | "a" | "l"), rc, held, keys, kids, ud]
   rc = the node's reference count, held = number of references the client holds (ghost: the
   client's own book-keeping), keys/kids = members in order (object) or elements (array), 0 = JSON
   null, ud = token of the user-data destructor installed on the node (0 = none).
   Apply(h, c) executes call c and returns [h, ret, dead, fired, ok]: the new heap, the call's return
   value, the set of nodes destroyed during the call, the set of user-data destructor tokens that
   fired, and whether the call's preconditions (ownership rules) held.
   The property is stated twice: as invariants over this mechanism for every history in a small
   scope (MCRefHeap: a node is alive iff it is reachable from a reference the client holds, counts
   are consistent, nothing dangles) and, through CallStep, as the oracle for recorded executions
   of the real library (TraceRefHeap).  MUT = mutant switches. *)
EXTENDS Naturals, Integers, Sequences, FiniteSets, TLC
CONSTANT MUT

Live(h) == DOMAIN h.n
IsLive(h, id) == id \in DOMAIN h.n
Range(s) == {s[i] : i \in 1..Len(s)}
NodeRec(kind, tok) == [kind |-> kind, rc |-> 1, held |-> 1, keys |-> <<>>, kids |-> <<>>, ud |-> tok]
Res(h, ret, dead, fired) == [h |-> h, ret |-> ret, dead |-> dead, fired |-> fired, ok |-> TRUE]
Bad(h) == [h |-> h, ret |-> 0, dead |-> {}, fired |-> {}, ok |-> FALSE]
Without(f, id) == [x \in (DOMAIN f) \ {id} |-> f[x]]
With(f, id, v) == [x \in (DOMAIN f) \cup {id} |-> IF x = id THEN v ELSE f[x]]

\* release one reference to id (0 = null: nothing); acc = [n, dead, fired]
RECURSIVE Rel(_, _)
RelAll(acc, kids) == LET RECURSIVE F(_, _)
                         F(a, i) == IF i > Len(kids) THEN a ELSE F(Rel(a, kids[i]), i + 1)
                     IN F(acc, 1)
Rel(acc, id) ==
    IF id = 0 THEN acc
    ELSE LET nd == acc.n[id] IN
         IF nd.rc > 1 THEN [acc EXCEPT !.n[id].rc = nd.rc - 1]
         ELSE RelAll([n |-> Without(acc.n, id), dead |-> acc.dead \cup {id},
                      fired |-> IF nd.ud # 0 THEN acc.fired \cup {nd.ud} ELSE acc.fired], nd.kids)
Acc(h) == [n |-> h.n, dead |-> {}, fired |-> {}]
Out(h, acc, ret) == Res([h EXCEPT !.n = acc.n], ret, acc.dead, acc.fired)

\* nodes reachable from id (id itself included), for the no-cycle precondition and deep copy
RECURSIVE Reach(_, _)
Reach(h, id) == IF id = 0 THEN {} ELSE {id} \cup UNION {Reach(h, k) : k \in Range(h.n[id].kids)}
KeyPos(nd, k) == IF \E i \in 1..Len(nd.keys) : nd.keys[i] = k THEN CHOOSE i \in 1..Len(nd.keys) : nd.keys[i] = k ELSE 0
Holds(h, id) == IsLive(h, id) /\ h.n[id].held > 0
\* the client passes one of its references on b (or null) into container a
CanGive(h, a, b) == Holds(h, a) /\ (b = 0 \/ (Holds(h, b) /\ a \notin Reach(h, b)))
\* the container takes over the client's reference: held - 1, rc unchanged
Given(n, b) == IF b = 0 THEN n ELSE [n EXCEPT ![b].held = n[b].held - 1]

New(h, c) == IF IsLive(h, c.a) \/ c.a = 0 THEN Bad(h) ELSE Res([h EXCEPT !.n = With(h.n, c.a, NodeRec(c.kind, c.tok))], 0, {}, {})
Get(h, c) == IF ~Holds(h, c.a) THEN Bad(h) ELSE Res([h EXCEPT !.n[c.a].rc = @ + 1, !.n[c.a].held = @ + 1], 0, {}, {})
Put(h, c) == IF ~Holds(h, c.a) THEN Bad(h)
             ELSE LET acc == Rel(Acc([h EXCEPT !.n[c.a].held = @ - 1]), c.a)
                  IN Out(h, acc, IF c.a \in acc.dead THEN 1 ELSE 0)

\* json_object_object_add(_ex): replace in place (old value released) or append
ObjAdd(h, c) ==
    IF ~Holds(h, c.a) \/ h.n[c.a].kind # "o" THEN Bad(h)
    ELSE IF c.a = c.b THEN Res(h, -1, {}, {})                       \* trivial loop refused, caller keeps its reference
    ELSE IF ~CanGive(h, c.a, c.b) THEN Bad(h)
    ELSE LET nd == h.n[c.a]
             p == KeyPos(nd, c.k)
         IN IF p = 0
            THEN Res([h EXCEPT !.n = Given([h.n EXCEPT ![c.a].keys = Append(nd.keys, c.k), ![c.a].kids = Append(nd.kids, c.b)], c.b)], 0, {}, {})
            ELSE IF c.op = "oaddnew" THEN Bad(h)                   \* KEY_IS_NEW promise broken by the caller
            ELSE LET old == nd.kids[p]
                     n1 == Given([h.n EXCEPT ![c.a].kids[p] = c.b], c.b)
                     acc == IF "replace_no_put" \in MUT THEN [n |-> n1, dead |-> {}, fired |-> {}]
                            ELSE Rel([n |-> n1, dead |-> {}, fired |-> {}], old)
                 IN Out(h, acc, 0)
ObjDel(h, c) ==
    IF ~Holds(h, c.a) \/ h.n[c.a].kind # "o" THEN Bad(h)
    ELSE LET nd == h.n[c.a]
             p == KeyPos(nd, c.k)
         IN IF p = 0 THEN Res(h, 0, {}, {})
            ELSE LET cut(s) == SubSeq(s, 1, p - 1) \o SubSeq(s, p + 1, Len(s))
                     n1 == [h.n EXCEPT ![c.a].keys = cut(nd.keys), ![c.a].kids = cut(nd.kids)]
                     acc == IF "del_no_put" \in MUT THEN [n |-> n1, dead |-> {}, fired |-> {}]
                            ELSE Rel([n |-> n1, dead |-> {}, fired |-> {}], nd.kids[p])
                 IN Out(h, acc, 0)
\* arrays
ArrOk(h, c) == Holds(h, c.a) /\ h.n[c.a].kind = "a"
Nulls(k) == [i \in 1..k |-> 0]
ArrAdd(h, c) ==
    IF ~ArrOk(h, c) \/ ~CanGive(h, c.a, c.b) \/ c.a = c.b THEN Bad(h)
    ELSE Res([h EXCEPT !.n = Given([h.n EXCEPT ![c.a].kids = Append(@, c.b)], c.b)], 0, {}, {})
ArrPut(h, c) ==
    IF ~ArrOk(h, c) \/ ~CanGive(h, c.a, c.b) \/ c.a = c.b THEN Bad(h)
    ELSE LET kids == h.n[c.a].kids IN
         IF c.i < Len(kids)
         THEN LET n1 == Given([h.n EXCEPT ![c.a].kids[c.i + 1] = c.b], c.b)
              IN Out(h, Rel([n |-> n1, dead |-> {}, fired |-> {}], kids[c.i + 1]), 0)
         ELSE Res([h EXCEPT !.n = Given([h.n EXCEPT ![c.a].kids = kids \o Nulls(c.i - Len(kids)) \o <<c.b>>], c.b)], 0, {}, {})
ArrIns(h, c) ==
    IF ~ArrOk(h, c) \/ ~CanGive(h, c.a, c.b) \/ c.a = c.b THEN Bad(h)
    ELSE LET kids == h.n[c.a].kids IN
         IF c.i >= Len(kids)
         THEN Res([h EXCEPT !.n = Given([h.n EXCEPT ![c.a].kids = kids \o Nulls(c.i - Len(kids)) \o <<c.b>>], c.b)], 0, {}, {})
         ELSE Res([h EXCEPT !.n = Given([h.n EXCEPT ![c.a].kids = SubSeq(kids, 1, c.i) \o <<c.b>> \o SubSeq(kids, c.i + 1, Len(kids))], c.b)], 0, {}, {})
ArrDel(h, c) ==
    IF ~ArrOk(h, c) THEN Bad(h)
    ELSE LET kids == h.n[c.a].kids IN
         IF c.i >= Len(kids) \/ c.i + c.cnt > Len(kids) THEN Res(h, -1, {}, {})
         ELSE LET n1 == [h.n EXCEPT ![c.a].kids = SubSeq(kids, 1, c.i) \o SubSeq(kids, c.i + c.cnt + 1, Len(kids))]
              IN Out(h, RelAll([n |-> n1, dead |-> {}, fired |-> {}], SubSeq(kids, c.i + 1, c.i + c.cnt)), 0)

\* borrowed lookup followed by json_object_get on the result: c.b = the node the library returned
Borrow(h, c) ==
    IF ~Holds(h, c.a) THEN Bad(h)
    ELSE LET nd == h.n[c.a]
             kid == IF nd.kind = "o" THEN (IF KeyPos(nd, c.k) = 0 THEN 0 ELSE nd.kids[KeyPos(nd, c.k)])
                    ELSE IF nd.kind = "a" THEN (IF c.i < Len(nd.kids) THEN nd.kids[c.i + 1] ELSE 0)
                    ELSE 0
         IN IF kid # c.b THEN Bad(h)
            ELSE IF kid = 0 THEN Res(h, 0, {}, {})
            ELSE Res([h EXCEPT !.n[kid].rc = @ + 1, !.n[kid].held = @ + 1], 0, {}, {})

\* json_object_set_userdata / set_serializer: the previously installed destructor fires now
SetUd(h, c) == IF ~Holds(h, c.a) THEN Bad(h)
               ELSE Res([h EXCEPT !.n[c.a].ud = c.tok], 0, {}, IF h.n[c.a].ud # 0 THEN {h.n[c.a].ud} ELSE {})

\* json_object_deep_copy: c.newids = ids of the copy's nodes in pre-order; c.deflt = default
\* shallow-copy function, which refuses nodes carrying foreign user data (then nothing survives)
RECURSIVE CopyTree(_, _, _)
\* returns [n, used]: nodes added for a copy of `id`, consuming ids from position `used`+1 of newids
CopyTree(acc, h, id) ==
    LET me == acc.ids[acc.used + 1]
        nd == h.n[id]
        RECURSIVE F(_, _, _)
        F(a, i, kidsOut) == IF i > Len(nd.kids) THEN [a |-> a, kids |-> kidsOut]
                            ELSE IF nd.kids[i] = 0 THEN F(a, i + 1, Append(kidsOut, 0))
                            ELSE LET kidId == a.ids[a.used + 1]
                                     a2 == CopyTree(a, h, nd.kids[i])
                                 IN F(a2, i + 1, Append(kidsOut, kidId))
        r == F([acc EXCEPT !.used = acc.used + 1], 1, <<>>)
    IN [r.a EXCEPT !.n = With(r.a.n, me, [kind |-> nd.kind, rc |-> 1, held |-> 0, keys |-> nd.keys, kids |-> r.kids, ud |-> 0])]
RECURSIVE TreeSize(_, _)
TreeSize(h, id) == IF id = 0 THEN 0
                   ELSE LET nd == h.n[id]
                            RECURSIVE S(_)
                            S(i) == IF i > Len(nd.kids) THEN 0 ELSE TreeSize(h, nd.kids[i]) + S(i + 1)
                        IN 1 + S(1)
Copy(h, c) ==
    IF ~Holds(h, c.a) THEN Bad(h)
    ELSE IF c.deflt = 1 /\ \E x \in Reach(h, c.a) : h.n[x].ud # 0 THEN Res(h, -1, {}, {})
    ELSE IF Len(c.newids) # TreeSize(h, c.a) \/ \E i \in 1..Len(c.newids) : IsLive(h, c.newids[i]) THEN Bad(h)
    ELSE LET r == CopyTree([n |-> h.n, ids |-> c.newids, used |-> 0], h, c.a)
         IN Res([h EXCEPT !.n = [r.n EXCEPT ![c.newids[1]].held = 1]], 0, {}, {})

\* json_pointer_set(&a, path, b): walk all but the last token, then place b there
\* tokens: [t |-> "k", v |-> key] | [t |-> "i", v |-> index] | [t |-> "-"]
\* an object member is named by any token: key ids are n for "k<n>", 1000 + n for the decimal "<n>", 2000 for "-"
TokKey(tk) == IF tk.t = "k" THEN tk.v ELSE IF tk.t = "i" THEN 1000 + tk.v ELSE 2000
RECURSIVE Walk(_, _, _)
Walk(h, id, path) ==
    IF Len(path) = 0 THEN id
    ELSE IF id = 0 THEN -1
    ELSE LET nd == h.n[id]
             tk == Head(path)
             nxt == IF nd.kind = "o" THEN (IF KeyPos(nd, TokKey(tk)) = 0 THEN -1 ELSE nd.kids[KeyPos(nd, TokKey(tk))])
                    ELSE IF nd.kind = "a" /\ tk.t = "i" THEN (IF tk.v < Len(nd.kids) THEN nd.kids[tk.v + 1] ELSE -1)
                    ELSE -1
         IN IF nxt = -1 THEN -1 ELSE Walk(h, nxt, Tail(path))
PtrSet(h, c) ==
    IF ~Holds(h, c.a) \/ ~(c.b = 0 \/ Holds(h, c.b)) \/ Len(c.path) = 0 THEN Bad(h)
    ELSE LET par == Walk(h, c.a, SubSeq(c.path, 1, Len(c.path) - 1))
             tk == c.path[Len(c.path)]
         IN IF par <= 0 THEN Res(h, -1, {}, {})
            ELSE IF c.b # 0 /\ par \in Reach(h, c.b) THEN Bad(h)
            ELSE LET nd == h.n[par]
                     \* the same placement rules as the container calls, on `par` (which the client need not hold)
                     hp == [h EXCEPT !.n[par].held = @ + 1]
                     r == IF nd.kind = "o" THEN ObjAdd(hp, [c EXCEPT !.a = par, !.k = TokKey(tk), !.op = "oadd"])
                          ELSE IF nd.kind = "a" /\ tk.t = "i" THEN ArrPut(hp, [c EXCEPT !.a = par, !.i = tk.v])
                          ELSE IF nd.kind = "a" /\ tk.t = "-" THEN ArrAdd(hp, [c EXCEPT !.a = par])
                          ELSE Res(hp, -1, {}, {})
                 IN IF ~r.ok THEN Bad(h)
                    ELSE [r EXCEPT !.h.n = IF par \in DOMAIN r.h.n THEN [r.h.n EXCEPT ![par].held = @ - 1] ELSE r.h.n]

\* json_patch_apply in place (*base = a) with a one-operation patch: "remove" (c.path) or "move" (c.from -> c.path);
\* paths are non-empty token sequences (the whole-document forms consume the caller's reference and are left out).
\* remove releases the container's reference to the value; move relocates the SAME node (its identity, count and
\* destructor are untouched) and releases a member it replaces.  A move whose value was already taken out when
\* placing it fails releases the value (the document is documented to be left partially modified on failure).
Front(s) == SubSeq(s, 1, Len(s) - 1)
Last(s) == s[Len(s)]
SlotOf(h, par, tk) == LET nd == h.n[par] IN
                      IF nd.kind = "o" THEN KeyPos(nd, TokKey(tk))
                      ELSE IF nd.kind = "a" /\ tk.t = "i" /\ tk.v < Len(nd.kids) THEN tk.v + 1 ELSE 0
CutAt(s, p) == SubSeq(s, 1, p - 1) \o SubSeq(s, p + 1, Len(s))
Unlink(n, par, p) == IF n[par].kind = "o" THEN [n EXCEPT ![par].keys = CutAt(@, p), ![par].kids = CutAt(@, p)]
                     ELSE [n EXCEPT ![par].kids = CutAt(@, p)]
IsProperPrefix(a, b) == Len(a) < Len(b) /\ SubSeq(b, 1, Len(a)) = a
PatchRemove(h, c) ==
    IF ~Holds(h, c.a) \/ Len(c.path) = 0 THEN Bad(h)
    ELSE LET par == Walk(h, c.a, Front(c.path)) IN
         IF par <= 0 THEN Res(h, -1, {}, {})
         ELSE LET p == SlotOf(h, par, Last(c.path)) IN
              IF p = 0 THEN Res(h, -1, {}, {})
              ELSE LET kid == IF "patch_remove_no_put" \in MUT THEN 0 ELSE h.n[par].kids[p]
                   IN Out(h, Rel([n |-> Unlink(h.n, par, p), dead |-> {}, fired |-> {}], kid), 0)
PatchMove(h, c) ==
    IF ~Holds(h, c.a) \/ Len(c.path) = 0 \/ Len(c.from) = 0 THEN Bad(h)
    ELSE IF IsProperPrefix(c.from, c.path) THEN Res(h, -1, {}, {})
    ELSE LET fpar == Walk(h, c.a, Front(c.from)) IN
         IF fpar <= 0 THEN Res(h, -1, {}, {})
         ELSE LET fp == SlotOf(h, fpar, Last(c.from)) IN
              IF fp = 0 THEN Res(h, -1, {}, {})
              ELSE IF c.from = c.path THEN Res(h, 0, {}, {})
              ELSE LET x == h.n[fpar].kids[fp]
                       h1 == [h EXCEPT !.n = Unlink(h.n, fpar, fp)]            \* the operation now owns x
                       tpar == Walk(h1, c.a, Front(c.path))
                       tk == Last(c.path)
                       lose == Out(h, Rel([n |-> h1.n, dead |-> {}, fired |-> {}], x), -1)
                   IN IF tpar <= 0 THEN lose
                      ELSE IF x # 0 /\ tpar \in Reach(h1, x) THEN Bad(h)     \* (x also linked elsewhere: the client built a DAG and now closes a cycle)
                      ELSE LET nd == h1.n[tpar] IN
                           IF nd.kind = "o" THEN
                               LET k == TokKey(tk)  p == KeyPos(nd, k) IN
                               IF p = 0 THEN Res([h EXCEPT !.n = [h1.n EXCEPT ![tpar].keys = Append(nd.keys, k), ![tpar].kids = Append(nd.kids, x)]], 0, {}, {})
                               ELSE Out(h, Rel([n |-> [h1.n EXCEPT ![tpar].kids[p] = x], dead |-> {}, fired |-> {}], nd.kids[p]), 0)
                           ELSE IF nd.kind = "a" /\ tk.t = "-" THEN Res([h EXCEPT !.n = [h1.n EXCEPT ![tpar].kids = Append(nd.kids, x)]], 0, {}, {})
                           ELSE IF nd.kind = "a" /\ tk.t = "i" /\ tk.v <= Len(nd.kids)
                                THEN Res([h EXCEPT !.n = [h1.n EXCEPT ![tpar].kids = SubSeq(nd.kids, 1, tk.v) \o <<x>> \o SubSeq(nd.kids, tk.v + 1, Len(nd.kids))]], 0, {}, {})
                           ELSE lose

Apply(h, c) ==
    CASE c.op = "new" -> New(h, c)
      [] c.op = "get" -> Get(h, c)
      [] c.op = "put" -> Put(h, c)
      [] c.op \in {"oadd", "oaddnew"} -> ObjAdd(h, c)
      [] c.op = "odel" -> ObjDel(h, c)
      [] c.op = "aadd" -> ArrAdd(h, c)
      [] c.op = "aput" -> ArrPut(h, c)
      [] c.op = "ains" -> ArrIns(h, c)
      [] c.op = "adel" -> ArrDel(h, c)
      [] c.op = "borrow" -> Borrow(h, c)
      [] c.op = "setud" -> SetUd(h, c)
      [] c.op = "copy" -> Copy(h, c)
      [] c.op = "ptrset" -> PtrSet(h, c)
      [] c.op = "premove" -> PatchRemove(h, c)
      [] c.op = "pmove" -> PatchMove(h, c)
      [] OTHER -> Bad(h)

\* the recorded call c (with observed ret / dead / fired as sequences) is a step from h
SetOf(s) == {s[i] : i \in 1..Len(s)}
\* c.fault = 1: the harness made an allocation request of this very call fail (and the failure was delivered).  A call
\* that hands a reference to a container, or copies a tree, may then fail: nothing changes, nothing is destroyed, the
\* reference stays with the caller (C05's "failed operations leave ownership with the caller" under real failures)
FaultOf(c) == IF "fault" \in DOMAIN c THEN c.fault ELSE 0
Refusable == {"oadd", "oaddnew", "aadd", "aput", "ains", "ptrset", "copy"}
ApplyF(h, c) == IF FaultOf(c) = 1 /\ c.ret = -1 /\ c.op \in Refusable
                THEN (IF c.op = "copy" THEN (IF Holds(h, c.a) THEN Res(h, -1, {}, {}) ELSE Bad(h))      \* (a failed copy reports no ids)
                      ELSE IF Apply(h, [c EXCEPT !.ret = 0]).ok THEN Res(h, -1, {}, {}) ELSE Bad(h))
                ELSE Apply(h, c)
CallStep(h, c) == LET r == ApplyF(h, c) IN
                  [ok |-> r.ok /\ r.ret = c.ret /\ r.dead = SetOf(c.dead) /\ r.fired = SetOf(c.fired), h |-> r.h]

----------------------------------------------------------------------------
\* what the property says about a heap state
RcConsistent(h) == \A x \in Live(h) :
    h.n[x].rc = h.n[x].held + Cardinality(UNION {{<<p, i>> : i \in {j \in 1..Len(h.n[p].kids) : h.n[p].kids[j] = x}} : p \in Live(h)})
NoDangling(h) == \A x \in Live(h) : Range(h.n[x].kids) \subseteq Live(h) \cup {0}
Roots(h) == {x \in Live(h) : h.n[x].held > 0}
AliveIffOwned(h) == Live(h) = UNION {Reach(h, x) : x \in Roots(h)}
Positive(h) == \A x \in Live(h) : h.n[x].rc > 0 /\ h.n[x].held >= 0
====
