---- MODULE PointerMech ----
(* Mech layer for C12: json_pointer.c as it works on C strings - recursive descent that cuts the path
   at each '/', two-pass in-place unescape ("~1" then "~0") for object members only,
   is_valid_index, the split at the LAST '/' for set.  AsFound switches (the repaired behaviour is
   the default):
     "null_elem"   a null array element is reported as not found (D12a)
     "set_raw"     set uses the raw last token as the member name, no unescape (D12b)
     "empty_idx"   an empty reference token is accepted as array index 0 (D12c) *)
EXTENDS Pointer
CONSTANT AsFound
\* replace every occurrence of the two-byte pattern <<a, b>> by byte r, left to right (strstr loop)
RECURSIVE Repl(_, _, _, _, _)
Repl(s, i, a, b, r) == IF i > Len(s) THEN <<>>
                       ELSE IF i < Len(s) /\ s[i] = a /\ s[i + 1] = b THEN <<r>> \o Repl(s, i + 2, a, b, r)
                       ELSE <<s[i]>> \o Repl(s, i + 1, a, b, r)
UnescapeM(s) == Repl(Repl(s, 1, TILDE, 49, SLASH), 1, TILDE, 48, TILDE)
\* is_valid_index: [ok, idx]
ValidIndexM(tok) ==
    IF Len(tok) = 1 THEN (IF IsDigit(tok[1]) THEN [ok |-> TRUE, idx |-> tok[1] - 48] ELSE [ok |-> FALSE, idx |-> 0])
    ELSE IF Len(tok) = 0 THEN (IF "empty_idx" \in AsFound THEN [ok |-> TRUE, idx |-> 0] ELSE [ok |-> FALSE, idx |-> 0])
    ELSE IF tok[1] = 48 THEN [ok |-> FALSE, idx |-> 0]
    ELSE IF \A i \in 1..Len(tok) : IsDigit(tok[i]) THEN [ok |-> TRUE, idx |-> IndexVal(tok)]
    ELSE [ok |-> FALSE, idx |-> 0]
\* json_pointer_get_single_path on node n (0 = NULL)
GetSingleM(t, n, tok) ==
    IF n # 0 /\ t[n].kind = "a" THEN
        LET v == ValidIndexM(tok) IN
        IF ~v.ok THEN Invalid
        ELSE IF v.idx >= Len(t[n].kids) THEN NotFound
        ELSE IF t[n].kids[v.idx + 1] = 0 /\ "null_elem" \in AsFound THEN NotFound
        ELSE [st |-> "ok", node |-> t[n].kids[v.idx + 1], par |-> n, slot |-> v.idx + 1]
    ELSE IF n # 0 /\ t[n].kind = "o" THEN
        LET p == KeyPos(t[n], UnescapeM(tok)) IN
        IF p = 0 THEN NotFound ELSE [st |-> "ok", node |-> t[n].kids[p], par |-> n, slot |-> p]
    ELSE NotFound                                   \* json_object_object_get_ex on NULL / a scalar
RECURSIVE GetRecM(_, _, _)
\* path (non-empty) must start with '/'; cut at the next '/'
GetRecM(t, n, path) ==
    IF path[1] # SLASH THEN Invalid
    ELSE LET rest == SubSeq(path, 2, Len(path))
             S == {i \in 1..Len(rest) : rest[i] = SLASH}
             cut == IF S = {} THEN 0 ELSE CHOOSE i \in S : \A j \in S : i <= j
             tok == IF cut = 0 THEN rest ELSE SubSeq(rest, 1, cut - 1)
             r == GetSingleM(t, n, tok)
         IN IF r.st # "ok" THEN r
            ELSE IF cut = 0 THEN r
            ELSE GetRecM(t, r.node, SubSeq(rest, cut, Len(rest)))
GetM(t, r, p) == IF Len(p) = 0 THEN [st |-> "ok", node |-> r, par |-> 0, slot |-> 0] ELSE GetRecM(t, r, p)
\* json_pointer_set_single_path
SetSingleM(t, n, tok, v) ==
    IF n # 0 /\ t[n].kind = "a" THEN
        IF tok = <<DASH>> THEN [st |-> "ok", t |-> [t EXCEPT ![n].kids = Append(@, v)]]
        ELSE LET x == ValidIndexM(tok) IN
             IF ~x.ok THEN [st |-> "fail", t |-> t]
             ELSE IF x.idx < Len(t[n].kids) THEN [st |-> "ok", t |-> [t EXCEPT ![n].kids[x.idx + 1] = v]]
             ELSE IF x.idx = Len(t[n].kids) THEN [st |-> "ok", t |-> [t EXCEPT ![n].kids = Append(@, v)]]
             ELSE IF x.idx < 1000000 THEN [st |-> "extends", t |-> [t EXCEPT ![n].kids = @ \o Nulls(x.idx - Len(t[n].kids)) \o <<v>>]]
             ELSE [st |-> "fail", t |-> t]
    ELSE IF n # 0 /\ t[n].kind = "o" THEN
        LET k == IF "set_raw" \in AsFound THEN tok ELSE UnescapeM(tok)
            pos == KeyPos(t[n], k)
        IN IF pos = 0 THEN [st |-> "ok", t |-> [t EXCEPT ![n].keys = Append(@, k), ![n].kids = Append(t[n].kids, v)]]
           ELSE [st |-> "ok", t |-> [t EXCEPT ![n].kids[pos] = v]]
    ELSE [st |-> "fail", t |-> t]
SetM(t, r, p, v) ==
    IF Len(p) = 0 THEN [st |-> "root", t |-> t]
    ELSE IF p[1] # SLASH THEN [st |-> "fail", t |-> t]
    ELSE LET S == {i \in 1..Len(p) : p[i] = SLASH}
             last == CHOOSE i \in S : \A j \in S : j <= i
         IN IF last = 1 THEN SetSingleM(t, r, SubSeq(p, 2, Len(p)), v)
            ELSE LET par == GetRecM(t, r, SubSeq(p, 1, last - 1)) IN
                 IF par.st # "ok" THEN [st |-> "fail", t |-> t]
                 ELSE SetSingleM(t, par.node, SubSeq(p, last + 1, Len(p)), v)
====
