---- MODULE Faults_TTrace_1791162840 ----
EXTENDS Faults, Sequences, TLCExt, Toolbox, Naturals, TLC

_expression ==
    LET Faults_TEExpression == INSTANCE Faults_TEExpression
    IN Faults_TEExpression!expression
----

_trace ==
    LET Faults_TETrace == INSTANCE Faults_TETrace
    IN Faults_TETrace!trace
----

_inv ==
    ~(
        TLCGet("level") = Len(_TETrace)
        /\
        op = (1)
        /\
        pc = (2)
        /\
        cleanup = (<<>>)
        /\
        held = ({"key", "oldslots"})
        /\
        failat = ("tstruct")
        /\
        freed = ({})
        /\
        dbl = (FALSE)
        /\
        linked = ({})
        /\
        status = ("failed")
    )
----

_init ==
    /\ dbl = _TETrace[1].dbl
    /\ op = _TETrace[1].op
    /\ pc = _TETrace[1].pc
    /\ failat = _TETrace[1].failat
    /\ cleanup = _TETrace[1].cleanup
    /\ linked = _TETrace[1].linked
    /\ status = _TETrace[1].status
    /\ held = _TETrace[1].held
    /\ freed = _TETrace[1].freed
----

_next ==
    /\ \E i,j \in DOMAIN _TETrace:
        /\ \/ /\ j = i + 1
              /\ i = TLCGet("level")
        /\ dbl  = _TETrace[i].dbl
        /\ dbl' = _TETrace[j].dbl
        /\ op  = _TETrace[i].op
        /\ op' = _TETrace[j].op
        /\ pc  = _TETrace[i].pc
        /\ pc' = _TETrace[j].pc
        /\ failat  = _TETrace[i].failat
        /\ failat' = _TETrace[j].failat
        /\ cleanup  = _TETrace[i].cleanup
        /\ cleanup' = _TETrace[j].cleanup
        /\ linked  = _TETrace[i].linked
        /\ linked' = _TETrace[j].linked
        /\ status  = _TETrace[i].status
        /\ status' = _TETrace[j].status
        /\ held  = _TETrace[i].held
        /\ held' = _TETrace[j].held
        /\ freed  = _TETrace[i].freed
        /\ freed' = _TETrace[j].freed

\* Uncomment the ASSUME below to write the states of the error trace
\* to the given file in Json format. Note that you can pass any tuple
\* to `JsonSerialize`. For example, a sub-sequence of _TETrace.
    \* ASSUME
    \*     LET J == INSTANCE Json
    \*         IN J!JsonSerialize("Faults_TTrace_1791162840.json", _TETrace)

=============================================================================

 Note that you can extract this module `Faults_TEExpression`
  to a dedicated file to reuse `expression` (the module in the 
  dedicated `Faults_TEExpression.tla` file takes precedence 
  over the module `Faults_TEExpression` below).

---- MODULE Faults_TEExpression ----
EXTENDS Faults, Sequences, TLCExt, Toolbox, Naturals, TLC

expression == 
    [
        \* To hide variables of the `Faults` spec from the error trace,
        \* remove the variables below.  The trace will be written in the order
        \* of the fields of this record.
        dbl |-> dbl
        ,op |-> op
        ,pc |-> pc
        ,failat |-> failat
        ,cleanup |-> cleanup
        ,linked |-> linked
        ,status |-> status
        ,held |-> held
        ,freed |-> freed
        
        \* Put additional constant-, state-, and action-level expressions here:
        \* ,_stateNumber |-> _TEPosition
        \* ,_dblUnchanged |-> dbl = dbl'
        
        \* Format the `dbl` variable as Json value.
        \* ,_dblJson |->
        \*     LET J == INSTANCE Json
        \*     IN J!ToJson(dbl)
        
        \* Lastly, you may build expressions over arbitrary sets of states by
        \* leveraging the _TETrace operator.  For example, this is how to
        \* count the number of times a spec variable changed up to the current
        \* state in the trace.
        \* ,_dblModCount |->
        \*     LET F[s \in DOMAIN _TETrace] ==
        \*         IF s = 1 THEN 0
        \*         ELSE IF _TETrace[s].dbl # _TETrace[s-1].dbl
        \*             THEN 1 + F[s-1] ELSE F[s-1]
        \*     IN F[_TEPosition - 1]
    ]

=============================================================================



Parsing and semantic processing can take forever if the trace below is long.
 In this case, it is advised to uncomment the module below to deserialize the
 trace from a generated binary file.

\*
\*---- MODULE Faults_TETrace ----
\*EXTENDS Faults, IOUtils, TLC
\*
\*trace == IODeserialize("Faults_TTrace_1791162840.bin", TRUE)
\*
\*=============================================================================
\*

---- MODULE Faults_TETrace ----
EXTENDS Faults, TLC

trace == 
    <<
    ([op |-> 1,pc |-> 1,cleanup |-> <<>>,held |-> {"oldslots"},failat |-> "tstruct",freed |-> {},dbl |-> FALSE,linked |-> {},status |-> "run"]),
    ([op |-> 1,pc |-> 2,cleanup |-> <<>>,held |-> {"key", "oldslots"},failat |-> "tstruct",freed |-> {},dbl |-> FALSE,linked |-> {},status |-> "run"]),
    ([op |-> 1,pc |-> 2,cleanup |-> <<>>,held |-> {"key", "oldslots"},failat |-> "tstruct",freed |-> {},dbl |-> FALSE,linked |-> {},status |-> "cleanup"]),
    ([op |-> 1,pc |-> 2,cleanup |-> <<>>,held |-> {"key", "oldslots"},failat |-> "tstruct",freed |-> {},dbl |-> FALSE,linked |-> {},status |-> "failed"])
    >>
----


=============================================================================

---- CONFIG Faults_TTrace_1791162840 ----
CONSTANTS
    AsFoundF = { "objadd_key_leak" }

INVARIANT
    _inv

CHECK_DEADLOCK
    \* CHECK_DEADLOCK off because of PROPERTY or INVARIANT above.
    FALSE

INIT
    _init

NEXT
    _next

CONSTANT
    _TETrace <- _trace

ALIAS
    _expression
=============================================================================
\* Generated on Mon Oct 05 01:14:01 UTC 2026