---- MODULE MCTokSplit_TTrace_1791156601 ----
EXTENDS Sequences, TLCExt, MCTokSplit, Toolbox, Naturals, TLC

_expression ==
    LET MCTokSplit_TEExpression == INSTANCE MCTokSplit_TEExpression
    IN MCTokSplit_TEExpression!expression
----

_trace ==
    LET MCTokSplit_TETrace == INSTANCE MCTokSplit_TETrace
    IN MCTokSplit_TETrace!trace
----

_inv ==
    ~(
        TLCGet("level") = Len(_TETrace)
        /\
        a = ([c |-> 45, done |-> TRUE, err |-> "number", off |-> 1, ret |-> [t |-> "none"], stack |-> <<[st |-> "number", sst |-> "start", cur |-> [t |-> "none"], key |-> <<>>, haskey |-> FALSE]>>, fl |-> [strict |-> FALSE, trailing |-> FALSE, utf8 |-> FALSE], maxd |-> 3, pb |-> <<45>>, stpos |-> 0, isdbl |-> FALSE, quote |-> 0, ucs |-> 0, hs |-> 0, nb |-> 0, isexp |-> FALSE, negok |-> FALSE, posok |-> FALSE, caselen |-> 1, numfresh |-> FALSE, obj |-> [t |-> "none"]])
        /\
        b = ([c |-> 45, done |-> FALSE, err |-> "success", off |-> 1, ret |-> [t |-> "none"], stack |-> <<[st |-> "number", sst |-> "start", cur |-> [t |-> "none"], key |-> <<>>, haskey |-> FALSE]>>, fl |-> [strict |-> FALSE, trailing |-> FALSE, utf8 |-> FALSE], maxd |-> 3, pb |-> <<45, 45>>, stpos |-> 0, isdbl |-> FALSE, quote |-> 0, ucs |-> 0, hs |-> 0, nb |-> 0, isexp |-> FALSE, negok |-> FALSE, posok |-> FALSE, caselen |-> 1, numfresh |-> FALSE, obj |-> [t |-> "none"]])
        /\
        total = (1)
        /\
        n = (2)
    )
----

_init ==
    /\ a = _TETrace[1].a
    /\ b = _TETrace[1].b
    /\ n = _TETrace[1].n
    /\ total = _TETrace[1].total
----

_next ==
    /\ \E i,j \in DOMAIN _TETrace:
        /\ \/ /\ j = i + 1
              /\ i = TLCGet("level")
        /\ a  = _TETrace[i].a
        /\ a' = _TETrace[j].a
        /\ b  = _TETrace[i].b
        /\ b' = _TETrace[j].b
        /\ n  = _TETrace[i].n
        /\ n' = _TETrace[j].n
        /\ total  = _TETrace[i].total
        /\ total' = _TETrace[j].total

\* Uncomment the ASSUME below to write the states of the error trace
\* to the given file in Json format. Note that you can pass any tuple
\* to `JsonSerialize`. For example, a sub-sequence of _TETrace.
    \* ASSUME
    \*     LET J == INSTANCE Json
    \*         IN J!JsonSerialize("MCTokSplit_TTrace_1791156601.json", _TETrace)

=============================================================================

 Note that you can extract this module `MCTokSplit_TEExpression`
  to a dedicated file to reuse `expression` (the module in the 
  dedicated `MCTokSplit_TEExpression.tla` file takes precedence 
  over the module `MCTokSplit_TEExpression` below).

---- MODULE MCTokSplit_TEExpression ----
EXTENDS Sequences, TLCExt, MCTokSplit, Toolbox, Naturals, TLC

expression == 
    [
        \* To hide variables of the `MCTokSplit` spec from the error trace,
        \* remove the variables below.  The trace will be written in the order
        \* of the fields of this record.
        a |-> a
        ,b |-> b
        ,n |-> n
        ,total |-> total
        
        \* Put additional constant-, state-, and action-level expressions here:
        \* ,_stateNumber |-> _TEPosition
        \* ,_aUnchanged |-> a = a'
        
        \* Format the `a` variable as Json value.
        \* ,_aJson |->
        \*     LET J == INSTANCE Json
        \*     IN J!ToJson(a)
        
        \* Lastly, you may build expressions over arbitrary sets of states by
        \* leveraging the _TETrace operator.  For example, this is how to
        \* count the number of times a spec variable changed up to the current
        \* state in the trace.
        \* ,_aModCount |->
        \*     LET F[s \in DOMAIN _TETrace] ==
        \*         IF s = 1 THEN 0
        \*         ELSE IF _TETrace[s].a # _TETrace[s-1].a
        \*             THEN 1 + F[s-1] ELSE F[s-1]
        \*     IN F[_TEPosition - 1]
    ]

=============================================================================



Parsing and semantic processing can take forever if the trace below is long.
 In this case, it is advised to uncomment the module below to deserialize the
 trace from a generated binary file.

\*
\*---- MODULE MCTokSplit_TETrace ----
\*EXTENDS IOUtils, MCTokSplit, TLC
\*
\*trace == IODeserialize("MCTokSplit_TTrace_1791156601.bin", TRUE)
\*
\*=============================================================================
\*

---- MODULE MCTokSplit_TETrace ----
EXTENDS MCTokSplit, TLC

trace == 
    <<
    ([a |-> [c |-> 1, done |-> FALSE, err |-> "success", off |-> 0, ret |-> [t |-> "none"], stack |-> <<[st |-> "eatws", sst |-> "start", cur |-> [t |-> "none"], key |-> <<>>, haskey |-> FALSE]>>, fl |-> [strict |-> FALSE, trailing |-> FALSE, utf8 |-> FALSE], maxd |-> 3, pb |-> <<>>, stpos |-> 0, isdbl |-> FALSE, quote |-> 0, ucs |-> 0, hs |-> 0, nb |-> 0, isexp |-> FALSE, negok |-> TRUE, posok |-> FALSE, caselen |-> 0, numfresh |-> TRUE, obj |-> [t |-> "none"]],b |-> [c |-> 1, done |-> FALSE, err |-> "success", off |-> 0, ret |-> [t |-> "none"], stack |-> <<[st |-> "eatws", sst |-> "start", cur |-> [t |-> "none"], key |-> <<>>, haskey |-> FALSE]>>, fl |-> [strict |-> FALSE, trailing |-> FALSE, utf8 |-> FALSE], maxd |-> 3, pb |-> <<>>, stpos |-> 0, isdbl |-> FALSE, quote |-> 0, ucs |-> 0, hs |-> 0, nb |-> 0, isexp |-> FALSE, negok |-> TRUE, posok |-> FALSE, caselen |-> 0, numfresh |-> TRUE, obj |-> [t |-> "none"]],total |-> 0,n |-> 0]),
    ([a |-> [c |-> 45, done |-> FALSE, err |-> "success", off |-> 1, ret |-> [t |-> "none"], stack |-> <<[st |-> "number", sst |-> "start", cur |-> [t |-> "none"], key |-> <<>>, haskey |-> FALSE]>>, fl |-> [strict |-> FALSE, trailing |-> FALSE, utf8 |-> FALSE], maxd |-> 3, pb |-> <<45>>, stpos |-> 0, isdbl |-> FALSE, quote |-> 0, ucs |-> 0, hs |-> 0, nb |-> 0, isexp |-> FALSE, negok |-> FALSE, posok |-> FALSE, caselen |-> 1, numfresh |-> FALSE, obj |-> [t |-> "none"]],b |-> [c |-> 45, done |-> FALSE, err |-> "success", off |-> 1, ret |-> [t |-> "none"], stack |-> <<[st |-> "number", sst |-> "start", cur |-> [t |-> "none"], key |-> <<>>, haskey |-> FALSE]>>, fl |-> [strict |-> FALSE, trailing |-> FALSE, utf8 |-> FALSE], maxd |-> 3, pb |-> <<45>>, stpos |-> 0, isdbl |-> FALSE, quote |-> 0, ucs |-> 0, hs |-> 0, nb |-> 0, isexp |-> FALSE, negok |-> FALSE, posok |-> FALSE, caselen |-> 1, numfresh |-> FALSE, obj |-> [t |-> "none"]],total |-> 0,n |-> 1]),
    ([a |-> [c |-> 45, done |-> TRUE, err |-> "number", off |-> 1, ret |-> [t |-> "none"], stack |-> <<[st |-> "number", sst |-> "start", cur |-> [t |-> "none"], key |-> <<>>, haskey |-> FALSE]>>, fl |-> [strict |-> FALSE, trailing |-> FALSE, utf8 |-> FALSE], maxd |-> 3, pb |-> <<45>>, stpos |-> 0, isdbl |-> FALSE, quote |-> 0, ucs |-> 0, hs |-> 0, nb |-> 0, isexp |-> FALSE, negok |-> FALSE, posok |-> FALSE, caselen |-> 1, numfresh |-> FALSE, obj |-> [t |-> "none"]],b |-> [c |-> 45, done |-> FALSE, err |-> "success", off |-> 1, ret |-> [t |-> "none"], stack |-> <<[st |-> "number", sst |-> "start", cur |-> [t |-> "none"], key |-> <<>>, haskey |-> FALSE]>>, fl |-> [strict |-> FALSE, trailing |-> FALSE, utf8 |-> FALSE], maxd |-> 3, pb |-> <<45, 45>>, stpos |-> 0, isdbl |-> FALSE, quote |-> 0, ucs |-> 0, hs |-> 0, nb |-> 0, isexp |-> FALSE, negok |-> FALSE, posok |-> FALSE, caselen |-> 1, numfresh |-> FALSE, obj |-> [t |-> "none"]],total |-> 1,n |-> 2])
    >>
----


=============================================================================

---- CONFIG MCTokSplit_TTrace_1791156601 ----
CONSTANTS
    AsFound = { "numresume" }
    Alphabet = { 91 , 93 , 44 , 49 , 45 , 43 , 46 , 101 , 0 , 32 , 73 }
    MaxLen = 6
    MaxDepth = 3
    FlagSets = { 0 , 1 }

INVARIANT
    _inv

CHECK_DEADLOCK
    \* CHECK_DEADLOCK off because of PROPERTY or INVARIANT above.
    FALSE

INIT
    _init

NEXT
    _next

CONSTANT
    _TETrace <- _trace

ALIAS
    _expression
=============================================================================
\* Generated on Sun Oct 04 23:30:02 UTC 2026