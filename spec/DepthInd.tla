---- MODULE DepthInd ----
(* C15, every configured depth: the level stack of json_tokener as a counter machine.  json_tokener_new_ex(D) refuses D < 1 and
   allocates D levels (indices 0..D-1); a value that opens a container at level `depth` is refused with the nesting error when
   depth >= D - 1, otherwise the parser moves to level depth + 1; closing a container moves back.  For EVERY D >= 1 (a symbolic
   integer) and any sequence of opens and closes, however long and hostile:
     IndInv:  0 <= depth <= D - 1   - the index used is always inside the allocated stack, and the deepest level ever entered
              (maxseen) is at most D - 1: a value is accepted exactly when it is enclosed by at most D - 1 containers.
   (TLC explores D in 1..4 on the full transcription; the conformance runs go to D = 40 and 10^5 openers.)
   Switch OffByOne: the test is depth >= D - the index D is then used: not inductive. *)
EXTENDS Integers
CONSTANTS
    \* @type: Bool;
    OffByOne
VARIABLES
    \* @type: Int;
    maxd,
    \* @type: Int;
    depth,
    \* @type: Int;
    maxseen,
    \* @type: Bool;
    err
CInit == OffByOne = FALSE
CInitBad == OffByOne = TRUE
Init == maxd \in Int /\ maxd >= 1 /\ depth = 0 /\ maxseen = 0 /\ err = FALSE
Open == /\ ~err
        /\ IF depth >= (IF OffByOne THEN maxd ELSE maxd - 1)
           THEN err' = TRUE /\ UNCHANGED <<depth, maxseen>>                      \* json_tokener_error_depth
           ELSE depth' = depth + 1 /\ maxseen' = (IF depth + 1 > maxseen THEN depth + 1 ELSE maxseen) /\ UNCHANGED err
        /\ UNCHANGED maxd
Close == ~err /\ depth > 0 /\ depth' = depth - 1 /\ UNCHANGED <<maxd, maxseen, err>>
Next == Open \/ Close
IndInv == /\ maxd \in Int /\ depth \in Int /\ maxseen \in Int /\ err \in BOOLEAN
          /\ maxd >= 1 /\ 0 <= depth /\ depth <= maxd - 1 /\ depth <= maxseen /\ maxseen <= maxd - 1
\* the level index stays inside the D allocated levels; no value enclosed by more than D - 1 containers was ever entered
Safety == depth < maxd /\ maxseen <= maxd - 1
====
