---- MODULE MCPointer_TTrace_1791160677 ----
EXTENDS Sequences, TLCExt, Toolbox, Naturals, TLC, MCPointer

_expression ==
    LET MCPointer_TEExpression == INSTANCE MCPointer_TEExpression
    IN MCPointer_TEExpression!expression
----

_trace ==
    LET MCPointer_TETrace == INSTANCE MCPointer_TETrace
    IN MCPointer_TETrace!trace
----

_inv ==
    ~(
        TLCGet("level") = Len(_TETrace)
        /\
        tree = ((1 :> [kind |-> "o", keys |-> <<<<>>, <<97>>, <<47>>, <<126>>, <<48>>, <<48, 49>>, <<45>>, <<97, 47, 98>>, <<126, 49>>, <<110>>, <<126, 48>>>>, kids |-> <<2, 3, 7, 8, 9, 10, 11, 12, 13, 0, 14>>] @@ 2 :> [kind |-> "l", keys |-> <<>>, kids |-> <<>>] @@ 3 :> [kind |-> "a", keys |-> <<>>, kids |-> <<4, 0, 5>>] @@ 4 :> [kind |-> "l", keys |-> <<>>, kids |-> <<>>] @@ 5 :> [kind |-> "o", keys |-> <<<<98>>>>, kids |-> <<6>>] @@ 6 :> [kind |-> "l", keys |-> <<>>, kids |-> <<>>] @@ 7 :> [kind |-> "l", keys |-> <<>>, kids |-> <<>>] @@ 8 :> [kind |-> "l", keys |-> <<>>, kids |-> <<>>] @@ 9 :> [kind |-> "l", keys |-> <<>>, kids |-> <<>>] @@ 10 :> [kind |-> "l", keys |-> <<>>, kids |-> <<>>] @@ 11 :> [kind |-> "l", keys |-> <<>>, kids |-> <<>>] @@ 12 :> [kind |-> "l", keys |-> <<>>, kids |-> <<>>] @@ 13 :> [kind |-> "l", keys |-> <<>>, kids |-> <<>>] @@ 14 :> [kind |-> "l", keys |-> <<>>, kids |-> <<>>] @@ 99 :> [kind |-> "l", keys |-> <<>>, kids |-> <<>>]))
        /\
        ptr = (<<47, 126, 48>>)
    )
----

_init ==
    /\ tree = _TETrace[1].tree
    /\ ptr = _TETrace[1].ptr
----

_next ==
    /\ \E i,j \in DOMAIN _TETrace:
        /\ \/ /\ j = i + 1
              /\ i = TLCGet("level")
        /\ tree  = _TETrace[i].tree
        /\ tree' = _TETrace[j].tree
        /\ ptr  = _TETrace[i].ptr
        /\ ptr' = _TETrace[j].ptr

\* Uncomment the ASSUME below to write the states of the error trace
\* to the given file in Json format. Note that you can pass any tuple
\* to `JsonSerialize`. For example, a sub-sequence of _TETrace.
    \* ASSUME
    \*     LET J == INSTANCE Json
    \*         IN J!JsonSerialize("MCPointer_TTrace_1791160677.json", _TETrace)

=============================================================================

 Note that you can extract this module `MCPointer_TEExpression`
  to a dedicated file to reuse `expression` (the module in the 
  dedicated `MCPointer_TEExpression.tla` file takes precedence 
  over the module `MCPointer_TEExpression` below).

---- MODULE MCPointer_TEExpression ----
EXTENDS Sequences, TLCExt, Toolbox, Naturals, TLC, MCPointer

expression == 
    [
        \* To hide variables of the `MCPointer` spec from the error trace,
        \* remove the variables below.  The trace will be written in the order
        \* of the fields of this record.
        tree |-> tree
        ,ptr |-> ptr
        
        \* Put additional constant-, state-, and action-level expressions here:
        \* ,_stateNumber |-> _TEPosition
        \* ,_treeUnchanged |-> tree = tree'
        
        \* Format the `tree` variable as Json value.
        \* ,_treeJson |->
        \*     LET J == INSTANCE Json
        \*     IN J!ToJson(tree)
        
        \* Lastly, you may build expressions over arbitrary sets of states by
        \* leveraging the _TETrace operator.  For example, this is how to
        \* count the number of times a spec variable changed up to the current
        \* state in the trace.
        \* ,_treeModCount |->
        \*     LET F[s \in DOMAIN _TETrace] ==
        \*         IF s = 1 THEN 0
        \*         ELSE IF _TETrace[s].tree # _TETrace[s-1].tree
        \*             THEN 1 + F[s-1] ELSE F[s-1]
        \*     IN F[_TEPosition - 1]
    ]

=============================================================================



Parsing and semantic processing can take forever if the trace below is long.
 In this case, it is advised to uncomment the module below to deserialize the
 trace from a generated binary file.

\*
\*---- MODULE MCPointer_TETrace ----
\*EXTENDS IOUtils, TLC, MCPointer
\*
\*trace == IODeserialize("MCPointer_TTrace_1791160677.bin", TRUE)
\*
\*=============================================================================
\*

---- MODULE MCPointer_TETrace ----
EXTENDS TLC, MCPointer

trace == 
    <<
    ([tree |-> (1 :> [kind |-> "o", keys |-> <<<<>>, <<97>>, <<47>>, <<126>>, <<48>>, <<48, 49>>, <<45>>, <<97, 47, 98>>, <<126, 49>>, <<110>>, <<126, 48>>>>, kids |-> <<2, 3, 7, 8, 9, 10, 11, 12, 13, 0, 14>>] @@ 2 :> [kind |-> "l", keys |-> <<>>, kids |-> <<>>] @@ 3 :> [kind |-> "a", keys |-> <<>>, kids |-> <<4, 0, 5>>] @@ 4 :> [kind |-> "l", keys |-> <<>>, kids |-> <<>>] @@ 5 :> [kind |-> "o", keys |-> <<<<98>>>>, kids |-> <<6>>] @@ 6 :> [kind |-> "l", keys |-> <<>>, kids |-> <<>>] @@ 7 :> [kind |-> "l", keys |-> <<>>, kids |-> <<>>] @@ 8 :> [kind |-> "l", keys |-> <<>>, kids |-> <<>>] @@ 9 :> [kind |-> "l", keys |-> <<>>, kids |-> <<>>] @@ 10 :> [kind |-> "l", keys |-> <<>>, kids |-> <<>>] @@ 11 :> [kind |-> "l", keys |-> <<>>, kids |-> <<>>] @@ 12 :> [kind |-> "l", keys |-> <<>>, kids |-> <<>>] @@ 13 :> [kind |-> "l", keys |-> <<>>, kids |-> <<>>] @@ 14 :> [kind |-> "l", keys |-> <<>>, kids |-> <<>>] @@ 99 :> [kind |-> "l", keys |-> <<>>, kids |-> <<>>]),ptr |-> <<>>]),
    ([tree |-> (1 :> [kind |-> "o", keys |-> <<<<>>, <<97>>, <<47>>, <<126>>, <<48>>, <<48, 49>>, <<45>>, <<97, 47, 98>>, <<126, 49>>, <<110>>, <<126, 48>>>>, kids |-> <<2, 3, 7, 8, 9, 10, 11, 12, 13, 0, 14>>] @@ 2 :> [kind |-> "l", keys |-> <<>>, kids |-> <<>>] @@ 3 :> [kind |-> "a", keys |-> <<>>, kids |-> <<4, 0, 5>>] @@ 4 :> [kind |-> "l", keys |-> <<>>, kids |-> <<>>] @@ 5 :> [kind |-> "o", keys |-> <<<<98>>>>, kids |-> <<6>>] @@ 6 :> [kind |-> "l", keys |-> <<>>, kids |-> <<>>] @@ 7 :> [kind |-> "l", keys |-> <<>>, kids |-> <<>>] @@ 8 :> [kind |-> "l", keys |-> <<>>, kids |-> <<>>] @@ 9 :> [kind |-> "l", keys |-> <<>>, kids |-> <<>>] @@ 10 :> [kind |-> "l", keys |-> <<>>, kids |-> <<>>] @@ 11 :> [kind |-> "l", keys |-> <<>>, kids |-> <<>>] @@ 12 :> [kind |-> "l", keys |-> <<>>, kids |-> <<>>] @@ 13 :> [kind |-> "l", keys |-> <<>>, kids |-> <<>>] @@ 14 :> [kind |-> "l", keys |-> <<>>, kids |-> <<>>] @@ 99 :> [kind |-> "l", keys |-> <<>>, kids |-> <<>>]),ptr |-> <<47>>]),
    ([tree |-> (1 :> [kind |-> "o", keys |-> <<<<>>, <<97>>, <<47>>, <<126>>, <<48>>, <<48, 49>>, <<45>>, <<97, 47, 98>>, <<126, 49>>, <<110>>, <<126, 48>>>>, kids |-> <<2, 3, 7, 8, 9, 10, 11, 12, 13, 0, 14>>] @@ 2 :> [kind |-> "l", keys |-> <<>>, kids |-> <<>>] @@ 3 :> [kind |-> "a", keys |-> <<>>, kids |-> <<4, 0, 5>>] @@ 4 :> [kind |-> "l", keys |-> <<>>, kids |-> <<>>] @@ 5 :> [kind |-> "o", keys |-> <<<<98>>>>, kids |-> <<6>>] @@ 6 :> [kind |-> "l", keys |-> <<>>, kids |-> <<>>] @@ 7 :> [kind |-> "l", keys |-> <<>>, kids |-> <<>>] @@ 8 :> [kind |-> "l", keys |-> <<>>, kids |-> <<>>] @@ 9 :> [kind |-> "l", keys |-> <<>>, kids |-> <<>>] @@ 10 :> [kind |-> "l", keys |-> <<>>, kids |-> <<>>] @@ 11 :> [kind |-> "l", keys |-> <<>>, kids |-> <<>>] @@ 12 :> [kind |-> "l", keys |-> <<>>, kids |-> <<>>] @@ 13 :> [kind |-> "l", keys |-> <<>>, kids |-> <<>>] @@ 14 :> [kind |-> "l", keys |-> <<>>, kids |-> <<>>] @@ 99 :> [kind |-> "l", keys |-> <<>>, kids |-> <<>>]),ptr |-> <<47, 126>>]),
    ([tree |-> (1 :> [kind |-> "o", keys |-> <<<<>>, <<97>>, <<47>>, <<126>>, <<48>>, <<48, 49>>, <<45>>, <<97, 47, 98>>, <<126, 49>>, <<110>>, <<126, 48>>>>, kids |-> <<2, 3, 7, 8, 9, 10, 11, 12, 13, 0, 14>>] @@ 2 :> [kind |-> "l", keys |-> <<>>, kids |-> <<>>] @@ 3 :> [kind |-> "a", keys |-> <<>>, kids |-> <<4, 0, 5>>] @@ 4 :> [kind |-> "l", keys |-> <<>>, kids |-> <<>>] @@ 5 :> [kind |-> "o", keys |-> <<<<98>>>>, kids |-> <<6>>] @@ 6 :> [kind |-> "l", keys |-> <<>>, kids |-> <<>>] @@ 7 :> [kind |-> "l", keys |-> <<>>, kids |-> <<>>] @@ 8 :> [kind |-> "l", keys |-> <<>>, kids |-> <<>>] @@ 9 :> [kind |-> "l", keys |-> <<>>, kids |-> <<>>] @@ 10 :> [kind |-> "l", keys |-> <<>>, kids |-> <<>>] @@ 11 :> [kind |-> "l", keys |-> <<>>, kids |-> <<>>] @@ 12 :> [kind |-> "l", keys |-> <<>>, kids |-> <<>>] @@ 13 :> [kind |-> "l", keys |-> <<>>, kids |-> <<>>] @@ 14 :> [kind |-> "l", keys |-> <<>>, kids |-> <<>>] @@ 99 :> [kind |-> "l", keys |-> <<>>, kids |-> <<>>]),ptr |-> <<47, 126, 48>>])
    >>
----


=============================================================================

---- CONFIG MCPointer_TTrace_1791160677 ----
CONSTANTS
    AsFound = { "set_raw" }
    Alphabet = { 47 , 126 , 48 , 49 , 45 , 97 }
    MaxLen = 5

INVARIANT
    _inv

CHECK_DEADLOCK
    \* CHECK_DEADLOCK off because of PROPERTY or INVARIANT above.
    FALSE

INIT
    _init

NEXT
    _next

CONSTANT
    _TETrace <- _trace

ALIAS
    _expression
=============================================================================
\* Generated on Mon Oct 05 00:37:58 UTC 2026