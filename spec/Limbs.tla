---- MODULE Limbs ----
(* Library: exact unsigned integers as little-endian sequences of N limbs in base B (TLC's own
   integers are 32-bit; with B = 65536, N = 4 this is a 64-bit word, N = 5 gives head-room for
   sums).  All operators are parametric in B so that MCLimbs can compare them with native
   arithmetic over a small base exhaustively. *)
EXTENDS Naturals, Integers, Sequences
CONSTANT B
Zero(n) == [i \in 1..n |-> 0]
IsZero(a) == \A i \in 1..Len(a) : a[i] = 0
\* widen / narrow (narrowing drops high limbs: caller guarantees they are zero)
Ext(a, n) == [i \in 1..n |-> IF i <= Len(a) THEN a[i] ELSE 0]
\* compare equal-length magnitudes: -1, 0, 1
RECURSIVE CmpFrom(_, _, _)
CmpFrom(a, b, i) == IF i = 0 THEN 0 ELSE IF a[i] < b[i] THEN -1 ELSE IF a[i] > b[i] THEN 1 ELSE CmpFrom(a, b, i - 1)
Cmp(a, b) == LET n == IF Len(a) > Len(b) THEN Len(a) ELSE Len(b) IN CmpFrom(Ext(a, n), Ext(b, n), n)
\* a + b on n limbs (result n limbs, carry out dropped: caller sizes n so that it cannot happen)
RECURSIVE AddFrom(_, _, _, _, _)
AddFrom(a, b, i, carry, acc) == IF i > Len(a) THEN acc
                                ELSE LET s == a[i] + b[i] + carry IN AddFrom(a, b, i + 1, s \div B, Append(acc, s % B))
Add(a, b) == LET n == IF Len(a) > Len(b) THEN Len(a) ELSE Len(b) IN AddFrom(Ext(a, n), Ext(b, n), 1, 0, <<>>)
\* a - b for a >= b
RECURSIVE SubFrom(_, _, _, _, _)
SubFrom(a, b, i, borrow, acc) == IF i > Len(a) THEN acc
                                 ELSE LET d == a[i] - b[i] - borrow IN
                                      IF d < 0 THEN SubFrom(a, b, i + 1, 1, Append(acc, d + B)) ELSE SubFrom(a, b, i + 1, 0, Append(acc, d))
Sub(a, b) == LET n == IF Len(a) > Len(b) THEN Len(a) ELSE Len(b) IN SubFrom(Ext(a, n), Ext(b, n), 1, 0, <<>>)
\* a * k + c for small k, c (k * B must fit TLC's integers)
RECURSIVE MulFrom(_, _, _, _, _)
MulFrom(a, k, i, carry, acc) == IF i > Len(a) THEN acc
                                ELSE LET p == a[i] * k + carry IN MulFrom(a, k, i + 1, p \div B, Append(acc, p % B))
MulAdd(a, k, c) == MulFrom(a, k, 1, c, <<>>)
\* the carry that MulAdd drops (overflow detection)
MulAddOverflows(a, k, c) == LET RECURSIVE F(_, _)
                                F(i, carry) == IF i > Len(a) THEN carry ELSE F(i + 1, (a[i] * k + carry) \div B)
                            IN F(1, c) # 0
\* 2^s for 0 <= s < log2 B
RECURSIVE Pow2(_)
Pow2(s) == IF s = 0 THEN 1 ELSE 2 * Pow2(s - 1)
\* shift right by whole limbs then bits (bits < log2 B)
ShrLimbs(a, k) == [i \in 1..Len(a) |-> IF i + k <= Len(a) THEN a[i + k] ELSE 0]
ShrBits(a, s) == IF s = 0 THEN a
                 ELSE [i \in 1..Len(a) |-> (a[i] \div Pow2(s)) + (IF i < Len(a) THEN (a[i + 1] % Pow2(s)) * (B \div Pow2(s)) ELSE 0)]
\* shift left by bits (s < log2 B), result on Len(a) limbs (high bits dropped: caller sizes)
ShlBits(a, s) == IF s = 0 THEN a
                 ELSE [i \in 1..Len(a) |-> ((a[i] * Pow2(s)) % B) + (IF i > 1 THEN a[i - 1] \div (B \div Pow2(s)) ELSE 0)]
ShlLimbs(a, k) == [i \in 1..Len(a) |-> IF i > k THEN a[i - k] ELSE 0]
====
