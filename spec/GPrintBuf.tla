---- MODULE GPrintBuf ----
EXTENDS MCPrintBuf, Json
\* ---- behaviour export for direction G: one shortest history per transition of the graph
VARIABLE hist
GInit == Init /\ hist = <<>>
GNext == Next /\ hist' = Append(hist, last')
GSpec == GInit /\ [][GNext]_<<vars, hist>>
GView == <<buf, bpos, size>>
GExport == PrintT(<<"EDGE", ToJson(hist')>>)
====
