---- MODULE PrintBuf ----
(* Mech layer for C19: struct printbuf {buf, bpos, size} with the growth rule and the guards of
   printbuf.c, at the real constants (initial 32, +8, doubling, 128-byte stack buffer of
   sprintbuf, IntMax).  buf is a function 0..size-1 -> byte | JUNK.  Every store goes through
   Store(), which raises `oob` when the index is outside the allocation, so "never writes outside
   the allocation" is the invariant ~oob.  TLC's own 32-bit overflow abort stands in for C int
   overflow: an unguarded  bpos + n + 1  beyond IntMax stops the run.
   MUT is the set of mutant / as-found switches (anti-vacuity). *)
EXTENDS Naturals, Integers, Sequences, TLC
CONSTANTS IntMax, BigAlloc, AppendSizes, MemsetOffs, MemsetLens, SprintfSizes, MaxOps, MaxSize, MUT
VARIABLES buf, bpos, size, oob, last, nops
vars == <<buf, bpos, size, oob, last, nops>>
JUNK == 999
AB == 97  \* byte appended by the model client
CH == 98  \* byte used for fills

Max(a, b) == IF a > b THEN a ELSE b
NoCall == [op |-> "none", n |-> 0, b |-> 0, step |-> 0, off |-> 0, ch |-> 0, ret |-> 0, efbig |-> FALSE]

\* printbuf_extend(p, min): returns [ok, size]
Extend(sz, min) ==
    IF sz >= min THEN [ok |-> TRUE, size |-> sz, efbig |-> FALSE]
    ELSE IF min > IntMax - 8 THEN [ok |-> FALSE, size |-> sz, efbig |-> TRUE]
    ELSE IF sz > IntMax \div 2 THEN [ok |-> TRUE, size |-> min + 8, efbig |-> FALSE]
    ELSE IF "extend_exact" \in MUT THEN [ok |-> TRUE, size |-> min, efbig |-> FALSE]
    ELSE [ok |-> TRUE, size |-> Max(sz * 2, min + 8), efbig |-> FALSE]

Realloc(b, oldsz, newsz) == [i \in 0..(newsz - 1) |-> IF i < oldsz THEN b[i] ELSE JUNK]

\* a block store buf[from .. from+n-1] := val ; reports out-of-bounds
Fill(b, sz, from, n, val) == [i \in 0..(sz - 1) |-> IF i >= from /\ i < from + n THEN val ELSE b[i]]
FillOob(sz, from, n) == n > 0 /\ from + n > sz

\* a request the guards accept but whose buffer is beyond the modelled range (it would really
\* allocate): not expanded; the conformance drivers never issue such a request (ret = -2 marks it)
Huge(c) == /\ last' = [c EXCEPT !.ret = -2] /\ UNCHANGED <<buf, bpos, size, oob>>
Refuse(c, efbig) == /\ last' = [c EXCEPT !.ret = -1, !.efbig = efbig] /\ UNCHANGED <<buf, bpos, size, oob>>

MemAppend(n, val, tag) ==
    LET c == [op |-> tag, n |-> n, b |-> val, step |-> 0, off |-> 0, ch |-> 0, ret |-> 0, efbig |-> FALSE] IN
    IF n < 0 \/ (("append_noguard" \notin MUT) /\ n > IntMax - bpos - 1)
    THEN Refuse(c, TRUE)
    ELSE LET need == IF "append_no_nul_room" \in MUT THEN size < bpos + n ELSE size <= bpos + n + 1
             ex == IF need THEN Extend(size, bpos + n + 1) ELSE [ok |-> TRUE, size |-> size, efbig |-> FALSE]
         IN IF ~ex.ok THEN Refuse(c, ex.efbig)
            ELSE IF ex.size > MaxSize THEN Huge(c)
            ELSE LET b1 == Realloc(buf, size, ex.size)
                     b2 == Fill(b1, ex.size, bpos, n, val)
                     b3 == IF "append_no_nul" \in MUT THEN b2 ELSE Fill(b2, ex.size, bpos + n, 1, 0)
                 IN /\ buf' = b3 /\ size' = ex.size /\ bpos' = bpos + n
                    /\ oob' = (oob \/ FillOob(ex.size, bpos, n) \/ FillOob(ex.size, bpos + n, 1))
                    /\ last' = [c EXCEPT !.ret = n]

Memset(offset, n) ==
    LET off == IF offset = -1 THEN bpos ELSE offset
        c == [op |-> "memset", n |-> n, b |-> 0, step |-> 0, off |-> offset, ch |-> CH, ret |-> 0, efbig |-> FALSE] IN
    IF n < 0 \/ offset < -1 \/ n > IntMax - off
    THEN Refuse(c, TRUE)
    ELSE LET needed == off + n
             ex == IF size < needed THEN Extend(size, needed) ELSE [ok |-> TRUE, size |-> size, efbig |-> FALSE]
         IN IF ~ex.ok THEN Refuse(c, ex.efbig)
            ELSE IF ex.size > MaxSize THEN Huge(c)
            ELSE LET b1 == Realloc(buf, size, ex.size)
                     b2 == IF bpos < off /\ "memset_no_gapfill" \notin MUT THEN Fill(b1, ex.size, bpos, off - bpos, 0) ELSE b1
                     b3 == Fill(b2, ex.size, off, n, CH)
                 IN /\ buf' = b3 /\ size' = ex.size
                    /\ bpos' = IF "memset_bpos_always" \in MUT THEN needed ELSE IF bpos < needed THEN needed ELSE bpos
                    /\ oob' = (oob \/ FillOob(ex.size, off, n) \/ (bpos < off /\ FillOob(ex.size, bpos, off - bpos)))
                    /\ last' = c

\* sprintbuf: output of n bytes; <= 127 from the stack buffer, otherwise vasprintf; both end in memappend
Sprintf(n) == MemAppend(n, AB, IF n > 127 THEN "sprintf_heap" ELSE "sprintf_stack")

Reset == /\ buf' = Fill(buf, size, 0, 1, 0) /\ bpos' = 0 /\ UNCHANGED <<size, oob>>
         /\ last' = [NoCall EXCEPT !.op = "reset"]

Init == /\ size = 32 /\ buf = [i \in 0..31 |-> IF i = 0 THEN 0 ELSE JUNK] /\ bpos = 0 /\ oob = FALSE
        /\ last = [NoCall EXCEPT !.op = "new"] /\ nops = 0

AppendN(n) == MemAppend(n, AB, "append")

Tick == nops < MaxOps /\ nops' = nops + 1
OpAppend  == \E n \in AppendSizes : Tick /\ AppendN(n)
OpMemset  == \E off \in MemsetOffs, n \in MemsetLens : Tick /\ Memset(off, n)
OpSprintf == \E n \in SprintfSizes : Tick /\ Sprintf(n)
OpReset   == Tick /\ Reset
Next == OpAppend \/ OpMemset \/ OpSprintf \/ OpReset
Spec == Init /\ [][Next]_vars

SizeBound == last.ret # -2   \* CONSTRAINT: do not continue after an out-of-range accept

-----------------------------------------------------------------------------
\* refinement to Bytes
AbsBytes == [i \in 1..bpos |-> buf[i - 1]]
B == INSTANCE Bytes WITH bytes <- AbsBytes, call <- last
Refines == B!Spec

InBounds == ~oob
BposOk == bpos >= 0 /\ bpos <= size /\ size >= 1 /\ size <= IntMax
NoJunkVisible == \A i \in 0..(bpos - 1) : buf[i] # JUNK
NulAfterText == (last.op \in {"append", "sprintf_stack", "sprintf_heap", "reset", "new"} /\ last.ret >= 0)
                    => (bpos < size /\ buf[bpos] = 0)
\* refusal never changes anything is part of the action definitions (UNCHANGED); the step form:
RefusalLeavesState == [][last'.ret < 0 => UNCHANGED <<buf, bpos, size>>]_vars
\* a request that fits and is small is never refused
NoSpuriousRefusal == [][(last'.ret = -1) => last'.efbig]_vars
====
