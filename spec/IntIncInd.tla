---- MODULE IntIncInd ----
(* C10, every value and every increment: json_object_int_inc over the mathematical integers with the real constants - all
   2^64 x 2^64 combinations symbolically.  A node holds v in the signed store ("i": INT64_MIN..INT64_MAX) or in the unsigned
   store ("u": 0..UINT64_MAX); `exact` is the ghost value the property speaks of: after every increment it is the true sum
   clamped to INT64_MIN..UINT64_MAX.  `ub` records a C expression of the function whose value would leave the range of its
   type (signed overflow, an out-of-range conversion to int64_t).
   IndInv (inductive, Apalache): the stored value is representable in its store, equals `exact`, and no expression overflowed:
   "increment adds exactly, switching between signed and unsigned representation or saturating at INT64_MIN / UINT64_MAX instead
   of overflowing".
   Switch NegSigned (json-c as found, defect D10c): the unsigned branch computes -val as a signed value, which overflows for
   val = INT64_MIN: not inductive. *)
EXTENDS Integers
CONSTANTS
    \* @type: Bool;
    NegSigned
VARIABLES
    \* @type: Bool;
    unsignedStore,
    \* @type: Int;
    v,
    \* @type: Int;
    exact,
    \* @type: Bool;
    ub
IMAX == 9223372036854775807
IMIN == -9223372036854775808
UMAX == 18446744073709551615
CInit == NegSigned = FALSE
CInitBad == NegSigned = TRUE
InI64(x) == x >= IMIN /\ x <= IMAX
InU64(x) == x >= 0 /\ x <= UMAX
Clamp(x) == IF x < IMIN THEN IMIN ELSE IF x > UMAX THEN UMAX ELSE x
\* json_object_new_int64(x) / json_object_new_uint64(x)
Init == /\ unsignedStore \in BOOLEAN /\ v \in Int /\ (IF unsignedStore THEN InU64(v) ELSE InI64(v)) /\ exact = v /\ ub = FALSE
Inc(val) ==
    /\ exact' = Clamp(exact + val)
    /\ IF ~unsignedStore
       THEN IF val > 0 /\ v > IMAX - val
            THEN unsignedStore' = TRUE /\ v' = v + val /\ ub' = (ub \/ ~InI64(IMAX - val) \/ ~InU64(v) \/ ~InU64(v + val))
            ELSE IF val < 0 /\ v < IMIN - val
            THEN unsignedStore' = FALSE /\ v' = IMIN /\ ub' = (ub \/ ~InI64(IMIN - val))
            ELSE unsignedStore' = FALSE /\ v' = v + val
                 /\ ub' = (ub \/ (val > 0 /\ ~InI64(IMAX - val)) \/ (val < 0 /\ ~InI64(IMIN - val)) \/ ~InI64(v + val))
       ELSE LET negval == 0 - val IN          \* (uint64_t)0 - (uint64_t)val: the magnitude, computed without a signed negation
            IF val > 0 /\ v > UMAX - val
            THEN unsignedStore' = TRUE /\ v' = UMAX /\ UNCHANGED ub
            ELSE IF val < 0 /\ v < negval
            THEN unsignedStore' = FALSE /\ v' = v + val
                 /\ ub' = (ub \/ (NegSigned /\ ~InI64(negval)) \/ ~InI64(v) \/ ~InI64(v + val))       \* (int64_t)c_uint64 + val
            ELSE IF val < 0
            THEN unsignedStore' = TRUE /\ v' = v - negval /\ ub' = (ub \/ (NegSigned /\ ~InI64(negval)) \/ ~InU64(v - negval))
            ELSE unsignedStore' = TRUE /\ v' = v + val /\ ub' = (ub \/ ~InU64(v + val))
Next == \E val \in Int : InI64(val) /\ Inc(val)
IndInv == /\ unsignedStore \in BOOLEAN /\ v \in Int /\ exact \in Int /\ ub \in BOOLEAN
          /\ (IF unsignedStore THEN InU64(v) ELSE InI64(v))
          /\ v = exact /\ ~ub
Safety == v = exact /\ ~ub /\ v >= IMIN /\ v <= UMAX
====
