---- MODULE Grammar ----
(* Abs layer for C01 C15 C16 (and C02): RFC 8259 as a fold over the bytes of a text - one GStep per
   byte, then GEnd.  Deliberately NOT shaped like json-c's character machine: tokens are collected
   whole (string tokens by the Text decoder, bare tokens = maximal runs of non-structural,
   non-white-space bytes, judged when they end by IsNumber / literal comparison) and values are
   assembled on an explicit stack of frames.
   Denote(text) = [ok, v, firstAt]:
     ok      - the text is exactly one RFC 8259 JSON value with optional surrounding white space
     v       - the denoted value (JsonValue model): object members in first-occurrence order with
               the last duplicate's value; strings as decoded bytes; integers (no fraction, no
               exponent) as sign + canonical digits, saturated to the int64/uint64 range (flag
               `big` tells the text exceeded it); other numbers as their token text
     firstAt - firstAt[k+1] = offset of the first value that is enclosed by k containers (0 = none):
               the nesting profile used by C15. *)
EXTENDS Naturals, Integers, Sequences, Text, Wide
MaxNest == 64
STRUCTC == {91, 93, 123, 125, 44, 58}
PutMember(m, k, v) == IF \E i \in 1..Len(m) : m[i].k = k
                      THEN [i \in 1..Len(m) |-> IF m[i].k = k THEN [k |-> k, v |-> v] ELSE m[i]]
                      ELSE Append(m, [k |-> k, v |-> v])

\* ---- bare tokens
RECURSIVE SkipDig(_, _)
SkipDig(s, i) == IF i <= Len(s) /\ s[i] \in DIGIT THEN SkipDig(s, i + 1) ELSE i
\* number = [ minus ] int [ frac ] [ exp ]
IsNumber(t) ==
    LET i0 == IF Len(t) > 0 /\ t[1] = 45 THEN 2 ELSE 1
        i1 == SkipDig(t, i0)
        intok == i1 > i0 /\ (t[i0] # 48 \/ i1 = i0 + 1)          \* no superfluous leading zero
        i2 == IF i1 <= Len(t) /\ t[i1] = 46 THEN SkipDig(t, i1 + 1) ELSE i1
        fracok == i2 = i1 \/ i2 > i1 + 1
        hasexp == i2 <= Len(t) /\ t[i2] \in {101, 69}
        j == IF hasexp THEN (IF i2 + 1 <= Len(t) /\ t[i2 + 1] \in {43, 45} THEN i2 + 2 ELSE i2 + 1) ELSE i2
        i3 == IF hasexp THEN SkipDig(t, j) ELSE i2
        expok == ~hasexp \/ i3 > j
    IN intok /\ fracok /\ expok /\ i3 = Len(t) + 1
IsIntegerToken(t) == \A i \in 1..Len(t) : t[i] \notin {46, 101, 69}
NumberValue(t) ==
    IF IsIntegerToken(t)
    THEN LET neg == t[1] = 45
             ds == [i \in 1..(Len(t) - (IF neg THEN 1 ELSE 0)) |-> t[i + (IF neg THEN 1 ELSE 0)] - 48]
             canon == StripZeros(ds)
         IN [IntValue(neg, canon) EXCEPT !.t = "int"]
    ELSE [t |-> "double", text |-> t]
IntTooBig(t) == IsIntegerToken(t) /\
    LET neg == t[1] = 45
        ds == [i \in 1..(Len(t) - (IF neg THEN 1 ELSE 0)) |-> t[i + (IF neg THEN 1 ELSE 0)] - 48]
        canon == StripZeros(ds)
    IN IF neg THEN CmpDigits(canon, I64MinMag) > 0 ELSE CmpDigits(canon, U64Max) > 0
\* ---- the documented extensions of json-c's default mode, as named deviations (C16)
LowerSeq(t) == [i \in 1..Len(t) |-> IF t[i] >= 65 /\ t[i] <= 90 THEN t[i] + 32 ELSE t[i]]
IsLiteral(t) == t \in {<<116, 114, 117, 101>>, <<102, 97, 108, 115, 101>>, <<110, 117, 108, 108>>}
\* a number with one or more superfluous leading zeros removed / a dangling exponent removed
RECURSIVE DropLeadZeros(_)
DropLeadZeros(t) == LET i0 == IF Len(t) > 0 /\ t[1] = 45 THEN 2 ELSE 1 IN
                    IF i0 + 1 <= Len(t) /\ t[i0] = 48 /\ t[i0 + 1] \in DIGIT
                    THEN DropLeadZeros(SubSeq(t, 1, i0 - 1) \o SubSeq(t, i0 + 1, Len(t))) ELSE t
RECURSIVE DropDangling(_)
DropDangling(t) == IF Len(t) > 1 /\ t[Len(t)] \in {101, 69, 43, 45} THEN DropDangling(SubSeq(t, 1, Len(t) - 1)) ELSE t
\* [ok, v, ext]: permissive reading of a bare token and the listed extensions it uses
BareValuePerm(t) ==
    LET lit == LowerSeq(t)
        t1 == DropLeadZeros(t)
        t2 == DropDangling(t1)
        exts == (IF t1 # t THEN {"leading_zero"} ELSE {}) \cup (IF t2 # t1 THEN {"dangling_exponent"} ELSE {})
    IN IF IsLiteral(lit) THEN [ok |-> TRUE, ext |-> IF lit # t THEN {"literal_case"} ELSE {}]
       ELSE IF Len(t2) > 0 /\ IsNumber(t2) /\ (t2 = t1 \/ \E i \in 1..Len(t2) : t2[i] \in {46, 101, 69} \/ TRUE)
            THEN [ok |-> TRUE, ext |-> exts]
       ELSE [ok |-> FALSE, ext |-> {}]

BareValue(t) == IF t = <<116, 114, 117, 101>> THEN [ok |-> TRUE, v |-> [t |-> "bool", b |-> TRUE], big |-> FALSE]
                ELSE IF t = <<102, 97, 108, 115, 101>> THEN [ok |-> TRUE, v |-> [t |-> "bool", b |-> FALSE], big |-> FALSE]
                ELSE IF t = <<110, 117, 108, 108>> THEN [ok |-> TRUE, v |-> [t |-> "null"], big |-> FALSE]
                ELSE IF Len(t) > 0 /\ IsNumber(t) THEN [ok |-> TRUE, v |-> NumberValue(t), big |-> IntTooBig(t)]
                ELSE [ok |-> FALSE, v |-> [t |-> "none"], big |-> FALSE]

\* ---- the fold
\* g = [mode, stack, bare, dec, iskey, pos, bad, firstAt, res, big]
\*   mode: "val" expect a value | "valc" value or ']' | "keyc" member name or '}' | "key" member name
\*         | "colon" | "after" (',' or closer) | "done"     ;  sub-modes by flags instr / inbare
GInit == [mode |-> "val", stack |-> <<>>, inbare |-> FALSE, bare |-> <<>>, instr |-> FALSE, dec |-> DecInit, iskey |-> FALSE,
          pos |-> 0, bad |-> FALSE, firstAt |-> [i \in 1..MaxNest |-> -1], res |-> [t |-> "none"], big |-> FALSE]
Bad(g) == [g EXCEPT !.bad = TRUE]
Mark(g) == LET k == Len(g.stack) + 1 IN
           IF k <= MaxNest /\ g.firstAt[k] = -1 THEN [g EXCEPT !.firstAt[k] = g.pos] ELSE g
\* a complete value v arrives in the current context
Deliver(g, v) ==
    IF g.stack = <<>> THEN [g EXCEPT !.res = v, !.mode = "done"]
    ELSE LET fr == g.stack[Len(g.stack)] IN
         IF fr.kind = "a" THEN [g EXCEPT !.stack[Len(g.stack)].items = Append(fr.items, v), !.mode = "after"]
         ELSE [g EXCEPT !.stack[Len(g.stack)].items = PutMember(fr.items, fr.key, v), !.mode = "after"]
CloseTop(g, kind) ==
    IF g.stack = <<>> \/ g.stack[Len(g.stack)].kind # kind THEN Bad(g)
    ELSE LET fr == g.stack[Len(g.stack)]
             v == IF kind = "a" THEN [t |-> "array", e |-> fr.items] ELSE [t |-> "object", m |-> fr.items]
         IN Deliver([g EXCEPT !.stack = SubSeq(g.stack, 1, Len(g.stack) - 1)], v)
EndBare(g) == LET b == BareValue(g.bare) IN
              IF b.ok THEN Deliver([g EXCEPT !.inbare = FALSE, !.bare = <<>>, !.big = g.big \/ b.big], b.v) ELSE Bad(g)
\* a byte outside strings and bare tokens
Plain(g, c) ==
    IF c \in WS THEN g
    ELSE IF g.mode \in {"val", "valc"} THEN
        (IF c = 91 THEN [Mark(g) EXCEPT !.stack = Append(g.stack, [kind |-> "a", items |-> <<>>, key |-> <<>>]), !.mode = "valc"]
         ELSE IF c = 123 THEN [Mark(g) EXCEPT !.stack = Append(g.stack, [kind |-> "o", items |-> <<>>, key |-> <<>>]), !.mode = "keyc"]
         ELSE IF c = 93 /\ g.mode = "valc" THEN CloseTop(g, "a")
         ELSE IF c = QUOTE THEN [Mark(g) EXCEPT !.instr = TRUE, !.iskey = FALSE, !.dec = DecStep(DecInit, c)]
         ELSE IF c \in STRUCTC THEN Bad(g)
         ELSE [Mark(g) EXCEPT !.inbare = TRUE, !.bare = <<c>>])
    ELSE IF g.mode \in {"key", "keyc"} THEN
        (IF c = QUOTE THEN [g EXCEPT !.instr = TRUE, !.iskey = TRUE, !.dec = DecStep(DecInit, c)]
         ELSE IF c = 125 /\ g.mode = "keyc" THEN CloseTop(g, "o")
         ELSE Bad(g))
    ELSE IF g.mode = "colon" THEN (IF c = 58 THEN [g EXCEPT !.mode = "val"] ELSE Bad(g))
    ELSE IF g.mode = "after" THEN
        (IF c = 44 THEN [g EXCEPT !.mode = IF g.stack[Len(g.stack)].kind = "a" THEN "val" ELSE "key"]
         ELSE IF c = 93 THEN CloseTop(g, "a")
         ELSE IF c = 125 THEN CloseTop(g, "o")
         ELSE Bad(g))
    ELSE Bad(g)           \* "done": only white space may follow
GStep(g0, c) ==
    LET g == g0 IN
    IF g.bad THEN [g EXCEPT !.pos = g.pos + 1]
    ELSE [ (IF g.instr THEN
              LET d == DecStep(g.dec, c) IN
              IF d.m = "bad" THEN Bad(g)
              ELSE IF d.m = "done"
                   THEN (IF g.iskey THEN [g EXCEPT !.instr = FALSE, !.stack[Len(g.stack)].key = d.out, !.mode = "colon"]
                         ELSE Deliver([g EXCEPT !.instr = FALSE], [t |-> "string", s |-> d.out]))
                   ELSE [g EXCEPT !.dec = d]
            ELSE IF g.inbare THEN
              (IF c \in WS \cup STRUCTC \cup {QUOTE} THEN LET e == EndBare(g) IN IF e.bad THEN e ELSE Plain(e, c)
               ELSE [g EXCEPT !.bare = Append(g.bare, c)])
            ELSE Plain(g, c)) EXCEPT !.pos = g.pos + 1]
GEnd(g) == IF g.bad THEN g ELSE IF g.inbare THEN EndBare(g) ELSE g
Denote(text) == LET g == GEnd(FoldLeft(GStep, GInit, text)) IN
                [ok |-> ~g.bad /\ g.mode = "done" /\ ~g.instr, v |-> g.res, firstAt |-> g.firstAt, big |-> g.big,
                 \* the text is a proper prefix of some valid text as far as the structure shows (used for hostile deep inputs)
                 prefix |-> ~g.bad]
\* ---- permissive recogniser: does the text become valid when the LISTED extensions are allowed,
\* and which of them does it use?  p = [mode, stack (kinds), sub, bare, dec, ext, bad, aftercomma]
\*   sub: "" | "str" | "bare" | "c0" ('/' seen) | "cblock" | "cstar" | "cline"
PInit == [mode |-> "val", stack |-> <<>>, sub |-> "", bare |-> <<>>, dec |-> DecInit, iskey |-> FALSE, ext |-> {}, bad |-> FALSE, ac |-> FALSE, maxd |-> 0]
PBad(p) == [p EXCEPT !.bad = TRUE]
PDeliver(p) == IF p.stack = <<>> THEN [p EXCEPT !.mode = "done"] ELSE [p EXCEPT !.mode = "after"]
PClose(p, kind) == IF p.stack = <<>> \/ p.stack[Len(p.stack)] # kind THEN PBad(p)
                   ELSE PDeliver([p EXCEPT !.stack = SubSeq(p.stack, 1, Len(p.stack) - 1),
                                           !.ext = IF p.ac THEN p.ext \cup {"trailing_comma"} ELSE p.ext, !.ac = FALSE])
PEndBare(p) == LET b == BareValuePerm(p.bare) IN
               IF b.ok THEN PDeliver([p EXCEPT !.sub = "", !.bare = <<>>, !.ext = p.ext \cup b.ext]) ELSE PBad(p)
PPlain(p, c) ==
    IF c \in WS THEN p
    ELSE IF c = 47 THEN [p EXCEPT !.sub = "c0", !.ext = p.ext \cup {"comment"}]
    ELSE IF p.mode = "done" THEN [p EXCEPT !.ext = p.ext \cup {"trailing_chars"}, !.mode = "trail"]
    ELSE IF p.mode = "trail" THEN p
    ELSE IF p.mode = "val" THEN
        \* a value starts here, enclosed by Len(p.stack) containers (maxd: the deepest such nesting)
        (LET q == [p EXCEPT !.maxd = IF Len(p.stack) > p.maxd THEN Len(p.stack) ELSE p.maxd] IN
         IF c = 91 THEN [q EXCEPT !.stack = Append(p.stack, "a"), !.mode = "val", !.ac = FALSE, !.sub = "open"]
         ELSE IF c = 123 THEN [q EXCEPT !.stack = Append(p.stack, "o"), !.mode = "key", !.ac = FALSE, !.sub = "open"]
         ELSE IF c = 93 /\ (p.ac \/ FALSE) THEN PClose(p, "a")
         ELSE IF c \in {QUOTE, 39} THEN [q EXCEPT !.sub = "str", !.iskey = FALSE, !.ac = FALSE, !.dec = DecStep(DecInitQ(c, TRUE), c),
                                                  !.ext = IF c = 39 THEN p.ext \cup {"single_quote"} ELSE p.ext]
         ELSE IF c \in STRUCTC THEN PBad(p)
         ELSE [q EXCEPT !.sub = "bare", !.bare = <<c>>, !.ac = FALSE])
    ELSE IF p.mode = "key" THEN
        (IF c \in {QUOTE, 39} THEN [p EXCEPT !.sub = "str", !.iskey = TRUE, !.ac = FALSE, !.dec = DecStep(DecInitQ(c, TRUE), c),
                                             !.ext = IF c = 39 THEN p.ext \cup {"single_quote"} ELSE p.ext]
         ELSE IF c = 125 /\ p.ac THEN PClose(p, "o")
         ELSE PBad(p))
    ELSE IF p.mode = "colon" THEN (IF c = 58 THEN [p EXCEPT !.mode = "val"] ELSE PBad(p))
    ELSE IF p.mode = "after" THEN
        (IF c = 44 THEN [p EXCEPT !.mode = IF p.stack[Len(p.stack)] = "a" THEN "val" ELSE "key", !.ac = TRUE]
         ELSE IF c = 93 THEN PClose(p, "a")
         ELSE IF c = 125 THEN PClose(p, "o")
         ELSE PBad(p))
    ELSE PBad(p)
PStep(p, c) ==
    IF p.bad THEN p
    ELSE IF p.sub = "open" THEN     \* directly after '[' / '{': the closer is allowed without a comma
        (IF c \in WS THEN p
         ELSE IF c = 93 /\ p.stack[Len(p.stack)] = "a" THEN PClose([p EXCEPT !.sub = ""], "a")
         ELSE IF c = 125 /\ p.stack[Len(p.stack)] = "o" THEN PClose([p EXCEPT !.sub = ""], "o")
         ELSE IF c = 47 THEN [p EXCEPT !.sub = "c0o", !.ext = p.ext \cup {"comment"}]
         ELSE PPlain([p EXCEPT !.sub = ""], c))
    ELSE IF p.sub = "str" THEN
        LET d == DecStep(p.dec, c) IN
        IF d.m = "bad" THEN PBad(p)
        ELSE IF d.m = "done"
             THEN LET q == [p EXCEPT !.sub = "", !.ext = IF d.rawctl THEN p.ext \cup {"raw_control"} ELSE p.ext]
                  IN IF p.iskey THEN [q EXCEPT !.mode = "colon"] ELSE PDeliver(q)
        ELSE [p EXCEPT !.dec = d]
    ELSE IF p.sub = "bare" THEN
        (IF c \in WS \cup STRUCTC \cup {QUOTE, 39, 47} THEN LET e == PEndBare(p) IN IF e.bad THEN e ELSE PPlain(e, c)
         ELSE [p EXCEPT !.bare = Append(p.bare, c)])
    ELSE IF p.sub \in {"c0", "c0o"} THEN
        (IF c = 42 THEN [p EXCEPT !.sub = IF p.sub = "c0" THEN "cblock" ELSE "cblocko"]
         ELSE IF c = 47 THEN [p EXCEPT !.sub = IF p.sub = "c0" THEN "cline" ELSE "clineo"] ELSE PBad(p))
    ELSE IF p.sub \in {"cblock", "cblocko"} THEN (IF c = 42 THEN [p EXCEPT !.sub = IF p.sub = "cblock" THEN "cstar" ELSE "cstaro"] ELSE p)
    ELSE IF p.sub \in {"cstar", "cstaro"} THEN
        (IF c = 47 THEN [p EXCEPT !.sub = IF p.sub = "cstar" THEN "" ELSE "open"]
         ELSE IF c = 42 THEN p ELSE [p EXCEPT !.sub = IF p.sub = "cstar" THEN "cblock" ELSE "cblocko"])
    ELSE IF p.sub \in {"cline", "clineo"} THEN (IF c = 10 THEN [p EXCEPT !.sub = IF p.sub = "cline" THEN "" ELSE "open"] ELSE p)
    ELSE PPlain(p, c)
PEnd(p) == IF p.bad THEN p ELSE IF p.sub = "bare" THEN PEndBare(p) ELSE p
\* [ok, ext]: valid once the listed extensions are allowed, and the extensions used
Permissive(text) == LET p == PEnd(FoldLeft(PStep, PInit, text)) IN
                    [ok |-> ~p.bad /\ p.mode \in {"done", "trail"} /\ p.sub \in {"", "cline"}, ext |-> p.ext, maxd |-> p.maxd]

\* the value with every member name cut at its first NUL byte (json-c's C-string keys): only used to
\* classify a mismatch as the known finding D01a
RECURSIVE CutNames(_)
CutNames(v) ==
    IF v.t = "array" THEN [v EXCEPT !.e = [i \in 1..Len(v.e) |-> CutNames(v.e[i])]]
    ELSE IF v.t = "object"
         THEN LET RECURSIVE F(_, _)
                  F(acc, i) == IF i > Len(v.m) THEN acc ELSE F(PutMember(acc, TakeUntilNul(v.m[i].k), CutNames(v.m[i].v)), i + 1)
              IN [v EXCEPT !.m = F(<<>>, 1)]
    ELSE v

\* number of containers enclosing the most deeply nested value
MaxDepthOf(d) == LET S == {k \in 1..MaxNest : d.firstAt[k] # -1} IN IF S = {} THEN 0 ELSE (CHOOSE k \in S : \A j \in S : j <= k) - 1
\* offset of the first value enclosed by at least D containers (-1 = none)
FirstTooDeep(d, D) == IF D + 1 <= MaxNest THEN d.firstAt[D + 1] ELSE -1
====
