---- MODULE GStrNode ----
(* behaviour export for direction G (C11) *)
EXTENDS MCStrNode, Json
VARIABLE hist
Rec(c) == [op |-> c.op, n |-> c.n, v |-> IF Len(c.data) > 0 THEN c.data[1] ELSE 1]
GInit == Init /\ hist = <<>>
GNext == Next /\ hist' = Append(hist, Rec(last'))
GSpec == GInit /\ [][GNext]_<<vars, hist>>
GView == <<len, inl, heap.b, alive>>
GExport == PrintT(<<"EDGE", ToJson(hist')>>)
====
