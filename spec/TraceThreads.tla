---- MODULE TraceThreads ----
(* Trace specification for C18: recorded runs of the threaded build, judged by the atomic
   specification (Threads.tla with AtomicRMW): "counter" - T threads performed balanced get/put on
   shared nodes: no node was destroyed while the main thread still held its reference, the main
   thread's final put freed every node (count back to exactly 1: no update lost), and every
   destruction callback ran exactly once.  "seed" - threads racing on the first use of the key hash
   with DIFFERENT seed candidates: every thread, early and late, and the main thread later,
   computed the same hash.  "disjoint" - threads on private trees did not interfere.  "lastrefs" - the last T references
   of a node released by T threads at the same instant: one destruction, one 'freed' report per round. *)
EXTENDS Naturals, Integers, Sequences, TLC, Json, IOUtils
VARIABLES st, l
All(s, v) == \A i \in 1..Len(s) : s[i] = v
CounterOk(r) == /\ Len(r.gets) = r.threads /\ All(r.gets, r.ops) /\ All(r.puts, r.ops)
                /\ All(r.destroyed_before_final, 0) /\ All(r.final_put, 1) /\ All(r.destroyed, 1)
SeedOk(r) == r.all_same_full_width /\ All(r.early, r.main) /\ All(r.late, r.main)
\* the last references of a node, one per thread, released at the same instant: destroyed exactly once per round,
\* and exactly one of the puts reported it
LastRefsOk(r) == r.destroyed = r.rounds /\ r.freed_reports = r.rounds /\ r.bad_rounds = 0
\* counts beyond 2^31: releases that are not the last one destroy nothing and report nothing; the last one destroys once
HighCountOk(r) == All(r.destroyed_early, 0) /\ All(r.early_freed_reports, 0) /\ All(r.destroyed, 1)
DisjointOk(r) == All(r.consistent, 1) /\ All(r.freed, 1)
StepOfImpl(s, r) == [ok |-> CASE r.e = "counter" -> CounterOk(r) [] r.e = "seed" -> SeedOk(r) [] r.e = "disjoint" -> DisjointOk(r) [] r.e = "lastrefs" -> LastRefsOk(r) [] r.e = "highcount" -> HighCountOk(r) [] OTHER -> FALSE, st |-> s]
TraceLog == ndJsonDeserialize(IOEnv.TRACE)
T == INSTANCE TraceBase WITH Log <- TraceLog, InitSt <- 0, StepOf <- StepOfImpl, ResyncAtNew <- FALSE
Spec == T!Spec
Done == T!Done
====
