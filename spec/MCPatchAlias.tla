---- MODULE MCPatchAlias ----
(* C13 (TLC), identity level: documents and patch values live in one heap of identified nodes
   (Pointer.tla trees).  add / replace / copy put a value at a location either as an independent
   copy (the specified behaviour) or - switch "share_value", json_patch.c as found - as the very
   node of the patch document / of the source location.  Every sequence of up to MaxOps operations
   from a small universe is applied; invariants: the patch document's values never change
   (PatchUnchanged), nothing reachable from the document is a node of the patch (NoSharingPatch),
   no node is reachable from the document along two paths (NoSharingSelf). *)
EXTENDS Pointer, TLC
CONSTANTS MUT, MaxOps
VARIABLES heap, nops, nextid
vars == <<heap, nops, nextid>>
L(kind, keys, kids) == [kind |-> kind, keys |-> keys, kids |-> kids]
K(c) == <<c>>
\* document (root 1): {"a": {"x": leaf}, "l": [leaf]}; patch values: 20 = {"p": leaf 21}, 22 = leaf, 23 = [leaf 24]
Heap0 == (1 :> L("o", <<K(97), K(108)>>, <<2, 4>>) @@ 2 :> L("o", <<K(120)>>, <<3>>) @@ 3 :> L("l", <<>>, <<>>)
          @@ 4 :> L("a", <<>>, <<5>>) @@ 5 :> L("l", <<>>, <<>>)
          @@ 20 :> L("o", <<K(112)>>, <<21>>) @@ 21 :> L("l", <<>>, <<>>) @@ 22 :> L("l", <<>>, <<>>)
          @@ 23 :> L("a", <<>>, <<24>>) @@ 24 :> L("l", <<>>, <<>>))
PatchRoots == {20, 22, 23}
Ptr(s) == s
P_o == <<47, 111>>                 \* "/o"
P_oy == <<47, 111, 47, 121>>       \* "/o/y"
P_a == <<47, 97>>                  \* "/a"
P_b == <<47, 98>>                  \* "/b"
P_by == <<47, 98, 47, 121>>        \* "/b/y"
P_ax == <<47, 97, 47, 120>>        \* "/a/x"
P_l0 == <<47, 108, 47, 48>>        \* "/l/0"
P_ldash == <<47, 108, 47, 45>>     \* "/l/-"
P_o0 == <<47, 111, 47, 48>>        \* "/o/0"
Ops == { [op |-> "add", path |-> P_o, val |-> 20], [op |-> "add", path |-> P_oy, val |-> 22], [op |-> "add", path |-> P_o, val |-> 23],
         [op |-> "add", path |-> P_o0, val |-> 22], [op |-> "replace", path |-> P_a, val |-> 20], [op |-> "add", path |-> <<47, 97, 47, 121>>, val |-> 22],
         [op |-> "copy", path |-> P_b, from |-> P_a, val |-> 0], [op |-> "add", path |-> P_by, val |-> 22], [op |-> "add", path |-> <<47, 97, 47, 122>>, val |-> 22],
         [op |-> "copy", path |-> P_ldash, from |-> P_l0, val |-> 0], [op |-> "add", path |-> P_ldash, val |-> 23] }
\* deep copy of subtree n into fresh ids starting at `from`: [heap, root, next]
RECURSIVE CopyKids(_, _, _, _)
RECURSIVE Copy(_, _, _)
Copy(h, n, next) ==
    IF n = 0 THEN [h |-> h, root |-> 0, next |-> next]
    ELSE LET me == next
             r == CopyKids(h, h[n].kids, 1, [h |-> h, next |-> next + 1, kids |-> <<>>])
         IN [h |-> [x \in (DOMAIN r.h) \cup {me} |-> IF x = me THEN [h[n] EXCEPT !.kids = r.kids] ELSE r.h[x]], root |-> me, next |-> r.next]
CopyKids(h, kids, i, acc) ==
    IF i > Len(kids) THEN acc
    ELSE LET c == Copy(acc.h, kids[i], acc.next) IN
         CopyKids(h, kids, i + 1, [h |-> c.h, next |-> c.next, kids |-> Append(acc.kids, c.root)])
Place(h, path, v) == Set(h, 1, path, v)        \* (array add at an index replaces in this small model; "-" appends)
ApplyOp(o) ==
    LET src == IF o.op = "copy" THEN Eval(heap, 1, o.from) ELSE [st |-> "ok", node |-> o.val, par |-> 0, slot |-> 0]
    IN IF src.st # "ok" \/ (o.op = "replace" /\ Eval(heap, 1, o.path).st # "ok")
       THEN UNCHANGED <<heap, nextid>>
       ELSE IF "share_value" \in MUT
            THEN LET s == Place(heap, o.path, src.node) IN
                 /\ heap' = (IF s.st \in {"ok", "extends"} THEN s.t ELSE heap)
                 /\ UNCHANGED nextid
            ELSE LET c == Copy(heap, src.node, nextid)
                     s == Place(c.h, o.path, c.root)
                 IN IF s.st \in {"ok", "extends"} THEN heap' = s.t /\ nextid' = c.next ELSE UNCHANGED <<heap, nextid>>
Init == heap = Heap0 /\ nops = 0 /\ nextid = 50
Next == nops < MaxOps /\ nops' = nops + 1 /\ \E o \in Ops : ApplyOp(o)
Spec == Init /\ [][Next]_vars
PatchUnchanged == \A r \in PatchRoots : Visible(heap, r) = Visible(Heap0, r)
NoSharingPatch == ReachSet(heap, 1) \cap UNION {ReachSet(heap, r) : r \in PatchRoots} = {}
\* no node of the document is the child of two slots
NoSharingSelf == \A n \in ReachSet(heap, 1) :
                    Cardinality({<<p, i>> \in ReachSet(heap, 1) \X (1..4) : i <= Len(heap[p].kids) /\ heap[p].kids[i] = n}) <= 1
====
