---- MODULE MCWorld ----
(* bounded exploration of the composed object model: every history of a client over at most MaxN live nodes
   that builds containers and leaves of several types, shares, releases, copies, sets leaf values, sorts,
   places values through pointers and re-parses its own serializations.  Checked: the World invariant and the
   cross-module laws the listed properties imply for ANY history (see the PROPERTIES below). *)
EXTENDS World
CONSTANTS MaxN, Keys, MaxHeld, MaxKids, Ops, MaxIdx
VARIABLES w, last
vars == <<w, last>>
Int0 == [t |-> "int", neg |-> FALSE, d |-> <<0>>]
IntM == [t |-> "int", neg |-> TRUE, d |-> <<7>>]
StrA == [t |-> "string", s |-> <<97, 34>>]
BoolT == [t |-> "bool", b |-> TRUE]
Dbl15 == [t |-> "double", bits |-> <<0, 0, 0, 16376>>, fmt |-> <<49, 46, 53>>, ret |-> <<>>]
LeafVals == {Int0, IntM, StrA, BoolT, Dbl15}
Ids == 1..MaxN
Free == Ids \ R!Live(w)
LeastFree == CHOOSE x \in Free : \A y \in Free : x <= y
Base == [op |-> "none", a |-> 0, b |-> 0, k |-> 0, i |-> 0, cnt |-> 0, kind |-> "l", tok |-> 0, deflt |-> 0,
         newids |-> <<>>, path |-> <<>>, from |-> <<>>, ret |-> 0, dead |-> <<>>, fired |-> <<>>, fault |-> 0, val |-> Int0]
HeldSet == {x \in R!Live(w) : w.n[x].held > 0}
Givable == HeldSet \cup {0}
RECURSIVE FreeSeq(_, _)
FreeSeq(S_, k) == IF k = 0 THEN <<>> ELSE LET x == CHOOSE y \in S_ : \A z \in S_ : y <= z IN <<x>> \o FreeSeq(S_ \ {x}, k - 1)
SetToSeq_(S_) == FreeSeq(S_, Cardinality(S_))
\* a structural candidate carries the outcome RefHeap computes (the trace carries the library's)
Outcome(c) == LET r == R!Apply(w, c) IN [c EXCEPT !.ret = r.ret, !.dead = SetToSeq_(r.dead), !.fired = SetToSeq_(r.fired)]
StructCands ==
    (IF Free # {} THEN {[Base EXCEPT !.op = "new", !.a = LeastFree, !.kind = kd, !.tok = 0, !.val = v] : kd \in {"o", "a"}, v \in {Int0}}
                       \cup {[Base EXCEPT !.op = "new", !.a = LeastFree, !.kind = "l", !.tok = 0, !.val = v] : v \in LeafVals} ELSE {})
    \cup {[Base EXCEPT !.op = "get", !.a = a] : a \in HeldSet}
    \cup {[Base EXCEPT !.op = "put", !.a = a] : a \in HeldSet}
    \cup {[Base EXCEPT !.op = "oadd", !.a = a, !.b = b, !.k = k] : a \in HeldSet, b \in Givable, k \in Keys}
    \cup {[Base EXCEPT !.op = "odel", !.a = a, !.k = k] : a \in HeldSet, k \in Keys}
    \cup {[Base EXCEPT !.op = "aadd", !.a = a, !.b = b] : a \in HeldSet, b \in Givable}
    \cup {[Base EXCEPT !.op = "aput", !.a = a, !.b = b, !.i = i] : a \in HeldSet, b \in Givable, i \in 0..MaxIdx}
    \cup {[Base EXCEPT !.op = "adel", !.a = a, !.i = i, !.cnt = 1] : a \in HeldSet, i \in 0..MaxIdx}
    \cup {[Base EXCEPT !.op = "copy", !.a = a, !.deflt = 1, !.newids = FreeSeq(Free, R!TreeSize(w, a))] :
             a \in {x \in HeldSet : R!TreeSize(w, x) <= Cardinality(Free)}}
    \cup {[Base EXCEPT !.op = "ptrset", !.a = a, !.b = b, !.path = p] : a \in HeldSet, b \in Givable,
             p \in {<<[t |-> "k", v |-> 1]>>, <<[t |-> "i", v |-> 0]>>, <<[t |-> "-", v |-> 0]>>, <<[t |-> "k", v |-> 1], [t |-> "i", v |-> 0]>>}}
TextOf(a, f) == LET t == S!Serialize(ValueOf(w, a), f) IN
                IF "text_unescaped" \in WMUT THEN SelectSeq(t, LAMBDA ch : ch # 92) ELSE t
ParseCands == {[op |-> "parse", a |-> a, b |-> 0, k |-> 0, i |-> 0, cnt |-> 0, kind |-> "l", path |-> <<>>, val |-> Int0, f |-> f,
                 text |-> TextOf(a, f), dump |-> ValueOf(w, a), ret |-> 0,
                 newids |-> FreeSeq(Free, R!TreeSize(w, a))] : a \in {x \in HeldSet : R!TreeSize(w, x) <= Cardinality(Free)}, f \in {0, 3}}
\* C02: whatever tree the client holds, the serializer's text is accepted by the grammar fold and denotes the tree
SerializationParses == \A c \in ParseCands : Parse(w, c).ok
WorldCands ==
    {[Base EXCEPT !.op = "wset", !.a = a, !.val = v, !.ret = IF w.leaf[a].t = v.t THEN 1 ELSE 0] : a \in {x \in HeldSet : w.n[x].kind = "l"}, v \in LeafVals}
    \cup {[Base EXCEPT !.op = "asort", !.a = a] : a \in {x \in HeldSet : w.n[x].kind = "a"}}
    \* the client parses the text the serializer gives for a tree it holds (flags 0 and PRETTY|SPACED)
    \cup ParseCands
PPaths == {<<[t |-> "k", v |-> 1]>>, <<[t |-> "i", v |-> 0]>>, <<[t |-> "-", v |-> 0]>>, <<[t |-> "k", v |-> 1], [t |-> "i", v |-> 0]>>}
ArrOfInt == [t |-> "array", e |-> <<Int0>>]
WPatchCands ==
    {x \in {WPatchComplete(w, [op |-> "wpatch", a |-> a, b |-> 0, k |-> 0, i |-> 0, cnt |-> 0, kind |-> "l", val |-> v, pop |-> po, path |-> p, from |-> f,
                                ret |-> 0, newids |-> <<>>, dead |-> <<>>, fired |-> <<>>], Ids) :
                a \in HeldSet, po \in {"add", "replace", "copy"}, p \in PPaths, f \in {<<[t |-> "k", v |-> 1]>>, <<[t |-> "i", v |-> 0]>>},
                v \in {StrA, ArrOfInt, [t |-> "null"]}} : x.ret # -99}
Step(c) == IF c.op = "new" /\ c.kind = "l"
           THEN LET r == WorldStep(w, Outcome(c)) IN IF r.ok THEN WorldStep(r.w, [op |-> "wleaf", a |-> c.a, val |-> c.val, ret |-> 1]) ELSE r
           ELSE IF c.op \in {"wset", "asort", "parse", "wpatch"} THEN WorldStep(w, c)
           ELSE LET pre == R!Apply(w, c) IN IF pre.ok THEN WorldStep(w, Outcome(c)) ELSE No(w)
Init == w = [n |-> <<>>, leaf |-> <<>>] /\ last = Base
Next == \E c \in {x \in StructCands \cup WorldCands \cup (IF "wpatch" \in Ops THEN WPatchCands ELSE {}) : x.op \in Ops} :
            LET r == Step(c) IN
            /\ r.ok /\ w' = r.w
            /\ last' = IF c.op \in {"wset", "asort", "parse", "wpatch"} THEN c ELSE Outcome(c)
Spec == Init /\ [][Next]_vars
Bound == \A x \in R!Live(w) : w.n[x].held <= MaxHeld /\ Len(w.n[x].kids) <= MaxKids
WView == w
Inv == WorldInv(w)
Vals(ww) == [x \in {y \in R!Live(ww) : ww.n[y].held > 0} |-> ValueOf(ww, x)]
\* C05: a node with an outstanding reference remains fully usable after its former parent is gone -
\*      releasing a reference never changes the value of any node the client still holds
PutKeepsValues == [][last'.op = "put" => \A x \in DOMAIN Vals(w') : Vals(w')[x] = Vals(w)[x]]_vars
\* C09: a deep copy denotes the same value, on fresh nodes, and leaves every existing value as it was
CopyIsEqualAndFresh == [][(last'.op = "copy" /\ last'.ret = 0) =>
                            /\ ValueOf(w', last'.newids[1]) = ValueOf(w, last'.a)
                            /\ V!Equal(ValueOf(w', last'.newids[1]), ValueOf(w', last'.a))
                            /\ \A x \in DOMAIN Vals(w) : Vals(w')[x] = Vals(w)[x]]_vars
\* C11 / C10: setting a leaf changes exactly the values of the nodes it is reachable from (copies are unaffected)
SetIsLocal == [][last'.op = "wset" => \A x \in DOMAIN Vals(w) : (Vals(w')[x] # Vals(w)[x]) => last'.a \in R!Reach(w, x)]_vars
\* C02 / C01: the text of any tree parses to fresh nodes denoting the same value (Parse already requires that the grammar
\*            fold of the serialization denotes the tree); nothing else changes
ParseRoundTrip == [][last'.op = "parse" =>
                       /\ ValueOf(w', last'.newids[1]) = ValueOf(w, last'.a)
                       /\ \A x \in DOMAIN Vals(w) : Vals(w')[x] = Vals(w)[x]]_vars
\* C08 (shape): a refused call changes nothing
RefusalKeeps == [][(last'.op \in {"oadd", "aadd", "aput", "copy", "ptrset", "adel"} /\ last'.ret = -1) => w' = w]_vars
\* C07: sorting permutes the slots of one array and nothing else
SortPermutes == [][last'.op = "asort" => /\ \A x \in R!Live(w) \ {last'.a} : w'.n[x] = w.n[x]
                                         /\ Len(w'.n[last'.a].kids) = Len(w.n[last'.a].kids)
                                         /\ \A y \in Ids \cup {0} : Cardinality({i \in 1..Len(w.n[last'.a].kids) : w.n[last'.a].kids[i] = y})
                                                                  = Cardinality({i \in 1..Len(w'.n[last'.a].kids) : w'.n[last'.a].kids[i] = y})]_vars
\* C13: what a patch adds or copies is a value of its own - the next transitions (leaf sets, releases) are checked by SetIsLocal /
\* PutKeepsValues from these states too; and the operation itself changes only values that contain the target location
PatchIsLocal == [][last'.op = "wpatch" =>
                     /\ (last'.ret = -1 => w' = w)
                     /\ \A x \in DOMAIN Vals(w) : (x \in DOMAIN Vals(w') /\ Vals(w')[x] # Vals(w)[x]) =>
                            LET par == R!Walk(w, last'.a, FrontOf(last'.path)) IN par \in R!Reach(w, x)]_vars
====
