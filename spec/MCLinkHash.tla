---- MODULE MCLinkHash ----
EXTENDS LinkHash
\* residues: size 3: a=2 b=2 c=2 d=0 e=1 (3-way collision + wrap at the last slot);
\* size 6: a=2 b=5 c=2 d=0 e=1 ; size 12: a=2 b=5 c=8 d=0 e=7 (redistribution after doubling)
HashDef == [a |-> 2, b |-> 5, c |-> 8, d |-> 0, e |-> 7]
DelSetsDef == {{"a"}, {"b", "c"}, {"a", "d", "e"}, {"a", "b", "c", "d", "e"}}
====
