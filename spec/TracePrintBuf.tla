---- MODULE TracePrintBuf ----
(* Trace specification for C19: every recorded call of the real print buffer must be a Bytes
   (Abs) step with the recorded arguments and return value, and the recorded observations
   (length, contents or probes, NUL rule) must equal the resulting Abs state. *)
EXTENDS Naturals, Integers, Sequences, TLC, Json, IOUtils
VARIABLES st, l
B == INSTANCE Bytes WITH IntMax <- 2147483647, BigAlloc <- 1048576, bytes <- st, call <- l

Observed(bs, r) ==
    /\ Len(bs) = r.bpos
    /\ r.full => bs = r.content
    /\ \A i \in 1..Len(r.pi) : bs[r.pi[i] + 1] = r.pv[i]
    /\ (r.op \in B!AppendLike /\ r.ret >= 0) => r.nul
    /\ (r.op = "reset") => r.nul

StepOfImpl(bs, r) == LET s == B!CallStep(bs, r) IN
                     IF s.ok THEN [ok |-> Observed(s.bs, r), st |-> s.bs] ELSE [ok |-> FALSE, st |-> bs]
TraceLog == ndJsonDeserialize(IOEnv.TRACE)
T == INSTANCE TraceBase WITH Log <- TraceLog, InitSt <- <<>>, StepOf <- StepOfImpl, ResyncAtNew <- TRUE
Spec == T!Spec
Done == T!Done
====
