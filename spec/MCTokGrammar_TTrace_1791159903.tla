---- MODULE MCTokGrammar_TTrace_1791159903 ----
EXTENDS Sequences, TLCExt, MCTokGrammar, Toolbox, Naturals, TLC

_expression ==
    LET MCTokGrammar_TEExpression == INSTANCE MCTokGrammar_TEExpression
    IN MCTokGrammar_TEExpression!expression
----

_trace ==
    LET MCTokGrammar_TETrace == INSTANCE MCTokGrammar_TETrace
    IN MCTokGrammar_TETrace!trace
----

_inv ==
    ~(
        TLCGet("level") = Len(_TETrace)
        /\
        txt = (<<123, 39, 39, 58, 49, 125, 0>>)
        /\
        tok = ([c |-> 0, done |-> TRUE, maxd |-> 2, fl |-> [strict |-> TRUE, trailing |-> FALSE, utf8 |-> FALSE], err |-> "success", ret |-> [t |-> "object", m |-> <<[v |-> [d |-> <<1>>, t |-> "int", neg |-> FALSE], k |-> <<>>]>>], off |-> 6, stack |-> <<[st |-> "eatws", sst |-> "start", cur |-> [t |-> "none"], key |-> <<>>, haskey |-> FALSE]>>, pb |-> <<49>>, stpos |-> 0, isdbl |-> FALSE, quote |-> 39, ucs |-> 0, hs |-> 0, nb |-> 0, isexp |-> FALSE, negok |-> FALSE, posok |-> FALSE, caselen |-> 1, numfresh |-> FALSE, obj |-> [t |-> "none"]])
    )
----

_init ==
    /\ txt = _TETrace[1].txt
    /\ tok = _TETrace[1].tok
----

_next ==
    /\ \E i,j \in DOMAIN _TETrace:
        /\ \/ /\ j = i + 1
              /\ i = TLCGet("level")
        /\ txt  = _TETrace[i].txt
        /\ txt' = _TETrace[j].txt
        /\ tok  = _TETrace[i].tok
        /\ tok' = _TETrace[j].tok

\* Uncomment the ASSUME below to write the states of the error trace
\* to the given file in Json format. Note that you can pass any tuple
\* to `JsonSerialize`. For example, a sub-sequence of _TETrace.
    \* ASSUME
    \*     LET J == INSTANCE Json
    \*         IN J!JsonSerialize("MCTokGrammar_TTrace_1791159903.json", _TETrace)

=============================================================================

 Note that you can extract this module `MCTokGrammar_TEExpression`
  to a dedicated file to reuse `expression` (the module in the 
  dedicated `MCTokGrammar_TEExpression.tla` file takes precedence 
  over the module `MCTokGrammar_TEExpression` below).

---- MODULE MCTokGrammar_TEExpression ----
EXTENDS Sequences, TLCExt, MCTokGrammar, Toolbox, Naturals, TLC

expression == 
    [
        \* To hide variables of the `MCTokGrammar` spec from the error trace,
        \* remove the variables below.  The trace will be written in the order
        \* of the fields of this record.
        txt |-> txt
        ,tok |-> tok
        
        \* Put additional constant-, state-, and action-level expressions here:
        \* ,_stateNumber |-> _TEPosition
        \* ,_txtUnchanged |-> txt = txt'
        
        \* Format the `txt` variable as Json value.
        \* ,_txtJson |->
        \*     LET J == INSTANCE Json
        \*     IN J!ToJson(txt)
        
        \* Lastly, you may build expressions over arbitrary sets of states by
        \* leveraging the _TETrace operator.  For example, this is how to
        \* count the number of times a spec variable changed up to the current
        \* state in the trace.
        \* ,_txtModCount |->
        \*     LET F[s \in DOMAIN _TETrace] ==
        \*         IF s = 1 THEN 0
        \*         ELSE IF _TETrace[s].txt # _TETrace[s-1].txt
        \*             THEN 1 + F[s-1] ELSE F[s-1]
        \*     IN F[_TEPosition - 1]
    ]

=============================================================================



Parsing and semantic processing can take forever if the trace below is long.
 In this case, it is advised to uncomment the module below to deserialize the
 trace from a generated binary file.

\*
\*---- MODULE MCTokGrammar_TETrace ----
\*EXTENDS IOUtils, MCTokGrammar, TLC
\*
\*trace == IODeserialize("MCTokGrammar_TTrace_1791159903.bin", TRUE)
\*
\*=============================================================================
\*

---- MODULE MCTokGrammar_TETrace ----
EXTENDS MCTokGrammar, TLC

trace == 
    <<
    ([txt |-> <<>>,tok |-> [c |-> 1, done |-> FALSE, maxd |-> 2, fl |-> [strict |-> TRUE, trailing |-> FALSE, utf8 |-> FALSE], err |-> "success", ret |-> [t |-> "none"], off |-> 0, stack |-> <<[st |-> "eatws", sst |-> "start", cur |-> [t |-> "none"], key |-> <<>>, haskey |-> FALSE]>>, pb |-> <<>>, stpos |-> 0, isdbl |-> FALSE, quote |-> 0, ucs |-> 0, hs |-> 0, nb |-> 0, isexp |-> FALSE, negok |-> TRUE, posok |-> FALSE, caselen |-> 0, numfresh |-> TRUE, obj |-> [t |-> "none"]]]),
    ([txt |-> <<123>>,tok |-> [c |-> 123, done |-> FALSE, maxd |-> 2, fl |-> [strict |-> TRUE, trailing |-> FALSE, utf8 |-> FALSE], err |-> "success", ret |-> [t |-> "none"], off |-> 1, stack |-> <<[st |-> "eatws", sst |-> "object_field_start", cur |-> [t |-> "object", m |-> <<>>], key |-> <<>>, haskey |-> FALSE]>>, pb |-> <<>>, stpos |-> 0, isdbl |-> FALSE, quote |-> 0, ucs |-> 0, hs |-> 0, nb |-> 0, isexp |-> FALSE, negok |-> TRUE, posok |-> FALSE, caselen |-> 0, numfresh |-> TRUE, obj |-> [t |-> "none"]]]),
    ([txt |-> <<123, 39>>,tok |-> [c |-> 39, done |-> FALSE, maxd |-> 2, fl |-> [strict |-> TRUE, trailing |-> FALSE, utf8 |-> FALSE], err |-> "success", ret |-> [t |-> "none"], off |-> 2, stack |-> <<[st |-> "object_field", sst |-> "object_field_start", cur |-> [t |-> "object", m |-> <<>>], key |-> <<>>, haskey |-> FALSE]>>, pb |-> <<>>, stpos |-> 0, isdbl |-> FALSE, quote |-> 39, ucs |-> 0, hs |-> 0, nb |-> 0, isexp |-> FALSE, negok |-> TRUE, posok |-> FALSE, caselen |-> 0, numfresh |-> TRUE, obj |-> [t |-> "none"]]]),
    ([txt |-> <<123, 39, 39>>,tok |-> [c |-> 39, done |-> FALSE, maxd |-> 2, fl |-> [strict |-> TRUE, trailing |-> FALSE, utf8 |-> FALSE], err |-> "success", ret |-> [t |-> "none"], off |-> 3, stack |-> <<[st |-> "eatws", sst |-> "object_field_end", cur |-> [t |-> "object", m |-> <<>>], key |-> <<>>, haskey |-> TRUE]>>, pb |-> <<>>, stpos |-> 0, isdbl |-> FALSE, quote |-> 39, ucs |-> 0, hs |-> 0, nb |-> 0, isexp |-> FALSE, negok |-> TRUE, posok |-> FALSE, caselen |-> 0, numfresh |-> TRUE, obj |-> [t |-> "none"]]]),
    ([txt |-> <<123, 39, 39, 58>>,tok |-> [c |-> 58, done |-> FALSE, maxd |-> 2, fl |-> [strict |-> TRUE, trailing |-> FALSE, utf8 |-> FALSE], err |-> "success", ret |-> [t |-> "none"], off |-> 4, stack |-> <<[st |-> "eatws", sst |-> "object_value", cur |-> [t |-> "object", m |-> <<>>], key |-> <<>>, haskey |-> TRUE]>>, pb |-> <<>>, stpos |-> 0, isdbl |-> FALSE, quote |-> 39, ucs |-> 0, hs |-> 0, nb |-> 0, isexp |-> FALSE, negok |-> TRUE, posok |-> FALSE, caselen |-> 0, numfresh |-> TRUE, obj |-> [t |-> "none"]]]),
    ([txt |-> <<123, 39, 39, 58, 49>>,tok |-> [c |-> 49, done |-> FALSE, maxd |-> 2, fl |-> [strict |-> TRUE, trailing |-> FALSE, utf8 |-> FALSE], err |-> "success", ret |-> [t |-> "none"], off |-> 5, stack |-> <<[st |-> "object_value_add", sst |-> "object_value", cur |-> [t |-> "object", m |-> <<>>], key |-> <<>>, haskey |-> TRUE], [st |-> "number", sst |-> "start", cur |-> [t |-> "none"], key |-> <<>>, haskey |-> FALSE]>>, pb |-> <<49>>, stpos |-> 0, isdbl |-> FALSE, quote |-> 39, ucs |-> 0, hs |-> 0, nb |-> 0, isexp |-> FALSE, negok |-> FALSE, posok |-> FALSE, caselen |-> 1, numfresh |-> FALSE, obj |-> [t |-> "none"]]]),
    ([txt |-> <<123, 39, 39, 58, 49, 125>>,tok |-> [c |-> 125, done |-> FALSE, maxd |-> 2, fl |-> [strict |-> TRUE, trailing |-> FALSE, utf8 |-> FALSE], err |-> "success", ret |-> [t |-> "none"], off |-> 6, stack |-> <<[st |-> "eatws", sst |-> "finish", cur |-> [t |-> "object", m |-> <<[v |-> [d |-> <<1>>, t |-> "int", neg |-> FALSE], k |-> <<>>]>>], key |-> <<>>, haskey |-> FALSE]>>, pb |-> <<49>>, stpos |-> 0, isdbl |-> FALSE, quote |-> 39, ucs |-> 0, hs |-> 0, nb |-> 0, isexp |-> FALSE, negok |-> FALSE, posok |-> FALSE, caselen |-> 1, numfresh |-> FALSE, obj |-> [t |-> "none"]]]),
    ([txt |-> <<123, 39, 39, 58, 49, 125, 0>>,tok |-> [c |-> 0, done |-> TRUE, maxd |-> 2, fl |-> [strict |-> TRUE, trailing |-> FALSE, utf8 |-> FALSE], err |-> "success", ret |-> [t |-> "object", m |-> <<[v |-> [d |-> <<1>>, t |-> "int", neg |-> FALSE], k |-> <<>>]>>], off |-> 6, stack |-> <<[st |-> "eatws", sst |-> "start", cur |-> [t |-> "none"], key |-> <<>>, haskey |-> FALSE]>>, pb |-> <<49>>, stpos |-> 0, isdbl |-> FALSE, quote |-> 39, ucs |-> 0, hs |-> 0, nb |-> 0, isexp |-> FALSE, negok |-> FALSE, posok |-> FALSE, caselen |-> 1, numfresh |-> FALSE, obj |-> [t |-> "none"]]])
    >>
----


=============================================================================

---- CONFIG MCTokGrammar_TTrace_1791159903 ----
CONSTANTS
    AsFound = { "sq_name" }
    Alphabet = { 123 , 125 , 58 , 44 , 34 , 39 , 97 , 49 }
    MaxLen = 7
    Depths = { 2 }
    FlagSets = { 0 , 1 }

INVARIANT
    _inv

CHECK_DEADLOCK
    \* CHECK_DEADLOCK off because of PROPERTY or INVARIANT above.
    FALSE

INIT
    _init

NEXT
    _next

CONSTANT
    _TETrace <- _trace

ALIAS
    _expression
=============================================================================
\* Generated on Mon Oct 05 00:25:11 UTC 2026