---- MODULE StrNodeInd ----
(* C11, every length: the length bookkeeping of a string node (json_object.c: _json_object_new_string, _json_object_set_string_len,
   json_object_get_string_len) over the integers with the real constants.  A node stores its bytes inside itself ("inline",
   capacity fixed at creation) or, once a set needed more room than the CURRENT length, in a separate buffer ("heap", capacity =
   the length it was allocated for); the length field is an ssize_t whose sign tells the two apart; the accessor returns an int.
   Contents are abstracted away (StrBytes / StrNode and the conformance runs judge them).
   IndInv (inductive, Apalache): 0 <= len <= cap (every write of len + 1 bytes stays inside the storage in use), and
   len <= INT_MAX - 2: what json_object_get_string_len reports (an int) is the count of the bytes - for EVERY requested length
   in 0..SIZE_MAX; malloc may fail at any call; a refused or failed call changes nothing.
   Switch NewUnguarded: the constructor without the INT_MAX cap (json-c as found, defect D11a): not inductive. *)
EXTENDS Integers
CONSTANTS
    \* @type: Bool;
    NewUnguarded
VARIABLES
    \* @type: Bool;
    exists,
    \* @type: Bool;
    heap,
    \* @type: Int;
    len,
    \* @type: Int;
    cap,
    \* @type: Int;
    ret
INTMAX == 2147483647
SSIZEMAX == 9223372036854775807
SMAX == 18446744073709551615
HDR == 48      \* sizeof(struct json_object_string) - sizeof(c_string): any small positive number does
CInit == NewUnguarded = FALSE
CInitBad == NewUnguarded = TRUE
Init == exists = FALSE /\ heap = FALSE /\ len = 0 /\ cap = 0 /\ ret = 0
Requests == 0..SMAX
New(n, mallocOk) ==
    /\ ~exists
    /\ IF n > SSIZEMAX - HDR - 1 \/ (~NewUnguarded /\ n >= INTMAX - 1) \/ ~mallocOk
       THEN ret' = 0 /\ UNCHANGED <<exists, heap, len, cap>>
       ELSE exists' = TRUE /\ heap' = FALSE /\ len' = n /\ cap' = (IF n < 8 THEN 8 ELSE n) /\ ret' = 1
Set(n, mallocOk) ==
    /\ exists
    /\ IF n >= INTMAX - 1 THEN ret' = 0 /\ UNCHANGED <<exists, heap, len, cap>>
       ELSE IF heap /\ n = 0 THEN heap' = FALSE /\ len' = 0 /\ cap' = 8 /\ ret' = 1 /\ UNCHANGED exists      \* buffer freed, back inside the node (>= 8 bytes there)
       ELSE IF n > len
            THEN (IF mallocOk THEN heap' = TRUE /\ len' = n /\ cap' = n /\ ret' = 1 /\ UNCHANGED exists
                  ELSE ret' = 0 /\ UNCHANGED <<exists, heap, len, cap>>)
            ELSE len' = n /\ ret' = 1 /\ UNCHANGED <<exists, heap, cap>>                              \* in place: n <= len <= cap
Delete == exists /\ exists' = FALSE /\ heap' = FALSE /\ len' = 0 /\ cap' = 0 /\ ret' = 0
Next == \E ok \in BOOLEAN : \E n \in Requests : New(n, ok) \/ Set(n, ok) \/ Delete
IndInv == /\ exists \in BOOLEAN /\ heap \in BOOLEAN /\ len \in Int /\ cap \in Int /\ ret \in Int
          /\ 0 <= len /\ len <= cap /\ len <= INTMAX - 2
          /\ (~exists => (len = 0 /\ ~heap))
\* the int that json_object_get_string_len returns is the count; the terminator at index len is inside the storage (cap + 1 bytes)
Safety == len <= INTMAX /\ len + 1 <= cap + 1
====
