---- MODULE FdIO ----
(* C20.  Abs + Mech for json_object_to_fd / json_object_from_fd_ex.
   Writing: the serialization `text` is handed to write() from position wpos; every call transfers any
   number 1..remaining of bytes or fails.  Property: on success the descriptor received exactly
   text, once and in order; a failing write makes the call fail (-1) with a message.
   Reading: read() returns any 1..min(BufSize, remaining) bytes, 0 at the end, or fails; the bytes
   are accumulated and parsed ONCE with their exact length and the configured depth, so the result
   is that of parsing the same bytes from memory in one call (Tokener!Call) for every schedule.
   Run(...) operators are fold-shaped over a schedule (sequence of per-call outcomes: n > 0 =
   transfer at most n bytes, n < 0 = fail) so that the same operators judge recorded executions.
   MUTF switches: "ignore_short_write" (advance by the requested count), "parse_per_read". *)
EXTENDS Naturals, Integers, Sequences, Functions, SequencesExt
CONSTANT MUTF
Min2(a, b) == IF a < b THEN a ELSE b
\* ---- write side: state [wpos, out, st ("run" | "ok" | "err"), calls]
WInit == [wpos |-> 0, out |-> <<>>, st |-> "run", calls |-> 0]
WStep(text, w, s) ==
    IF w.st # "run" THEN w
    ELSE IF w.wpos >= Len(text) THEN [w EXCEPT !.st = "ok"]
    ELSE IF s < 0 THEN [w EXCEPT !.st = "err", !.calls = w.calls + 1]
    ELSE LET rem == Len(text) - w.wpos
             k == IF s = 0 THEN rem ELSE Min2(s, rem)
             adv == IF "ignore_short_write" \in MUTF THEN rem ELSE k
         IN [w EXCEPT !.out = w.out \o SubSeq(text, w.wpos + 1, w.wpos + k), !.wpos = w.wpos + adv, !.calls = w.calls + 1]
WriteRun(text, sched) ==
    LET r == FoldLeft(LAMBDA w, s : WStep(text, w, s), WInit, sched)
    IN IF r.st = "run" /\ r.wpos >= Len(text) THEN [r EXCEPT !.st = "ok"] ELSE r
\* ---- read side: state [rpos, acc, st ("run" | "eof" | "err")]
RInit == [rpos |-> 0, acc |-> <<>>, st |-> "run", chunks |-> <<>>]
RStep(data, buf, r, s) ==
    IF r.st # "run" THEN r
    ELSE IF s < 0 THEN [r EXCEPT !.st = "err"]
    ELSE LET rem == Len(data) - r.rpos
             k == Min2(IF s = 0 THEN buf ELSE Min2(s, buf), rem)
         IN IF rem = 0 THEN [r EXCEPT !.st = "eof"]
            ELSE [r EXCEPT !.acc = r.acc \o SubSeq(data, r.rpos + 1, r.rpos + k), !.rpos = r.rpos + k,
                           !.chunks = Append(r.chunks, SubSeq(data, r.rpos + 1, r.rpos + k))]
ReadRun(data, buf, sched) ==
    LET r == FoldLeft(LAMBDA x, s : RStep(data, buf, x, s), RInit, sched)
    IN IF r.st = "run" /\ r.rpos >= Len(data) THEN [r EXCEPT !.st = "eof"] ELSE r
====
