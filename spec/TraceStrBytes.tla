---- MODULE TraceStrBytes ----
(* Trace specification for C11: each recorded creation / set on a real string node must be a
   StrBytes step; the bytes read back, the reported length, the terminating NUL, equality with an
   identical and with a last-byte-different node, the deep copy and the denotation of the
   serialized text must all agree with the abstract byte sequence; deletion must leave no
   allocation behind. *)
EXTENDS Naturals, Integers, Sequences, TLC, Json, IOUtils
VARIABLES st, l
S == INSTANCE StrBytes WITH str <- st, call <- l, IntMax <- 2147483647, BigAlloc <- 1048576

Observed(s, r) ==
    /\ r.len = Len(s) /\ r.bytes = s /\ r.nul
    /\ r.eq_same /\ ~r.eq_diff
    /\ r.copy = s
    /\ S!DecodeStringToken(r.ser) = [ok |-> TRUE, bytes |-> s]
\* "newbig": a node made from a C string longer than INT_MAX (a probe beside the node under test): the length accessor is an
\* int, so either the constructor refuses or the length it reports is the count of the bytes
StepOfImpl(s, r) ==
    IF r.op = "newbig" THEN [ok |-> ~r.created \/ r.len_is_count, st |-> s]
    ELSE IF r.op = "delete" THEN [ok |-> r.leak = 0, st |-> <<>>]
    ELSE LET x == S!CallStep(s, r) IN
         IF x.ok THEN [ok |-> Observed(x.s, r), st |-> x.s] ELSE [ok |-> FALSE, st |-> s]
TraceLog == ndJsonDeserialize(IOEnv.TRACE)
T == INSTANCE TraceBase WITH Log <- TraceLog, InitSt <- <<>>, StepOf <- StepOfImpl, ResyncAtNew <- TRUE
Spec == T!Spec
Done == T!Done
====
