---- MODULE Text ----
(* Library: texts are sequences of bytes 0..255.  Character classes, hex, UTF-8 encoding and the
   RFC 8259 string-token decoder (fold-shaped: one step per byte, no recursion on position).
   Decoding follows the denotation fixed by property C01: a \uXXXX high surrogate followed by a
   \uXXXX low surrogate denotes the combined scalar value; any other surrogate code unit denotes
   U+FFFD. *)
EXTENDS Naturals, Integers, Sequences, Functions, SequencesExt
WS == {32, 9, 10, 13}
DIGIT == 48..57
HEXD == DIGIT \cup (65..70) \cup (97..102)
HexVal(c) == IF c <= 57 THEN c - 48 ELSE IF c <= 70 THEN c - 55 ELSE c - 87
QUOTE == 34
BSL == 92
Utf8(u) == IF u < 128 THEN <<u>>
           ELSE IF u < 2048 THEN <<192 + u \div 64, 128 + (u % 64)>>
           ELSE IF u < 65536 THEN <<224 + u \div 4096, 128 + ((u \div 64) % 64), 128 + (u % 64)>>
           ELSE <<240 + u \div 262144, 128 + ((u \div 4096) % 64), 128 + ((u \div 64) % 64), 128 + (u % 64)>>
REPL == <<239, 191, 189>>           \* U+FFFD
IsHi(u) == u >= 55296 /\ u <= 56319
IsLo(u) == u >= 56320 /\ u <= 57343
Combine(hi, lo) == 65536 + (hi - 55296) * 1024 + (lo - 56320)
SimpleEsc(c) == CASE c = 34 -> 34 [] c = 92 -> 92 [] c = 47 -> 47 [] c = 98 -> 8 [] c = 102 -> 12
                  [] c = 110 -> 10 [] c = 114 -> 13 [] c = 116 -> 9 [] OTHER -> -1

\* ---- string token decoder: state [m, out, ucs, k, hi]
\*  m: "open" (expect opening quote) | "body" | "esc" | "hex" | "done" | "bad"
DecInitQ(q, perm) == [m |-> "open", out |-> <<>>, ucs |-> 0, k |-> 0, hi |-> 0, q |-> q, perm |-> perm, rawctl |-> FALSE]
DecInit == DecInitQ(QUOTE, FALSE)
Flush(s) == IF s.hi # 0 THEN [s EXCEPT !.out = s.out \o REPL, !.hi = 0] ELSE s
Unit(s, cu) ==   \* a complete \uXXXX code unit
    IF s.hi # 0 /\ IsLo(cu) THEN [s EXCEPT !.out = s.out \o Utf8(Combine(s.hi, cu)), !.hi = 0, !.m = "body"]
    ELSE LET f == Flush(s) IN
         IF IsHi(cu) THEN [f EXCEPT !.hi = cu, !.m = "body"]
         ELSE IF IsLo(cu) THEN [f EXCEPT !.out = f.out \o REPL, !.m = "body"]
         ELSE [f EXCEPT !.out = f.out \o Utf8(cu), !.m = "body"]
DecStep(s, c) ==
    CASE s.m = "open" -> IF c = s.q THEN [s EXCEPT !.m = "body"] ELSE [s EXCEPT !.m = "bad"]
      [] s.m = "body" -> IF c = s.q THEN [Flush(s) EXCEPT !.m = "done"]
                         ELSE IF c = BSL THEN [s EXCEPT !.m = "esc"]
                         ELSE IF c < 32 /\ (~s.perm \/ c = 0) THEN [s EXCEPT !.m = "bad"]
                         ELSE LET f == Flush(s) IN [f EXCEPT !.out = Append(f.out, c), !.rawctl = (f.rawctl \/ c < 32)]
      [] s.m = "esc" -> IF c = 117 THEN [s EXCEPT !.m = "hex", !.ucs = 0, !.k = 0]
                        ELSE IF SimpleEsc(c) >= 0 THEN LET f == Flush(s) IN [f EXCEPT !.out = Append(f.out, SimpleEsc(c)), !.m = "body"]
                        ELSE [s EXCEPT !.m = "bad"]
      [] s.m = "hex" -> IF c \notin HEXD THEN [s EXCEPT !.m = "bad"]
                        ELSE LET u == s.ucs * 16 + HexVal(c) IN
                             IF s.k < 3 THEN [s EXCEPT !.ucs = u, !.k = s.k + 1] ELSE Unit([s EXCEPT !.ucs = 0, !.k = 0], u)
      [] OTHER -> [s EXCEPT !.m = "bad"]          \* bytes after the closing quote, or already bad
\* the whole text must be exactly one string token
DecodeStringToken(text) == LET r == FoldLeft(DecStep, DecInit, text) IN [ok |-> r.m = "done", bytes |-> r.out]

TakeUntilNul(data) == LET idx == SelectInSeq(data, LAMBDA b : b = 0) IN IF idx = 0 THEN data ELSE SubSeq(data, 1, idx - 1)
====
