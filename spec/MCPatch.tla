---- MODULE MCPatch ----
(* C13 (TLC), value level: every document of a small universe x every operation of a universe that
   covers escaped names, array ends, "-", overlapping from/path, "/a" vs "/ab", missing locations.
   RefStep is the RFC 6902 step; the step with the as-found switches of json_patch.c must differ
   from it somewhere in this universe (anti-vacuity configs), and the laws below hold. *)
EXTENDS Naturals, Integers, Sequences, TLC
CONSTANT MUT
VARIABLES doc, op
Ref == INSTANCE Patch WITH AsFoundP <- {}
AF == INSTANCE Patch WITH AsFoundP <- MUT
I(n) == [t |-> "int", neg |-> FALSE, d |-> <<n>>]
S(b) == [t |-> "string", s |-> b]
O(m) == [t |-> "object", m |-> m]
A(e) == [t |-> "array", e |-> e]
M(k, v) == [k |-> k, v |-> v]
ka == <<97>>  kab == <<97, 98>>  kslash == <<97, 47, 98>>  kesc == <<97, 126, 49, 98>>  kx == <<120>>
Docs == { O(<<M(ka, I(1)), M(kab, I(2))>>), O(<<M(ka, O(<<M(kx, I(1))>>))>>), A(<<I(1), I(2), I(3)>>),
          O(<<M(kslash, I(1)), M(kesc, I(2))>>), O(<<M(ka, A(<<I(1), I(2)>>))>>) }
p(str) == str
Paths == { <<47, 97>>, <<47, 97, 98>>, <<47, 97, 47, 120>>, <<47, 97, 47, 99>>, <<47, 48>>, <<47, 49>>, <<47, 50>>, <<47, 51>>, <<47, 52>>, <<47, 45>>,
           <<47, 97, 126, 49, 98>>, <<47, 97, 47, 48>>, <<47, 97, 47, 50>>, <<47, 97, 47, 51>>, <<47, 110, 111>>, <<47, 97, 47, 45>> }
MkOp(o, path, from, hasv) ==
    O(<<M(Ref!S_op, S(o)), M(Ref!S_path, S(path))>> \o (IF Len(from) > 0 THEN <<M(Ref!S_from, S(from))>> ELSE <<>>)
        \o (IF hasv THEN <<M(Ref!S_value, I(9))>> ELSE <<>>))
D(txt) == [t |-> "double", text |-> txt]
MkTest(path, v) == O(<<M(Ref!S_op, S(Ref!S_test)), M(Ref!S_path, S(path)), M(Ref!S_value, v)>>)
\* test against 1, 1.0, 2.0, 1.5, 2 (the documents hold the integers 1, 2, 3)
TestVals == {I(1), D(<<49, 46, 48>>), D(<<50, 46, 48>>), D(<<49, 46, 53>>), I(2)}
OpsU == {MkOp(Ref!S_add, pa, <<>>, TRUE) : pa \in Paths} \cup {MkTest(pa, v) : pa \in Paths, v \in TestVals} \cup {MkOp(Ref!S_remove, pa, <<>>, FALSE) : pa \in Paths}
        \cup {MkOp(Ref!S_replace, pa, <<>>, TRUE) : pa \in Paths}
        \cup {MkOp(Ref!S_move, pa, fr, FALSE) : pa \in Paths, fr \in Paths} \cup {MkOp(Ref!S_copy, pa, fr, FALSE) : pa \in Paths, fr \in Paths}
Init == doc \in Docs /\ op \in OpsU
Next == UNCHANGED <<doc, op>>
Spec == Init /\ [][Next]_<<doc, op>>
\* the as-found step agrees with the RFC step (must be VIOLATED for each non-empty MUT)
Agrees == AF!OpStep(doc, op) = Ref!OpStep(doc, op)
\* laws of the RFC step
IsOp(name) == Ref!Member(op, Ref!S_op).s = name
PathOf == Ref!Member(op, Ref!S_path).s
AddThenTest == IsOp(Ref!S_add) => LET r == Ref!OpStep(doc, op) IN
                  (r.ok /\ PathOf[Len(PathOf)] # 45) => Ref!OpStep(r.v, MkOp(Ref!S_test, PathOf, <<>>, TRUE)).ok
\* RFC 6902 4.6: test succeeds exactly when the location exists and holds an equal value - numbers by numeric value
TestIsNumeric == IsOp(Ref!S_test) =>
    LET g == Ref!Lookup(doc, PathOf)  v == Ref!Member(op, Ref!S_value) IN
    Ref!OpStep(doc, op).ok <=> (g.ok /\ IF Ref!IsNum(g.v) /\ Ref!IsNum(v) THEN Ref!NumVal(g.v) = Ref!NumVal(v) ELSE Ref!EqualV(g.v, v))
\* remove succeeds exactly where the location exists; afterwards a member is gone (an array element is replaced by its
\* successor: the array is one shorter) and every other top-level member is untouched
ParentPath == LET toks == Ref!P!Tokens(PathOf) IN SubSeq(PathOf, 1, Len(PathOf) - Len(toks[Len(toks)]) - 1)
RemoveThenGone == IsOp(Ref!S_remove) => LET r == Ref!OpStep(doc, op) IN
                  /\ r.ok <=> (Len(PathOf) > 0 /\ Ref!Lookup(doc, PathOf).ok)
                  /\ r.ok => LET par == Ref!Lookup(doc, ParentPath).v  par2 == Ref!Lookup(r.v, ParentPath).v IN
                              IF par.t = "object" THEN ~Ref!Lookup(r.v, PathOf).ok /\ Len(par2.m) = Len(par.m) - 1
                              ELSE Len(par2.e) = Len(par.e) - 1
MoveIsRemoveAdd == IsOp(Ref!S_move) =>
    LET from == Ref!Member(op, Ref!S_from).s
        r == Ref!OpStep(doc, op)
        g == Ref!Lookup(doc, from)
    IN (r.ok /\ from # PathOf) => LET rm == Ref!Edit(doc, from, "remove", [t |-> "none"]) IN
                                  rm.ok /\ r.v = Ref!Edit(rm.v, PathOf, "add", g.v).v
CopyKeepsSource == IsOp(Ref!S_copy) => LET r == Ref!OpStep(doc, op) from == Ref!Member(op, Ref!S_from).s IN
                   (r.ok /\ ~Ref!ProperPrefix(PathOf, from) /\ PathOf # from) =>
                        (Ref!Lookup(r.v, from).ok \/ \E i \in 1..Len(from) : from[i] \in 48..57)
====
