---- MODULE StrNode ----
(* Mech layer for C11: struct json_object_string as in json_object.c - `len` >= 0: bytes stored
   inline after the header (the node was allocated with room for max(len0, P) + 1 bytes, P =
   sizeof(void* )); `len` < 0: c_string.pdata points to a separately allocated buffer holding
   -len bytes.  Ghost state: the inline capacity fixed at creation, the heap buffer's capacity,
   the set of heap buffers allocated / freed.  Every store is checked against the capacity of the
   buffer it goes to (bad = out of bounds, use after free, double free, leak at delete). *)
EXTENDS Naturals, Integers, Sequences, FiniteSets, TLC
CONSTANTS P, Lens, Vals, IntMaxM1, MUT
VARIABLES len, inl, heap, nextbuf, live, bad, last, alive
vars == <<len, inl, heap, nextbuf, live, bad, last, alive>>
JUNK == 99
NOHEAP == [id |-> 0, b |-> <<>>]
Max(a, b) == IF a > b THEN a ELSE b
Data(v, n) == [i \in 1..n |-> v]
Junk(n) == [i \in 1..n |-> JUNK]
NoCall == [op |-> "none", n |-> 0, data |-> <<>>, ret |-> 0]

\* store data + NUL at the start of buffer b (capacity Len(b)): [b, oob]
Store(b, d) == [b |-> [i \in 1..Len(b) |-> IF i <= Len(d) THEN d[i] ELSE IF i = Len(d) + 1 THEN 0 ELSE b[i]],
                oob |-> Len(d) + 1 > Len(b)]

New(n, v) ==
    /\ ~alive
    /\ LET cap == Max(n, P) + 1
           s == Store(Junk(cap), Data(v, n))
       IN /\ inl' = s.b /\ len' = n /\ heap' = NOHEAP /\ alive' = TRUE /\ bad' = (bad \/ s.oob)
          /\ UNCHANGED <<nextbuf, live>>
          /\ last' = [NoCall EXCEPT !.op = "newlen", !.n = n, !.data = Data(v, n), !.ret = 1]

\* _json_object_set_string_len
SetLen(n, v) ==
    /\ alive
    /\ LET c == [NoCall EXCEPT !.op = "setlen", !.n = n, !.data = IF n >= 0 /\ n < IntMaxM1 THEN Data(v, n) ELSE <<>>] IN
       IF n < 0 \/ n >= IntMaxM1
       THEN last' = [c EXCEPT !.ret = 0] /\ UNCHANGED <<len, inl, heap, nextbuf, live, bad, alive>>
       ELSE LET \* heap node shrunk to zero: buffer freed, back to inline
                zero == len < 0 /\ n = 0
                len1 == IF zero /\ "zero_keeps_heap_flag" \notin MUT THEN 0 ELSE len
                live1 == IF zero THEN live \ {heap.id} ELSE live
                dbl1 == zero /\ heap.id \notin live
                curlen == IF len1 < 0 THEN -len1 ELSE len1
                grow == n > curlen \/ ("always_realloc" \in MUT /\ len1 < 0)
            IN IF grow /\ "inline_grow_in_place" \notin MUT
               THEN \* malloc(n + 1); free the old heap buffer if any
                    LET nb == [id |-> nextbuf, b |-> Store(Junk(n + 1), Data(v, n)).b]
                        freeold == len1 < 0 /\ "heap_no_free_on_grow" \notin MUT
                    IN /\ heap' = nb /\ len' = -n /\ nextbuf' = nextbuf + 1
                       /\ live' = (IF freeold THEN live1 \ {heap.id} ELSE live1) \cup {nextbuf}
                       /\ bad' = (bad \/ dbl1 \/ (freeold /\ heap.id \notin live1))
                       /\ UNCHANGED <<inl, alive>>
                       /\ last' = [c EXCEPT !.ret = 1]
               ELSE IF len1 < 0
               THEN \* reuse the heap buffer
                    LET s == Store(heap.b, Data(v, n)) IN
                    /\ heap' = [heap EXCEPT !.b = s.b] /\ len' = -n
                    /\ bad' = (bad \/ dbl1 \/ s.oob \/ heap.id \notin live1)     \* write into a freed buffer
                    /\ live' = live1 /\ UNCHANGED <<inl, nextbuf, alive>>
                    /\ last' = [c EXCEPT !.ret = 1]
               ELSE \* inline
                    LET s == Store(inl, Data(v, n)) IN
                    /\ inl' = s.b /\ len' = n /\ bad' = (bad \/ dbl1 \/ s.oob)
                    /\ live' = live1 /\ UNCHANGED <<heap, nextbuf, alive>>
                    /\ last' = [c EXCEPT !.ret = 1]

\* json_object_string_delete
Delete ==
    /\ alive /\ alive' = FALSE
    /\ live' = IF len < 0 THEN live \ {heap.id} ELSE live
    /\ bad' = (bad \/ (len < 0 /\ heap.id \notin live) \/ live' # {})      \* double free / leak
    /\ UNCHANGED <<len, inl, heap, nextbuf>>
    /\ last' = [NoCall EXCEPT !.op = "delete"]

Init == /\ len = 0 /\ inl = <<>> /\ heap = NOHEAP /\ nextbuf = 1 /\ live = {} /\ bad = FALSE /\ alive = FALSE
        /\ last = [NoCall EXCEPT !.op = "init"]
OpNew == \E n \in Lens, v \in Vals : New(n, v)
OpSet == \E n \in Lens \cup {-1, IntMaxM1}, v \in Vals : SetLen(n, v)
OpDelete == Delete
Next == OpNew \/ OpSet \/ OpDelete
Spec == Init /\ [][Next]_vars
Bound == nextbuf <= 5            \* CONSTRAINT: at most 4 separate buffers in one node's life

-----------------------------------------------------------------------------
Contents == IF ~alive THEN <<>> ELSE IF len < 0 THEN SubSeq(heap.b, 1, -len) ELSE SubSeq(inl, 1, len)
SB == INSTANCE StrBytes WITH str <- Contents, call <- last, IntMax <- IntMaxM1 + 1, BigAlloc <- 1000
RefinesStep == [][last'.op \in {"newlen", "setlen"} => SB!Next]_vars
Safe == ~bad
NulTerminated == alive => (IF len < 0 THEN heap.b[-len + 1] = 0 ELSE inl[len + 1] = 0)
NoJunk == \A i \in 1..Len(Contents) : Contents[i] # JUNK
OneBuffer == Cardinality(live) <= 1 /\ ((alive /\ len < 0) <=> live # {}) 
====
