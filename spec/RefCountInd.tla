---- MODULE RefCountInd ----
(* C18 / C05, unbounded: one shared node whose count is updated by ATOMIC read-modify-write steps, any number of threads' get /
   put operations in any order and of any length (TLC explores fixed programs; here the histories are unbounded).
   Ownership rules: the main thread holds the first reference and may hand a new one to a thread (json_object_get on its
   behalf) while it holds its own; a thread acquires further references only while it owns one; everyone releases only what
   it owns.  IndInv is an INDUCTIVE invariant (checked by Apalache: Init => IndInv, IndInv /\ Next => IndInv'), and it
   implies the property: the count is exactly the number of references owned, the node is destroyed exactly once and
   exactly when the last owner releases, and nobody owns a reference to a destroyed node.
   Switch NonAtomic (a CONSTANT): a put is "load; store" with the loaded value kept in tmp - IndInv is then not inductive. *)
EXTENDS Integers, Apalache
CONSTANTS
    \* @type: Set(Int);
    Thr,
    \* @type: Bool;
    NonAtomic
VARIABLES
    \* @type: Int;
    rc,
    \* @type: Int -> Int;
    held,
    \* @type: Bool;
    mainholds,
    \* @type: Bool;
    dead,
    \* @type: Int;
    ndestroy,
    \* @type: Int -> Int;
    tmp

CInit == Thr = {1, 2, 3} /\ NonAtomic = FALSE
CInitBad == Thr = {1, 2, 3} /\ NonAtomic = TRUE

Init == rc = 1 /\ held = [t \in Thr |-> 0] /\ mainholds = TRUE /\ dead = FALSE /\ ndestroy = 0 /\ tmp = [t \in Thr |-> -1]

Release(newrc) == /\ rc' = newrc
                  /\ dead' = (dead \/ (newrc = 0))
                  /\ ndestroy' = (IF newrc = 0 THEN ndestroy + 1 ELSE ndestroy)
Hand(t) == /\ mainholds /\ ~dead /\ tmp[t] = -1
           /\ rc' = rc + 1 /\ held' = [held EXCEPT ![t] = @ + 1]
           /\ UNCHANGED <<mainholds, dead, ndestroy, tmp>>
Get(t) == /\ held[t] > 0 /\ tmp[t] = -1
          /\ rc' = rc + 1 /\ held' = [held EXCEPT ![t] = @ + 1]
          /\ UNCHANGED <<mainholds, dead, ndestroy, tmp>>
Put(t) == /\ held[t] > 0 /\ tmp[t] = -1
          /\ IF NonAtomic
             THEN tmp' = [tmp EXCEPT ![t] = rc] /\ UNCHANGED <<rc, held, dead, ndestroy, mainholds>>      \* load
             ELSE Release(rc - 1) /\ held' = [held EXCEPT ![t] = @ - 1] /\ UNCHANGED <<mainholds, tmp>>
PutStore(t) == /\ tmp[t] # -1
               /\ Release(tmp[t] - 1) /\ held' = [held EXCEPT ![t] = @ - 1] /\ tmp' = [tmp EXCEPT ![t] = -1]
               /\ UNCHANGED mainholds
MainPut == /\ mainholds /\ mainholds' = FALSE /\ Release(rc - 1) /\ UNCHANGED <<held, tmp>>
Next == (\E t \in Thr : Hand(t) \/ Get(t) \/ Put(t) \/ PutStore(t)) \/ MainPut

Owned == ApaFoldSet(LAMBDA acc, t : acc + held[t], 0, Thr) + (IF mainholds THEN 1 ELSE 0)
IndInv == /\ held \in [Thr -> Int] /\ tmp \in [Thr -> Int] /\ rc \in Int /\ ndestroy \in Int
          /\ dead \in BOOLEAN /\ mainholds \in BOOLEAN
          /\ \A t \in Thr : held[t] >= 0 /\ (NonAtomic \/ tmp[t] = -1)
          /\ rc = Owned
          /\ dead <=> (rc = 0)
          /\ ndestroy = (IF dead THEN 1 ELSE 0)
\* what the property says (implied by IndInv)
Safety == /\ ndestroy <= 1
          /\ dead => (~mainholds /\ \A t \in Thr : held[t] = 0)       \* nobody owns a reference to a destroyed node
          /\ (~dead) => rc >= 1
====
