---- MODULE TraceNumeric ----
(* Trace specification for C10: every accessor of the real library on a recorded source node must
   return the documented coercion (Numeric.tla) with the documented errno class; set-then-get is the
   identity; json_object_int_inc yields the exact sum, switched to the other representation or
   saturated at INT64_MIN / UINT64_MAX.  Conversions integer -> double and string -> double are
   glibc/compiler conversions supplied as data (`cast`, `strtod`). *)
EXTENDS Naturals, Integers, Sequences, TLC, Json, IOUtils
VARIABLES st, l
N == INSTANCE Numeric
ErrOk(want, got) == want = "ANY" \/ want = got
IntEq(a, b) == a.m = b.m /\ (a.neg = b.neg \/ N!L!IsZero(a.m))
PosZero == <<0, 0, 0, 0>>
OneBits == <<0, 0, 0, 16368>>          \* 1.0
DblOk(r) ==
    LET s == r.src IN
    CASE s.kind = "int" -> r.dbl.bits = r.cast
      [] s.kind = "double" -> r.dbl.bits = s.bits
      [] s.kind = "bool" -> r.dbl.bits = IF s.b THEN OneBits ELSE PosZero
      [] s.kind = "null" -> r.dbl.bits = PosZero
      [] s.kind = "string" -> IF ~r.strtod.full THEN r.dbl.bits = PosZero /\ r.dbl.errno = "EINVAL"
                              \* too big for a double - header: the closest infinity; code and tests: 0.0.  A tiny inexact result (for which
                              \* strtod also reports ERANGE) is a value that exists: the nearest (sub)normal double or zero, sign kept
                              ELSE IF r.strtod.range /\ N!IsInf(r.strtod.bits) THEN r.dbl.bits \in {PosZero, r.strtod.bits}
                              ELSE r.dbl.bits = r.strtod.bits
      [] OTHER -> r.dbl.bits = PosZero
\* the type API: enum json_type numbers null 0, boolean 1, double 2, int 3, object 4, array 5, string 6
TypeNo(k) == CASE k = "null" -> 0 [] k = "bool" -> 1 [] k = "double" -> 2 [] k = "int" -> 3 [] k = "object" -> 4 [] k = "array" -> 5 [] k = "string" -> 6
TypeName(k) == IF k = "bool" THEN "boolean" ELSE k
TypeOk(r) == "tname" \in DOMAIN r => /\ r.tname = TypeName(r.src.kind) /\ r.is = <<TypeNo(r.src.kind)>>
                                      /\ r.foreign_empty /\ r.noname
\* json_parse_int64 / json_parse_uint64 called directly on a string node's text: 0 and the value the accessor reports, or
\* non-zero exactly when the text does not start with a number (the accessor then reports 0)
DirectOk(r, a, u) == "pi64" \in DOMAIN r =>
    /\ r.pi64.ret \in {0, 1} /\ r.pu64.ret \in {0, 1}
    /\ IntEq(r.pi64.v, a.v) /\ IntEq(r.pu64.v, u.v)
    /\ (r.pi64.ret = 1 => a.errno \in {"EINVAL", "ANY"}) /\ (r.pu64.ret = 1 => u.errno \in {"EINVAL", "ANY"})
AccOk(r) ==
    LET s == r.src
        a == N!GetI64(s)
        u == N!GetU64(s)
        i == N!GetI32(s)
    IN /\ IntEq(r.i64.v, a.v) /\ ErrOk(a.errno, r.i64.errno)
       /\ IntEq(r.u64.v, u.v) /\ ErrOk(u.errno, r.u64.errno)
       /\ IntEq(r.i32.v, i.v) /\ ErrOk(i.errno, r.i32.errno)
       /\ r.bool = N!GetBool(s)
       /\ DblOk(r) /\ TypeOk(r) /\ DirectOk(r, a, u)
       /\ r.ambient_same            \* the values do not depend on the errno in effect when the accessor is entered
IncOk(r) ==
    LET x == N!IncResult(r.store, N!MkInt(r.v.neg, r.v.m), N!MkInt(r.inc.neg, r.inc.m)) IN
    r.ret = 1 /\ IntEq(r.after, x.v)
       \* the representation shows in the serialization: a value above INT64_MAX must print as such, a negative one as negative
SetGetOk(r) == /\ r.got_i64 = r.set_i64 /\ r.got_u64 = r.set_u64 /\ r.got_i32 = r.set_i32 /\ r.got_dbl = r.set_dbl
               /\ r.got_bool /\ r.rets = 5 /\ r.wrong = 0
\* the small exported functions: constants are what the headers say, the null constructor gives the NULL pointer, json_parse_double
\* is strtod with a verdict, two default iterators are equal, the key comparisons compare text / identity, and the debug flag reads
\* back what was set last (1, 0, 1, 0 over two rounds)
MiscOk(r) == /\ r.version /\ r.sizeof_pos /\ r.null_is_null /\ r.parse_double /\ r.iter_default /\ r.char_equal /\ r.ptr_equal
             /\ r.debug_seen = <<1, 0, 1, 0>>
StepOfImpl(s, r) ==
    [ok |-> CASE r.e = "misc" -> MiscOk(r) [] r.e = "acc" -> AccOk(r) [] r.e = "inc" -> IncOk(r) [] r.e = "setget" -> SetGetOk(r) [] OTHER -> FALSE, st |-> s]
TraceLog == ndJsonDeserialize(IOEnv.TRACE)
T == INSTANCE TraceBase WITH Log <- TraceLog, InitSt <- 0, StepOf <- StepOfImpl, ResyncAtNew <- FALSE
Spec == T!Spec
Done == T!Done
====
