---- MODULE GetIntInd ----
(* C10, every integer node: json_object_get_int / json_object_get_int64 / json_object_get_uint64 applied to an integer node of
   either store, for EVERY stored value (2^64 + 2^63 nodes, symbolically; Apalache, exact integers).  The initial-state predicate
   picks any node and runs the three accessors as json_object.c does (the unsigned store is first narrowed to int64_t for
   json_object_get_int); Correct says what C10 says: the exact number when it fits the target type, the nearest bound of the
   target type when it does not, and the range error exactly in the second case.
   Switch ClampOffOne: json_object_get_int tests `>= INT32_MAX` - the value INT32_MAX itself is then reported as out of range. *)
EXTENDS Integers
CONSTANTS
    \* @type: Bool;
    ClampOffOne
VARIABLES
    \* @type: Bool;
    unsignedStore,
    \* @type: Int;
    v,
    \* @type: Int;
    r32,
    \* @type: Bool;
    e32,
    \* @type: Int;
    r64,
    \* @type: Bool;
    e64,
    \* @type: Int;
    ru64,
    \* @type: Bool;
    eu64
I32MAX == 2147483647
I32MIN == -2147483648
IMAX == 9223372036854775807
IMIN == -9223372036854775808
UMAX == 18446744073709551615
CInit == ClampOffOne = FALSE
CInitBad == ClampOffOne = TRUE
Clamp(x, lo, hi) == IF x < lo THEN lo ELSE IF x > hi THEN hi ELSE x
\* the int64_t that json_object_get_int works on
Narrow == IF unsignedStore THEN (IF v >= IMAX THEN IMAX ELSE v) ELSE v
Init == /\ unsignedStore \in BOOLEAN /\ v \in Int /\ (IF unsignedStore THEN v >= 0 /\ v <= UMAX ELSE v >= IMIN /\ v <= IMAX)
        /\ r32 = (IF Narrow < I32MIN THEN I32MIN ELSE IF (IF ClampOffOne THEN Narrow >= I32MAX ELSE Narrow > I32MAX) THEN I32MAX ELSE Narrow)
        /\ e32 = (Narrow < I32MIN \/ (IF ClampOffOne THEN Narrow >= I32MAX ELSE Narrow > I32MAX))
        /\ r64 = (IF unsignedStore /\ v > IMAX THEN IMAX ELSE v)
        /\ e64 = (unsignedStore /\ v > IMAX)
        /\ ru64 = (IF ~unsignedStore /\ v < 0 THEN 0 ELSE v)
        /\ eu64 = (~unsignedStore /\ v < 0)
Next == UNCHANGED <<unsignedStore, v, r32, e32, r64, e64, ru64, eu64>>
Correct == /\ r32 = Clamp(v, I32MIN, I32MAX) /\ (e32 <=> (v < I32MIN \/ v > I32MAX))
           /\ r64 = Clamp(v, IMIN, IMAX) /\ (e64 <=> (v < IMIN \/ v > IMAX))
           /\ ru64 = Clamp(v, 0, UMAX) /\ (eu64 <=> (v < 0 \/ v > UMAX))
====
