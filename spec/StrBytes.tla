---- MODULE StrBytes ----
(* Abs layer for C11: a string node is a length-counted byte sequence.  The recorded call c has
   op, n (length argument; -1 for the strlen-based entry points), data (the source buffer), ret.
   Oversize or negative lengths are refused (ret 0) and leave the contents intact. *)
EXTENDS Naturals, Integers, Sequences, Text
CONSTANTS IntMax, BigAlloc
VARIABLES str, call
Yes(b) == [ok |-> TRUE, s |-> b]
No(b) == [ok |-> FALSE, s |-> b]
Given(c) == IF c.n = -1 THEN TakeUntilNul(c.data) ELSE SubSeq(c.data, 1, c.n)
BadLen(c) == IF c.op \in {"set", "new"} THEN FALSE ELSE (c.n < 0 \/ c.n >= IntMax - 1)
\* c.fault = 1: the harness made an allocation request of this very call fail (and the failure was delivered): the
\* call may then be refused, leaving the previous contents (C08 on C11's histories)
FaultOf(c) == IF "fault" \in DOMAIN c THEN c.fault ELSE 0
\* creation: ret = 1 iff a node was returned
NewStep(s, c) == IF BadLen(c) THEN (IF c.ret = 0 THEN Yes(s) ELSE No(s))
                 ELSE IF c.ret = 1 THEN Yes(Given(c))
                 ELSE IF c.ret = 0 /\ FaultOf(c) = 1 THEN Yes(s) ELSE No(s)
\* set: ret = 1 on success; a refused set leaves the previous contents
SetStep(s, c) == IF BadLen(c) THEN (IF c.ret = 0 THEN Yes(s) ELSE No(s))
                 ELSE IF c.ret = 1 THEN Yes(Given(c))
                 ELSE IF c.ret = 0 /\ (Len(Given(c)) >= BigAlloc \/ FaultOf(c) = 1) THEN Yes(s)
                 ELSE No(s)
\* set from a C string of 2^32 + k bytes (k small): whatever width the length travels in, the request does not fit
\* and is refused; the contents stay
SetBigStep(s, c) == IF c.ret = 0 THEN Yes(s) ELSE No(s)
CallStep(s, c) == IF c.op = "setbig" THEN SetBigStep(s, c)
                  ELSE IF c.op \in {"new", "newlen"} THEN NewStep(s, c)
                  ELSE IF c.op \in {"set", "setlen"} THEN SetStep(s, c)
                  ELSE No(s)
Init == str = <<>>
Next == LET r == CallStep(str, call') IN r.ok /\ str' = r.s
Spec == Init /\ [][Next]_<<str, call>>
====
