---- MODULE TracePointer ----
(* Trace specification for C12.  State = the document as a function id -> node record (set by a
   "tree" event).  "get": the real json_pointer_get / getf result must be RFC 6901 evaluation of
   the pointer - success exactly when evaluation succeeds, then the very node reached (0 = a JSON
   null target); failure with ENOENT or EINVAL.  "set": success/failure as Pointer!Set says, the
   document afterwards equal to the abstract result (nothing else changed, value 99 placed exactly
   there), a following get of the same pointer returns the value; on failure the document is
   unchanged.  Pointers that are no JSON Pointer because of a stray '~' are not judged. *)
EXTENDS Naturals, Integers, Sequences, TLC, Json, IOUtils
VARIABLES st, l
P == INSTANCE Pointer
Leaf99 == [kind |-> "l", keys |-> <<>>, kids |-> <<>>]
TreeOf(nodes) == LET ids == {nodes[i].id : i \in 1..Len(nodes)} IN
                 [n \in ids |-> LET j == CHOOSE i \in 1..Len(nodes) : nodes[i].id = n IN
                                [kind |-> nodes[j].kind, keys |-> nodes[j].keys, kids |-> nodes[j].kids]]
With99(t) == [n \in (DOMAIN t) \cup {99} |-> IF n = 99 THEN Leaf99 ELSE t[n]]
GetOk(t, r) ==
    LET e == P!Eval(t, 1, r.ptr) IN
    IF P!IsPtrShape(r.ptr) /\ P!Lenient(r.ptr) THEN TRUE
    ELSE IF e.st = "ok" THEN r.ret = 0 /\ r.node = e.node
    ELSE r.ret # 0 /\ r.errno \in {"ENOENT", "EINVAL"}
SetOk(t, r) ==
    LET s == P!Set(With99(t), 1, r.ptr, 99)
        after == TreeOf(r.after)
        dashAppend == Len(r.ptr) > 0 /\ r.ptr[Len(r.ptr)] = 45 /\ P!Eval(t, 1, r.ptr).st # "ok"
    IN IF P!IsPtrShape(r.ptr) /\ P!Lenient(r.ptr) THEN TRUE
       ELSE IF s.st = "root" THEN r.ret = 0 /\ after = P!Visible(With99(t), 99)
       ELSE IF s.st = "ok" THEN r.ret = 0 /\ r.rootkept /\ after = P!Visible(s.t, 1) /\ (dashAppend \/ r.same)
       ELSE IF s.st = "extends" THEN (r.ret = 0 /\ after = P!Visible(s.t, 1) /\ r.same) \/ (r.ret # 0 /\ after = P!Visible(t, 1))
       ELSE r.ret # 0 /\ r.rootkept /\ after = P!Visible(t, 1)
\* "fset": the same call while one of its allocation requests was made to fail: it completes as usual, or it fails and then the
\* document is what it was, the value is still the caller's and intact, and nothing the call allocated remains
FSetOk(t, r) == IF r.ret = 0 THEN SetOk(t, r)
                ELSE r.rootkept /\ TreeOf(r.after) = P!Visible(t, 1) /\ r.intact /\ r.leak = 0
StepOfImpl(t, r) ==
    IF r.e = "tree" THEN [ok |-> TRUE, st |-> TreeOf(r.nodes)]
    ELSE IF r.e = "get" THEN [ok |-> GetOk(t, r), st |-> t]
    ELSE IF r.e = "set" THEN [ok |-> SetOk(t, r), st |-> t]
    ELSE IF r.e = "fset" THEN [ok |-> FSetOk(t, r), st |-> t]
    ELSE [ok |-> FALSE, st |-> t]
TraceLog == ndJsonDeserialize(IOEnv.TRACE)
T == INSTANCE TraceBase WITH Log <- TraceLog, InitSt <- <<>>, StepOf <- StepOfImpl, ResyncAtNew <- FALSE
Spec == T!Spec
Done == T!Done
====
