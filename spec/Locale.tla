---- MODULE Locale ----
(* C14 (Mech): the locale bracket of json_tokener_parse_ex, one action per libc call and per exit
   path.  A thread's locale is either the global one (LC_GLOBAL_LOCALE) or a locale object; objects
   are identified by numbers, `live` is the set of objects that exist, `num[o]` is the numeric
   convention of object o ("C" or "COMMA"), `gnum` that of the global locale.
   Call: size guard (returns before touching the locale) -> duplocale(old) (may fail) ->
   newlocale(LC_NUMERIC, "C", dup) (may fail: the duplicate must then be freed) -> uselocale(new)
   -> body (parsing: any outcome) -> uselocale(old) -> freelocale(new).
   Invariants at every return: the thread's locale is what it was, no object created by the call
   is alive, and the body ran under the C numeric convention.
   MUTL switches: "return_without_restore" (an error path returns from inside the body),
   "no_free", "leak_dup_on_new_failure". *)
EXTENDS Naturals, FiniteSets, TLC
CONSTANT MUTL
VARIABLES gnum, thr, live, num, pc, old, dup, new, bodynum, thr0, live0, ret
vars == <<gnum, thr, live, num, pc, old, dup, new, bodynum, thr0, live0, ret>>
GLOBAL == 0
Fresh == CHOOSE o \in 1..9 : o \notin live
NumOf(t) == IF t = GLOBAL THEN gnum ELSE num[t]
Init == /\ gnum \in {"C", "COMMA"}
        /\ \E t \in {GLOBAL, 1} : thr = t
        /\ live = {1} /\ num = [o \in 1..9 |-> IF o = 1 THEN "COMMA" ELSE "C"]
        /\ pc = "entry" /\ old = GLOBAL /\ dup = GLOBAL /\ new = GLOBAL /\ bodynum = "none"
        /\ thr0 = thr /\ live0 = live /\ ret = "none"
Entry == /\ pc = "entry" /\ old' = thr
         /\ \/ pc' = "return" /\ ret' = "size" /\ UNCHANGED <<thr, live, num, dup, new, bodynum>>      \* len < -1: before any locale call
            \/ pc' = "dup" /\ UNCHANGED <<ret, thr, live, num, dup, new, bodynum>>
         /\ UNCHANGED <<gnum, thr0, live0>>
Dup == /\ pc = "dup"
       /\ \/ /\ pc' = "return" /\ ret' = "memory" /\ UNCHANGED <<live, num, dup>>                       \* duplocale failed
          \/ /\ dup' = Fresh /\ live' = live \cup {Fresh} /\ num' = [num EXCEPT ![Fresh] = NumOf(old)]
             /\ pc' = "new" /\ UNCHANGED ret
       /\ UNCHANGED <<gnum, thr, old, new, bodynum, thr0, live0>>
New == /\ pc = "new"
       /\ \/ /\ pc' = "return" /\ ret' = "memory"                                                        \* newlocale failed: free the duplicate
             /\ live' = (IF "leak_dup_on_new_failure" \in MUTL THEN live ELSE live \ {dup}) /\ UNCHANGED <<num, new>>
          \/ /\ new' = dup /\ num' = [num EXCEPT ![dup] = "C"] /\ pc' = "use" /\ UNCHANGED <<live, ret>>  \* the duplicate is modified and returned
       /\ UNCHANGED <<gnum, thr, old, dup, bodynum, thr0, live0>>
Use == /\ pc = "use" /\ thr' = new /\ pc' = "body" /\ UNCHANGED <<gnum, live, num, old, dup, new, bodynum, thr0, live0, ret>>
Body == /\ pc = "body" /\ bodynum' = NumOf(thr)
        /\ \E r \in {"success", "continue", "error"} : ret' = r
        /\ pc' = IF "return_without_restore" \in MUTL /\ ret' = "error" THEN "return" ELSE "restore"
        /\ UNCHANGED <<gnum, thr, live, num, old, dup, new, thr0, live0>>
Restore == /\ pc = "restore" /\ thr' = old /\ pc' = "free" /\ UNCHANGED <<gnum, live, num, old, dup, new, bodynum, thr0, live0, ret>>
Free == /\ pc = "free" /\ live' = (IF "no_free" \in MUTL THEN live ELSE live \ {new}) /\ pc' = "return"
        /\ UNCHANGED <<gnum, thr, num, old, dup, new, bodynum, thr0, live0, ret>>
Next == Entry \/ Dup \/ New \/ Use \/ Body \/ Restore \/ Free
Spec == Init /\ [][Next]_vars
LocaleRestored == pc = "return" => thr = thr0
NothingLeaked == pc = "return" => live = live0
BodyUnderC == (pc = "return" /\ bodynum # "none") => bodynum = "C"
====
