---- MODULE MCTokSplit ----
(* C03 / C15 (TLC): product machine.  `a` is fed the text in one call, `b` may end the call and
   start a new one before any character - but only where that call would report "continue"
   (the premise of C03).  Invariant SplitInvisible: the outcome (status/error, value, end position
   counted from the start of the text) is the same.  With MaxDepth small the same run checks the
   level-stack bound for C15. *)
EXTENDS Tokener
CONSTANTS Alphabet, MaxLen, MaxDepth, FlagSets
VARIABLES a, b, n, total
vars == <<a, b, n, total>>
FlagsOf(i) == CASE i = 0 -> Flags(FALSE, FALSE, FALSE) [] i = 1 -> Flags(TRUE, FALSE, FALSE)
                [] i = 2 -> Flags(TRUE, TRUE, FALSE) [] i = 3 -> Flags(FALSE, FALSE, TRUE) [] OTHER -> Flags(TRUE, FALSE, TRUE)
Init == \E f \in FlagSets : a = NewCall(Fresh(MaxDepth, FlagsOf(f))) /\ b = a /\ n = 0 /\ total = 0
Step(c, brk) ==
  /\ n < MaxLen /\ ~a.done /\ ~b.done
  /\ brk => (n > 0 /\ EndChunk(b).err = "continue")
  /\ n' = n + 1
  /\ a' = Feed(a, c)
  /\ LET b0 == IF brk THEN NewCall(EndChunk(b)) ELSE b IN
     /\ b' = Feed(b0, c)
     /\ total' = IF brk THEN total + b.off ELSE total
\* the text ends here for both: exact-length buffer
Finish == /\ ~a.done /\ ~b.done /\ a' = EndChunk(a) /\ b' = EndChunk(b) /\ UNCHANGED <<n, total>>
Next == (\E c \in Alphabet, brk \in BOOLEAN : Step(c, brk)) \/ Finish
Spec == Init /\ [][Next]_vars
Obs(tok, base) == [done |-> tok.done, err |-> tok.err, ret |-> tok.ret, end |-> IF tok.done THEN base + tok.off ELSE 0]
SplitInvisible == Obs(a, 0) = Obs(b, total)
StackBound == Len(a.stack) <= MaxDepth /\ Len(b.stack) <= MaxDepth
NoFuel == a.err # "FUEL" /\ b.err # "FUEL" /\ a.err # "BADSTATE"
\* trichotomy of outcomes (C04)
Trichotomy == a.done => \/ (a.err = "success" /\ a.ret.t # "none") \/ (a.err # "success" /\ a.ret.t = "none")
\* ACTION_CONSTRAINT for the escape sub-alphabet: no raw bytes inside strings (the string
\* consists of escape sequences only), which keeps the space to the escape machinery
EscOnly == (~a.done /\ Top(a).st = "string") => (a'.done \/ Top(a').st # "string")
====
