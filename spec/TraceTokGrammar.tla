---- MODULE TraceTokGrammar ----
(* Trace specification for C01, C15 and C16: recorded runs of the real parser judged by the RFC 8259
   grammar fold (Grammar.tla).  Every parsed text had a NUL terminator appended by the harness;
   `text` is the text proper.
   "parse"   (C01) a generated RFC-valid document / escape sequence: accepted in default and strict
             mode with exactly the denoted value, end position = its length, every double node =
             strtod of its token; beyond-64-bit integers saturate (default) or are refused (strict)
   "depth"   (C15) a document against a parser with limit D (possibly chunked): accepted iff no
             value is enclosed by more than D-1 containers, else "depth" at the first such value
   "hostile" (C15) K unclosed openers: "depth" at the first opener beyond the limit, and the peak
             number of allocations is the same however long the input is
   "depthfd" (C15) the same through json_object_from_fd_ex(fd, D), which also refuses D < 1
   "newex"   (C15) a depth limit < 1 is refused
   "inject"  (C16) one listed extension injected into a valid document: strict mode fails,
             default mode succeeds with the value of the RFC-valid equivalent text, strict +
             allow-trailing accepts trailing bytes and reports where the value ended
   Informational: GEN = the harness's own generator and the grammar disagree about a text. *)
EXTENDS Naturals, Integers, Sequences, TLC, Json, IOUtils
VARIABLES st, l
G == INSTANCE Grammar
Strict(fl) == fl \in {1, 2, 4}

ParseOk(r) ==
    LET d == G!Denote(r.text) IN
    IF ~d.ok THEN PrintT(<<"GEN", l>>)                               \* not a valid text: nothing claimed
    ELSE IF d.big /\ Strict(r.fl) THEN r.got.st # "success"
    \* "within the nesting limit": a valid text that nests deeper than the tokener's limit is refused as too deep
    ELSE IF "depth" \in DOMAIN r /\ G!MaxDepthOf(d) > r.depth - 1 THEN r.got.st = "depth"
    ELSE /\ r.got.st = "success" /\ r.got.end = Len(r.text) /\ r.dbl_ok
         /\ \/ r.got.val = d.v
            \* classification only (the line is still a MISMATCH): the value is the denoted one with member names cut at a NUL
            \/ (r.got.val = G!CutNames(d.v) /\ PrintT(<<"NAMENUL", l>>) /\ FALSE)

\* the convenience doors (json_tokener_parse_verbose / json_tokener_parse: a fresh default parser, depth 32, the text up to
\* its NUL): a value exactly with status success, both doors alike, the denoted value for a valid text within the limit,
\* "nesting too deep" beyond it; every status has a message, values outside the enumeration the fixed one
ConvOk(r) ==
    LET d == G!Denote(r.text) IN
    /\ (r.st # "success" => ~r.has) /\ r.plain_same /\ r.plain_has = r.has       \* (the document null is no pointer at all)
    /\ r.desc_ok /\ r.desc_unknown_ok
    /\ IF ~d.ok THEN PrintT(<<"GEN", l>>)
       ELSE IF G!MaxDepthOf(d) > 31 THEN r.st = "depth"
       ELSE /\ r.st = "success"
            /\ \/ r.val = d.v
               \/ (r.val = G!CutNames(d.v) /\ PrintT(<<"NAMENUL", l>>) /\ FALSE)     \* classification only, as in ParseOk

DepthOk(r) ==
    LET d == G!Denote(r.text)
        D == r.depth IN
    IF ~d.ok THEN PrintT(<<"GEN", l>>)
    ELSE IF G!MaxDepthOf(d) <= D - 1 THEN r.got.st = "success" /\ r.got.val = d.v
    ELSE r.got.st = "depth" /\ r.got.end = G!FirstTooDeep(d, D)

\* the same limit configured through json_object_from_fd_ex: D < 1 is refused (no value), otherwise a valid document
\* is accepted exactly when no value is enclosed by more than D-1 containers, and refused as too deep otherwise
DepthFdOk(r) ==
    LET d == G!Denote(r.text) IN
    IF r.D < 1 THEN ~r.has
    ELSE IF ~d.ok THEN PrintT(<<"GEN", l>>)
    ELSE IF G!MaxDepthOf(d) <= r.D - 1 THEN r.has /\ r.val = d.v
    ELSE ~r.has /\ r.too_deep

\* the too-deep value spelled in one of json-c's other ways (default mode): same verdict at the same place
DepthAltOk(r) == (r.rfc.st = "depth") => (r.got.st = "depth" /\ r.got.end = r.rfc.end)

HostileOk(r) ==
    LET unit == IF r.pat = 0 THEN 1 ELSE 5 IN
    /\ \A i \in 1..Len(r.runs) :
          LET x == r.runs[i] IN
          IF x.K > r.D THEN x.st = "depth" /\ x.end = unit * r.D
          ELSE x.st = "continue" /\ x.end = unit * x.K
    \* no more memory than the limit implies: the peak does not depend on the length beyond the limit
    /\ \A i, j \in 1..Len(r.runs) : (r.runs[i].K > r.D /\ r.runs[j].K > r.D) => r.runs[i].peak = r.runs[j].peak

Neutral == {"comment", "single_quote", "single_quote_name", "leading_zero", "dangling_exponent", "literal_case",
            "trailing_comma_array", "trailing_comma_object", "raw_control", "raw_control_name"}
ExtName(kind) == CASE kind \in {"single_quote", "single_quote_name"} -> "single_quote"
                   [] kind \in {"trailing_comma_array", "trailing_comma_object"} -> "trailing_comma"
                   [] kind \in {"raw_control", "raw_control_name"} -> "raw_control"
                   [] OTHER -> kind
NextNonSpace(text, i) == LET S == {j \in (i + 1)..Len(text) : text[j] \notin {32, 9, 10, 13}} IN
                         IF S = {} THEN Len(text) ELSE (CHOOSE j \in S : \A k \in S : j <= k) - 1
\* trailing bytes that begin with "/": to strict mode (which knows no comments) just another byte after the value - refused
\* without, accepted with the allow-trailing-characters flag; default mode takes "/" for the start of a comment and is not judged
TrailSlashOk(r) ==
    LET e == G!Denote(r.equiv) IN
    IF ~e.ok THEN PrintT(<<"GEN", l>>)
    ELSE /\ r.strict.st # "success" /\ r.strict_utf8.st # "success"
         /\ IF e.big THEN r.trail.st # "success"
            ELSE /\ r.trail.st = "success" /\ r.trail.val = e.v
                 /\ r.trail.end >= Len(r.equiv) /\ r.trail.end <= NextNonSpace(r.text, Len(r.equiv))
InjectOk(r) ==
    LET e == G!Denote(r.equiv)
        p == G!Permissive(r.text) IN
    IF r.kind = "trailing_slash" THEN TrailSlashOk(r)
    ELSE IF ~e.ok \/ ~p.ok \/ ExtName(r.kind) \notin p.ext THEN PrintT(<<"GEN", l>>)
    ELSE /\ r.strict.st # "success"
         /\ r.strict_utf8.st # "success"            \* strict mode is strict whatever other flags accompany it
         /\ r.deflt.st = "success" /\ r.deflt.val = e.v
         /\ (r.kind = "trailing_chars" /\ e.big) => r.trail.st # "success"      \* strict refuses the oversize integer itself
         /\ (r.kind = "trailing_chars" /\ ~e.big) =>
               /\ r.trail.st = "success" /\ r.trail.val = e.v
               /\ r.trail.end >= Len(r.equiv) /\ r.trail.end <= NextNonSpace(r.text, Len(r.equiv))
               /\ r.deflt.end >= Len(r.equiv) /\ r.deflt.end <= NextNonSpace(r.text, Len(r.equiv))

StepOfImpl(s, r) ==
    [ok |-> CASE r.e = "parse" -> ParseOk(r) [] r.e = "conv" -> ConvOk(r)
              [] r.e = "depth" -> DepthOk(r) [] r.e = "depthfd" -> DepthFdOk(r) [] r.e = "depthalt" -> DepthAltOk(r)
              [] r.e = "hostile" -> HostileOk(r)
              [] r.e = "newex" -> r.refused
              [] r.e = "inject" -> InjectOk(r)
              [] OTHER -> FALSE,
     st |-> s]
TraceLog == ndJsonDeserialize(IOEnv.TRACE)
T == INSTANCE TraceBase WITH Log <- TraceLog, InitSt <- 0, StepOf <- StepOfImpl, ResyncAtNew <- FALSE
Spec == T!Spec
Done == T!Done
====
