---- MODULE MCJsonValue ----
(* C09 (TLC): over a universe of small values of every kind (int boundaries, NaN, +-0, strings with
   NUL, permuted members, one-position differences): Equal is reflexive (NaN-free), symmetric and
   transitive, and the mechanism of json_object_equal computes it. *)
EXTENDS JsonValue, TLC
VARIABLES a, b, c
I(neg, d) == [t |-> "int", neg |-> neg, d |-> d]
D(bits) == [t |-> "double", bits |-> bits]
S(s) == [t |-> "string", s |-> s]
O(m) == [t |-> "object", m |-> m]
A(e) == [t |-> "array", e |-> e]
M(k, v) == [k |-> k, v |-> v]
NaN1 == <<1, 0, 0, 32752>>  PZero == <<0, 0, 0, 0>>  NZero == <<0, 0, 0, 32768>>  One == <<0, 0, 0, 16368>>
Leaves == { [t |-> "null"], [t |-> "bool", b |-> TRUE], [t |-> "bool", b |-> FALSE], I(FALSE, <<0>>), I(FALSE, <<1>>), I(TRUE, <<1>>),
            I(FALSE, <<9,2,2,3,3,7,2,0,3,6,8,5,4,7,7,5,8,0,8>>), D(NaN1), D(PZero), D(NZero), D(One), S(<<>>), S(<<97>>), S(<<97, 0, 98>>), S(<<97, 0, 99>>) }
k1 == <<107>>  k2 == <<108>>
Small == { A(<<>>), O(<<>>), A(<<I(FALSE, <<1>>)>>), A(<<D(One)>>), A(<<D(NaN1)>>), A(<<I(FALSE, <<1>>), I(FALSE, <<0>>)>>), A(<<I(FALSE, <<0>>), I(FALSE, <<1>>)>>),
           O(<<M(k1, I(FALSE, <<1>>))>>), O(<<M(k2, I(FALSE, <<1>>))>>), O(<<M(k1, I(FALSE, <<1>>)), M(k2, [t |-> "null"])>>),
           O(<<M(k2, [t |-> "null"]), M(k1, I(FALSE, <<1>>))>>), O(<<M(k1, I(FALSE, <<1>>)), M(k2, I(FALSE, <<0>>))>>),
           O(<<M(k1, A(<<D(PZero)>>))>>), O(<<M(k1, A(<<D(NZero)>>))>>), O(<<M(k1, O(<<>>))>>), A(<<A(<<>>)>>), A(<<O(<<>>)>>) }
U == Leaves \cup Small
Init == a \in U /\ b \in U /\ c \in U
Next == UNCHANGED <<a, b, c>>
Spec == Init /\ [][Next]_<<a, b, c>>
Reflexive == ~HasNaN(a) => Equal(a, a)
NaNNeverEqual == HasNaN(a) => ~Equal(a, a)
Symmetric == Equal(a, b) = Equal(b, a)
Transitive == (Equal(a, b) /\ Equal(b, c)) => Equal(a, c)
MechIsEqual == EqualMech(a, b) = Equal(a, b)
KindsNeverMix == a.t # b.t => ~Equal(a, b)
====
