---- MODULE SeqGap ----
(* Abs layer for C07: a JSON array is a sequence whose elements are node ids (> 0) or the null
   gap 0.  Arguments that may exceed any real length are carried as [big, n]:
   big = 0: the number n; big = 1: SIZE_MAX - n; big = 2: a huge number (>= 2^50) that is not
   near SIZE_MAX.  XxxStep(s, c) = [ok, s', freed]: whether the recorded call is possible, the
   resulting sequence and the set of elements the array released (it held their only reference). *)
EXTENDS Naturals, Integers, Sequences, FiniteSets
CONSTANTS KeyOf(_),       \* sort key of an element id (the comparator orders by it, null first)
          BigLen          \* a call that needs room for >= BigLen elements may fail for lack of memory
VARIABLES arr, call
Yes(s, f) == [ok |-> TRUE, s |-> s, freed |-> f]
No(s) == [ok |-> FALSE, s |-> s, freed |-> {}]
IsBig(a) == a.big # 0
Nulls(n) == [i \in 1..n |-> 0]
NonNull(S) == S \ {0}
Range(s) == {s[i] : i \in 1..Len(s)}

\* append: always succeeds (no allocation failure injected)
\* ... or because the harness made an allocation request of this very call fail (c.fault = 1: the failure was
\* actually delivered to the library): then the call may report -1, the sequence is as it was and the value stays
\* with the caller (C08 on every history the model generates)
FaultOf(c) == IF "fault" \in DOMAIN c THEN c.fault ELSE 0
MayFail(s, need, c) == c.ret = -1 /\ (need >= BigLen \/ FaultOf(c) = 1)
AddStep(s, c) == IF c.ret = 0 THEN Yes(Append(s, c.v), {})
                 ELSE IF MayFail(s, Len(s) + 1, c) THEN Yes(s, {}) ELSE No(s)

\* put at index: beyond the end extends with nulls; an overwritten element is released;
\* an index that no allocation can satisfy fails and changes nothing
PutAt(s, i, v) == IF i < Len(s) THEN [s EXCEPT ![i + 1] = v] ELSE s \o Nulls(i - Len(s)) \o <<v>>
PutStep(s, c) ==
    IF IsBig(c.idx) THEN (IF c.ret = -1 THEN Yes(s, {}) ELSE No(s))
    ELSE IF c.ret = 0 THEN Yes(PutAt(s, c.idx.n, c.v), IF c.idx.n < Len(s) THEN NonNull({s[c.idx.n + 1]}) ELSE {})
    ELSE IF MayFail(s, c.idx.n + 1, c) THEN Yes(s, {})
    ELSE No(s)

\* insert at index: shifts the tail; at or beyond the end it is put
InsertStep(s, c) ==
    IF IsBig(c.idx) THEN (IF c.ret = -1 THEN Yes(s, {}) ELSE No(s))
    ELSE IF c.ret # 0 THEN (IF MayFail(s, IF c.idx.n >= Len(s) THEN c.idx.n + 1 ELSE Len(s) + 1, c) THEN Yes(s, {}) ELSE No(s))
    ELSE IF c.idx.n >= Len(s) THEN Yes(PutAt(s, c.idx.n, c.v), {})
    ELSE Yes(SubSeq(s, 1, c.idx.n) \o <<c.v>> \o SubSeq(s, c.idx.n + 1, Len(s)), {})

\* delete count elements from idx: out-of-range arguments fail without changing anything
DelValid(s, c) == ~IsBig(c.idx) /\ ~IsBig(c.count) /\ c.idx.n < Len(s) /\ c.idx.n + c.count.n <= Len(s)
DelStep(s, c) ==
    IF DelValid(s, c)
    THEN (IF c.ret = 0 THEN Yes(SubSeq(s, 1, c.idx.n) \o SubSeq(s, c.idx.n + c.count.n + 1, Len(s)),
                                NonNull({s[i] : i \in (c.idx.n + 1)..(c.idx.n + c.count.n)}))
          ELSE No(s))
    ELSE (IF c.ret = -1 THEN Yes(s, {}) ELSE No(s))

\* shrink-to-fit with k spare slots: contents unchanged
ShrinkStep(s, c) == IF c.ret = 0 THEN Yes(s, {})
                    ELSE IF c.ret = -1 /\ FaultOf(c) = 1 THEN Yes(s, {})
                    ELSE IF IsBig(c.count) /\ c.ret = -1 THEN Yes(s, {})
                    ELSE IF MayFail(s, Len(s) + c.count.n, c) THEN Yes(s, {}) ELSE No(s)

\* read: the element, or null at/after the end
GetStep(s, c) == IF c.v = (IF ~IsBig(c.idx) /\ c.idx.n < Len(s) THEN s[c.idx.n + 1] ELSE 0) THEN Yes(s, {}) ELSE No(s)

\* sort: c.after = the array after sorting; must be a permutation ordered by key (nulls first)
KeyZ(e) == IF e = 0 THEN -1 ELSE KeyOf(e)
IsPerm(a, b) == Len(a) = Len(b) /\ \A x \in Range(a) \cup Range(b) :
                   Cardinality({i \in 1..Len(a) : a[i] = x}) = Cardinality({i \in 1..Len(b) : b[i] = x})
Ordered(a) == \A i \in 1..(Len(a) - 1) : KeyZ(a[i]) <= KeyZ(a[i + 1])
SortStep(s, c) == IF IsPerm(s, c.after) /\ Ordered(c.after) THEN Yes(c.after, {}) ELSE No(s)

\* binary search on a sorted array for key c.key: finds some element with that key iff one exists
BsearchStep(s, c) ==
    IF ~Ordered(s) THEN Yes(s, {})      \* precondition of bsearch violated by the caller: anything goes
    ELSE IF c.v = 0 THEN (IF \A i \in 1..Len(s) : KeyZ(s[i]) # c.key THEN Yes(s, {}) ELSE No(s))
    ELSE IF c.v \in Range(s) /\ KeyZ(c.v) = c.key THEN Yes(s, {}) ELSE No(s)

CallStep(s, c) ==
    CASE c.op = "add" -> AddStep(s, c)
      [] c.op = "put" -> PutStep(s, c)
      [] c.op = "insert" -> InsertStep(s, c)
      [] c.op = "del" -> DelStep(s, c)
      [] c.op = "shrink" -> ShrinkStep(s, c)
      [] c.op = "get" -> GetStep(s, c)
      [] c.op = "sort" -> SortStep(s, c)
      [] c.op = "bsearch" -> BsearchStep(s, c)
      [] OTHER -> No(s)

Init == arr = <<>>
Next == LET r == CallStep(arr, call') IN r.ok /\ arr' = r.s /\ call'.freed = r.freed
Spec == Init /\ [][Next]_<<arr, call>>
====
