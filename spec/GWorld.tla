---- MODULE GWorld ----
(* behaviour export for direction G of the composed model: one shortest call history per (sampled) transition of MCWorld *)
EXTENDS MCWorld, Json
VARIABLE hist
LeafSeq == <<Int0, IntM, StrA, BoolT, Dbl15, ArrOfInt, [t |-> "null"]>>
ValIdx(v) == CHOOSE i \in 1..Len(LeafSeq) : LeafSeq[i] = v
Rec(c) == [op |-> c.op, a |-> c.a, b |-> c.b, k |-> c.k, i |-> c.i, cnt |-> c.cnt, kind |-> c.kind, vi |-> ValIdx(c.val) - 1,
           f |-> IF c.op = "parse" THEN c.f ELSE 0, path |-> c.path,
           pop |-> IF c.op = "wpatch" THEN c.pop ELSE "", from |-> IF c.op = "wpatch" THEN c.from ELSE <<>>]
GInit == Init /\ hist = <<>>
GNext == Next /\ hist' = Append(hist, Rec(last'))
GSpec == GInit /\ [][GNext]_<<vars, hist>>
CONSTANTS GStride, GOnly      \* GOnly = "" : every transition may be exported; else only those of that operation
RECURSIVE SumW(_)
SumW(S_) == IF S_ = {} THEN 0 ELSE LET x == CHOOSE y \in S_ : TRUE IN w'.n[x].rc * x + Len(w'.n[x].kids) * 5 + SumW(S_ \ {x})
EdgeHash == Len(hist') * 7 + last'.a * 13 + last'.b * 17 + last'.k * 19 + last'.i * 23 + Len(last'.path) * 31 + ValIdx(last'.val) * 41 + SumW(R!Live(w'))
GExport == (EdgeHash % GStride = 0 /\ (GOnly = "" \/ last'.op = GOnly)) => PrintT(<<"EDGE", ToJson(hist')>>)
====
