---- MODULE ArrayListInd ----
(* C07, all sizes: the index and size arithmetic of arraylist.c (expand_internal, add, put_idx, insert_idx, del_idx, shrink) over
   the mathematical integers with the real constants (SIZE_MAX = 2^64 - 1, 8-byte slots).  size_t arithmetic wraps silently in
   C: here every intermediate result is computed exactly and `bad` records a result beyond SIZE_MAX (a wrap) or a slot access
   at an index >= size.  The element contents are abstracted away (ArrayList.tla / SeqGap.tla judge them in a small scope).
   IndInv (inductive, Apalache): 0 <= length <= size <= SIZE_MAX / 8 and nothing bad so far - for EVERY capacity, length and
   argument value in 0..SIZE_MAX; realloc may fail at any call; a refused call changes nothing.
   Switch ShrinkMut: array_list_shrink with the guard that forgot `- length` and without its grow-through-expand branch (the
   two cooperating edits of a seeded change): the byte count wraps - not inductive. *)
EXTENDS Integers
CONSTANTS
    \* @type: Bool;
    ShrinkMut
VARIABLES
    \* @type: Int;
    size,
    \* @type: Int;
    length,
    \* @type: Bool;
    bad,
    \* @type: Int;
    ret
SMAX == 18446744073709551615
SLOTS == SMAX \div 8
CInit == ShrinkMut = FALSE
CInitBad == ShrinkMut = TRUE
Init == size \in 0..(SLOTS - 1) /\ length = 0 /\ bad = FALSE /\ ret = 0       \* array_list_new2(initial_size)
Args == 0..SMAX
Wraps(x) == x > SMAX
\* array_list_expand_internal(max) from the current size: the size afterwards, or -1 (refused: too large)
NewSize(max) == IF size >= SMAX \div 2 THEN max ELSE (IF size * 2 < max THEN max ELSE size * 2)
Refuse == ret' = -1 /\ UNCHANGED <<size, length, bad>>
\* after expand(max) succeeded: the size
Expanded(max) == IF max < size THEN size ELSE NewSize(max)
ExpandOk(max, reallocOk) == max < size \/ (NewSize(max) <= SLOTS /\ reallocOk)
Add(reallocOk) ==
    IF length > SMAX - 1 \/ ~ExpandOk(length + 1, reallocOk) THEN Refuse
    ELSE /\ size' = Expanded(length + 1) /\ length' = length + 1 /\ ret' = 0
         /\ bad' = (bad \/ Wraps(length + 1) \/ (~(length + 1 < size) /\ Wraps(NewSize(length + 1) * 8)) \/ ~(length < Expanded(length + 1)))
Put(idx, reallocOk) ==
    IF idx > SMAX - 1 \/ ~ExpandOk(idx + 1, reallocOk) THEN Refuse
    ELSE /\ size' = Expanded(idx + 1) /\ length' = (IF length <= idx THEN idx + 1 ELSE length) /\ ret' = 0
         /\ bad' = (bad \/ Wraps(idx + 1) \/ ~(idx < Expanded(idx + 1))
                        \/ (idx > length /\ (Wraps((idx - length) * 8) \/ ~(idx <= Expanded(idx + 1)))))
Insert(idx, reallocOk) ==
    IF idx >= length THEN Put(idx, reallocOk)
    ELSE IF length = SMAX \/ ~ExpandOk(length + 1, reallocOk) THEN Refuse
    ELSE /\ size' = Expanded(length + 1) /\ length' = length + 1 /\ ret' = 0
         /\ bad' = (bad \/ Wraps(length + 1) \/ Wraps((length - idx) * 8) \/ ~(length + 1 <= Expanded(length + 1)))   \* memmove ends at length + 1
Del(idx, count) ==
    IF idx > SMAX - count THEN Refuse
    ELSE IF idx >= length \/ idx + count > length THEN Refuse
    ELSE /\ size' = size /\ length' = length - count /\ ret' = 0
         /\ bad' = (bad \/ Wraps(idx + count) \/ ~(idx + count <= size) \/ Wraps((length - (idx + count)) * 8))
Shrink(k, reallocOk) ==
    IF ShrinkMut
    THEN (IF k >= SLOTS THEN Refuse
          ELSE LET new == length + k IN
               IF new = size THEN ret' = 0 /\ UNCHANGED <<size, length, bad>>
               ELSE IF ~reallocOk THEN Refuse
               ELSE /\ size' = (IF new = 0 THEN 1 ELSE new) /\ length' = length /\ ret' = 0
                    /\ bad' = (bad \/ Wraps(new) \/ Wraps((IF new = 0 THEN 1 ELSE new) * 8)))
    ELSE (IF k >= SLOTS - length THEN Refuse
          ELSE LET new == length + k IN
               IF new = size THEN ret' = 0 /\ UNCHANGED <<size, length, bad>>
               ELSE IF new > size
                    THEN (IF ~ExpandOk(new, reallocOk) THEN Refuse
                          ELSE size' = Expanded(new) /\ length' = length /\ ret' = 0 /\ bad' = (bad \/ Wraps(new) \/ Wraps(Expanded(new) * 8)))
               ELSE IF ~reallocOk THEN Refuse
               ELSE /\ size' = (IF new = 0 THEN 1 ELSE new) /\ length' = length /\ ret' = 0
                    /\ bad' = (bad \/ Wraps(new) \/ Wraps((IF new = 0 THEN 1 ELSE new) * 8)))
Next == \E ok \in BOOLEAN :
          \/ Add(ok)
          \/ \E idx \in Args : Put(idx, ok) \/ Insert(idx, ok)
          \/ \E idx \in Args : \E count \in Args : Del(idx, count)
          \/ \E k \in Args : Shrink(k, ok)
IndInv == /\ size \in Int /\ length \in Int /\ bad \in BOOLEAN /\ ret \in Int
          /\ 0 <= length /\ length <= size /\ size <= SLOTS /\ ~bad
Safety == ~bad /\ length <= size
====
