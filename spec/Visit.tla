---- MODULE Visit ----
(* C17.  Abs: the documented traversal of json_c_visit as an explicit-stack machine that is
   driven by the callback's return codes - Expect(s) is the next call the traversal must make
   (node, flags, parent, key, index), Advance(s, code) the state after the callback answered.
   Mech: the recursive code shape of _json_c_visit - activation records with a program counter
   and a return-value register, child loops that `break` on POP, the code mapping on the flagged
   visit and at top level.  TLC checks them in lock step for all small trees and ALL assignments
   of return codes to calls (the code is chosen nondeterministically at every call).

   A tree is a sequence of node records [kind, kids, keys] indexed by node id (root = 1);
   kind \in {"o","a","l","z"} (object, array, scalar leaf, JSON null = NULL pointer).
   Where the documentation is silent - whether a container whose first visit returned SKIP still
   gets its flagged visit - both behaviours are admitted (OptSecond). *)
EXTENDS Naturals, Integers, Sequences, TLC
CONTINUE == 0  SKIP == 7547  POP == 767  STOP == 7867  ERROR == -1  SECOND == 2
IsContainer(t, n) == t[n].kind \in {"o", "a"}
NodeArg(t, n) == IF t[n].kind = "z" THEN 0 ELSE n       \* the callback sees NULL for JSON null
\* the call made for child number i (0-based) of container p
ChildCall(t, p, i, flags) ==
    LET n == t[p].kids[i + 1] IN
    [n |-> NodeArg(t, n), f |-> flags, p |-> p, k |-> IF t[p].kind = "o" THEN t[p].keys[i + 1] ELSE -1,
     i |-> IF t[p].kind = "a" THEN i ELSE -1]
RootCall(t, flags) == [n |-> NodeArg(t, 1), f |-> flags, p |-> 0, k |-> -1, i |-> -1]

----------------------------------------------------------------------------
\* Abs machine.  s = [mode, stack, cur, res, opt]
\*   mode "first": Expect = first visit of cur (cur = [id, call]); "second": flagged visit of the
\*   container on top of the stack; "done": res \in {0, -1}.  stack = Seq([n, pos, call]) where
\*   pos = number of children already started and call = the call record of n's own first visit.
\*   opt = frame of a container whose first visit returned SKIP (its flagged visit is optional).
NoFrame == [n |-> 0, pos |-> 0, call |-> [n |-> 0, f |-> 0, p |-> 0, k |-> -1, i |-> -1]]
AInit(t) == [mode |-> "first", stack |-> <<>>, cur |-> [id |-> 1, call |-> RootCall(t, 0)], res |-> 0, opt |-> NoFrame]
Done(s, r) == [s EXCEPT !.mode = "done", !.res = r, !.stack = <<>>]
Top(s) == s.stack[Len(s.stack)]
\* after a child finished normally: start the next child of the top container, or its flagged visit
NextChildOrSecond(t, s) ==
    IF s.stack = <<>> THEN Done(s, 0)
    ELSE LET fr == Top(s) IN
         IF fr.pos < Len(t[fr.n].kids)
         THEN [s EXCEPT !.mode = "first", !.cur = [id |-> t[fr.n].kids[fr.pos + 1], call |-> ChildCall(t, fr.n, fr.pos, 0)],
                        !.stack[Len(s.stack)].pos = fr.pos + 1]
         ELSE [s EXCEPT !.mode = "second"]
Expect(s) == IF s.mode = "first" THEN s.cur.call
             ELSE IF s.mode = "second" THEN [Top(s).call EXCEPT !.f = SECOND]
             ELSE [n |-> -1, f |-> -1, p |-> -1, k |-> -1, i |-> -1]
OptSecond(s) == IF s.opt.n # 0 THEN [s.opt.call EXCEPT !.f = SECOND] ELSE [n |-> -2, f |-> -2, p |-> -2, k |-> -2, i |-> -2]
Advance(t, s0, code) ==
    LET s == [s0 EXCEPT !.opt = NoFrame] IN
    IF s.mode = "first" THEN
        IF code = CONTINUE THEN
            (IF IsContainer(t, s.cur.id)
             THEN NextChildOrSecond(t, [s EXCEPT !.stack = Append(s.stack, [n |-> s.cur.id, pos |-> 0, call |-> s.cur.call])])
             ELSE NextChildOrSecond(t, s))
        ELSE IF code = SKIP THEN
            [NextChildOrSecond(t, s) EXCEPT !.opt = IF IsContainer(t, s.cur.id) THEN [n |-> s.cur.id, pos |-> 0, call |-> s.cur.call] ELSE NoFrame]
        ELSE IF code = POP THEN (IF s.stack = <<>> THEN Done(s, 0) ELSE [s EXCEPT !.mode = "second"])
        ELSE IF code = STOP THEN Done(s, 0)
        ELSE Done(s, -1)
    ELSE IF s.mode = "second" THEN
        IF code \in {CONTINUE, SKIP, POP} THEN NextChildOrSecond(t, [s EXCEPT !.stack = SubSeq(s.stack, 1, Len(s.stack) - 1)])
        ELSE IF code = STOP THEN Done(s, 0)
        ELSE Done(s, -1)
    ELSE s
\* the optional flagged visit after SKIP was made: it maps codes like any flagged visit, then the
\* traversal continues where it was
AdvanceOpt(t, s0, code) ==
    LET s == [s0 EXCEPT !.opt = NoFrame] IN
    IF code \in {CONTINUE, SKIP, POP} THEN s ELSE IF code = STOP THEN Done(s, 0) ELSE Done(s, -1)

\* reference run over a recorded call log: log = Seq([n, f, p, k, i, c]); returns the final state
\* with mode "bad" if some recorded call is not the expected one
Strip(r) == [n |-> r.n, f |-> r.f, p |-> r.p, k |-> r.k, i |-> r.i]
RunStep(t, s, r) ==
    IF s.mode \in {"done", "bad"} THEN [s EXCEPT !.mode = "bad"]              \* a call after the end
    ELSE IF Strip(r) = Expect(s) THEN Advance(t, s, r.c)
    ELSE IF Strip(r) = OptSecond(s) THEN AdvanceOpt(t, s, r.c)
    ELSE [s EXCEPT !.mode = "bad"]

----------------------------------------------------------------------------
\* Mech machine: activation records of _json_c_visit.  m = [fr, ret, res]
\*   fr = Seq([n, call, pc, i]);  pc \in "first" (about to call userfunc(.., 0)), "loop",
\*   "second" (about to call userfunc(.., SECOND)).  ret = value returned by the callee to the
\*   activation on top (NONE when none pending); res = final result or RUNNING.
NONE == -99  RUNNING == -98
MInit(t) == [fr |-> <<[n |-> 1, call |-> RootCall(t, 0), pc |-> "first", i |-> 0]>>, ret |-> NONE, res |-> RUNNING]
MTop(m) == m.fr[Len(m.fr)]
MAtCall(m) == m.res = RUNNING /\ m.ret = NONE /\ MTop(m).pc \in {"first", "second"}
MCall(m) == IF MTop(m).pc = "first" THEN MTop(m).call ELSE [MTop(m).call EXCEPT !.f = SECOND]
\* return value v from the top activation to its caller (or to json_c_visit at top level)
MReturn(m, v) ==
    IF Len(m.fr) = 1
    THEN [m EXCEPT !.fr = <<>>, !.ret = NONE, !.res = IF v \in {CONTINUE, SKIP, POP, STOP} THEN 0 ELSE -1]
    ELSE [m EXCEPT !.fr = SubSeq(m.fr, 1, Len(m.fr) - 1), !.ret = v]
\* the callback answered `code` to the call of the top activation
MAnswer(t, m, code, MUT) ==
    LET a == MTop(m) IN
    IF a.pc = "first" THEN
        IF code = CONTINUE THEN
            (IF IsContainer(t, a.n) THEN [m EXCEPT !.fr[Len(m.fr)].pc = "loop", !.fr[Len(m.fr)].i = 0]
             ELSE MReturn(m, CONTINUE))
        ELSE IF code \in {SKIP, POP, STOP, ERROR} THEN MReturn(m, code)
        ELSE MReturn(m, ERROR)
    ELSE \* second
        IF code \in {CONTINUE, SKIP, POP} THEN MReturn(m, IF "second_keeps_pop" \in MUT THEN code ELSE CONTINUE)
        ELSE IF code \in {STOP, ERROR} THEN MReturn(m, code)
        ELSE MReturn(m, ERROR)
\* internal step of the top activation (in its child loop)
MInternal(t, m, MUT) ==
    LET a == MTop(m) IN
    IF m.ret # NONE THEN
        \* a child returned
        (IF m.ret = POP THEN [m EXCEPT !.ret = NONE, !.fr[Len(m.fr)].pc = IF "pop_skips_second" \in MUT THEN "ret" ELSE "second"]
         ELSE IF m.ret \in {STOP, ERROR} THEN MReturn([m EXCEPT !.ret = NONE], m.ret)
         ELSE IF m.ret \in {CONTINUE, SKIP} THEN [m EXCEPT !.ret = NONE]
         ELSE MReturn([m EXCEPT !.ret = NONE], ERROR))
    ELSE IF a.pc = "ret" THEN MReturn(m, CONTINUE)
    ELSE \* loop: next child or fall out to the flagged visit
        IF a.i < Len(t[a.n].kids)
        THEN [m EXCEPT !.fr[Len(m.fr)].i = a.i + 1,
                       !.fr = Append(@, [n |-> t[a.n].kids[a.i + 1], call |-> ChildCall(t, a.n, a.i, 0), pc |-> "first", i |-> 0])]
        ELSE [m EXCEPT !.fr[Len(m.fr)].pc = "second"]
====
