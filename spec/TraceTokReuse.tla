---- MODULE TraceTokReuse ----
(* Trace specification for C04.  "reuse" events: a parser that was left in an arbitrary condition
   (mid-token, after an error, after a success) is reset and given a text in some chunking; a
   brand-new parser is given the same text and chunking.  Alarming: (a) every recorded call ends
   in exactly one of: value + success, no value + continue, no value + error status; (b) the
   reported end position never exceeds the length given; (c) the reset parser's outcome equals
   the new parser's; (d) "freed" events: after json_tokener_free nothing the parser allocated
   remains.  Informational: the Tokener module's prediction of the run. *)
EXTENDS Naturals, Integers, Sequences, TLC, Json, IOUtils
VARIABLES st, l
TK == INSTANCE Tokener WITH AsFound <- {}
Statuses == {"success", "continue", "depth", "eof", "unexpected", "null", "boolean", "number", "array", "key_name", "key_sep",
             "value_sep", "string", "comment", "utf8", "size", "memory"}
CallOk(c) == /\ c.st \in Statuses
             /\ c.hasval => c.st = "success"          \* (a JSON null document is the NULL pointer with status success)
             /\ c.end >= 0 /\ c.end <= c.len
FlagsOf(i) == CASE i = 0 -> TK!Flags(FALSE, FALSE, FALSE) [] i = 1 -> TK!Flags(TRUE, FALSE, FALSE)
                [] i = 2 -> TK!Flags(TRUE, TRUE, FALSE) [] i = 3 -> TK!Flags(FALSE, FALSE, TRUE) [] OTHER -> TK!Flags(TRUE, FALSE, TRUE)
Chunk(text, cuts, k) == SubSeq(text, (IF k = 1 THEN 0 ELSE cuts[k - 1]) + 1, IF k > Len(cuts) THEN Len(text) ELSE cuts[k])
RECURSIVE RunChunks(_, _, _, _, _)
RunChunks(tok, text, cuts, k, base) ==
    LET t1 == TK!Call(tok, Chunk(text, cuts, k)) IN
    IF t1.err = "continue" /\ k <= Len(cuts) THEN RunChunks(t1, text, cuts, k + 1, cuts[k])
    ELSE [tok |-> t1, base |-> base]
Predict(r) == LET x == RunChunks(TK!Fresh(r.depth, FlagsOf(r.fl)), r.text, r.cuts, 1, 0)
              IN [st |-> x.tok.err, val |-> x.tok.ret, end |-> x.base + x.tok.off]
StepOfImpl(s, r) ==
    IF r.e = "freed" THEN [ok |-> r.leak = 0, st |-> s]
    ELSE [ok |-> /\ \A i \in 1..Len(r.calls) : CallOk(r.calls[i])
                 /\ r.reused = r.fresh
                 /\ r.reused.val.t # "value-with-error" /\ r.reused.end >= 0
                 /\ (r.reused.st = "success" /\ ~r.calls[Len(r.calls)].hasval) => r.reused.val = [t |-> "null"]
                 /\ (Len(r.text) > 1500 \/ (Predict(r) = r.fresh) \/ PrintT(<<"MECH", l>>)),
          st |-> s]
TraceLog == ndJsonDeserialize(IOEnv.TRACE)
T == INSTANCE TraceBase WITH Log <- TraceLog, InitSt <- 0, StepOf <- StepOfImpl, ResyncAtNew <- FALSE
Spec == T!Spec
Done == T!Done
====
