---- MODULE MCPointer ----
(* C12 (TLC): for every tree of a small universe with adversarial member names and EVERY pointer
   string over an alphabet up to MaxLen: the C-string mechanism (PointerMech) resolves exactly as RFC
   6901 evaluation (Pointer), set places the value exactly there, and a following get returns it. *)
EXTENDS PointerMech, TLC
CONSTANTS Alphabet, MaxLen
VARIABLES tree, ptr
vars == <<tree, ptr>>
L(kind, keys, kids) == [kind |-> kind, keys |-> keys, kids |-> kids]
Leaf == L("l", <<>>, <<>>)
\* node 99 = the value to set (a leaf that is not yet in the document)
TreeA == (1 :> L("o", << <<>>, <<97>>, <<47>>, <<126>>, <<48>>, <<48, 49>>, <<45>>, <<97, 47, 98>>, <<126, 49>>, <<110>>, <<126, 48>> >>,
                        <<2, 3, 7, 8, 9, 10, 11, 12, 13, 0, 14>>)
          @@ 2 :> Leaf @@ 3 :> L("a", <<>>, <<4, 0, 5>>) @@ 4 :> Leaf @@ 5 :> L("o", << <<98>> >>, <<6>>) @@ 6 :> Leaf
          @@ 7 :> Leaf @@ 8 :> Leaf @@ 9 :> Leaf @@ 10 :> Leaf @@ 11 :> Leaf @@ 12 :> Leaf @@ 13 :> Leaf @@ 14 :> Leaf @@ 99 :> Leaf)
TreeB == (1 :> L("a", <<>>, <<2, 0, 3, 5>>) @@ 2 :> Leaf @@ 3 :> L("a", <<>>, <<4>>) @@ 4 :> Leaf
          @@ 5 :> L("o", << <<48>>, <<45>>, <<>> >>, <<6, 7, 0>>) @@ 6 :> Leaf @@ 7 :> Leaf @@ 99 :> Leaf)
TreeC == (1 :> Leaf @@ 99 :> Leaf)
TreeD == (1 :> L("a", <<>>, <<>>) @@ 99 :> Leaf)
Trees == {TreeA, TreeB, TreeC, TreeD}
Init == tree \in Trees /\ ptr = <<>>
Next == Len(ptr) < MaxLen /\ \E c \in Alphabet : ptr' = Append(ptr, c) /\ UNCHANGED tree
Spec == Init /\ [][Next]_vars
Class(r) == IF r.st = "ok" THEN r ELSE [r EXCEPT !.st = "fail"]     \* not-found vs invalid is not constrained
GetAgrees == Lenient(ptr) \/ Class(GetM(tree, 1, ptr)) = Class(Eval(tree, 1, ptr))
SetAgrees == Lenient(ptr) \/ SetM(tree, 1, ptr, 99) = Set(tree, 1, ptr, 99)
\* Abs law: what was set is what is found there afterwards (append through "-" excepted: "-" never resolves)
SetThenGet == LET s == Set(tree, 1, ptr, 99) IN
              (s.st \in {"ok", "extends"} /\ Len(ptr) > 0 /\ ~Lenient(ptr) /\ ~(Len(ptr) > 0 /\ ptr[Len(ptr)] = DASH /\ Eval(tree, 1, ptr).st # "ok"))
                 => Eval(s.t, 1, ptr).node = 99
UnescapeOrder == Unescape(<<126, 48, 49>>) = <<126, 49>> /\ UnescapeM(<<126, 48, 49>>) = <<126, 49>>
====
