---- MODULE GLinkHash ----
(* behaviour export for direction G (C06): one shortest history per transition of the LinkHash graph *)
EXTENDS MCLinkHash, Json
VARIABLE hist
GInit == Init /\ hist = <<>>
GNext == Next /\ hist' = Append(hist, last')
GSpec == GInit /\ [][GNext]_<<vars, hist>>
GView == <<slots, head, tail, count, size>>
GExport == PrintT(<<"EDGE", ToJson(hist')>>)
====
