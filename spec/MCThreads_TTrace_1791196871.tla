---- MODULE MCThreads_TTrace_1791196871 ----
EXTENDS Sequences, TLCExt, Toolbox, Naturals, TLC, MCThreads

_expression ==
    LET MCThreads_TEExpression == INSTANCE MCThreads_TEExpression
    IN MCThreads_TEExpression!expression
----

_trace ==
    LET MCThreads_TETrace == INSTANCE MCThreads_TETrace
    IN MCThreads_TETrace!trace
----

_inv ==
    ~(
        TLCGet("level") = Len(_TETrace)
        /\
        phase = (<<"hash2", "prog", "prog">>)
        /\
        rc = (<<1, 1>>)
        /\
        pc = (<<3, 1, 1>>)
        /\
        bad = (FALSE)
        /\
        seed = (-1)
        /\
        tmp = (<<-1, -1, -1>>)
        /\
        ndestroy = (<<0, 0>>)
        /\
        cand = (<<-2, -1, -1>>)
        /\
        dead = ({})
        /\
        used = (<<<<-1>>, <<>>, <<>>>>)
        /\
        mainput = (FALSE)
    )
----

_init ==
    /\ phase = _TETrace[1].phase
    /\ bad = _TETrace[1].bad
    /\ mainput = _TETrace[1].mainput
    /\ cand = _TETrace[1].cand
    /\ tmp = _TETrace[1].tmp
    /\ pc = _TETrace[1].pc
    /\ rc = _TETrace[1].rc
    /\ used = _TETrace[1].used
    /\ ndestroy = _TETrace[1].ndestroy
    /\ dead = _TETrace[1].dead
    /\ seed = _TETrace[1].seed
----

_next ==
    /\ \E i,j \in DOMAIN _TETrace:
        /\ \/ /\ j = i + 1
              /\ i = TLCGet("level")
        /\ phase  = _TETrace[i].phase
        /\ phase' = _TETrace[j].phase
        /\ bad  = _TETrace[i].bad
        /\ bad' = _TETrace[j].bad
        /\ mainput  = _TETrace[i].mainput
        /\ mainput' = _TETrace[j].mainput
        /\ cand  = _TETrace[i].cand
        /\ cand' = _TETrace[j].cand
        /\ tmp  = _TETrace[i].tmp
        /\ tmp' = _TETrace[j].tmp
        /\ pc  = _TETrace[i].pc
        /\ pc' = _TETrace[j].pc
        /\ rc  = _TETrace[i].rc
        /\ rc' = _TETrace[j].rc
        /\ used  = _TETrace[i].used
        /\ used' = _TETrace[j].used
        /\ ndestroy  = _TETrace[i].ndestroy
        /\ ndestroy' = _TETrace[j].ndestroy
        /\ dead  = _TETrace[i].dead
        /\ dead' = _TETrace[j].dead
        /\ seed  = _TETrace[i].seed
        /\ seed' = _TETrace[j].seed

\* Uncomment the ASSUME below to write the states of the error trace
\* to the given file in Json format. Note that you can pass any tuple
\* to `JsonSerialize`. For example, a sub-sequence of _TETrace.
    \* ASSUME
    \*     LET J == INSTANCE Json
    \*         IN J!JsonSerialize("MCThreads_TTrace_1791196871.json", _TETrace)

=============================================================================

 Note that you can extract this module `MCThreads_TEExpression`
  to a dedicated file to reuse `expression` (the module in the 
  dedicated `MCThreads_TEExpression.tla` file takes precedence 
  over the module `MCThreads_TEExpression` below).

---- MODULE MCThreads_TEExpression ----
EXTENDS Sequences, TLCExt, Toolbox, Naturals, TLC, MCThreads

expression == 
    [
        \* To hide variables of the `MCThreads` spec from the error trace,
        \* remove the variables below.  The trace will be written in the order
        \* of the fields of this record.
        phase |-> phase
        ,bad |-> bad
        ,mainput |-> mainput
        ,cand |-> cand
        ,tmp |-> tmp
        ,pc |-> pc
        ,rc |-> rc
        ,used |-> used
        ,ndestroy |-> ndestroy
        ,dead |-> dead
        ,seed |-> seed
        
        \* Put additional constant-, state-, and action-level expressions here:
        \* ,_stateNumber |-> _TEPosition
        \* ,_phaseUnchanged |-> phase = phase'
        
        \* Format the `phase` variable as Json value.
        \* ,_phaseJson |->
        \*     LET J == INSTANCE Json
        \*     IN J!ToJson(phase)
        
        \* Lastly, you may build expressions over arbitrary sets of states by
        \* leveraging the _TETrace operator.  For example, this is how to
        \* count the number of times a spec variable changed up to the current
        \* state in the trace.
        \* ,_phaseModCount |->
        \*     LET F[s \in DOMAIN _TETrace] ==
        \*         IF s = 1 THEN 0
        \*         ELSE IF _TETrace[s].phase # _TETrace[s-1].phase
        \*             THEN 1 + F[s-1] ELSE F[s-1]
        \*     IN F[_TEPosition - 1]
    ]

=============================================================================



Parsing and semantic processing can take forever if the trace below is long.
 In this case, it is advised to uncomment the module below to deserialize the
 trace from a generated binary file.

\*
\*---- MODULE MCThreads_TETrace ----
\*EXTENDS IOUtils, TLC, MCThreads
\*
\*trace == IODeserialize("MCThreads_TTrace_1791196871.bin", TRUE)
\*
\*=============================================================================
\*

---- MODULE MCThreads_TETrace ----
EXTENDS TLC, MCThreads

trace == 
    <<
    ([phase |-> <<"prog", "prog", "prog">>,rc |-> <<1, 1>>,pc |-> <<1, 1, 1>>,bad |-> FALSE,seed |-> -1,tmp |-> <<-1, -1, -1>>,ndestroy |-> <<0, 0>>,cand |-> <<-1, -1, -1>>,dead |-> {},used |-> <<<<>>, <<>>, <<>>>>,mainput |-> FALSE]),
    ([phase |-> <<"prog", "prog", "prog">>,rc |-> <<2, 1>>,pc |-> <<2, 1, 1>>,bad |-> FALSE,seed |-> -1,tmp |-> <<-1, -1, -1>>,ndestroy |-> <<0, 0>>,cand |-> <<-1, -1, -1>>,dead |-> {},used |-> <<<<>>, <<>>, <<>>>>,mainput |-> FALSE]),
    ([phase |-> <<"prog", "prog", "prog">>,rc |-> <<1, 1>>,pc |-> <<3, 1, 1>>,bad |-> FALSE,seed |-> -1,tmp |-> <<-1, -1, -1>>,ndestroy |-> <<0, 0>>,cand |-> <<-1, -1, -1>>,dead |-> {},used |-> <<<<>>, <<>>, <<>>>>,mainput |-> FALSE]),
    ([phase |-> <<"read", "prog", "prog">>,rc |-> <<1, 1>>,pc |-> <<3, 1, 1>>,bad |-> FALSE,seed |-> -1,tmp |-> <<-1, -1, -1>>,ndestroy |-> <<0, 0>>,cand |-> <<-1, -1, -1>>,dead |-> {},used |-> <<<<>>, <<>>, <<>>>>,mainput |-> FALSE]),
    ([phase |-> <<"publish", "prog", "prog">>,rc |-> <<1, 1>>,pc |-> <<3, 1, 1>>,bad |-> FALSE,seed |-> -1,tmp |-> <<-1, -1, -1>>,ndestroy |-> <<0, 0>>,cand |-> <<-2, -1, -1>>,dead |-> {},used |-> <<<<>>, <<>>, <<>>>>,mainput |-> FALSE]),
    ([phase |-> <<"hash1", "prog", "prog">>,rc |-> <<1, 1>>,pc |-> <<3, 1, 1>>,bad |-> FALSE,seed |-> -1,tmp |-> <<-1, -1, -1>>,ndestroy |-> <<0, 0>>,cand |-> <<-2, -1, -1>>,dead |-> {},used |-> <<<<>>, <<>>, <<>>>>,mainput |-> FALSE]),
    ([phase |-> <<"hash2", "prog", "prog">>,rc |-> <<1, 1>>,pc |-> <<3, 1, 1>>,bad |-> FALSE,seed |-> -1,tmp |-> <<-1, -1, -1>>,ndestroy |-> <<0, 0>>,cand |-> <<-2, -1, -1>>,dead |-> {},used |-> <<<<-1>>, <<>>, <<>>>>,mainput |-> FALSE])
    >>
----


=============================================================================

---- CONFIG MCThreads_TTrace_1791196871 ----
CONSTANTS
    NThreads = 3
    Nodes = { 1 , 2 }
    Prog <- Prog3
    AtomicRMW = TRUE
    InitRc = 1
    MainHolds = TRUE
    MUTT = { "publish_sentinel" }

INVARIANT
    _inv

CHECK_DEADLOCK
    \* CHECK_DEADLOCK off because of PROPERTY or INVARIANT above.
    FALSE

INIT
    _init

NEXT
    _next

CONSTANT
    _TETrace <- _trace

ALIAS
    _expression
=============================================================================
\* Generated on Mon Oct 05 10:41:11 UTC 2026