---- MODULE ArrayList ----
(* Mech layer for C07: struct array_list {array, length, size} with the growth rule and the
   overflow guards of arraylist.c, over a small size_t: SizeMax stands for SIZE_MAX, PtrSize for
   sizeof(void* ), and size_t arithmetic wraps modulo SizeMax+1 (W), so a missing guard shows up
   as a wrong result / refinement failure rather than being hidden by unbounded naturals.
   array is a function 0..size-1 -> element | JUNK (never written).  Stores go through St(),
   which raises oob when the index is outside the allocation.  MUT = mutant switches. *)
EXTENDS Naturals, Integers, Sequences, FiniteSets, TLC
CONSTANTS SizeMax, PtrSize, InitSizes, Vals, SmallIdx, BigIdx, MaxLen, MUT
VARIABLES array, length, size, oob, last
vars == <<array, length, size, oob, last>>
JUNK == 99
W(x) == x % (SizeMax + 1)
Lim == SizeMax \div PtrSize            \* largest element count whose byte size fits size_t
Arg(i) == IF i > Lim THEN [big |-> 1, n |-> SizeMax - i] ELSE [big |-> 0, n |-> i]
NoCall == [op |-> "none", idx |-> Arg(0), count |-> Arg(0), v |-> 0, ret |-> 0, freed |-> {}, after |-> <<>>, key |-> 0]

\* array_list_expand_internal(arr, max) on [a, sz]: returns [ok, a, sz]
Expand(a, sz, max) ==
    IF max < sz THEN [ok |-> TRUE, a |-> a, sz |-> sz]
    ELSE LET dbl == IF sz >= SizeMax \div 2 THEN max ELSE (IF W(sz * 2) < max THEN max ELSE W(sz * 2))
             ns == IF "expand_exact" \in MUT THEN max ELSE dbl
         IN IF ns > Lim /\ "no_mul_guard" \notin MUT THEN [ok |-> FALSE, a |-> a, sz |-> sz]
            ELSE IF W(ns * PtrSize) < ns
                 THEN [ok |-> TRUE, a |-> [i \in 0..(W(ns * PtrSize) \div PtrSize) - 1 |-> IF i < sz THEN a[i] ELSE JUNK], sz |-> ns]  \* wrapped byte count: short allocation
            ELSE [ok |-> TRUE, a |-> [i \in 0..(ns - 1) |-> IF i < sz THEN a[i] ELSE JUNK], sz |-> ns]

Alloc(a) == Cardinality(DOMAIN a)      \* real number of slots in the allocation
StoreOob(a, i) == i >= Alloc(a)
St(a, i, v) == IF i < Alloc(a) THEN [a EXCEPT ![i] = v] ELSE a

Fail(c) == /\ last' = [c EXCEPT !.ret = -1] /\ UNCHANGED <<array, length, size, oob>>

Add(v) ==
    LET c == [NoCall EXCEPT !.op = "add", !.v = v] IN
    IF length > SizeMax - 1 THEN Fail(c)
    ELSE LET e == Expand(array, size, length + 1) IN
         IF ~e.ok THEN Fail(c)
         ELSE /\ array' = St(e.a, length, v) /\ size' = e.sz /\ length' = length + 1
              /\ oob' = (oob \/ StoreOob(e.a, length)) /\ last' = c

PutCore(c, idx, v) ==
    IF idx > SizeMax - 1 /\ "put_no_max_guard" \notin MUT THEN Fail(c)
    ELSE LET e == Expand(array, size, W(idx + 1)) IN
         IF ~e.ok THEN Fail(c)
         ELSE LET freed == IF idx < length /\ e.a[idx] \notin {0, JUNK} THEN {e.a[idx]} ELSE {}
                  a1 == St(e.a, idx, v)
                  a2 == IF idx > length /\ "put_no_gapfill" \notin MUT
                        THEN [i \in DOMAIN a1 |-> IF i >= length /\ i < idx THEN 0 ELSE a1[i]] ELSE a1
              IN /\ array' = a2 /\ size' = e.sz
                 /\ length' = IF length <= idx THEN idx + 1 ELSE length
                 /\ oob' = (oob \/ StoreOob(e.a, idx))
                 /\ last' = [c EXCEPT !.freed = freed]
Put(idx, v) == PutCore([NoCall EXCEPT !.op = "put", !.idx = Arg(idx), !.v = v], idx, v)

Insert(idx, v) ==
    LET c == [NoCall EXCEPT !.op = "insert", !.idx = Arg(idx), !.v = v] IN
    IF idx >= length THEN PutCore(c, idx, v)
    ELSE IF length = SizeMax THEN Fail(c)
    ELSE LET e == Expand(array, size, length + 1) IN
         IF ~e.ok THEN Fail(c)
         ELSE LET a1 == [i \in DOMAIN e.a |-> IF i > idx /\ i <= length THEN e.a[i - 1] ELSE IF i = idx THEN v ELSE e.a[i]]
              IN /\ array' = a1 /\ size' = e.sz /\ length' = length + 1
                 /\ oob' = (oob \/ StoreOob(e.a, length)) /\ last' = c

Del(idx, count) ==
    LET c == [NoCall EXCEPT !.op = "del", !.idx = Arg(idx), !.count = Arg(count)] IN
    IF idx > SizeMax - count /\ "del_no_overflow_guard" \notin MUT THEN Fail(c)
    ELSE LET stop == W(idx + count) IN
         IF idx >= length \/ stop > length THEN Fail(c)
         ELSE LET freed == {array[i] : i \in {j \in idx..(stop - 1) : j < length}} \ {0, JUNK}
                  n == length - stop
                  a1 == [i \in DOMAIN array |-> IF i >= idx /\ i < idx + n THEN array[stop + (i - idx)] ELSE array[i]]
              IN /\ array' = a1 /\ length' = W(length + (SizeMax + 1) - count) /\ UNCHANGED <<size, oob>>
                 /\ last' = [c EXCEPT !.freed = freed]

Shrink(k) ==
    LET c == [NoCall EXCEPT !.op = "shrink", !.count = Arg(k)] IN
    IF k >= Lim - length THEN Fail(c)
    ELSE LET ns == length + k IN
         IF ns = size THEN last' = c /\ UNCHANGED <<array, length, size, oob>>
         ELSE IF ns > size
              THEN LET e == Expand(array, size, ns) IN
                   IF ~e.ok THEN Fail(c) ELSE array' = e.a /\ size' = e.sz /\ last' = c /\ UNCHANGED <<length, oob>>
         ELSE LET ns1 == IF ns = 0 THEN 1 ELSE ns IN
              /\ array' = [i \in 0..(ns1 - 1) |-> array[i]] /\ size' = ns1 /\ last' = c /\ UNCHANGED <<length, oob>>

Get(idx) == /\ last' = [NoCall EXCEPT !.op = "get", !.idx = Arg(idx), !.v = IF idx >= length THEN 0 ELSE array[idx]]
            /\ UNCHANGED <<array, length, size, oob>>

Init == /\ \E s \in InitSizes : size = s /\ array = [i \in 0..(s - 1) |-> JUNK]
        /\ length = 0 /\ oob = FALSE /\ last = [NoCall EXCEPT !.op = "new"]
Idxs == SmallIdx \cup BigIdx
OpAdd == \E v \in Vals : Add(v)
OpPut == \E i \in Idxs, v \in Vals : Put(i, v)
OpInsert == \E i \in Idxs, v \in Vals : Insert(i, v)
OpDel == \E i \in Idxs, n \in Idxs : Del(i, n)
OpShrink == \E k \in {0, 1, 3} : Shrink(k)
OpGet == \E i \in Idxs : Get(i)
Next == OpAdd \/ OpPut \/ OpInsert \/ OpDel \/ OpShrink \/ OpGet
Spec == Init /\ [][Next]_vars
LenBound == length <= MaxLen        \* CONSTRAINT

-----------------------------------------------------------------------------
Abs == [i \in 1..length |-> array[i - 1]]
SG == INSTANCE SeqGap WITH arr <- Abs, call <- last, KeyOf <- LAMBDA e : e, BigLen <- (Lim \div 2) + 1
Refines == SG!Spec
InBounds == ~oob
Shape == length <= size /\ size = Alloc(array) /\ size <= Lim
NoJunkVisible == \A i \in 0..(length - 1) : array[i] # JUNK
FailureLeavesState == [][last'.ret = -1 => UNCHANGED <<array, length, size>>]_vars
====
