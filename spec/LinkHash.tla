---- MODULE LinkHash ----
(* Mech layer for C06: struct lh_table as in linkhash.c - open addressing with EMPTY / FREED
   (tombstone) markers, an insertion-order doubly linked list threaded through the slots,
   count/size with the load rule, resize by re-insertion in list order - plus the
   json_object-level add (lookup, replace in place or insert) and the foreach-with-deletion
   loop of json_object_object_foreach.  HashOf is a constant function chosen per model to force
   collisions, wrap-around at the last slot and redistribution after doubling.
   MUT = mutant switches (anti-vacuity). *)
EXTENDS Naturals, Integers, Sequences, FiniteSets, TLC
CONSTANTS Keys, Vals, InitSize, MaxSize, HashOf, MUT, DelSets, ResizeTo
VARIABLES slots, head, tail, count, size, last
vars == <<slots, head, tail, count, size, last>>
EMPTY == "EMPTY"  FREED == "FREED"  NIL == 99
Blank == [k |-> EMPTY, v |-> 0, next |-> NIL, prev |-> NIL]
Live(s, i) == s[i].k \notin {EMPTY, FREED}
Idx(sz) == 0..(sz - 1)

\* insert probe: first EMPTY or FREED slot from n, cyclically
\* (fuel: the real loop has no bound - it relies on count < size; a probe that runs out of fuel
\*  is a non-terminating insert and shows up as an evaluation error on slot NIL)
RECURSIVE ProbeFreeF(_, _, _, _)
ProbeFreeF(s, sz, n, fuel) == IF fuel = 0 THEN NIL
                              ELSE IF s[n].k \in {EMPTY, FREED} THEN n
                              ELSE ProbeFreeF(s, sz, IF "no_wrap" \in MUT /\ n + 1 = sz THEN n ELSE (n + 1) % sz, fuel - 1)
ProbeFree(s, sz, n) == ProbeFreeF(s, sz, n, sz + 1)

\* lookup probe: lh_table_lookup_entry_w_hash
RECURSIVE ProbeFind(_, _, _, _, _)
ProbeFind(s, sz, n, k, cnt) ==
   IF cnt >= sz THEN NIL
   ELSE IF s[n].k = EMPTY THEN NIL
   ELSE IF "stop_at_tomb" \in MUT /\ s[n].k = FREED THEN NIL
   ELSE IF s[n].k = k THEN n
   ELSE ProbeFind(s, sz, (n + 1) % sz, k, cnt + 1)
Find(s, sz, k) == ProbeFind(s, sz, HashOf[k] % sz, k, 0)

\* a table value: [s, sz, hd, tl, c]
RawInsert(t, k, v) ==
   LET n == ProbeFree(t.s, t.sz, HashOf[k] % t.sz)
       s1 == [t.s EXCEPT ![n] = [k |-> k, v |-> v, next |-> NIL, prev |-> IF t.hd = NIL THEN NIL ELSE t.tl]]
       s2 == IF t.hd = NIL THEN s1 ELSE [s1 EXCEPT ![t.tl].next = n]
   IN [s |-> s2, sz |-> t.sz, hd |-> IF t.hd = NIL THEN n ELSE t.hd, tl |-> n, c |-> t.c + 1]

RECURSIVE Walk(_, _)
Walk(s, n) == IF n = NIL THEN <<>> ELSE <<n>> \o Walk(s, s[n].next)

RECURSIVE Reinsert(_, _, _)
Reinsert(t, olds, order) == IF order = <<>> THEN t
                            ELSE Reinsert(RawInsert(t, olds[Head(order)].k, olds[Head(order)].v), olds, Tail(order))
SlotOrder(s, sz) == LET RECURSIVE F(_)
                        F(i) == IF i = sz THEN <<>> ELSE (IF Live(s, i) THEN <<i>> ELSE <<>>) \o F(i + 1)
                    IN F(0)
Cur == [s |-> slots, sz |-> size, hd |-> head, tl |-> tail, c |-> count]

Resized(t, newsz) ==
   LET empty == [s |-> [i \in Idx(newsz) |-> Blank], sz |-> newsz, hd |-> NIL, tl |-> NIL, c |-> 0]
       order == IF "resize_slot_order" \in MUT THEN SlotOrder(t.s, t.sz) ELSE Walk(t.s, t.hd)
   IN Reinsert(empty, t.s, order)

NeedResize(t) == t.c * 100 >= t.sz * 66            \* count >= size * LH_LOAD_FACTOR, without reals

\* lh_table_insert_w_hash
TableInsert(t, k, v) == RawInsert(IF NeedResize(t) THEN Resized(t, t.sz * 2) ELSE t, k, v)

\* lh_table_resize(t, newsz) called by the user with any positive size: a NEW table of newsz slots is filled through
\* lh_table_insert_w_hash, which applies the load rule to the new table itself - a requested size that is too
\* small for the entries grows on the way, and the table ends up with the size the new table reached.
\* (as found, "resize_keeps_request": the requested size was stored next to the bigger slot array)
RECURSIVE ReinsertG(_, _, _)
ReinsertG(t, olds, order) == IF order = <<>> THEN t
                             ELSE ReinsertG(TableInsert(t, olds[Head(order)].k, olds[Head(order)].v), olds, Tail(order))
ResizedTo(t, newsz) ==
   LET empty == [s |-> [i \in Idx(newsz) |-> Blank], sz |-> newsz, hd |-> NIL, tl |-> NIL, c |-> 0]
   IN ReinsertG(empty, t.s, Walk(t.s, t.hd))

\* lh_table_delete_entry at slot n
TableDelete(t, n) ==
   LET e == t.s[n]
       s1 == [t.s EXCEPT ![n] = [k |-> FREED, v |-> 0, next |-> NIL, prev |-> NIL]]
       s2 == IF "delete_keeps_links" \in MUT THEN s1
             ELSE LET a == IF e.prev # NIL THEN [s1 EXCEPT ![e.prev].next = e.next] ELSE s1
                  IN IF e.next # NIL THEN [a EXCEPT ![e.next].prev = e.prev] ELSE a
   IN [s |-> s2, sz |-> t.sz,
       hd |-> IF t.hd = n THEN e.next ELSE t.hd,
       tl |-> IF t.tl = n THEN e.prev ELSE t.tl,
       c |-> t.c - 1]

Set(t) == /\ slots' = t.s /\ size' = t.sz /\ head' = t.hd /\ tail' = t.tl /\ count' = t.c

\* json_object_object_add: lookup; replace in place, or insert (with resize when loaded)
Add(k, v) ==
   LET n == Find(slots, size, k) IN
   /\ (n = NIL /\ NeedResize(Cur)) => size * 2 <= MaxSize
   /\ Set(IF n = NIL THEN TableInsert(Cur, k, v) ELSE [Cur EXCEPT !.s[n].v = v])
   /\ last' = [op |-> "add", k |-> k, v |-> v, ret |-> 0, ks |-> <<>>, visited |-> <<>>]

\* json_object_object_add_ex(KEY_IS_NEW): no lookup; the caller promises the key is absent
AddNew(k, v) ==
   /\ Find(slots, size, k) = NIL
   /\ NeedResize(Cur) => size * 2 <= MaxSize
   /\ Set(TableInsert(Cur, k, v))
   /\ last' = [op |-> "addnew", k |-> k, v |-> v, ret |-> 0, ks |-> <<>>, visited |-> <<>>]

\* lh_table_delete
Del(k) ==
   LET n == Find(slots, size, k) IN
   /\ IF n = NIL THEN UNCHANGED <<slots, head, tail, count, size>> ELSE Set(TableDelete(Cur, n))
   /\ last' = [op |-> "del", k |-> k, v |-> 0, ret |-> IF n = NIL THEN -1 ELSE 0, ks |-> <<>>, visited |-> <<>>]

\* json_object_object_foreach with json_object_object_del(obj, key) in the body for keys in P:
\* the macro captures the next entry BEFORE the body runs
RECURSIVE Loop(_, _, _, _)
Loop(t, cur, P, vis) ==
   IF cur = NIL THEN [t |-> t, vis |-> vis]
   ELSE LET key == t.s[cur].k
            nextBefore == t.s[cur].next
            t2 == IF key \in P THEN (LET n == Find(t.s, t.sz, key) IN IF n = NIL THEN t ELSE TableDelete(t, n)) ELSE t
            nxt == IF "iter_next_after_body" \in MUT THEN t2.s[cur].next ELSE nextBefore
        IN Loop(t2, nxt, P, Append(vis, key))
SetToSeq(S) == LET RECURSIVE F(_)
                   F(T) == IF T = {} THEN <<>> ELSE LET x == CHOOSE y \in T : TRUE IN <<x>> \o F(T \ {x})
               IN F(S)
ForeachDel(P) ==
   LET r == Loop(Cur, head, P, <<>>) IN
   /\ Set(r.t)
   /\ last' = [op |-> "fdel", k |-> "", v |-> 0, ret |-> 0, ks |-> SetToSeq(P), visited |-> r.vis]

UserResize(newsz) ==
   LET r == ResizedTo(Cur, newsz) IN
   /\ r.sz <= MaxSize
   /\ Set(IF "resize_keeps_request" \in MUT THEN [r EXCEPT !.sz = newsz] ELSE r)
   /\ last' = [op |-> "resize", k |-> "", v |-> newsz, ret |-> 0, ks |-> <<>>, visited |-> <<>>]

Init == /\ size = InitSize /\ slots = [i \in Idx(InitSize) |-> Blank] /\ head = NIL /\ tail = NIL /\ count = 0
        /\ last = [op |-> "new", k |-> "", v |-> 0, ret |-> 0, ks |-> <<>>, visited |-> <<>>]
OpAdd == \E k \in Keys, v \in Vals : Add(k, v)
OpAddNew == \E k \in Keys, v \in Vals : AddNew(k, v)
OpDel == \E k \in Keys : Del(k)
OpForeachDel == \E P \in DelSets : ForeachDel(P)
OpResize == \E n \in ResizeTo : UserResize(n)
Next == OpAdd \/ OpAddNew \/ OpDel \/ OpForeachDel \/ OpResize
Spec == Init /\ [][Next]_vars

-----------------------------------------------------------------------------
Abs == LET w == Walk(slots, head) IN [i \in 1..Len(w) |-> [k |-> slots[w[i]].k, v |-> slots[w[i]].v]]
OM == INSTANCE OrderedMap WITH om <- Abs, call <- last
Refines == OM!Spec

LookupOK == \A k \in Keys : (Find(slots, size, k) # NIL) <=> (\E i \in Idx(size) : slots[i].k = k)
LookupValueOK == \A k \in Keys : LET n == Find(slots, size, k) IN n # NIL => slots[n].v = OM!Get(Abs, k)
\* (a table may be full - 1 entry in 1 slot, 2 in 2, after a user resize - because every insertion applies the load rule first)
CountOK == count = Cardinality({i \in Idx(size) : Live(slots, i)}) /\ (count < size \/ NeedResize(Cur)) /\ DOMAIN slots = Idx(size)
ListOK == LET w == Walk(slots, head) IN
            /\ {w[i] : i \in 1..Len(w)} = {i \in Idx(size) : Live(slots, i)}
            /\ Len(w) = count
            /\ (w # <<>> => tail = w[Len(w)])
            /\ (w = <<>> => tail = NIL)
            /\ \A i \in 1..Len(w) : slots[w[i]].prev = IF i = 1 THEN NIL ELSE w[i - 1]
NoDup == \A i, j \in Idx(size) : (Live(slots, i) /\ Live(slots, j) /\ slots[i].k = slots[j].k) => i = j
\* probe reachability: no EMPTY slot between a key's home slot and where it lives (cyclically)
ProbeReach == \A i \in Idx(size) : Live(slots, i) =>
                 LET h == HashOf[slots[i].k] % size
                     d == (i + size - h) % size
                 IN \A j \in 0..d : slots[(h + j) % size].k # EMPTY
====
