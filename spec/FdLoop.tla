---- MODULE FdLoop ----
(* C20, liveness: the write loop of _json_object_to_fd and the read loop of json_object_from_fd_ex as step machines.
   FdIO.tla judges WHAT is delivered for every schedule (fold-shaped, so that recorded executions can be judged by the same
   operators); this module states that the loops END: under weak fairness of the loop body and an operating system that
   transfers at least one byte per successful call (or fails, or - reading - reports the end), every behaviour reaches
   "ok" / "err" - the remaining byte count is a variant.  Mutant "eintr_steps_back" (a failed call with EINTR is not
   reported and the position moves by the -1 that write() returned - seed C20-write-loop-eintr-without-continue): the
   delivered bytes are then no longer the text (a byte is sent twice, or nothing is sent and success reported) - TLC reports
   the safety violation; the loop also need not end any more (the state space becomes infinite: `out` grows for ever). *)
EXTENDS Naturals, Integers, Sequences
CONSTANTS N, BufSize, MUTL
VARIABLES wpos, out, wst, rpos, acc, rst
vars == <<wpos, out, wst, rpos, acc, rst>>
Text == [i \in 1..N |-> i]
Init == wpos = 0 /\ out = <<>> /\ wst = "run" /\ rpos = 0 /\ acc = <<>> /\ rst = "run"
\* while (wpos < len) { ret = write(fd, text + wpos, len - wpos); if (ret < 0) fail; wpos += ret; }
WriteSome == /\ wst = "run" /\ wpos < N
             /\ \E k \in 1..(N - wpos) : out' = out \o SubSeq(Text, wpos + 1, wpos + k) /\ wpos' = wpos + k
             /\ UNCHANGED <<wst, rpos, acc, rst>>
WriteFails == /\ wst = "run" /\ wpos < N
              /\ IF "eintr_steps_back" \in MUTL
                 THEN wpos' = (IF wpos = 0 THEN N ELSE wpos - 1) /\ UNCHANGED wst      \* (wpos is unsigned: 0 - 1 wraps beyond the length)
                 ELSE wst' = "err" /\ UNCHANGED wpos
              /\ UNCHANGED <<out, rpos, acc, rst>>
WriteDone == wst = "run" /\ wpos >= N /\ wst' = "ok" /\ UNCHANGED <<wpos, out, rpos, acc, rst>>
\* while ((ret = read(fd, buf, BufSize)) > 0) append; if (ret < 0) fail;
ReadSome == /\ rst = "run" /\ rpos < N
            /\ \E k \in 1..(IF N - rpos < BufSize THEN N - rpos ELSE BufSize) : acc' = acc \o SubSeq(Text, rpos + 1, rpos + k) /\ rpos' = rpos + k
            /\ UNCHANGED <<rst, wpos, out, wst>>
ReadEnd == rst = "run" /\ rpos = N /\ rst' = "eof" /\ UNCHANGED <<rpos, acc, wpos, out, wst>>
ReadFails == rst = "run" /\ rst' = "err" /\ UNCHANGED <<rpos, acc, wpos, out, wst>>
Next == WriteSome \/ WriteFails \/ WriteDone \/ ReadSome \/ ReadEnd \/ ReadFails
\* the loop bodies keep running (the process is scheduled); which outcome the operating system produces is free, except that
\* a failing call cannot recur for ever without the loop noticing - it ends the loop at once in the real code
Spec == Init /\ [][Next]_vars /\ WF_vars(WriteSome \/ WriteFails \/ WriteDone) /\ WF_vars(ReadSome \/ ReadEnd \/ ReadFails)
WriteEnds == <>(wst \in {"ok", "err"})
ReadEnds == <>(rst \in {"eof", "err"})
Prefix == out = SubSeq(Text, 1, Len(out)) /\ acc = SubSeq(Text, 1, Len(acc))
Exact == (wst = "ok" => out = Text) /\ (rst = "eof" => acc = Text)
====
