---- MODULE MCLimbs ----
(* C10 (TLC): the limb arithmetic of Limbs.tla compared with TLC's native integers, exhaustively at
   base 8 with 2-3 limbs (every pair of 6-bit values, every shift): the check that the transcription
   used at base 65536 in Numeric.tla is right. *)
EXTENDS Naturals, Integers, Sequences, TLC
L == INSTANCE Limbs WITH B <- 8
VARIABLES a, b
Val(x) == LET RECURSIVE V(_)
              V(i) == IF i > Len(x) THEN 0 ELSE x[i] * L!Pow2(3 * (i - 1)) + V(i + 1)
          IN V(1)
Of(v, n) == [i \in 1..n |-> (v \div L!Pow2(3 * (i - 1))) % 8]
Init == a \in 0..63 /\ b \in 0..63
Next == UNCHANGED <<a, b>>
Spec == Init /\ [][Next]_<<a, b>>
A == Of(a, 2)
Bq == Of(b, 2)
Sgn(x) == IF x < 0 THEN -1 ELSE IF x > 0 THEN 1 ELSE 0
CmpOK == L!Cmp(A, Bq) = Sgn(a - b)
AddOK == Val(L!Add(L!Ext(A, 3), L!Ext(Bq, 3))) = a + b
SubOK == a >= b => Val(L!Sub(A, Bq)) = a - b
MulOK == \A d \in 0..7 : Val(L!MulAdd(L!Ext(A, 3), 10, d)) = (a * 10 + d) % 512 /\ (L!MulAddOverflows(L!Ext(A, 3), 10, d) <=> a * 10 + d >= 512)
ShrOK == \A s \in 0..2 : Val(L!ShrBits(A, s)) = a \div L!Pow2(s)
ShlOK == \A s \in 0..2 : Val(L!ShlBits(L!Ext(A, 3), s)) = a * L!Pow2(s)
LimbShiftOK == Val(L!ShrLimbs(A, 1)) = a \div 8 /\ Val(L!ShlLimbs(L!Ext(A, 3), 1)) = a * 8
RoundTrip == Val(A) = a /\ L!IsZero(A) = (a = 0)
====
