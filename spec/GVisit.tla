---- MODULE GVisit ----
(* behaviour export for direction G (C17): one code schedule per transition of the lock-step product *)
EXTENDS MCVisit, Json
VARIABLE hist
GInit == Init /\ hist = [t |-> tree, codes |-> <<>>]
GNext == \/ Callback /\ hist' = [hist EXCEPT !.codes = Append(@, last'.c)]
         \/ Internal /\ UNCHANGED hist
GSpec == GInit /\ [][GNext]_<<vars, hist>>
GView == <<tree, a, m>>
GExport == (hist'.codes # hist.codes) => PrintT(<<"EDGE", ToJson(<<hist'>>)>>)
====
