---- MODULE Tokener ----
(* Mech layer for C01 C03 C04 C15 C16: json_tokener_parse_ex (json_tokener.c) as a character-driven
   machine.  A tokener value `tok` is a record of
     - the fields persisted in struct json_tokener: the level stack (state, saved_state, current,
       obj_field_name per level), pb (the print buffer), st_pos, is_double, quote_char, ucs_char,
       high_surrogate, err, char_offset;
     - the per-call locals of json_tokener_parse_ex: c (last peeked char, '\1' at call start),
       nb (bytes still expected by the UTF-8 validator), is_exponent, neg_sign_ok, pos_sign_ok,
       case_len, numfresh (the number state has not been dispatched yet in this call), obj;
     - done / ret: the call has returned, with this value.
   Operators: NewCall(tok) (entry of parse_ex), Feed(tok, c) (PEEK_CHAR succeeded with c and the
   switch ran until the char was consumed or the call ended), EndChunk(tok) (PEEK_CHAR found the
   end of the buffer), Reset(tok) (json_tokener_reset), Fresh(D) (json_tokener_new_ex(D)).
   Characters are ints 0..255.  Values: see JsonValue.tla.
   The specification describes the REPAIRED behaviour; the behaviour as found at the pinned commit
   is kept behind named switches in AsFound (anti-vacuity configs must fail with them):
     "numresume"   number resumed in a later call: signs re-derived wrongly, case_len restarts (D03a)
     "resetbleed"  json_tokener_reset leaves high_surrogate / ucs_char / st_pos (D04a)
     "sq_name"     strict mode accepts a single-quoted member name (D16a)
     "leadzero"    strict mode's leading-zero rule only covers positive non-zero integers (D16b)
     "comment_star" a block comment ending in "**/" is not terminated (D16c)
     "name_nul"    member names are cut at an escaped NUL (D01a; kept as a known finding)
     "inner_eof_success" a terminating NUL after a complete value INSIDE a container (in a comment) ends the call with
                   success, that value and the parser still one level deep; the next document's value is then lost (D04b)
   and pure mutants: "depth_off_array", "depth_off_object" (depth check), "true_is_false" (the literal true yields
   false: anti-vacuity for C01's Accepts). *)
EXTENDS Naturals, Integers, Sequences, FiniteSets, TLC, Text, Wide
CONSTANTS AsFound

Lower(c) == IF c >= 65 /\ c <= 90 THEN c + 32 ELSE c
NULLS == <<110, 117, 108, 108>>
NANS == <<78, 97, 78>>
TRUES == <<116, 114, 117, 101>>
FALSES == <<102, 97, 108, 115, 101>>
INFS == <<73, 110, 102, 105, 110, 105, 116, 121>>       \* "Infinity"
INFINV == <<105, 78, 70, 73, 78, 73, 84, 89>>           \* "iNFINITY"
NoValue == [t |-> "none"]
Level0 == [st |-> "eatws", sst |-> "start", cur |-> NoValue, key |-> <<>>, haskey |-> FALSE]
Flags(strict, trailing, utf8) == [strict |-> strict, trailing |-> trailing, utf8 |-> utf8]

Fresh(D, fl) ==
    [stack |-> <<Level0>>, maxd |-> D, fl |-> fl, pb |-> <<>>, stpos |-> 0, isdbl |-> FALSE, quote |-> 0,
     ucs |-> 0, hs |-> 0, err |-> "success", off |-> 0,
     c |-> 1, nb |-> 0, isexp |-> FALSE, negok |-> TRUE, posok |-> FALSE, caselen |-> 0, numfresh |-> TRUE,
     obj |-> NoValue, done |-> FALSE, ret |-> NoValue]

Depth(tok) == Len(tok.stack)          \* = tok->depth + 1
Top(tok) == tok.stack[Len(tok.stack)]
SetTop(tok, lv) == [tok EXCEPT !.stack[Len(tok.stack)] = lv]
SetSt(tok, st, sst) == SetTop(tok, [Top(tok) EXCEPT !.st = st, !.sst = sst])
SetSt1(tok, st) == SetTop(tok, [Top(tok) EXCEPT !.st = st])
Err(tok, e) == [tok EXCEPT !.err = e, !.done = TRUE]
Min2(a, b) == IF a < b THEN a ELSE b
\* strncmp / strncasecmp of the first n bytes of pb against a literal
PrefixEq(pb, lit, n, ci) == \A i \in 1..n : IF ci THEN Lower(pb[i]) = Lower(lit[i]) ELSE pb[i] = lit[i]
LitMatch(tok, pb, lit, n) == (~tok.fl.strict /\ PrefixEq(pb, lit, n, TRUE)) \/ PrefixEq(pb, lit, n, FALSE)

----------------------------------------------------------------------------
\* number tokens
HasE(pb) == \E i \in 1..Len(pb) : pb[i] \in {101, 69}
RECURSIVE SkipDigits(_, _)
SkipDigits(s, i) == IF i <= Len(s) /\ s[i] \in DIGIT THEN SkipDigits(s, i + 1) ELSE i
\* strtod consumes the whole text:  [-]digits[.digits][e[+-]digits] with at least one mantissa digit
\* (glibc also reads hex floats / inf / nan, none of which the scanner lets through)
DblOk(pb) ==
   LET i0 == IF Len(pb) > 0 /\ pb[1] = 45 THEN 2 ELSE 1
       i1 == SkipDigits(pb, i0)
       hasint == i1 > i0
       i2 == IF i1 <= Len(pb) /\ pb[i1] = 46 THEN SkipDigits(pb, i1 + 1) ELSE i1
       hasfrac == i2 > i1 + 1
       mant == hasint \/ hasfrac
       i3 == IF mant /\ i2 <= Len(pb) /\ pb[i2] \in {101, 69}
             THEN LET j == IF i2 + 1 <= Len(pb) /\ pb[i2 + 1] \in {43, 45} THEN i2 + 2 ELSE i2 + 1
                      k == SkipDigits(pb, j)
                  IN IF k > j THEN k ELSE i2
             ELSE i2
   IN mant /\ i3 = Len(pb) + 1
RECURSIVE TrimExp(_)
TrimExp(pb) == IF Len(pb) > 1 /\ pb[Len(pb)] \in {101, 69, 45, 43} THEN TrimExp(SubSeq(pb, 1, Len(pb) - 1)) ELSE pb
\* the digits strtoll / strtoull read: the maximal digit prefix after the optional '-'
IntDigits(pb) == LET s == IF Len(pb) > 0 /\ pb[1] = 45 THEN Tail(pb) ELSE pb
                     e == SkipDigits(s, 1)
                 IN [i \in 1..(e - 1) |-> s[i] - 48]
\* the node the number token becomes; [ok |-> FALSE] = json_tokener_error_parse_number
NumNode(tok, pb) ==
    IF tok.isdbl THEN (IF DblOk(pb) THEN [ok |-> TRUE, v |-> [t |-> "double", text |-> pb]] ELSE [ok |-> FALSE])
    ELSE LET neg == Len(pb) > 0 /\ pb[1] = 45
             ds == IntDigits(pb)
             canon == StripZeros(ds)
             zero == canon = <<0>>
             range == IF neg THEN CmpDigits(canon, I64MinMag) > 0 ELSE CmpDigits(canon, U64Max) > 0
             \* strict: one or more leading zeros are refused
             lead0 == IF "leadzero" \in AsFound THEN ~neg /\ ~zero /\ ds[1] = 0
                      ELSE Len(ds) > 1 /\ ds[1] = 0
         IN IF Len(ds) = 0 THEN [ok |-> FALSE]
            ELSE IF tok.fl.strict /\ (range \/ lead0) THEN [ok |-> FALSE]
            ELSE [ok |-> TRUE, v |-> IntValue(neg, canon)]
\* strict: a double token with a superfluous leading zero in its integer part ("01.5", "-00.1")
DblLead0(pb) == LET i0 == IF Len(pb) > 0 /\ pb[1] = 45 THEN 2 ELSE 1
                    i1 == SkipDigits(pb, i0)
                IN i1 - i0 > 1 /\ pb[i0] = 48

\* (re-)derive the number locals when the number state is dispatched in a call
NumEnter(tok) ==
  IF Len(tok.pb) = 0 THEN [tok EXCEPT !.isexp = FALSE, !.negok = TRUE, !.posok = FALSE, !.caselen = 0, !.numfresh = FALSE]
  ELSE LET last == tok.pb[Len(tok.pb)] IN
       IF HasE(tok.pb)
       THEN [tok EXCEPT !.isexp = TRUE, !.negok = (last \in {101, 69}), !.posok = (last \in {101, 69}), !.caselen = 0, !.numfresh = FALSE]
       ELSE IF "numresume" \in AsFound
            THEN [tok EXCEPT !.isexp = FALSE, !.negok = TRUE, !.posok = FALSE, !.caselen = 0, !.numfresh = FALSE]
            ELSE [tok EXCEPT !.isexp = FALSE, !.negok = (last = 46), !.posok = (last = 46), !.caselen = 0, !.numfresh = FALSE]

----------------------------------------------------------------------------
\* object member insertion: first occurrence fixes the position, the last value wins
PutMember(m, k, v) == IF \E i \in 1..Len(m) : m[i].k = k
                      THEN [i \in 1..Len(m) |-> IF m[i].k = k THEN [k |-> k, v |-> v] ELSE m[i]]
                      ELSE Append(m, [k |-> k, v |-> v])
KeyOf(pb) == IF "name_nul" \in AsFound THEN TakeUntilNul(pb) ELSE pb

(* Process char c in the current state: [tok, adv], adv = the char was consumed *)
RECURSIVE Redo(_, _, _)
Redo(tok, c, fuel) ==
 LET lv == Top(tok)
     st == lv.st
     strict == tok.fl.strict
     A(t) == [tok |-> t, adv |-> TRUE]
     E(e) == [tok |-> Err(tok, e), adv |-> FALSE]
 IN
 IF fuel = 0 THEN [tok |-> Err(tok, "FUEL"), adv |-> FALSE] ELSE
 CASE st = "eatws" ->
        IF c \in WS THEN A(tok)
        ELSE IF c = 47 /\ ~strict THEN A(SetSt1([tok EXCEPT !.pb = <<c>>], "comment_start"))
        ELSE Redo(SetSt1(tok, lv.sst), c, fuel - 1)
  [] st = "start" ->
        IF c = 123 THEN A(SetTop(tok, [lv EXCEPT !.st = "eatws", !.sst = "object_field_start", !.cur = [t |-> "object", m |-> <<>>]]))
        ELSE IF c = 91 THEN A(SetTop(tok, [lv EXCEPT !.st = "eatws", !.sst = "array", !.cur = [t |-> "array", e |-> <<>>]]))
        ELSE IF c \in {73, 105} THEN Redo(SetSt1([tok EXCEPT !.pb = <<>>, !.stpos = 0], "inf"), c, fuel - 1)
        ELSE IF c \in {110, 78} THEN Redo(SetSt1([tok EXCEPT !.pb = <<>>, !.stpos = 0], "null"), c, fuel - 1)
        ELSE IF c = 39 /\ strict THEN E("unexpected")
        ELSE IF c \in {34, 39} THEN A(SetSt1([tok EXCEPT !.pb = <<>>, !.quote = c], "string"))
        ELSE IF c \in {116, 84, 102, 70} THEN Redo(SetSt1([tok EXCEPT !.pb = <<>>, !.stpos = 0], "boolean"), c, fuel - 1)
        ELSE IF c \in DIGIT \cup {45} THEN Redo(NumEnter(SetSt1([tok EXCEPT !.pb = <<>>, !.isdbl = FALSE], "number")), c, fuel - 1)
        ELSE E("unexpected")
  [] st = "finish" ->
        IF Depth(tok) = 1 THEN [tok |-> [tok EXCEPT !.done = TRUE], adv |-> FALSE]
        ELSE Redo([tok EXCEPT !.stack = SubSeq(tok.stack, 1, Len(tok.stack) - 1), !.obj = lv.cur], c, fuel - 1)
  [] st = "inf" ->
        \* compares the input byte with "Infinity" (either case of each letter unless strict)
        IF c # INFS[tok.stpos + 1] /\ (strict \/ c # INFINV[tok.stpos + 1]) THEN E("unexpected")
        ELSE IF tok.stpos + 1 < 8 THEN A([tok EXCEPT !.stpos = tok.stpos + 1])
        ELSE \* last letter: consumed, then the node is made when the NEXT byte is peeked
             A(SetSt1([tok EXCEPT !.stpos = 8], "inf_done"))
  [] st = "inf_done" ->
        LET neg == Len(tok.pb) > 0 /\ tok.pb[1] = 45
        IN Redo(SetTop(tok, [lv EXCEPT !.cur = [t |-> "double", text |-> IF neg THEN <<45>> \o INFS ELSE INFS],
                                      !.sst = "finish", !.st = "eatws"]), c, fuel - 1)
  [] st = "null" ->
        LET pb == Append(tok.pb, c)
            n == Min2(tok.stpos + 1, 4)
            nn == Min2(tok.stpos + 1, 3)
        IN IF LitMatch(tok, pb, NULLS, n)
           THEN IF tok.stpos = 4
                THEN Redo(SetTop([tok EXCEPT !.pb = pb], [lv EXCEPT !.cur = [t |-> "null"], !.sst = "finish", !.st = "eatws"]), c, fuel - 1)
                ELSE A([tok EXCEPT !.pb = pb, !.stpos = tok.stpos + 1])
           ELSE IF LitMatch(tok, pb, NANS, nn)
           THEN IF tok.stpos = 3
                THEN Redo(SetTop([tok EXCEPT !.pb = pb], [lv EXCEPT !.cur = [t |-> "double", text |-> NANS], !.sst = "finish", !.st = "eatws"]), c, fuel - 1)
                ELSE A([tok EXCEPT !.pb = pb, !.stpos = tok.stpos + 1])
           ELSE E("null")
  [] st = "boolean" ->
        LET pb == Append(tok.pb, c)
            n1 == Min2(tok.stpos + 1, 4)
            n2 == Min2(tok.stpos + 1, 5)
        IN IF LitMatch(tok, pb, TRUES, n1)
           THEN IF tok.stpos = 4
                THEN Redo(SetTop([tok EXCEPT !.pb = pb], [lv EXCEPT !.cur = [t |-> "bool", b |-> "true_is_false" \notin AsFound], !.sst = "finish", !.st = "eatws"]), c, fuel - 1)
                ELSE A([tok EXCEPT !.pb = pb, !.stpos = tok.stpos + 1])
           ELSE IF LitMatch(tok, pb, FALSES, n2)
           THEN IF tok.stpos = 5
                THEN Redo(SetTop([tok EXCEPT !.pb = pb], [lv EXCEPT !.cur = [t |-> "bool", b |-> FALSE], !.sst = "finish", !.st = "eatws"]), c, fuel - 1)
                ELSE A([tok EXCEPT !.pb = pb, !.stpos = tok.stpos + 1])
           ELSE E("boolean")
  [] st = "comment_start" ->
        IF c = 42 THEN A(SetSt1(tok, "comment"))
        ELSE IF c = 47 THEN A(SetSt1(tok, "comment_eol"))
        ELSE E("comment")
  [] st = "comment" -> IF c = 42 THEN A(SetSt1(tok, "comment_end")) ELSE A(tok)
  [] st = "comment_eol" -> IF c = 10 THEN A(SetSt1(tok, "eatws")) ELSE A(tok)
  [] st = "comment_end" -> IF c = 47 THEN A(SetSt1(tok, "eatws"))
                           ELSE IF c = 42 /\ "comment_star" \notin AsFound THEN A(tok)      \* "**/": this '*' may be the one that ends it (D16c)
                           ELSE A(SetSt1(tok, "comment"))
  [] st \in {"string", "object_field"} ->
        IF c = tok.quote
        THEN IF st = "string"
             THEN A(SetTop(tok, [lv EXCEPT !.cur = [t |-> "string", s |-> tok.pb], !.sst = "finish", !.st = "eatws"]))
             ELSE A(SetTop(tok, [lv EXCEPT !.key = KeyOf(tok.pb), !.haskey = TRUE, !.sst = "object_field_end", !.st = "eatws"]))
        ELSE IF c = 92 THEN A(SetTop(tok, [lv EXCEPT !.sst = st, !.st = "string_escape"]))
        ELSE IF strict /\ c <= 31 THEN E("string")
        ELSE A([tok EXCEPT !.pb = Append(tok.pb, c)])
  [] st = "string_escape" ->
        IF c = 117 THEN A(SetSt1([tok EXCEPT !.ucs = 0, !.stpos = 0], "escape_unicode"))
        ELSE IF SimpleEsc(c) >= 0 THEN A(SetSt1([tok EXCEPT !.pb = Append(tok.pb, SimpleEsc(c))], lv.sst))
        ELSE E("string")
  [] st = "escape_unicode" ->
        IF c \notin HEXD THEN E("string")
        ELSE LET shift == CASE tok.stpos = 0 -> 4096 [] tok.stpos = 1 -> 256 [] tok.stpos = 2 -> 16 [] OTHER -> 1
                 u == tok.ucs + HexVal(c) * shift      \* (|= in the code; the bits are disjoint when ucs started at 0)
             IN IF tok.stpos < 3 THEN A([tok EXCEPT !.ucs = u, !.stpos = tok.stpos + 1])
                ELSE LET t1 == [tok EXCEPT !.stpos = 0, !.ucs = u]
                         paired == t1.hs # 0 /\ IsLo(u)
                         u2 == IF paired THEN Combine(t1.hs, u) ELSE u
                         pb1 == IF t1.hs # 0 /\ ~paired THEN t1.pb \o REPL ELSE t1.pb
                         t2 == [t1 EXCEPT !.hs = 0, !.pb = pb1, !.ucs = u2]
                     IN IF u2 < 2048 THEN A(SetSt1([t2 EXCEPT !.pb = pb1 \o Utf8(u2)], lv.sst))
                        ELSE IF IsHi(u2) THEN A(SetSt1([t2 EXCEPT !.hs = u2, !.ucs = 0], "need_escape"))
                        ELSE IF IsLo(u2) THEN A(SetSt1([t2 EXCEPT !.pb = pb1 \o REPL], lv.sst))
                        ELSE A(SetSt1([t2 EXCEPT !.pb = pb1 \o Utf8(u2)], lv.sst))
  [] st = "need_escape" ->
        IF c # 92 THEN Redo(SetSt1([tok EXCEPT !.pb = tok.pb \o REPL, !.hs = 0, !.ucs = 0, !.stpos = 0], lv.sst), c, fuel - 1)
        ELSE A(SetSt1(tok, "need_u"))
  [] st = "need_u" ->
        IF c # 117 THEN Redo(SetSt1([tok EXCEPT !.pb = tok.pb \o REPL, !.hs = 0, !.ucs = 0, !.stpos = 0], "string_escape"), c, fuel - 1)
        ELSE A(SetSt1(tok, "escape_unicode"))
  [] st = "number" ->
        LET t0 == IF tok.numfresh THEN NumEnter(tok) ELSE tok IN
        IF c # 0 /\ (c \in DIGIT \/ (~t0.isexp /\ c \in {101, 69}) \/ (t0.negok /\ c = 45) \/ (t0.posok /\ c = 43) \/ (~t0.isdbl /\ c = 46))
        THEN A([t0 EXCEPT !.pb = Append(t0.pb, c), !.caselen = t0.caselen + 1,
                          !.negok = (c \in {46, 101, 69}), !.posok = (c \in {46, 101, 69}),
                          !.isdbl = (t0.isdbl \/ c \in {46, 101, 69}), !.isexp = (t0.isexp \/ c \in {101, 69})])
        ELSE \* c ends the number
         IF Depth(t0) > 1 /\ c \notin {44, 93, 125, 47, 73, 105} \cup WS THEN [tok |-> Err(t0, "number"), adv |-> FALSE]
         ELSE IF Len(t0.pb) > 0 /\ t0.pb[1] = 45 /\ c \in {73, 105}
                 /\ (IF "numresume" \in AsFound THEN t0.caselen <= 1 ELSE Len(t0.pb) = 1)
              THEN Redo(SetSt1([t0 EXCEPT !.stpos = 0], "inf"), c, fuel - 1)
         ELSE LET pb2 == IF t0.isdbl /\ ~strict THEN TrimExp(t0.pb) ELSE t0.pb
                  t2 == [t0 EXCEPT !.pb = pb2]
                  nn == NumNode(t2, pb2)
                  lead0d == strict /\ t2.isdbl /\ "leadzero" \notin AsFound /\ DblLead0(pb2)
              IN IF ~nn.ok \/ lead0d THEN [tok |-> Err(t2, "number"), adv |-> FALSE]
                 ELSE Redo(SetTop(t2, [lv EXCEPT !.cur = nn.v, !.sst = "finish", !.st = "eatws"]), c, fuel - 1)
  [] st \in {"array", "array_after_sep"} ->
        IF c = 93
        THEN IF st = "array_after_sep" /\ strict THEN E("unexpected")
             ELSE A(SetSt(tok, "eatws", "finish"))
        ELSE IF Depth(tok) >= tok.maxd + (IF "depth_off_array" \in AsFound THEN 1 ELSE 0) THEN E("depth")
             ELSE LET t1 == SetSt1(tok, "array_add") IN
                  Redo([t1 EXCEPT !.stack = Append(t1.stack, Level0)], c, fuel - 1)
  [] st = "array_add" ->
        Redo(SetTop([tok EXCEPT !.obj = NoValue], [lv EXCEPT !.cur = [lv.cur EXCEPT !.e = Append(lv.cur.e, tok.obj)], !.sst = "array_sep", !.st = "eatws"]), c, fuel - 1)
  [] st = "array_sep" ->
        IF c = 93 THEN A(SetSt(tok, "eatws", "finish"))
        ELSE IF c = 44 THEN A(SetSt(tok, "eatws", "array_after_sep"))
        ELSE E("array")
  [] st \in {"object_field_start", "object_field_start_after_sep"} ->
        IF c = 125
        THEN IF st = "object_field_start_after_sep" /\ strict THEN E("unexpected")
             ELSE A(SetSt(tok, "eatws", "finish"))
        ELSE IF c = 34 \/ (c = 39 /\ (~strict \/ "sq_name" \in AsFound))
             THEN A(SetSt1([tok EXCEPT !.quote = c, !.pb = <<>>], "object_field"))
        ELSE E("key_name")
  [] st = "object_field_end" ->
        IF c = 58 THEN A(SetSt(tok, "eatws", "object_value")) ELSE E("key_sep")
  [] st = "object_value" ->
        IF Depth(tok) >= tok.maxd + (IF "depth_off_object" \in AsFound THEN 1 ELSE 0) THEN E("depth")
        ELSE LET t1 == SetSt1(tok, "object_value_add") IN
             Redo([t1 EXCEPT !.stack = Append(t1.stack, Level0)], c, fuel - 1)
  [] st = "object_value_add" ->
        Redo(SetTop([tok EXCEPT !.obj = NoValue],
                    [lv EXCEPT !.cur = [lv.cur EXCEPT !.m = PutMember(lv.cur.m, lv.key, tok.obj)], !.key = <<>>, !.haskey = FALSE,
                               !.sst = "object_sep", !.st = "eatws"]), c, fuel - 1)
  [] st = "object_sep" ->
        IF c = 125 THEN A(SetSt(tok, "eatws", "finish"))
        ELSE IF c = 44 THEN A(SetSt(tok, "eatws", "object_field_start_after_sep"))
        ELSE E("value_sep")
  [] OTHER -> E("BADSTATE")

\* the `out:` block; tok.c is the last peeked char
Out(tok) ==
  LET lv == Top(tok)
      e0 == IF tok.fl.utf8 /\ tok.nb # 0 THEN "utf8" ELSE tok.err
      e1 == IF tok.c # 0 /\ lv.st = "finish" /\ Depth(tok) = 1 /\ tok.fl.strict /\ ~tok.fl.trailing THEN "unexpected" ELSE e0
      \* the terminating NUL: the data ends here, and only a document that is complete at the OUTERMOST level is a success
      \* (as found - D04b - the test looked at the innermost level only: `[7 /* x` returned 7 and left the parser one level deep)
      e2 == IF tok.c = 0 /\ ((lv.st # "finish" /\ lv.sst # "finish") \/ (Depth(tok) > 1 /\ "inner_eof_success" \notin AsFound)) THEN "eof" ELSE e1
  IN IF e2 = "success"
     \* (the partial reset after a success clears every level in use but does not touch the depth)
     THEN [tok EXCEPT !.err = e2, !.done = TRUE, !.ret = lv.cur, !.stack = [i \in 1..Depth(tok) |-> Level0]]
     ELSE [tok EXCEPT !.err = e2, !.done = TRUE, !.ret = NoValue]

\* json_tokener_validate_utf8 on the peeked byte: [ok, nb]
Utf8Step(nb, c) ==
    IF nb = 0 THEN (IF c < 128 THEN [ok |-> TRUE, nb |-> 0]
                    ELSE IF c \div 32 = 6 THEN [ok |-> TRUE, nb |-> 1]
                    ELSE IF c \div 16 = 14 THEN [ok |-> TRUE, nb |-> 2]
                    ELSE IF c \div 8 = 30 THEN [ok |-> TRUE, nb |-> 3]
                    ELSE [ok |-> FALSE, nb |-> 0])
    ELSE IF c \div 64 = 2 THEN [ok |-> TRUE, nb |-> nb - 1] ELSE [ok |-> FALSE, nb |-> nb]

\* PEEK_CHAR succeeded with c (the buffer is not exhausted), then the switch runs
Feed(tok, c) ==
  LET u == IF tok.fl.utf8 THEN Utf8Step(tok.nb, c) ELSE [ok |-> TRUE, nb |-> 0] IN
  IF ~u.ok THEN Out([tok EXCEPT !.err = "utf8", !.nb = u.nb])     \* c is not assigned when validation fails
  ELSE LET r == Redo([tok EXCEPT !.c = c, !.nb = u.nb], c, 10 + 2 * tok.maxd)
           t1 == IF r.adv THEN [r.tok EXCEPT !.off = r.tok.off + 1] ELSE r.tok
           \* `if (!c) break` / `!ADVANCE_CHAR`: a consumed NUL ends the call
           t2 == IF r.adv /\ c = 0 THEN [t1 EXCEPT !.done = TRUE] ELSE t1
       IN IF t2.done THEN Out(t2) ELSE t2

\* the buffer is exhausted (PEEK_CHAR fails on char_offset = len)
EndChunk(tok) ==
  LET lv == Top(tok)
      e == IF Depth(tok) = 1 /\ lv.st = "eatws" /\ lv.sst = "finish" THEN "success" ELSE "continue"
  IN Out([tok EXCEPT !.err = e])

\* entry of json_tokener_parse_ex: persisted fields stay, locals are initialised
NewCall(tok) == [tok EXCEPT !.c = 1, !.nb = 0, !.isexp = FALSE, !.negok = TRUE, !.posok = FALSE, !.caselen = 0, !.numfresh = TRUE,
                            !.obj = NoValue, !.done = FALSE, !.ret = NoValue, !.err = "success", !.off = 0]

\* json_tokener_reset
Reset(tok) == LET base == [tok EXCEPT !.stack = <<Level0>>, !.err = "success", !.done = FALSE, !.ret = NoValue]
              IN IF "resetbleed" \in AsFound THEN base ELSE [base EXCEPT !.hs = 0, !.ucs = 0, !.stpos = 0]

\* one whole call on a buffer (fold-shaped): text, then the end of the buffer unless the call ended earlier
Call(tok, text) == LET r == FoldLeft(LAMBDA t, c : IF t.done THEN t ELSE Feed(t, c), NewCall(tok), text)
                   IN IF r.done THEN r ELSE EndChunk(r)
Outcome(tok) == [err |-> tok.err, ret |-> tok.ret, end |-> tok.off]

\* ---- streams: several documents in one buffer, parsed by ONE parser that is resumed at the reported end
\* position without a reset.  cuts = ascending chunk boundaries; a later chunk is only given after "continue",
\* after a success the rest of the current chunk is given next.  Result: the sequence of outcomes
\* [st, val, end (from the start of the buffer)]; it ends with the first error, or with "continue" at the end.
\* lost: the call returned while its local `obj` still held a completed child that no container had taken (a leak)
StreamOutcome(t, pos) == [st |-> t.err, val |-> t.ret, end |-> pos + t.off, lost |-> t.obj # NoValue]
RECURSIVE StreamRun(_, _, _, _, _, _)
StreamRun(tok, text, pos, cuts, acc, fuel) ==
    IF pos >= Len(text) \/ fuel = 0 THEN acc
    ELSE LET later == SelectSeq(cuts, LAMBDA c : c > pos)
             stop == IF Len(later) = 0 THEN Len(text) ELSE later[1]
             t == Call(tok, SubSeq(text, pos + 1, stop))
         IN IF t.err = "continue" THEN (IF stop = Len(text) THEN Append(acc, StreamOutcome(t, pos))
                                        ELSE StreamRun(t, text, stop, cuts, acc, fuel - 1))
            ELSE IF t.err = "success" THEN StreamRun(t, text, pos + t.off, cuts, Append(acc, StreamOutcome(t, pos)), fuel - 1)
            ELSE Append(acc, StreamOutcome(t, pos))
Stream(tok, text, cuts) == StreamRun(tok, text, 0, cuts, <<>>, 64)
\* What is compared between two chunkings of a stream: values and statuses, and the position of an error.  The end
\* position of a SUCCESS is not: after a value the parser goes on eating white space and comments, so a call that is
\* cut right after the value reports the end there and a longer call further on - both are positions at which
\* resuming yields the next document (C03's end-position clause is about calls that reported "continue").
\* A clean stream (of a NUL-terminated buffer): every outcome but the last is a success and the last is the end-of-data
\* report at the terminator.  Only clean streams are compared across chunkings: when junk follows a document, whether
\* that document is still delivered depends on whether the call that completed it also saw the junk (e.g. `""/`), and
\* C03 relates calls only across a "continue".
StreamClean(outs, n) == /\ Len(outs) >= 1 /\ outs[Len(outs)].st = "eof" /\ outs[Len(outs)].end = n - 1
                        /\ \A i \in 1..(Len(outs) - 1) : outs[i].st = "success"
StreamNorm(outs) == [i \in 1..Len(outs) |-> IF outs[i].st = "success" THEN [st |-> "success", val |-> outs[i].val]
                                              ELSE [st |-> outs[i].st, end |-> outs[i].end]]
====
