---- MODULE MCTokReset ----
(* C04 (TLC): "a reset parser behaves exactly like a new one".  Phase 1 feeds an arbitrary prefix
   to parser b only (any outcome: mid-token, error, success); then b is reset
   (json_tokener_reset) and from then on a (a new parser) and b are fed the same characters in
   lock step; their outcomes must stay equal.  Also: the trichotomy of outcomes and the bound of the
   reported end position. *)
EXTENDS Tokener
CONSTANTS Alphabet, MaxPrefix, MaxLen, MaxDepth, FlagSets
VARIABLES a, b, phase, n
vars == <<a, b, phase, n>>
FlagsOf(i) == CASE i = 0 -> Flags(FALSE, FALSE, FALSE) [] i = 1 -> Flags(TRUE, FALSE, FALSE)
                [] i = 2 -> Flags(TRUE, TRUE, FALSE) [] i = 3 -> Flags(FALSE, FALSE, TRUE) [] OTHER -> Flags(TRUE, FALSE, TRUE)
Init == \E f \in FlagSets : a = NewCall(Fresh(MaxDepth, FlagsOf(f))) /\ b = a /\ phase = 1 /\ n = 0
Prefix(c) == /\ phase = 1 /\ n < MaxPrefix /\ ~b.done
             /\ b' = Feed(b, c) /\ n' = n + 1 /\ UNCHANGED <<a, phase>>
DoReset == /\ phase = 1
           /\ b' = NewCall(Reset(IF b.done THEN b ELSE EndChunk(b)))
           /\ phase' = 2 /\ n' = 0 /\ UNCHANGED a
Both(c) == /\ phase = 2 /\ n < MaxLen /\ ~a.done /\ ~b.done
           /\ a' = Feed(a, c) /\ b' = Feed(b, c) /\ n' = n + 1 /\ UNCHANGED phase
Finish == /\ phase = 2 /\ ~a.done /\ ~b.done /\ a' = EndChunk(a) /\ b' = EndChunk(b) /\ UNCHANGED <<phase, n>>
Next == (\E c \in Alphabet : Prefix(c) \/ Both(c)) \/ DoReset \/ Finish
Spec == Init /\ [][Next]_vars
Obs(tok) == [done |-> tok.done, err |-> tok.err, ret |-> tok.ret, end |-> IF tok.done THEN tok.off ELSE 0]
ResetLikeNew == phase = 2 => Obs(a) = Obs(b)
ResetHoldsNothing == phase = 2 /\ n = 0 => (b.stack = <<Level0>> /\ b.obj = NoValue)
NoLostChild == b.done => b.obj = NoValue       \* a call never returns holding a completed child in its locals
Trichotomy == b.done => \/ (b.err = "success" /\ b.ret.t # "none") \/ (b.err # "success" /\ b.ret.t = "none")
StackBound == Len(b.stack) <= MaxDepth
EscOnly == (~b.done /\ Top(b).st = "string") => (b'.done \/ Top(b').st # "string" \/ phase' # phase)
====
