---- MODULE MCTokReset_TTrace_1791158744 ----
EXTENDS Sequences, TLCExt, MCTokReset, Toolbox, Naturals, TLC

_expression ==
    LET MCTokReset_TEExpression == INSTANCE MCTokReset_TEExpression
    IN MCTokReset_TEExpression!expression
----

_trace ==
    LET MCTokReset_TETrace == INSTANCE MCTokReset_TETrace
    IN MCTokReset_TETrace!trace
----

_inv ==
    ~(
        TLCGet("level") = Len(_TETrace)
        /\
        phase = (2)
        /\
        a = ([c |-> 34, done |-> TRUE, err |-> "success", ret |-> [t |-> "string", s |-> <<225, 134, 136>>], off |-> 8, stack |-> <<[st |-> "eatws", sst |-> "start", cur |-> [t |-> "none"], key |-> <<>>, haskey |-> FALSE]>>, obj |-> [t |-> "none"], fl |-> [strict |-> TRUE, trailing |-> FALSE, utf8 |-> FALSE], maxd |-> 2, pb |-> <<225, 134, 136>>, stpos |-> 0, isdbl |-> FALSE, quote |-> 34, ucs |-> 4488, hs |-> 0, nb |-> 0, isexp |-> FALSE, negok |-> TRUE, posok |-> FALSE, caselen |-> 0, numfresh |-> TRUE])
        /\
        b = ([c |-> 34, done |-> TRUE, err |-> "success", ret |-> [t |-> "string", s |-> <<239, 191, 189, 225, 134, 136>>], off |-> 8, stack |-> <<[st |-> "eatws", sst |-> "start", cur |-> [t |-> "none"], key |-> <<>>, haskey |-> FALSE]>>, obj |-> [t |-> "none"], fl |-> [strict |-> TRUE, trailing |-> FALSE, utf8 |-> FALSE], maxd |-> 2, pb |-> <<239, 191, 189, 225, 134, 136>>, stpos |-> 0, isdbl |-> FALSE, quote |-> 34, ucs |-> 4488, hs |-> 0, nb |-> 0, isexp |-> FALSE, negok |-> TRUE, posok |-> FALSE, caselen |-> 0, numfresh |-> TRUE])
        /\
        n = (8)
    )
----

_init ==
    /\ a = _TETrace[1].a
    /\ b = _TETrace[1].b
    /\ n = _TETrace[1].n
    /\ phase = _TETrace[1].phase
----

_next ==
    /\ \E i,j \in DOMAIN _TETrace:
        /\ \/ /\ j = i + 1
              /\ i = TLCGet("level")
        /\ a  = _TETrace[i].a
        /\ a' = _TETrace[j].a
        /\ b  = _TETrace[i].b
        /\ b' = _TETrace[j].b
        /\ n  = _TETrace[i].n
        /\ n' = _TETrace[j].n
        /\ phase  = _TETrace[i].phase
        /\ phase' = _TETrace[j].phase

\* Uncomment the ASSUME below to write the states of the error trace
\* to the given file in Json format. Note that you can pass any tuple
\* to `JsonSerialize`. For example, a sub-sequence of _TETrace.
    \* ASSUME
    \*     LET J == INSTANCE Json
    \*         IN J!JsonSerialize("MCTokReset_TTrace_1791158744.json", _TETrace)

=============================================================================

 Note that you can extract this module `MCTokReset_TEExpression`
  to a dedicated file to reuse `expression` (the module in the 
  dedicated `MCTokReset_TEExpression.tla` file takes precedence 
  over the module `MCTokReset_TEExpression` below).

---- MODULE MCTokReset_TEExpression ----
EXTENDS Sequences, TLCExt, MCTokReset, Toolbox, Naturals, TLC

expression == 
    [
        \* To hide variables of the `MCTokReset` spec from the error trace,
        \* remove the variables below.  The trace will be written in the order
        \* of the fields of this record.
        a |-> a
        ,b |-> b
        ,n |-> n
        ,phase |-> phase
        
        \* Put additional constant-, state-, and action-level expressions here:
        \* ,_stateNumber |-> _TEPosition
        \* ,_aUnchanged |-> a = a'
        
        \* Format the `a` variable as Json value.
        \* ,_aJson |->
        \*     LET J == INSTANCE Json
        \*     IN J!ToJson(a)
        
        \* Lastly, you may build expressions over arbitrary sets of states by
        \* leveraging the _TETrace operator.  For example, this is how to
        \* count the number of times a spec variable changed up to the current
        \* state in the trace.
        \* ,_aModCount |->
        \*     LET F[s \in DOMAIN _TETrace] ==
        \*         IF s = 1 THEN 0
        \*         ELSE IF _TETrace[s].a # _TETrace[s-1].a
        \*             THEN 1 + F[s-1] ELSE F[s-1]
        \*     IN F[_TEPosition - 1]
    ]

=============================================================================



Parsing and semantic processing can take forever if the trace below is long.
 In this case, it is advised to uncomment the module below to deserialize the
 trace from a generated binary file.

\*
\*---- MODULE MCTokReset_TETrace ----
\*EXTENDS IOUtils, MCTokReset, TLC
\*
\*trace == IODeserialize("MCTokReset_TTrace_1791158744.bin", TRUE)
\*
\*=============================================================================
\*

---- MODULE MCTokReset_TETrace ----
EXTENDS MCTokReset, TLC

trace == 
    <<
    ([phase |-> 1,a |-> [c |-> 1, done |-> FALSE, err |-> "success", ret |-> [t |-> "none"], off |-> 0, stack |-> <<[st |-> "eatws", sst |-> "start", cur |-> [t |-> "none"], key |-> <<>>, haskey |-> FALSE]>>, obj |-> [t |-> "none"], fl |-> [strict |-> TRUE, trailing |-> FALSE, utf8 |-> FALSE], maxd |-> 2, pb |-> <<>>, stpos |-> 0, isdbl |-> FALSE, quote |-> 0, ucs |-> 0, hs |-> 0, nb |-> 0, isexp |-> FALSE, negok |-> TRUE, posok |-> FALSE, caselen |-> 0, numfresh |-> TRUE],b |-> [c |-> 1, done |-> FALSE, err |-> "success", ret |-> [t |-> "none"], off |-> 0, stack |-> <<[st |-> "eatws", sst |-> "start", cur |-> [t |-> "none"], key |-> <<>>, haskey |-> FALSE]>>, obj |-> [t |-> "none"], fl |-> [strict |-> TRUE, trailing |-> FALSE, utf8 |-> FALSE], maxd |-> 2, pb |-> <<>>, stpos |-> 0, isdbl |-> FALSE, quote |-> 0, ucs |-> 0, hs |-> 0, nb |-> 0, isexp |-> FALSE, negok |-> TRUE, posok |-> FALSE, caselen |-> 0, numfresh |-> TRUE],n |-> 0]),
    ([phase |-> 1,a |-> [c |-> 1, done |-> FALSE, err |-> "success", ret |-> [t |-> "none"], off |-> 0, stack |-> <<[st |-> "eatws", sst |-> "start", cur |-> [t |-> "none"], key |-> <<>>, haskey |-> FALSE]>>, obj |-> [t |-> "none"], fl |-> [strict |-> TRUE, trailing |-> FALSE, utf8 |-> FALSE], maxd |-> 2, pb |-> <<>>, stpos |-> 0, isdbl |-> FALSE, quote |-> 0, ucs |-> 0, hs |-> 0, nb |-> 0, isexp |-> FALSE, negok |-> TRUE, posok |-> FALSE, caselen |-> 0, numfresh |-> TRUE],b |-> [c |-> 34, done |-> FALSE, err |-> "success", ret |-> [t |-> "none"], off |-> 1, stack |-> <<[st |-> "string", sst |-> "start", cur |-> [t |-> "none"], key |-> <<>>, haskey |-> FALSE]>>, obj |-> [t |-> "none"], fl |-> [strict |-> TRUE, trailing |-> FALSE, utf8 |-> FALSE], maxd |-> 2, pb |-> <<>>, stpos |-> 0, isdbl |-> FALSE, quote |-> 34, ucs |-> 0, hs |-> 0, nb |-> 0, isexp |-> FALSE, negok |-> TRUE, posok |-> FALSE, caselen |-> 0, numfresh |-> TRUE],n |-> 1]),
    ([phase |-> 1,a |-> [c |-> 1, done |-> FALSE, err |-> "success", ret |-> [t |-> "none"], off |-> 0, stack |-> <<[st |-> "eatws", sst |-> "start", cur |-> [t |-> "none"], key |-> <<>>, haskey |-> FALSE]>>, obj |-> [t |-> "none"], fl |-> [strict |-> TRUE, trailing |-> FALSE, utf8 |-> FALSE], maxd |-> 2, pb |-> <<>>, stpos |-> 0, isdbl |-> FALSE, quote |-> 0, ucs |-> 0, hs |-> 0, nb |-> 0, isexp |-> FALSE, negok |-> TRUE, posok |-> FALSE, caselen |-> 0, numfresh |-> TRUE],b |-> [c |-> 92, done |-> FALSE, err |-> "success", ret |-> [t |-> "none"], off |-> 2, stack |-> <<[st |-> "string_escape", sst |-> "string", cur |-> [t |-> "none"], key |-> <<>>, haskey |-> FALSE]>>, obj |-> [t |-> "none"], fl |-> [strict |-> TRUE, trailing |-> FALSE, utf8 |-> FALSE], maxd |-> 2, pb |-> <<>>, stpos |-> 0, isdbl |-> FALSE, quote |-> 34, ucs |-> 0, hs |-> 0, nb |-> 0, isexp |-> FALSE, negok |-> TRUE, posok |-> FALSE, caselen |-> 0, numfresh |-> TRUE],n |-> 2]),
    ([phase |-> 1,a |-> [c |-> 1, done |-> FALSE, err |-> "success", ret |-> [t |-> "none"], off |-> 0, stack |-> <<[st |-> "eatws", sst |-> "start", cur |-> [t |-> "none"], key |-> <<>>, haskey |-> FALSE]>>, obj |-> [t |-> "none"], fl |-> [strict |-> TRUE, trailing |-> FALSE, utf8 |-> FALSE], maxd |-> 2, pb |-> <<>>, stpos |-> 0, isdbl |-> FALSE, quote |-> 0, ucs |-> 0, hs |-> 0, nb |-> 0, isexp |-> FALSE, negok |-> TRUE, posok |-> FALSE, caselen |-> 0, numfresh |-> TRUE],b |-> [c |-> 117, done |-> FALSE, err |-> "success", ret |-> [t |-> "none"], off |-> 3, stack |-> <<[st |-> "escape_unicode", sst |-> "string", cur |-> [t |-> "none"], key |-> <<>>, haskey |-> FALSE]>>, obj |-> [t |-> "none"], fl |-> [strict |-> TRUE, trailing |-> FALSE, utf8 |-> FALSE], maxd |-> 2, pb |-> <<>>, stpos |-> 0, isdbl |-> FALSE, quote |-> 34, ucs |-> 0, hs |-> 0, nb |-> 0, isexp |-> FALSE, negok |-> TRUE, posok |-> FALSE, caselen |-> 0, numfresh |-> TRUE],n |-> 3]),
    ([phase |-> 1,a |-> [c |-> 1, done |-> FALSE, err |-> "success", ret |-> [t |-> "none"], off |-> 0, stack |-> <<[st |-> "eatws", sst |-> "start", cur |-> [t |-> "none"], key |-> <<>>, haskey |-> FALSE]>>, obj |-> [t |-> "none"], fl |-> [strict |-> TRUE, trailing |-> FALSE, utf8 |-> FALSE], maxd |-> 2, pb |-> <<>>, stpos |-> 0, isdbl |-> FALSE, quote |-> 0, ucs |-> 0, hs |-> 0, nb |-> 0, isexp |-> FALSE, negok |-> TRUE, posok |-> FALSE, caselen |-> 0, numfresh |-> TRUE],b |-> [c |-> 100, done |-> FALSE, err |-> "success", ret |-> [t |-> "none"], off |-> 4, stack |-> <<[st |-> "escape_unicode", sst |-> "string", cur |-> [t |-> "none"], key |-> <<>>, haskey |-> FALSE]>>, obj |-> [t |-> "none"], fl |-> [strict |-> TRUE, trailing |-> FALSE, utf8 |-> FALSE], maxd |-> 2, pb |-> <<>>, stpos |-> 1, isdbl |-> FALSE, quote |-> 34, ucs |-> 53248, hs |-> 0, nb |-> 0, isexp |-> FALSE, negok |-> TRUE, posok |-> FALSE, caselen |-> 0, numfresh |-> TRUE],n |-> 4]),
    ([phase |-> 1,a |-> [c |-> 1, done |-> FALSE, err |-> "success", ret |-> [t |-> "none"], off |-> 0, stack |-> <<[st |-> "eatws", sst |-> "start", cur |-> [t |-> "none"], key |-> <<>>, haskey |-> FALSE]>>, obj |-> [t |-> "none"], fl |-> [strict |-> TRUE, trailing |-> FALSE, utf8 |-> FALSE], maxd |-> 2, pb |-> <<>>, stpos |-> 0, isdbl |-> FALSE, quote |-> 0, ucs |-> 0, hs |-> 0, nb |-> 0, isexp |-> FALSE, negok |-> TRUE, posok |-> FALSE, caselen |-> 0, numfresh |-> TRUE],b |-> [c |-> 56, done |-> FALSE, err |-> "success", ret |-> [t |-> "none"], off |-> 5, stack |-> <<[st |-> "escape_unicode", sst |-> "string", cur |-> [t |-> "none"], key |-> <<>>, haskey |-> FALSE]>>, obj |-> [t |-> "none"], fl |-> [strict |-> TRUE, trailing |-> FALSE, utf8 |-> FALSE], maxd |-> 2, pb |-> <<>>, stpos |-> 2, isdbl |-> FALSE, quote |-> 34, ucs |-> 55296, hs |-> 0, nb |-> 0, isexp |-> FALSE, negok |-> TRUE, posok |-> FALSE, caselen |-> 0, numfresh |-> TRUE],n |-> 5]),
    ([phase |-> 1,a |-> [c |-> 1, done |-> FALSE, err |-> "success", ret |-> [t |-> "none"], off |-> 0, stack |-> <<[st |-> "eatws", sst |-> "start", cur |-> [t |-> "none"], key |-> <<>>, haskey |-> FALSE]>>, obj |-> [t |-> "none"], fl |-> [strict |-> TRUE, trailing |-> FALSE, utf8 |-> FALSE], maxd |-> 2, pb |-> <<>>, stpos |-> 0, isdbl |-> FALSE, quote |-> 0, ucs |-> 0, hs |-> 0, nb |-> 0, isexp |-> FALSE, negok |-> TRUE, posok |-> FALSE, caselen |-> 0, numfresh |-> TRUE],b |-> [c |-> 49, done |-> FALSE, err |-> "success", ret |-> [t |-> "none"], off |-> 6, stack |-> <<[st |-> "escape_unicode", sst |-> "string", cur |-> [t |-> "none"], key |-> <<>>, haskey |-> FALSE]>>, obj |-> [t |-> "none"], fl |-> [strict |-> TRUE, trailing |-> FALSE, utf8 |-> FALSE], maxd |-> 2, pb |-> <<>>, stpos |-> 3, isdbl |-> FALSE, quote |-> 34, ucs |-> 55312, hs |-> 0, nb |-> 0, isexp |-> FALSE, negok |-> TRUE, posok |-> FALSE, caselen |-> 0, numfresh |-> TRUE],n |-> 6]),
    ([phase |-> 1,a |-> [c |-> 1, done |-> FALSE, err |-> "success", ret |-> [t |-> "none"], off |-> 0, stack |-> <<[st |-> "eatws", sst |-> "start", cur |-> [t |-> "none"], key |-> <<>>, haskey |-> FALSE]>>, obj |-> [t |-> "none"], fl |-> [strict |-> TRUE, trailing |-> FALSE, utf8 |-> FALSE], maxd |-> 2, pb |-> <<>>, stpos |-> 0, isdbl |-> FALSE, quote |-> 0, ucs |-> 0, hs |-> 0, nb |-> 0, isexp |-> FALSE, negok |-> TRUE, posok |-> FALSE, caselen |-> 0, numfresh |-> TRUE],b |-> [c |-> 99, done |-> FALSE, err |-> "success", ret |-> [t |-> "none"], off |-> 7, stack |-> <<[st |-> "need_escape", sst |-> "string", cur |-> [t |-> "none"], key |-> <<>>, haskey |-> FALSE]>>, obj |-> [t |-> "none"], fl |-> [strict |-> TRUE, trailing |-> FALSE, utf8 |-> FALSE], maxd |-> 2, pb |-> <<>>, stpos |-> 0, isdbl |-> FALSE, quote |-> 34, ucs |-> 0, hs |-> 55324, nb |-> 0, isexp |-> FALSE, negok |-> TRUE, posok |-> FALSE, caselen |-> 0, numfresh |-> TRUE],n |-> 7]),
    ([phase |-> 2,a |-> [c |-> 1, done |-> FALSE, err |-> "success", ret |-> [t |-> "none"], off |-> 0, stack |-> <<[st |-> "eatws", sst |-> "start", cur |-> [t |-> "none"], key |-> <<>>, haskey |-> FALSE]>>, obj |-> [t |-> "none"], fl |-> [strict |-> TRUE, trailing |-> FALSE, utf8 |-> FALSE], maxd |-> 2, pb |-> <<>>, stpos |-> 0, isdbl |-> FALSE, quote |-> 0, ucs |-> 0, hs |-> 0, nb |-> 0, isexp |-> FALSE, negok |-> TRUE, posok |-> FALSE, caselen |-> 0, numfresh |-> TRUE],b |-> [c |-> 1, done |-> FALSE, err |-> "success", ret |-> [t |-> "none"], off |-> 0, stack |-> <<[st |-> "eatws", sst |-> "start", cur |-> [t |-> "none"], key |-> <<>>, haskey |-> FALSE]>>, obj |-> [t |-> "none"], fl |-> [strict |-> TRUE, trailing |-> FALSE, utf8 |-> FALSE], maxd |-> 2, pb |-> <<>>, stpos |-> 0, isdbl |-> FALSE, quote |-> 34, ucs |-> 0, hs |-> 55324, nb |-> 0, isexp |-> FALSE, negok |-> TRUE, posok |-> FALSE, caselen |-> 0, numfresh |-> TRUE],n |-> 0]),
    ([phase |-> 2,a |-> [c |-> 34, done |-> FALSE, err |-> "success", ret |-> [t |-> "none"], off |-> 1, stack |-> <<[st |-> "string", sst |-> "start", cur |-> [t |-> "none"], key |-> <<>>, haskey |-> FALSE]>>, obj |-> [t |-> "none"], fl |-> [strict |-> TRUE, trailing |-> FALSE, utf8 |-> FALSE], maxd |-> 2, pb |-> <<>>, stpos |-> 0, isdbl |-> FALSE, quote |-> 34, ucs |-> 0, hs |-> 0, nb |-> 0, isexp |-> FALSE, negok |-> TRUE, posok |-> FALSE, caselen |-> 0, numfresh |-> TRUE],b |-> [c |-> 34, done |-> FALSE, err |-> "success", ret |-> [t |-> "none"], off |-> 1, stack |-> <<[st |-> "string", sst |-> "start", cur |-> [t |-> "none"], key |-> <<>>, haskey |-> FALSE]>>, obj |-> [t |-> "none"], fl |-> [strict |-> TRUE, trailing |-> FALSE, utf8 |-> FALSE], maxd |-> 2, pb |-> <<>>, stpos |-> 0, isdbl |-> FALSE, quote |-> 34, ucs |-> 0, hs |-> 55324, nb |-> 0, isexp |-> FALSE, negok |-> TRUE, posok |-> FALSE, caselen |-> 0, numfresh |-> TRUE],n |-> 1]),
    ([phase |-> 2,a |-> [c |-> 92, done |-> FALSE, err |-> "success", ret |-> [t |-> "none"], off |-> 2, stack |-> <<[st |-> "string_escape", sst |-> "string", cur |-> [t |-> "none"], key |-> <<>>, haskey |-> FALSE]>>, obj |-> [t |-> "none"], fl |-> [strict |-> TRUE, trailing |-> FALSE, utf8 |-> FALSE], maxd |-> 2, pb |-> <<>>, stpos |-> 0, isdbl |-> FALSE, quote |-> 34, ucs |-> 0, hs |-> 0, nb |-> 0, isexp |-> FALSE, negok |-> TRUE, posok |-> FALSE, caselen |-> 0, numfresh |-> TRUE],b |-> [c |-> 92, done |-> FALSE, err |-> "success", ret |-> [t |-> "none"], off |-> 2, stack |-> <<[st |-> "string_escape", sst |-> "string", cur |-> [t |-> "none"], key |-> <<>>, haskey |-> FALSE]>>, obj |-> [t |-> "none"], fl |-> [strict |-> TRUE, trailing |-> FALSE, utf8 |-> FALSE], maxd |-> 2, pb |-> <<>>, stpos |-> 0, isdbl |-> FALSE, quote |-> 34, ucs |-> 0, hs |-> 55324, nb |-> 0, isexp |-> FALSE, negok |-> TRUE, posok |-> FALSE, caselen |-> 0, numfresh |-> TRUE],n |-> 2]),
    ([phase |-> 2,a |-> [c |-> 117, done |-> FALSE, err |-> "success", ret |-> [t |-> "none"], off |-> 3, stack |-> <<[st |-> "escape_unicode", sst |-> "string", cur |-> [t |-> "none"], key |-> <<>>, haskey |-> FALSE]>>, obj |-> [t |-> "none"], fl |-> [strict |-> TRUE, trailing |-> FALSE, utf8 |-> FALSE], maxd |-> 2, pb |-> <<>>, stpos |-> 0, isdbl |-> FALSE, quote |-> 34, ucs |-> 0, hs |-> 0, nb |-> 0, isexp |-> FALSE, negok |-> TRUE, posok |-> FALSE, caselen |-> 0, numfresh |-> TRUE],b |-> [c |-> 117, done |-> FALSE, err |-> "success", ret |-> [t |-> "none"], off |-> 3, stack |-> <<[st |-> "escape_unicode", sst |-> "string", cur |-> [t |-> "none"], key |-> <<>>, haskey |-> FALSE]>>, obj |-> [t |-> "none"], fl |-> [strict |-> TRUE, trailing |-> FALSE, utf8 |-> FALSE], maxd |-> 2, pb |-> <<>>, stpos |-> 0, isdbl |-> FALSE, quote |-> 34, ucs |-> 0, hs |-> 55324, nb |-> 0, isexp |-> FALSE, negok |-> TRUE, posok |-> FALSE, caselen |-> 0, numfresh |-> TRUE],n |-> 3]),
    ([phase |-> 2,a |-> [c |-> 49, done |-> FALSE, err |-> "success", ret |-> [t |-> "none"], off |-> 4, stack |-> <<[st |-> "escape_unicode", sst |-> "string", cur |-> [t |-> "none"], key |-> <<>>, haskey |-> FALSE]>>, obj |-> [t |-> "none"], fl |-> [strict |-> TRUE, trailing |-> FALSE, utf8 |-> FALSE], maxd |-> 2, pb |-> <<>>, stpos |-> 1, isdbl |-> FALSE, quote |-> 34, ucs |-> 4096, hs |-> 0, nb |-> 0, isexp |-> FALSE, negok |-> TRUE, posok |-> FALSE, caselen |-> 0, numfresh |-> TRUE],b |-> [c |-> 49, done |-> FALSE, err |-> "success", ret |-> [t |-> "none"], off |-> 4, stack |-> <<[st |-> "escape_unicode", sst |-> "string", cur |-> [t |-> "none"], key |-> <<>>, haskey |-> FALSE]>>, obj |-> [t |-> "none"], fl |-> [strict |-> TRUE, trailing |-> FALSE, utf8 |-> FALSE], maxd |-> 2, pb |-> <<>>, stpos |-> 1, isdbl |-> FALSE, quote |-> 34, ucs |-> 4096, hs |-> 55324, nb |-> 0, isexp |-> FALSE, negok |-> TRUE, posok |-> FALSE, caselen |-> 0, numfresh |-> TRUE],n |-> 4]),
    ([phase |-> 2,a |-> [c |-> 49, done |-> FALSE, err |-> "success", ret |-> [t |-> "none"], off |-> 5, stack |-> <<[st |-> "escape_unicode", sst |-> "string", cur |-> [t |-> "none"], key |-> <<>>, haskey |-> FALSE]>>, obj |-> [t |-> "none"], fl |-> [strict |-> TRUE, trailing |-> FALSE, utf8 |-> FALSE], maxd |-> 2, pb |-> <<>>, stpos |-> 2, isdbl |-> FALSE, quote |-> 34, ucs |-> 4352, hs |-> 0, nb |-> 0, isexp |-> FALSE, negok |-> TRUE, posok |-> FALSE, caselen |-> 0, numfresh |-> TRUE],b |-> [c |-> 49, done |-> FALSE, err |-> "success", ret |-> [t |-> "none"], off |-> 5, stack |-> <<[st |-> "escape_unicode", sst |-> "string", cur |-> [t |-> "none"], key |-> <<>>, haskey |-> FALSE]>>, obj |-> [t |-> "none"], fl |-> [strict |-> TRUE, trailing |-> FALSE, utf8 |-> FALSE], maxd |-> 2, pb |-> <<>>, stpos |-> 2, isdbl |-> FALSE, quote |-> 34, ucs |-> 4352, hs |-> 55324, nb |-> 0, isexp |-> FALSE, negok |-> TRUE, posok |-> FALSE, caselen |-> 0, numfresh |-> TRUE],n |-> 5]),
    ([phase |-> 2,a |-> [c |-> 56, done |-> FALSE, err |-> "success", ret |-> [t |-> "none"], off |-> 6, stack |-> <<[st |-> "escape_unicode", sst |-> "string", cur |-> [t |-> "none"], key |-> <<>>, haskey |-> FALSE]>>, obj |-> [t |-> "none"], fl |-> [strict |-> TRUE, trailing |-> FALSE, utf8 |-> FALSE], maxd |-> 2, pb |-> <<>>, stpos |-> 3, isdbl |-> FALSE, quote |-> 34, ucs |-> 4480, hs |-> 0, nb |-> 0, isexp |-> FALSE, negok |-> TRUE, posok |-> FALSE, caselen |-> 0, numfresh |-> TRUE],b |-> [c |-> 56, done |-> FALSE, err |-> "success", ret |-> [t |-> "none"], off |-> 6, stack |-> <<[st |-> "escape_unicode", sst |-> "string", cur |-> [t |-> "none"], key |-> <<>>, haskey |-> FALSE]>>, obj |-> [t |-> "none"], fl |-> [strict |-> TRUE, trailing |-> FALSE, utf8 |-> FALSE], maxd |-> 2, pb |-> <<>>, stpos |-> 3, isdbl |-> FALSE, quote |-> 34, ucs |-> 4480, hs |-> 55324, nb |-> 0, isexp |-> FALSE, negok |-> TRUE, posok |-> FALSE, caselen |-> 0, numfresh |-> TRUE],n |-> 6]),
    ([phase |-> 2,a |-> [c |-> 56, done |-> FALSE, err |-> "success", ret |-> [t |-> "none"], off |-> 7, stack |-> <<[st |-> "string", sst |-> "string", cur |-> [t |-> "none"], key |-> <<>>, haskey |-> FALSE]>>, obj |-> [t |-> "none"], fl |-> [strict |-> TRUE, trailing |-> FALSE, utf8 |-> FALSE], maxd |-> 2, pb |-> <<225, 134, 136>>, stpos |-> 0, isdbl |-> FALSE, quote |-> 34, ucs |-> 4488, hs |-> 0, nb |-> 0, isexp |-> FALSE, negok |-> TRUE, posok |-> FALSE, caselen |-> 0, numfresh |-> TRUE],b |-> [c |-> 56, done |-> FALSE, err |-> "success", ret |-> [t |-> "none"], off |-> 7, stack |-> <<[st |-> "string", sst |-> "string", cur |-> [t |-> "none"], key |-> <<>>, haskey |-> FALSE]>>, obj |-> [t |-> "none"], fl |-> [strict |-> TRUE, trailing |-> FALSE, utf8 |-> FALSE], maxd |-> 2, pb |-> <<239, 191, 189, 225, 134, 136>>, stpos |-> 0, isdbl |-> FALSE, quote |-> 34, ucs |-> 4488, hs |-> 0, nb |-> 0, isexp |-> FALSE, negok |-> TRUE, posok |-> FALSE, caselen |-> 0, numfresh |-> TRUE],n |-> 7]),
    ([phase |-> 2,a |-> [c |-> 34, done |-> FALSE, err |-> "success", ret |-> [t |-> "none"], off |-> 8, stack |-> <<[st |-> "eatws", sst |-> "finish", cur |-> [t |-> "string", s |-> <<225, 134, 136>>], key |-> <<>>, haskey |-> FALSE]>>, obj |-> [t |-> "none"], fl |-> [strict |-> TRUE, trailing |-> FALSE, utf8 |-> FALSE], maxd |-> 2, pb |-> <<225, 134, 136>>, stpos |-> 0, isdbl |-> FALSE, quote |-> 34, ucs |-> 4488, hs |-> 0, nb |-> 0, isexp |-> FALSE, negok |-> TRUE, posok |-> FALSE, caselen |-> 0, numfresh |-> TRUE],b |-> [c |-> 34, done |-> FALSE, err |-> "success", ret |-> [t |-> "none"], off |-> 8, stack |-> <<[st |-> "eatws", sst |-> "finish", cur |-> [t |-> "string", s |-> <<239, 191, 189, 225, 134, 136>>], key |-> <<>>, haskey |-> FALSE]>>, obj |-> [t |-> "none"], fl |-> [strict |-> TRUE, trailing |-> FALSE, utf8 |-> FALSE], maxd |-> 2, pb |-> <<239, 191, 189, 225, 134, 136>>, stpos |-> 0, isdbl |-> FALSE, quote |-> 34, ucs |-> 4488, hs |-> 0, nb |-> 0, isexp |-> FALSE, negok |-> TRUE, posok |-> FALSE, caselen |-> 0, numfresh |-> TRUE],n |-> 8]),
    ([phase |-> 2,a |-> [c |-> 34, done |-> TRUE, err |-> "success", ret |-> [t |-> "string", s |-> <<225, 134, 136>>], off |-> 8, stack |-> <<[st |-> "eatws", sst |-> "start", cur |-> [t |-> "none"], key |-> <<>>, haskey |-> FALSE]>>, obj |-> [t |-> "none"], fl |-> [strict |-> TRUE, trailing |-> FALSE, utf8 |-> FALSE], maxd |-> 2, pb |-> <<225, 134, 136>>, stpos |-> 0, isdbl |-> FALSE, quote |-> 34, ucs |-> 4488, hs |-> 0, nb |-> 0, isexp |-> FALSE, negok |-> TRUE, posok |-> FALSE, caselen |-> 0, numfresh |-> TRUE],b |-> [c |-> 34, done |-> TRUE, err |-> "success", ret |-> [t |-> "string", s |-> <<239, 191, 189, 225, 134, 136>>], off |-> 8, stack |-> <<[st |-> "eatws", sst |-> "start", cur |-> [t |-> "none"], key |-> <<>>, haskey |-> FALSE]>>, obj |-> [t |-> "none"], fl |-> [strict |-> TRUE, trailing |-> FALSE, utf8 |-> FALSE], maxd |-> 2, pb |-> <<239, 191, 189, 225, 134, 136>>, stpos |-> 0, isdbl |-> FALSE, quote |-> 34, ucs |-> 4488, hs |-> 0, nb |-> 0, isexp |-> FALSE, negok |-> TRUE, posok |-> FALSE, caselen |-> 0, numfresh |-> TRUE],n |-> 8])
    >>
----


=============================================================================

---- CONFIG MCTokReset_TTrace_1791158744 ----
CONSTANTS
    AsFound = { "resetbleed" }
    Alphabet = { 34 , 92 , 117 , 100 , 56 , 99 , 91 , 49 }
    MaxPrefix = 8
    MaxLen = 8
    MaxDepth = 2
    FlagSets = { 0 , 1 }

INVARIANT
    _inv

CHECK_DEADLOCK
    \* CHECK_DEADLOCK off because of PROPERTY or INVARIANT above.
    FALSE

INIT
    _init

NEXT
    _next

CONSTANT
    _TETrace <- _trace

ALIAS
    _expression
=============================================================================
\* Generated on Mon Oct 05 00:06:06 UTC 2026