---- MODULE TraceSeqGap ----
(* Trace specification for C07: each recorded call on a real array_list / json_object array must
   be a SeqGap step (incl. the exact set of elements the array released), and the observed
   length and elements - with three reads past the end, which must be null - must equal the
   abstract sequence. *)
EXTENDS Naturals, Integers, Sequences, TLC, Json, IOUtils
VARIABLES st, l
S == INSTANCE SeqGap WITH arr <- st, call <- l, KeyOf <- LAMBDA e : e % 7, BigLen <- 1048576

Observed(s, r) ==
    /\ r.len = Len(s)
    /\ Len(r.elems) = Len(s) + 3
    /\ \A i \in 1..Len(r.elems) : r.elems[i] = IF i <= Len(s) THEN s[i] ELSE 0

\* "end": the execution is over and its list / array released: nothing json-c allocated during it remains
StepOfImpl(s, r) == IF r.op = "end" THEN [ok |-> r.leak = 0, st |-> s] ELSE
                    LET x == S!CallStep(s, r) IN
                    IF x.ok THEN [ok |-> Observed(x.s, r) /\ {r.freed[i] : i \in 1..Len(r.freed)} = x.freed, st |-> x.s]
                    ELSE [ok |-> FALSE, st |-> s]
TraceLog == ndJsonDeserialize(IOEnv.TRACE)
T == INSTANCE TraceBase WITH Log <- TraceLog, InitSt <- <<>>, StepOf <- StepOfImpl, ResyncAtNew <- TRUE
Spec == T!Spec
Done == T!Done
====
