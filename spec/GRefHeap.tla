---- MODULE GRefHeap ----
(* behaviour export for direction G (C05): one shortest call history per transition of MCRefHeap *)
EXTENDS MCRefHeap, Json
VARIABLE hist
Rec(c) == [op |-> c.op, a |-> c.a, b |-> c.b, k |-> c.k, i |-> c.i, cnt |-> c.cnt, kind |-> c.kind, tok |-> c.tok,
           deflt |-> c.deflt, path |-> c.path, from |-> c.from]
GInit == Init /\ hist = <<>>
GNext == Next /\ hist' = Append(hist, Rec(last'))
GSpec == GInit /\ [][GNext]_<<vars, hist>>
CONSTANT GStride
\* about one in GStride transitions: the full graph has > 10^6 edges
\* (a deterministic function of the transition, so that the sample does not depend on worker scheduling)
RECURSIVE SumRc(_)
SumRc(S) == IF S = {} THEN 0 ELSE LET x == CHOOSE y \in S : TRUE IN h'.n[x].rc * x + Len(h'.n[x].kids) * 5 + SumRc(S \ {x})
EdgeHash == Len(hist') * 7 + last'.a * 13 + last'.b * 17 + last'.k * 19 + last'.i * 23 + Len(last'.path) * 31 + Len(last'.from) * 37 + SumRc(Live(h'))
GExport == (EdgeHash % GStride = 0) => PrintT(<<"EDGE", ToJson(hist')>>)
====
