---- MODULE World ----
(* The composed object model: ONE state for everything a json-c client can hold and see.
   It puts the per-property specifications together instead of judging each in isolation:
     RefHeap      ownership, reference counts, container slots, destruction (C05)      - the structure w.n
     leaf values  integers / doubles (bits, printf text, retained text) / strings / booleans  - w.leaf
     JsonValue    the value a node denotes (ValueOf) and structural equality (C09)
     Serializer   text of a node under any flag set, judged by the RFC 8259 grammar fold (C02)
     Grammar      a parsed text becomes a tree of fresh nodes denoting Denote(text) (C01)
     Pointer walk the very node a reference-token path reaches (C12); visitor order (C17)
     Patch        the copying operations add / replace / copy applied in place (C13): fresh nodes, release of the replaced value
   so that a history may build a tree by parsing, mutate it through containers, pointers and patches,
   copy it, serialize the copy, compare both, drop the parent and still read the child: every
   observation is a function of the one abstract state.
   State w = [n |-> RefHeap node table, leaf |-> (id of a leaf node) -> value record].
   All RefHeap operators only touch w.n (they use EXCEPT), so w is passed to them as their heap.
   WorldStep(w, c) = [ok, w']: the recorded call c (arguments + everything observed) is a step from w. *)
EXTENDS Naturals, Integers, Sequences, FiniteSets, TLC, SequencesExt
CONSTANT WMUT      \* mutant switches (anti-vacuity of MCWorld): RefHeap's own, "copy_loses_leaf", "set_by_value", "text_unescaped", "patch_keeps_replaced"
R == INSTANCE RefHeap WITH MUT <- WMUT
V == INSTANCE JsonValue WITH MUTV <- {}
S == INSTANCE Serializer WITH AsFoundS <- {}
G == INSTANCE Grammar

\* ---- member names: RefHeap's key ids <-> the bytes the client uses ("k<n>", "<n>", "-")
RECURSIVE DecB(_)
DecB(n) == IF n < 10 THEN <<48 + n>> ELSE DecB(n \div 10) \o <<48 + (n % 10)>>
KeyBytes(k) == IF k = 2000 THEN <<45>> ELSE IF k >= 1000 THEN DecB(k - 1000) ELSE <<107>> \o DecB(k)
RECURSIVE DecV(_, _, _)
DecV(s, i, acc) == IF i > Len(s) THEN acc ELSE DecV(s, i + 1, acc * 10 + (s[i] - 48))
AllDigits(s) == Len(s) > 0 /\ Len(s) < 4 /\ \A i \in 1..Len(s) : s[i] \in 48..57
KeyId(b) == IF b = <<45>> THEN 2000
            ELSE IF Len(b) > 1 /\ b[1] = 107 /\ AllDigits(Tail(b)) THEN DecV(b, 2, 0)
            ELSE IF AllDigits(b) THEN 1000 + DecV(b, 1, 0)
            ELSE -1

\* ---- the value a node denotes
With(f, id, v) == [x \in (DOMAIN f) \cup {id} |-> IF x = id THEN v ELSE f[x]]
RECURSIVE ValueOf(_, _)
ValueOf(w, id) ==
    IF id = 0 THEN [t |-> "null"]
    ELSE LET nd == w.n[id] IN
         IF nd.kind = "l" THEN w.leaf[id]
         ELSE IF nd.kind = "a" THEN [t |-> "array", e |-> [i \in 1..Len(nd.kids) |-> ValueOf(w, nd.kids[i])]]
         ELSE [t |-> "object", m |-> [i \in 1..Len(nd.kids) |-> [k |-> KeyBytes(nd.keys[i]), v |-> ValueOf(w, nd.kids[i])]]]
\* model value v against the harness's typed dump d (doubles: bit pattern, printf text, retained text)
RECURSIVE Match(_, _)
Match(v, d) ==
    IF v.t # d.t THEN FALSE
    ELSE CASE v.t = "null" -> TRUE
           [] v.t = "bool" -> v.b = d.b
           [] v.t = "int" -> v.neg = d.neg /\ v.d = d.d
           [] v.t = "string" -> v.s = d.s
           [] v.t = "double" -> v.bits = d.bits /\ v.fmt = d.fmt /\ v.ret = d.ret
           [] v.t = "array" -> Len(v.e) = Len(d.e) /\ \A i \in 1..Len(v.e) : Match(v.e[i], d.e[i])
           [] v.t = "object" -> Len(v.m) = Len(d.m) /\ \A i \in 1..Len(v.m) : v.m[i].k = d.m[i].k /\ Match(v.m[i].v, d.m[i].v)
           [] OTHER -> FALSE
LeafOf(d) == IF d.t = "double" THEN [t |-> "double", bits |-> d.bits, fmt |-> d.fmt, ret |-> d.ret]
             ELSE IF d.t = "int" THEN [t |-> "int", neg |-> d.neg, d |-> d.d]
             ELSE d
\* nodes below id in document order, null slots skipped (the order in which a copy / a parse hands out ids)
RECURSIVE PreOrder(_, _)
PreOrder(w, id) == IF id = 0 THEN <<>>
                   ELSE LET kids == w.n[id].kids
                            RECURSIVE F(_)
                            F(i) == IF i > Len(kids) THEN <<>> ELSE PreOrder(w, kids[i]) \o F(i + 1)
                        IN <<id>> \o F(1)
\* the visitor's calls with a callback that always continues: node, children, node again (negated) for containers
RECURSIVE VisitSeq(_, _)
VisitSeq(w, id) == IF id = 0 THEN <<0>>
                   ELSE IF w.n[id].kind = "l" THEN <<id>>
                   ELSE LET kids == w.n[id].kids
                            RECURSIVE F(_)
                            F(i) == IF i > Len(kids) THEN <<>> ELSE VisitSeq(w, kids[i]) \o F(i + 1)
                        IN <<id>> \o F(1) \o <<0 - id>>

Ok(w) == [ok |-> TRUE, w |-> w]
No(w) == [ok |-> FALSE, w |-> w]
IsLeaf(w, a) == R!IsLive(w, a) /\ w.n[a].kind = "l"
Prune(w) == [w EXCEPT !.leaf = [x \in {y \in DOMAIN w.leaf : y \in DOMAIN w.n} |-> w.leaf[x]]]

\* ---- the structural calls: RefHeap decides; leaf values follow the nodes
Structural(w, c) ==
    LET x == R!CallStep(w, c) IN
    IF ~x.ok THEN No(w)
    ELSE LET w1 == Prune(x.h) IN
         IF c.op = "new" /\ c.kind = "l" THEN Ok([w1 EXCEPT !.leaf = With(@, c.a, [t |-> "unset"])])
         ELSE IF c.op = "copy" /\ c.ret = 0
              THEN LET pre == PreOrder(w, c.a)
                       L == {i \in 1..Len(pre) : w.n[pre[i]].kind = "l"}
                   IN Ok([w1 EXCEPT !.leaf = [y \in (DOMAIN w1.leaf) \cup {c.newids[i] : i \in L} |->
                                               IF \E i \in L : c.newids[i] = y
                                               THEN (IF "copy_loses_leaf" \in WMUT THEN [t |-> "int", neg |-> FALSE, d |-> <<0>>]
                                                     ELSE w.leaf[pre[CHOOSE i \in L : c.newids[i] = y]])
                                               ELSE w1.leaf[y]]])
              ELSE Ok(w1)

\* ---- leaf values
TypeTag(v) == v.t
SetLeaf(w, c) ==          \* constructor argument (wleaf) or json_object_set_<type> (wset: ret 1 = stored, 0 = other type, unchanged)
    IF ~IsLeaf(w, c.a) THEN No(w)
    ELSE IF c.op = "wleaf" THEN Ok([w EXCEPT !.leaf = With(@, c.a, c.val)])
    ELSE IF w.leaf[c.a].t = c.val.t
         THEN (IF c.ret # 1 THEN No(w)
               ELSE IF "set_by_value" \in WMUT THEN Ok([w EXCEPT !.leaf = [x \in DOMAIN @ |-> IF @[x] = w.leaf[c.a] THEN c.val ELSE @[x]]])
               ELSE Ok([w EXCEPT !.leaf = With(@, c.a, c.val)]))
    ELSE (IF c.ret = 0 THEN Ok(w) ELSE No(w))

\* ---- observations (the state does not change)
Held(w, a) == R!Holds(w, a)
Obs(w, c) == IF Held(w, c.a) /\ Match(ValueOf(w, c.a), c.dump) /\ c.ids = PreOrder(w, c.a) THEN Ok(w) ELSE No(w)
Ser(w, c) ==
    IF ~Held(w, c.a) THEN No(w)
    ELSE LET v == ValueOf(w, c.a) IN
         IF c.len = Len(c.text) /\ S!DenotesTree(c.text, v, S!Flag(c.f))
         THEN (IF c.text = S!Serialize(v, c.f) THEN Ok(w) ELSE [ok |-> TRUE, w |-> w, mech |-> TRUE])
         ELSE No(w)
Eq(w, c) == IF Held(w, c.a) /\ Held(w, c.b) /\ (c.res = (c.a = c.b \/ V!Equal(ValueOf(w, c.a), ValueOf(w, c.b)))) /\ c.res = c.res2
            THEN Ok(w) ELSE No(w)
PtrGet(w, c) == IF ~Held(w, c.a) THEN No(w)
                ELSE LET x == R!Walk(w, c.a, c.path) IN
                     IF (x = -1 /\ c.ret = -1) \/ (x >= 0 /\ c.ret = 0 /\ c.b = x) THEN Ok(w) ELSE No(w)
Visit(w, c) == IF Held(w, c.a) /\ c.calls = VisitSeq(w, c.a) /\ c.ret = 0 THEN Ok(w) ELSE No(w)
Len_(w, c) == IF Held(w, c.a) /\ w.n[c.a].kind # "l" /\ c.len = Len(w.n[c.a].kids) THEN Ok(w) ELSE No(w)

\* ---- json_object_array_sort with a comparator that orders nodes by their ids (null first): a permutation of the slots
ASort(w, c) == IF ~Held(w, c.a) \/ w.n[c.a].kind # "a" THEN No(w)
               ELSE Ok([w EXCEPT !.n[c.a].kids = SortSeq(@, LAMBDA x, y : x < y)])

\* ---- json_tokener_parse of a text: fresh nodes (ids c.newids in document order, the client holds the root)
\*      denoting Grammar!Denote(text); the dump supplies what libc decides (bits / printf text of each double)
RECURSIVE Build(_, _)
Build(acc, d) ==
    IF d.t = "null" THEN [acc EXCEPT !.last = 0]
    ELSE LET me == acc.ids[acc.used + 1]
             a1 == [acc EXCEPT !.used = @ + 1]
             Node(kind, keys, kids) == [kind |-> kind, rc |-> 1, held |-> 0, keys |-> keys, kids |-> kids, ud |-> 0]
         IN IF d.t \in {"array", "object"}
            THEN LET kv == IF d.t = "array" THEN d.e ELSE [i \in 1..Len(d.m) |-> d.m[i].v]
                     RECURSIVE F(_, _, _)
                     F(a, i, out) == IF i > Len(kv) THEN [a |-> a, kids |-> out]
                                     ELSE LET a2 == Build(a, kv[i]) IN F(a2, i + 1, Append(out, a2.last))
                     r == F(a1, 1, <<>>)
                     keys == IF d.t = "object" THEN [i \in 1..Len(d.m) |-> KeyId(d.m[i].k)] ELSE <<>>
                 IN [r.a EXCEPT !.n = With(@, me, Node(IF d.t = "array" THEN "a" ELSE "o", keys, r.kids)), !.last = me]
            ELSE [a1 EXCEPT !.n = With(@, me, Node("l", <<>>, <<>>)), !.leaf = With(@, me, LeafOf(d)), !.last = me]
RECURSIVE DumpNodes(_)
DumpNodes(d) == IF d.t = "null" THEN 0
                ELSE IF d.t = "array" THEN 1 + FoldLeft(LAMBDA acc, x : acc + DumpNodes(x), 0, d.e)
                ELSE IF d.t = "object" THEN 1 + FoldLeft(LAMBDA acc, x : acc + DumpNodes(x.v), 0, d.m)
                ELSE 1
RECURSIVE KeysKnown(_)
KeysKnown(d) == IF d.t = "array" THEN \A i \in 1..Len(d.e) : KeysKnown(d.e[i])
                ELSE IF d.t = "object" THEN \A i \in 1..Len(d.m) : KeyId(d.m[i].k) >= 0 /\ KeysKnown(d.m[i].v)
                ELSE TRUE
Parse(w, c) ==
    LET den == G!Denote(c.text) IN
    IF ~den.ok THEN No(w)                                  \* (the client only submits valid texts: they must be accepted)
    ELSE IF c.ret # 0 \/ ~S!SameValue(c.dump, den.v, S!Flag(0)) \/ ~KeysKnown(c.dump) THEN No(w)
    ELSE IF Len(c.newids) # DumpNodes(c.dump) \/ Len(c.newids) = 0 \/ \E i \in 1..Len(c.newids) : R!IsLive(w, c.newids[i]) THEN No(w)
    ELSE LET b == Build([n |-> w.n, leaf |-> w.leaf, ids |-> c.newids, used |-> 0, last |-> 0], c.dump)
         IN Ok([n |-> [b.n EXCEPT ![c.newids[1]].held = 1], leaf |-> b.leaf])

\* ---- json_patch_apply in place with ONE copying operation: add / replace (a copy of the patch's value) or copy (a copy of the
\*      value at `from`) placed at `path` as RFC 6902 says - member added or replaced in place, array element inserted ("-": appended)
\*      or replaced; the new subtree consists of fresh nodes (ids c.newids in document order, owned by the document), a replaced
\*      value is released (destroyed unless someone else holds it); a failing operation changes nothing
FrontOf(p) == SubSeq(p, 1, Len(p) - 1)
Place(n0, par, tk, x, mode) ==
    LET nd == n0[par]
        Bad == [ok |-> FALSE, n |-> n0, rel |-> 0]
    IN IF nd.kind = "o"
       THEN LET k == R!TokKey(tk)  p == R!KeyPos(nd, k) IN
            IF p = 0 THEN (IF mode = "replace" THEN Bad
                           ELSE [ok |-> TRUE, n |-> [n0 EXCEPT ![par].keys = Append(@, k), ![par].kids = Append(@, x)], rel |-> 0])
            ELSE [ok |-> TRUE, n |-> [n0 EXCEPT ![par].kids[p] = x], rel |-> nd.kids[p]]
       ELSE IF nd.kind = "a"
       THEN (IF tk.t = "-" THEN (IF mode = "replace" THEN Bad ELSE [ok |-> TRUE, n |-> [n0 EXCEPT ![par].kids = Append(@, x)], rel |-> 0])
             ELSE IF tk.t = "i"
             THEN (IF mode = "replace"
                   THEN (IF tk.v < Len(nd.kids) THEN [ok |-> TRUE, n |-> [n0 EXCEPT ![par].kids[tk.v + 1] = x], rel |-> nd.kids[tk.v + 1]] ELSE Bad)
                   ELSE (IF tk.v <= Len(nd.kids)
                         THEN [ok |-> TRUE, n |-> [n0 EXCEPT ![par].kids = SubSeq(nd.kids, 1, tk.v) \o <<x>> \o SubSeq(nd.kids, tk.v + 1, Len(nd.kids))], rel |-> 0]
                         ELSE Bad))
             ELSE Bad)
       ELSE Bad
SlotAfter(n1, par, tk) == LET nd == n1[par] IN
                          IF nd.kind = "o" THEN R!KeyPos(nd, R!TokKey(tk)) ELSE IF tk.t = "-" THEN Len(nd.kids) ELSE tk.v + 1
WPatch(w, c) ==
    IF ~Held(w, c.a) \/ Len(c.path) = 0 THEN No(w)
    ELSE LET par == R!Walk(w, c.a, FrontOf(c.path))
             tk == c.path[Len(c.path)]
             mode == IF c.pop = "replace" THEN "replace" ELSE "add"
             fromNode == IF c.pop = "copy" THEN R!Walk(w, c.a, c.from) ELSE 0
             Refused == IF c.ret = -1 /\ c.dead = <<>> /\ c.fired = <<>> /\ c.newids = <<>> THEN Ok(w) ELSE No(w)
             \* (json_patch copies with the default shallow copy, which refuses nodes that carry foreign user data)
             Uncopyable == c.pop = "copy" /\ fromNode > 0 /\ \E x \in R!Reach(w, fromNode) : w.n[x].ud # 0
         IN IF par <= 0 \/ fromNode = -1 \/ Uncopyable THEN Refused
            ELSE LET srcv == IF c.pop = "copy" THEN ValueOf(w, fromNode) ELSE c.val       \* (read before anything is released)
                     pl == Place(w.n, par, tk, 0, mode)                                  \* the slot, empty for the moment
                 IN IF ~pl.ok THEN Refused
                    ELSE LET acc == IF "patch_keeps_replaced" \in WMUT THEN [n |-> pl.n, dead |-> {}, fired |-> {}]       \* (mutant: never released)
                                    ELSE R!Rel([n |-> pl.n, dead |-> {}, fired |-> {}], pl.rel)   \* a replaced value is released first
                         IN IF Len(c.newids) # DumpNodes(srcv) \/ ~KeysKnown(srcv) \/ (\E x \in 1..Len(c.newids) : c.newids[x] \in DOMAIN acc.n) THEN No(w)
                            ELSE LET b == Build([n |-> acc.n, leaf |-> [x \in {y \in DOMAIN w.leaf : y \in DOMAIN acc.n} |-> w.leaf[x]],
                                                 ids |-> c.newids, used |-> 0, last |-> 0], srcv)
                                     n2 == [b.n EXCEPT ![par].kids[SlotAfter(b.n, par, tk)] = b.last]
                                 IN IF c.ret = 0 /\ R!SetOf(c.dead) = acc.dead /\ R!SetOf(c.fired) = acc.fired
                                    THEN Ok(Prune([n |-> n2, leaf |-> b.leaf])) ELSE No(w)

\* what a correct library reports for the call c (ret, newids, dead, fired filled in), the new nodes taking the least ids of
\* `pool` that are free once a replaced value has been released; "skip" if the pool is too small (bounded model only)
RECURSIVE LeastSeq(_, _)
LeastSeq(S_, k) == IF k = 0 THEN <<>> ELSE LET x == CHOOSE y \in S_ : \A z \in S_ : y <= z IN <<x>> \o LeastSeq(S_ \ {x}, k - 1)
WPatchComplete(w, c, pool) ==
    LET par == R!Walk(w, c.a, FrontOf(c.path))
        tk == c.path[Len(c.path)]
        mode == IF c.pop = "replace" THEN "replace" ELSE "add"
        fromNode == IF c.pop = "copy" THEN R!Walk(w, c.a, c.from) ELSE 0
        fail == [c EXCEPT !.ret = -1, !.newids = <<>>, !.dead = <<>>, !.fired = <<>>]
    IN IF par <= 0 \/ fromNode = -1 \/ (c.pop = "copy" /\ fromNode > 0 /\ \E x \in R!Reach(w, fromNode) : w.n[x].ud # 0) THEN fail
       ELSE LET srcv == IF c.pop = "copy" THEN ValueOf(w, fromNode) ELSE c.val
                pl == Place(w.n, par, tk, 0, mode)
            IN IF ~pl.ok THEN fail
               ELSE LET acc == IF "patch_keeps_replaced" \in WMUT THEN [n |-> pl.n, dead |-> {}, fired |-> {}]
                               ELSE R!Rel([n |-> pl.n, dead |-> {}, fired |-> {}], pl.rel)
                        free == pool \ DOMAIN acc.n
                        k == DumpNodes(srcv)
                    IN IF Cardinality(free) < k THEN [c EXCEPT !.ret = -99]
                       ELSE [c EXCEPT !.ret = 0, !.newids = LeastSeq(free, k), !.dead = LeastSeq(acc.dead, Cardinality(acc.dead)),
                                      !.fired = LeastSeq(acc.fired, Cardinality(acc.fired))]

WorldOps == {"wleaf", "wset", "obs", "ser", "eq", "ptrget", "visit", "len", "asort", "parse", "wpatch"}
WorldStep(w, c) ==
    CASE c.op \in {"wleaf", "wset"} -> SetLeaf(w, c)
      [] c.op = "obs" -> Obs(w, c)
      [] c.op = "ser" -> Ser(w, c)
      [] c.op = "eq" -> Eq(w, c)
      [] c.op = "ptrget" -> PtrGet(w, c)
      [] c.op = "visit" -> Visit(w, c)
      [] c.op = "len" -> Len_(w, c)
      [] c.op = "asort" -> ASort(w, c)
      [] c.op = "parse" -> Parse(w, c)
      [] c.op = "wpatch" -> WPatch(w, c)
      [] OTHER -> Structural(w, c)

\* ---- what holds in every state of the world
LeafDomain(w) == DOMAIN w.leaf = {x \in DOMAIN w.n : w.n[x].kind = "l"}
WorldInv(w) == R!RcConsistent(w) /\ R!NoDangling(w) /\ R!AliveIffOwned(w) /\ R!Positive(w) /\ LeafDomain(w)
====
