---- MODULE MCVisit_TTrace_1791150617 ----
EXTENDS Sequences, TLCExt, MCVisit, Toolbox, Naturals, TLC

_expression ==
    LET MCVisit_TEExpression == INSTANCE MCVisit_TEExpression
    IN MCVisit_TEExpression!expression
----

_trace ==
    LET MCVisit_TETrace == INSTANCE MCVisit_TETrace
    IN MCVisit_TETrace!trace
----

_inv ==
    ~(
        TLCGet("level") = Len(_TETrace)
        /\
        a = ([mode |-> "first", res |-> 0, stack |-> <<[n |-> 1, pos |-> 1, call |-> [n |-> 1, f |-> 0, p |-> 0, k |-> -1, i |-> -1]], [n |-> 2, pos |-> 1, call |-> [n |-> 2, f |-> 0, p |-> 1, k |-> -1, i |-> 0]], [n |-> 3, pos |-> 1, call |-> [n |-> 3, f |-> 0, p |-> 2, k |-> -1, i |-> 0]], [n |-> 4, pos |-> 1, call |-> [n |-> 4, f |-> 0, p |-> 3, k |-> -1, i |-> 0]]>>, cur |-> [call |-> [n |-> 5, f |-> 0, p |-> 4, k |-> -1, i |-> 0], id |-> 5], opt |-> [n |-> 0, pos |-> 0, call |-> [n |-> 0, f |-> 0, p |-> 0, k |-> -1, i |-> -1]]])
        /\
        last = ([n |-> 4, f |-> 0, p |-> 3, k |-> -1, i |-> 0, c |-> 0])
        /\
        tree = (<<[kind |-> "a", kids |-> <<2>>, keys |-> <<>>], [kind |-> "a", kids |-> <<3>>, keys |-> <<>>], [kind |-> "a", kids |-> <<4>>, keys |-> <<>>], [kind |-> "a", kids |-> <<5>>, keys |-> <<>>], [kind |-> "a", kids |-> <<>>, keys |-> <<>>]>>)
        /\
        m = ([res |-> -98, fr |-> <<[n |-> 1, i |-> 1, call |-> [n |-> 1, f |-> 0, p |-> 0, k |-> -1, i |-> -1], pc |-> "loop"], [n |-> 2, i |-> 1, call |-> [n |-> 2, f |-> 0, p |-> 1, k |-> -1, i |-> 0], pc |-> "loop"], [n |-> 3, i |-> 1, call |-> [n |-> 3, f |-> 0, p |-> 2, k |-> -1, i |-> 0], pc |-> "loop"], [n |-> 4, i |-> 1, call |-> [n |-> 4, f |-> 0, p |-> 3, k |-> -1, i |-> 0], pc |-> "loop"], [n |-> 5, i |-> 0, call |-> [n |-> 5, f |-> 0, p |-> 4, k |-> -1, i |-> 0], pc |-> "first"]>>, ret |-> -99])
    )
----

_init ==
    /\ a = _TETrace[1].a
    /\ m = _TETrace[1].m
    /\ tree = _TETrace[1].tree
    /\ last = _TETrace[1].last
----

_next ==
    /\ \E i,j \in DOMAIN _TETrace:
        /\ \/ /\ j = i + 1
              /\ i = TLCGet("level")
        /\ a  = _TETrace[i].a
        /\ a' = _TETrace[j].a
        /\ m  = _TETrace[i].m
        /\ m' = _TETrace[j].m
        /\ tree  = _TETrace[i].tree
        /\ tree' = _TETrace[j].tree
        /\ last  = _TETrace[i].last
        /\ last' = _TETrace[j].last

\* Uncomment the ASSUME below to write the states of the error trace
\* to the given file in Json format. Note that you can pass any tuple
\* to `JsonSerialize`. For example, a sub-sequence of _TETrace.
    \* ASSUME
    \*     LET J == INSTANCE Json
    \*         IN J!JsonSerialize("MCVisit_TTrace_1791150617.json", _TETrace)

=============================================================================

 Note that you can extract this module `MCVisit_TEExpression`
  to a dedicated file to reuse `expression` (the module in the 
  dedicated `MCVisit_TEExpression.tla` file takes precedence 
  over the module `MCVisit_TEExpression` below).

---- MODULE MCVisit_TEExpression ----
EXTENDS Sequences, TLCExt, MCVisit, Toolbox, Naturals, TLC

expression == 
    [
        \* To hide variables of the `MCVisit` spec from the error trace,
        \* remove the variables below.  The trace will be written in the order
        \* of the fields of this record.
        a |-> a
        ,m |-> m
        ,tree |-> tree
        ,last |-> last
        
        \* Put additional constant-, state-, and action-level expressions here:
        \* ,_stateNumber |-> _TEPosition
        \* ,_aUnchanged |-> a = a'
        
        \* Format the `a` variable as Json value.
        \* ,_aJson |->
        \*     LET J == INSTANCE Json
        \*     IN J!ToJson(a)
        
        \* Lastly, you may build expressions over arbitrary sets of states by
        \* leveraging the _TETrace operator.  For example, this is how to
        \* count the number of times a spec variable changed up to the current
        \* state in the trace.
        \* ,_aModCount |->
        \*     LET F[s \in DOMAIN _TETrace] ==
        \*         IF s = 1 THEN 0
        \*         ELSE IF _TETrace[s].a # _TETrace[s-1].a
        \*             THEN 1 + F[s-1] ELSE F[s-1]
        \*     IN F[_TEPosition - 1]
    ]

=============================================================================



Parsing and semantic processing can take forever if the trace below is long.
 In this case, it is advised to uncomment the module below to deserialize the
 trace from a generated binary file.

\*
\*---- MODULE MCVisit_TETrace ----
\*EXTENDS IOUtils, MCVisit, TLC
\*
\*trace == IODeserialize("MCVisit_TTrace_1791150617.bin", TRUE)
\*
\*=============================================================================
\*

---- MODULE MCVisit_TETrace ----
EXTENDS MCVisit, TLC

trace == 
    <<
    ([a |-> [mode |-> "first", res |-> 0, stack |-> <<>>, cur |-> [call |-> [n |-> 1, f |-> 0, p |-> 0, k |-> -1, i |-> -1], id |-> 1], opt |-> [n |-> 0, pos |-> 0, call |-> [n |-> 0, f |-> 0, p |-> 0, k |-> -1, i |-> -1]]],last |-> [n |-> 0, f |-> 0, p |-> 0, k |-> -1, i |-> -1, c |-> 0],tree |-> <<[kind |-> "a", kids |-> <<2>>, keys |-> <<>>], [kind |-> "a", kids |-> <<3>>, keys |-> <<>>], [kind |-> "a", kids |-> <<4>>, keys |-> <<>>], [kind |-> "a", kids |-> <<5>>, keys |-> <<>>], [kind |-> "a", kids |-> <<>>, keys |-> <<>>]>>,m |-> [res |-> -98, fr |-> <<[n |-> 1, i |-> 0, call |-> [n |-> 1, f |-> 0, p |-> 0, k |-> -1, i |-> -1], pc |-> "first"]>>, ret |-> -99]]),
    ([a |-> [mode |-> "first", res |-> 0, stack |-> <<[n |-> 1, pos |-> 1, call |-> [n |-> 1, f |-> 0, p |-> 0, k |-> -1, i |-> -1]]>>, cur |-> [call |-> [n |-> 2, f |-> 0, p |-> 1, k |-> -1, i |-> 0], id |-> 2], opt |-> [n |-> 0, pos |-> 0, call |-> [n |-> 0, f |-> 0, p |-> 0, k |-> -1, i |-> -1]]],last |-> [n |-> 1, f |-> 0, p |-> 0, k |-> -1, i |-> -1, c |-> 0],tree |-> <<[kind |-> "a", kids |-> <<2>>, keys |-> <<>>], [kind |-> "a", kids |-> <<3>>, keys |-> <<>>], [kind |-> "a", kids |-> <<4>>, keys |-> <<>>], [kind |-> "a", kids |-> <<5>>, keys |-> <<>>], [kind |-> "a", kids |-> <<>>, keys |-> <<>>]>>,m |-> [res |-> -98, fr |-> <<[n |-> 1, i |-> 0, call |-> [n |-> 1, f |-> 0, p |-> 0, k |-> -1, i |-> -1], pc |-> "loop"]>>, ret |-> -99]]),
    ([a |-> [mode |-> "first", res |-> 0, stack |-> <<[n |-> 1, pos |-> 1, call |-> [n |-> 1, f |-> 0, p |-> 0, k |-> -1, i |-> -1]]>>, cur |-> [call |-> [n |-> 2, f |-> 0, p |-> 1, k |-> -1, i |-> 0], id |-> 2], opt |-> [n |-> 0, pos |-> 0, call |-> [n |-> 0, f |-> 0, p |-> 0, k |-> -1, i |-> -1]]],last |-> [n |-> 1, f |-> 0, p |-> 0, k |-> -1, i |-> -1, c |-> 0],tree |-> <<[kind |-> "a", kids |-> <<2>>, keys |-> <<>>], [kind |-> "a", kids |-> <<3>>, keys |-> <<>>], [kind |-> "a", kids |-> <<4>>, keys |-> <<>>], [kind |-> "a", kids |-> <<5>>, keys |-> <<>>], [kind |-> "a", kids |-> <<>>, keys |-> <<>>]>>,m |-> [res |-> -98, fr |-> <<[n |-> 1, i |-> 1, call |-> [n |-> 1, f |-> 0, p |-> 0, k |-> -1, i |-> -1], pc |-> "loop"], [n |-> 2, i |-> 0, call |-> [n |-> 2, f |-> 0, p |-> 1, k |-> -1, i |-> 0], pc |-> "first"]>>, ret |-> -99]]),
    ([a |-> [mode |-> "first", res |-> 0, stack |-> <<[n |-> 1, pos |-> 1, call |-> [n |-> 1, f |-> 0, p |-> 0, k |-> -1, i |-> -1]], [n |-> 2, pos |-> 1, call |-> [n |-> 2, f |-> 0, p |-> 1, k |-> -1, i |-> 0]]>>, cur |-> [call |-> [n |-> 3, f |-> 0, p |-> 2, k |-> -1, i |-> 0], id |-> 3], opt |-> [n |-> 0, pos |-> 0, call |-> [n |-> 0, f |-> 0, p |-> 0, k |-> -1, i |-> -1]]],last |-> [n |-> 2, f |-> 0, p |-> 1, k |-> -1, i |-> 0, c |-> 0],tree |-> <<[kind |-> "a", kids |-> <<2>>, keys |-> <<>>], [kind |-> "a", kids |-> <<3>>, keys |-> <<>>], [kind |-> "a", kids |-> <<4>>, keys |-> <<>>], [kind |-> "a", kids |-> <<5>>, keys |-> <<>>], [kind |-> "a", kids |-> <<>>, keys |-> <<>>]>>,m |-> [res |-> -98, fr |-> <<[n |-> 1, i |-> 1, call |-> [n |-> 1, f |-> 0, p |-> 0, k |-> -1, i |-> -1], pc |-> "loop"], [n |-> 2, i |-> 0, call |-> [n |-> 2, f |-> 0, p |-> 1, k |-> -1, i |-> 0], pc |-> "loop"]>>, ret |-> -99]]),
    ([a |-> [mode |-> "first", res |-> 0, stack |-> <<[n |-> 1, pos |-> 1, call |-> [n |-> 1, f |-> 0, p |-> 0, k |-> -1, i |-> -1]], [n |-> 2, pos |-> 1, call |-> [n |-> 2, f |-> 0, p |-> 1, k |-> -1, i |-> 0]]>>, cur |-> [call |-> [n |-> 3, f |-> 0, p |-> 2, k |-> -1, i |-> 0], id |-> 3], opt |-> [n |-> 0, pos |-> 0, call |-> [n |-> 0, f |-> 0, p |-> 0, k |-> -1, i |-> -1]]],last |-> [n |-> 2, f |-> 0, p |-> 1, k |-> -1, i |-> 0, c |-> 0],tree |-> <<[kind |-> "a", kids |-> <<2>>, keys |-> <<>>], [kind |-> "a", kids |-> <<3>>, keys |-> <<>>], [kind |-> "a", kids |-> <<4>>, keys |-> <<>>], [kind |-> "a", kids |-> <<5>>, keys |-> <<>>], [kind |-> "a", kids |-> <<>>, keys |-> <<>>]>>,m |-> [res |-> -98, fr |-> <<[n |-> 1, i |-> 1, call |-> [n |-> 1, f |-> 0, p |-> 0, k |-> -1, i |-> -1], pc |-> "loop"], [n |-> 2, i |-> 1, call |-> [n |-> 2, f |-> 0, p |-> 1, k |-> -1, i |-> 0], pc |-> "loop"], [n |-> 3, i |-> 0, call |-> [n |-> 3, f |-> 0, p |-> 2, k |-> -1, i |-> 0], pc |-> "first"]>>, ret |-> -99]]),
    ([a |-> [mode |-> "first", res |-> 0, stack |-> <<[n |-> 1, pos |-> 1, call |-> [n |-> 1, f |-> 0, p |-> 0, k |-> -1, i |-> -1]], [n |-> 2, pos |-> 1, call |-> [n |-> 2, f |-> 0, p |-> 1, k |-> -1, i |-> 0]], [n |-> 3, pos |-> 1, call |-> [n |-> 3, f |-> 0, p |-> 2, k |-> -1, i |-> 0]]>>, cur |-> [call |-> [n |-> 4, f |-> 0, p |-> 3, k |-> -1, i |-> 0], id |-> 4], opt |-> [n |-> 0, pos |-> 0, call |-> [n |-> 0, f |-> 0, p |-> 0, k |-> -1, i |-> -1]]],last |-> [n |-> 3, f |-> 0, p |-> 2, k |-> -1, i |-> 0, c |-> 0],tree |-> <<[kind |-> "a", kids |-> <<2>>, keys |-> <<>>], [kind |-> "a", kids |-> <<3>>, keys |-> <<>>], [kind |-> "a", kids |-> <<4>>, keys |-> <<>>], [kind |-> "a", kids |-> <<5>>, keys |-> <<>>], [kind |-> "a", kids |-> <<>>, keys |-> <<>>]>>,m |-> [res |-> -98, fr |-> <<[n |-> 1, i |-> 1, call |-> [n |-> 1, f |-> 0, p |-> 0, k |-> -1, i |-> -1], pc |-> "loop"], [n |-> 2, i |-> 1, call |-> [n |-> 2, f |-> 0, p |-> 1, k |-> -1, i |-> 0], pc |-> "loop"], [n |-> 3, i |-> 0, call |-> [n |-> 3, f |-> 0, p |-> 2, k |-> -1, i |-> 0], pc |-> "loop"]>>, ret |-> -99]]),
    ([a |-> [mode |-> "first", res |-> 0, stack |-> <<[n |-> 1, pos |-> 1, call |-> [n |-> 1, f |-> 0, p |-> 0, k |-> -1, i |-> -1]], [n |-> 2, pos |-> 1, call |-> [n |-> 2, f |-> 0, p |-> 1, k |-> -1, i |-> 0]], [n |-> 3, pos |-> 1, call |-> [n |-> 3, f |-> 0, p |-> 2, k |-> -1, i |-> 0]]>>, cur |-> [call |-> [n |-> 4, f |-> 0, p |-> 3, k |-> -1, i |-> 0], id |-> 4], opt |-> [n |-> 0, pos |-> 0, call |-> [n |-> 0, f |-> 0, p |-> 0, k |-> -1, i |-> -1]]],last |-> [n |-> 3, f |-> 0, p |-> 2, k |-> -1, i |-> 0, c |-> 0],tree |-> <<[kind |-> "a", kids |-> <<2>>, keys |-> <<>>], [kind |-> "a", kids |-> <<3>>, keys |-> <<>>], [kind |-> "a", kids |-> <<4>>, keys |-> <<>>], [kind |-> "a", kids |-> <<5>>, keys |-> <<>>], [kind |-> "a", kids |-> <<>>, keys |-> <<>>]>>,m |-> [res |-> -98, fr |-> <<[n |-> 1, i |-> 1, call |-> [n |-> 1, f |-> 0, p |-> 0, k |-> -1, i |-> -1], pc |-> "loop"], [n |-> 2, i |-> 1, call |-> [n |-> 2, f |-> 0, p |-> 1, k |-> -1, i |-> 0], pc |-> "loop"], [n |-> 3, i |-> 1, call |-> [n |-> 3, f |-> 0, p |-> 2, k |-> -1, i |-> 0], pc |-> "loop"], [n |-> 4, i |-> 0, call |-> [n |-> 4, f |-> 0, p |-> 3, k |-> -1, i |-> 0], pc |-> "first"]>>, ret |-> -99]]),
    ([a |-> [mode |-> "first", res |-> 0, stack |-> <<[n |-> 1, pos |-> 1, call |-> [n |-> 1, f |-> 0, p |-> 0, k |-> -1, i |-> -1]], [n |-> 2, pos |-> 1, call |-> [n |-> 2, f |-> 0, p |-> 1, k |-> -1, i |-> 0]], [n |-> 3, pos |-> 1, call |-> [n |-> 3, f |-> 0, p |-> 2, k |-> -1, i |-> 0]], [n |-> 4, pos |-> 1, call |-> [n |-> 4, f |-> 0, p |-> 3, k |-> -1, i |-> 0]]>>, cur |-> [call |-> [n |-> 5, f |-> 0, p |-> 4, k |-> -1, i |-> 0], id |-> 5], opt |-> [n |-> 0, pos |-> 0, call |-> [n |-> 0, f |-> 0, p |-> 0, k |-> -1, i |-> -1]]],last |-> [n |-> 4, f |-> 0, p |-> 3, k |-> -1, i |-> 0, c |-> 0],tree |-> <<[kind |-> "a", kids |-> <<2>>, keys |-> <<>>], [kind |-> "a", kids |-> <<3>>, keys |-> <<>>], [kind |-> "a", kids |-> <<4>>, keys |-> <<>>], [kind |-> "a", kids |-> <<5>>, keys |-> <<>>], [kind |-> "a", kids |-> <<>>, keys |-> <<>>]>>,m |-> [res |-> -98, fr |-> <<[n |-> 1, i |-> 1, call |-> [n |-> 1, f |-> 0, p |-> 0, k |-> -1, i |-> -1], pc |-> "loop"], [n |-> 2, i |-> 1, call |-> [n |-> 2, f |-> 0, p |-> 1, k |-> -1, i |-> 0], pc |-> "loop"], [n |-> 3, i |-> 1, call |-> [n |-> 3, f |-> 0, p |-> 2, k |-> -1, i |-> 0], pc |-> "loop"], [n |-> 4, i |-> 0, call |-> [n |-> 4, f |-> 0, p |-> 3, k |-> -1, i |-> 0], pc |-> "loop"]>>, ret |-> -99]]),
    ([a |-> [mode |-> "first", res |-> 0, stack |-> <<[n |-> 1, pos |-> 1, call |-> [n |-> 1, f |-> 0, p |-> 0, k |-> -1, i |-> -1]], [n |-> 2, pos |-> 1, call |-> [n |-> 2, f |-> 0, p |-> 1, k |-> -1, i |-> 0]], [n |-> 3, pos |-> 1, call |-> [n |-> 3, f |-> 0, p |-> 2, k |-> -1, i |-> 0]], [n |-> 4, pos |-> 1, call |-> [n |-> 4, f |-> 0, p |-> 3, k |-> -1, i |-> 0]]>>, cur |-> [call |-> [n |-> 5, f |-> 0, p |-> 4, k |-> -1, i |-> 0], id |-> 5], opt |-> [n |-> 0, pos |-> 0, call |-> [n |-> 0, f |-> 0, p |-> 0, k |-> -1, i |-> -1]]],last |-> [n |-> 4, f |-> 0, p |-> 3, k |-> -1, i |-> 0, c |-> 0],tree |-> <<[kind |-> "a", kids |-> <<2>>, keys |-> <<>>], [kind |-> "a", kids |-> <<3>>, keys |-> <<>>], [kind |-> "a", kids |-> <<4>>, keys |-> <<>>], [kind |-> "a", kids |-> <<5>>, keys |-> <<>>], [kind |-> "a", kids |-> <<>>, keys |-> <<>>]>>,m |-> [res |-> -98, fr |-> <<[n |-> 1, i |-> 1, call |-> [n |-> 1, f |-> 0, p |-> 0, k |-> -1, i |-> -1], pc |-> "loop"], [n |-> 2, i |-> 1, call |-> [n |-> 2, f |-> 0, p |-> 1, k |-> -1, i |-> 0], pc |-> "loop"], [n |-> 3, i |-> 1, call |-> [n |-> 3, f |-> 0, p |-> 2, k |-> -1, i |-> 0], pc |-> "loop"], [n |-> 4, i |-> 1, call |-> [n |-> 4, f |-> 0, p |-> 3, k |-> -1, i |-> 0], pc |-> "loop"], [n |-> 5, i |-> 0, call |-> [n |-> 5, f |-> 0, p |-> 4, k |-> -1, i |-> 0], pc |-> "first"]>>, ret |-> -99]])
    >>
----


=============================================================================

---- CONFIG MCVisit_TTrace_1791150617 ----
CONSTANTS
    MUT = { }
    Codes <- AllCodes

INVARIANT
    _inv

CHECK_DEADLOCK
    \* CHECK_DEADLOCK off because of PROPERTY or INVARIANT above.
    FALSE

INIT
    _init

NEXT
    _next

CONSTANT
    _TETrace <- _trace

ALIAS
    _expression
=============================================================================
\* Generated on Sun Oct 04 21:50:22 UTC 2026