---- MODULE MCThreads ----
EXTENDS Threads
G(n) == [op |-> "get", n |-> n]
P(n) == [op |-> "put", n |-> n]
Prog2 == <<<<G(1), P(1)>>, <<G(1), P(1)>>>>
Prog3 == <<<<G(1), P(1)>>, <<G(1), G(2), P(1), P(2)>>, <<G(2), P(2)>>>>
\* the last references, one per thread, released concurrently (nobody else holds one)
Last2 == <<<<P(1)>>, <<P(1)>>>>
Last3 == <<<<P(1), P(2)>>, <<P(2), P(1)>>, <<P(1), P(2)>>>>
====
