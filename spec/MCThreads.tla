---- MODULE MCThreads ----
EXTENDS Threads
G(n) == [op |-> "get", n |-> n]
P(n) == [op |-> "put", n |-> n]
V(n) == [op |-> "putvia", n |-> n]
\* one thread releases through a container of its own while the others use get / put
ProgVia == <<<<G(1), V(1)>>, <<G(1), G(2), P(1), V(2)>>, <<G(2), P(2)>>>>
Prog2 == <<<<G(1), P(1)>>, <<G(1), P(1)>>>>
Prog3 == <<<<G(1), P(1)>>, <<G(1), G(2), P(1), P(2)>>, <<G(2), P(2)>>>>
\* the last references, one per thread, released concurrently (nobody else holds one)
Last2 == <<<<P(1)>>, <<P(1)>>>>
Last3 == <<<<P(1), P(2)>>, <<P(2), P(1)>>, <<P(1), P(2)>>>>
====
