---- MODULE JsonValue ----
(* The value universe shared by the specifications (the harness's typed dump has the same shape):
     [t |-> "null"] | [t |-> "bool", b] | [t |-> "int", neg, d (canonical decimal digits)] |
     [t |-> "double", bits (4 limbs of the IEEE pattern), text (optional, retained token)] |
     [t |-> "string", s (bytes)] | [t |-> "array", e (Seq)] | [t |-> "object", m (Seq of [k, v])]
   Equal(a, b): C09's structural equivalence = equality of denoted values: integers by numeric
   value (the dump is store-independent), doubles by IEEE value (NaN equals nothing, +0 = -0),
   strings by length and bytes, arrays element-wise, objects by key set and per-key values
   regardless of member order, different kinds never.
   EqualMech(a, b): transcription of json_object_equal / json_object_all_values_equal /
   json_array_equal (two-directional member walk, identical-node short cut not modelled: values
   have no identity here). *)
EXTENDS Naturals, Integers, Sequences, FiniteSets
CONSTANT MUTV
MemberPos(m, k) == IF \E i \in 1..Len(m) : m[i].k = k THEN CHOOSE i \in 1..Len(m) : m[i].k = k ELSE 0
DblIsNaN(bits) == (bits[4] % 32768) \div 16 = 2047 /\ (bits[1] # 0 \/ bits[2] # 0 \/ bits[3] # 0 \/ bits[4] % 16 # 0)
DblIsZero(bits) == bits[1] = 0 /\ bits[2] = 0 /\ bits[3] = 0 /\ bits[4] % 32768 = 0
DblEq(a, b) == ~DblIsNaN(a) /\ ~DblIsNaN(b) /\ (a = b \/ (DblIsZero(a) /\ DblIsZero(b)))
RECURSIVE Equal(_, _)
Equal(a, b) ==
    IF a.t # b.t THEN FALSE
    ELSE CASE a.t = "null" -> TRUE
           [] a.t = "bool" -> a.b = b.b
           [] a.t = "int" -> a.neg = b.neg /\ a.d = b.d
           [] a.t = "double" -> DblEq(a.bits, b.bits)
           [] a.t = "string" -> a.s = b.s
           [] a.t = "array" -> Len(a.e) = Len(b.e) /\ \A i \in 1..Len(a.e) : Equal(a.e[i], b.e[i])
           [] a.t = "object" -> /\ {a.m[i].k : i \in 1..Len(a.m)} = {b.m[i].k : i \in 1..Len(b.m)}
                                /\ \A i \in 1..Len(a.m) : Equal(a.m[i].v, b.m[MemberPos(b.m, a.m[i].k)].v)
           [] OTHER -> FALSE
RECURSIVE EqualMech(_, _)
EqualMech(a, b) ==
    IF a.t # b.t THEN FALSE
    ELSE CASE a.t = "null" -> TRUE
           [] a.t = "bool" -> a.b = b.b
           [] a.t = "int" -> a.neg = b.neg /\ a.d = b.d
           [] a.t = "double" -> DblEq(a.bits, b.bits)
           [] a.t = "string" -> Len(a.s) = Len(b.s) /\ (IF "eq_strcmp" \in MUTV
                                                        THEN \A i \in 1..Len(a.s) : (\A j \in 1..i : a.s[j] # 0) => a.s[i] = b.s[i]
                                                        ELSE a.s = b.s)
           [] a.t = "array" -> Len(a.e) = Len(b.e) /\ \A i \in 1..Len(a.e) : EqualMech(a.e[i], b.e[i])
           [] a.t = "object" ->
                 /\ \A i \in 1..Len(a.m) : MemberPos(b.m, a.m[i].k) # 0 /\ EqualMech(a.m[i].v, b.m[MemberPos(b.m, a.m[i].k)].v)
                 /\ ("eq_one_direction" \in MUTV \/ \A i \in 1..Len(b.m) : MemberPos(a.m, b.m[i].k) # 0)
           [] OTHER -> FALSE
RECURSIVE HasNaN(_)
HasNaN(v) == IF v.t = "double" THEN DblIsNaN(v.bits)
             ELSE IF v.t = "array" THEN \E i \in 1..Len(v.e) : HasNaN(v.e[i])
             ELSE IF v.t = "object" THEN \E i \in 1..Len(v.m) : HasNaN(v.m[i].v)
             ELSE FALSE
====
