---- MODULE Serializer ----
(* C02.  Mech: the emitters of json_object.c transcribed - "{" / "[" and separators, the
   SPACED / PRETTY / PRETTY_TAB interplay and indent(), COLOR escapes around names, strings, booleans
   and nulls, json_escape_str, integers by digits, doubles as PostProcess(Fmt, flags) where Fmt is
   the text printf("%.17g") produced (supplied as data: libc is not modelled) or the retained token
   text of a parsed number, which is emitted unchanged.
   Abs: what C02 demands of any serializer - the colour-stripped text is RFC 8259-valid
   (Grammar!Denote) and denotes the tree: SameValue compares structure, member order, string
   bytes, integer digits, and numbers by their exact decimal value (DecNorm).
   Values: JsonValue model; double nodes are [t |-> "double", fmt |-> bytes, ret |-> bytes (<<>> = none)].
   Flags as a record of BOOLEANs [spaced, pretty, nozero, tab, noslash, color].
   AsFoundS switch "nozero_exp": NOZERO trimming walks through the exponent (D02a). *)
EXTENDS Naturals, Integers, Sequences, Text, Wide
CONSTANT AsFoundS
G == INSTANCE Grammar
Flag(n) == [spaced |-> (n \div 1) % 2 = 1, pretty |-> (n \div 2) % 2 = 1, nozero |-> (n \div 4) % 2 = 1,
            tab |-> (n \div 8) % 2 = 1, noslash |-> (n \div 16) % 2 = 1, color |-> (n \div 32) % 2 = 1]
Bytes(str) == str
ESC == 27
RESET == <<27, 91, 48, 109>>                      \* \033[0m
GREEN == <<27, 91, 48, 59, 51, 50, 109>>          \* \033[0;32m
BLUE == <<27, 91, 48, 59, 51, 52, 109>>
MAGENTA == <<27, 91, 48, 59, 51, 53, 109>>
Rep(c, n) == [i \in 1..n |-> c]
Indent(level, f) == IF f.pretty THEN (IF f.tab THEN Rep(9, level) ELSE Rep(32, level * 2)) ELSE <<>>
HEXCH == <<48, 49, 50, 51, 52, 53, 54, 55, 56, 57, 97, 98, 99, 100, 101, 102>>
EscByte(c, f) ==
    CASE c = 8 -> <<92, 98>> [] c = 10 -> <<92, 110>> [] c = 13 -> <<92, 114>> [] c = 9 -> <<92, 116>> [] c = 12 -> <<92, 102>>
      [] c = 34 -> <<92, 34>> [] c = 92 -> <<92, 92>>
      [] c = 47 -> IF f.noslash THEN <<47>> ELSE <<92, 47>>
      [] c < 32 -> <<92, 117, 48, 48, HEXCH[(c \div 16) + 1], HEXCH[(c % 16) + 1]>>
      [] OTHER -> <<c>>
RECURSIVE EscFrom(_, _, _)
EscFrom(s, i, f) == IF i > Len(s) THEN <<>> ELSE EscByte(s[i], f) \o EscFrom(s, i + 1, f)
Escape(s, f) == EscFrom(s, 1, f)
Digits(d) == [i \in 1..Len(d) |-> d[i] + 48]
IntText(v) == (IF v.neg THEN <<45>> ELSE <<>>) \o Digits(v.d)
\* ---- doubles: post-processing of the printf text
Pos(s, c) == LET S == {i \in 1..Len(s) : s[i] = c} IN IF S = {} THEN 0 ELSE CHOOSE i \in S : \A j \in S : i <= j
LooksNumeric(s) == Len(s) > 0 /\ (s[1] \in DIGIT \/ (Len(s) > 1 /\ s[1] = 45 /\ s[2] \in DIGIT))
PostProcess(fmt, f) ==
    LET comma == Pos(fmt, 44)
        b1 == IF comma # 0 THEN [fmt EXCEPT ![comma] = 46] ELSE fmt            \* first ',' -> '.'
        p == Pos(b1, 46)
        b2 == IF LooksNumeric(b1) /\ p = 0 /\ Pos(b1, 101) = 0 THEN b1 \o <<46, 48>> ELSE b1
    IN IF p # 0 /\ f.nozero
       THEN \* keep up to the last non-'0' of the fraction (at least one digit after the point)
            LET stop == IF "nozero_exp" \in AsFoundS THEN Len(b2) + 1
                        ELSE (LET S == {i \in (p + 1)..Len(b2) : b2[i] \in {101, 69}} IN IF S = {} THEN Len(b2) + 1 ELSE CHOOSE i \in S : \A j \in S : i <= j)
                 NZ == {i \in (p + 1)..(stop - 1) : b2[i] # 48}
                 last == IF NZ = {} THEN p + 1 ELSE CHOOSE i \in NZ : \A j \in NZ : j <= i
            IN SubSeq(b2, 1, last) \o SubSeq(b2, stop, Len(b2))
       ELSE b2
DoubleText(v, f) == IF Len(v.ret) > 0 THEN v.ret ELSE PostProcess(v.fmt, f)
\* ---- the recursive emitters
RECURSIVE Ser(_, _, _)
SerMembers(m, level, f) ==
    LET RECURSIVE F(_)
        F(i) == IF i > Len(m) THEN <<>>
                ELSE (IF i > 1 THEN <<44>> ELSE <<>>) \o (IF f.pretty THEN <<10>> ELSE <<>>)
                     \o (IF f.spaced /\ ~f.pretty THEN <<32>> ELSE <<>>) \o Indent(level + 1, f)
                     \o (IF f.color THEN BLUE ELSE <<>>) \o <<34>> \o Escape(TakeUntilNul(m[i].k), f) \o <<34>> \o (IF f.color THEN RESET ELSE <<>>)
                     \o (IF f.spaced THEN <<58, 32>> ELSE <<58>>) \o Ser(m[i].v, level + 1, f) \o F(i + 1)
    IN F(1)
SerElems(e, level, f) ==
    LET RECURSIVE F(_)
        F(i) == IF i > Len(e) THEN <<>>
                ELSE (IF i > 1 THEN <<44>> ELSE <<>>) \o (IF f.pretty THEN <<10>> ELSE <<>>)
                     \o (IF f.spaced /\ ~f.pretty THEN <<32>> ELSE <<>>) \o Indent(level + 1, f) \o Ser(e[i], level + 1, f) \o F(i + 1)
    IN F(1)
Colored(c, txt, f) == IF f.color THEN c \o txt \o RESET ELSE txt
Ser(v, level, f) ==
    CASE v.t = "null" -> Colored(MAGENTA, <<110, 117, 108, 108>>, f)
      [] v.t = "bool" -> Colored(MAGENTA, IF v.b THEN <<116, 114, 117, 101>> ELSE <<102, 97, 108, 115, 101>>, f)
      [] v.t = "int" -> IntText(v)
      [] v.t = "double" -> DoubleText(v, f)
      [] v.t = "string" -> Colored(GREEN, <<34>> \o Escape(v.s, f) \o <<34>>, f)
      [] v.t = "array" -> <<91>> \o SerElems(v.e, level, f)
                          \o (IF f.pretty /\ Len(v.e) > 0 THEN <<10>> \o Indent(level, f) ELSE <<>>)
                          \o (IF f.spaced /\ ~f.pretty THEN <<32, 93>> ELSE <<93>>)
      [] v.t = "object" -> <<123>> \o SerMembers(v.m, level, f)
                           \o (IF f.pretty /\ Len(v.m) > 0 THEN <<10>> \o Indent(level, f) ELSE <<>>)
                           \o (IF f.spaced /\ ~f.pretty THEN <<32, 125>> ELSE <<125>>)
      [] OTHER -> <<>>
\* (json_object_to_json_string_length(NULL) returns the literal "null", uncoloured)
Serialize(v, n) == IF v.t = "null" THEN <<110, 117, 108, 108>> ELSE Ser(v, 0, Flag(n))

\* ---- Abs side
\* remove ANSI colour escapes  ESC [ ... m
RECURSIVE StripFrom(_, _, _)
StripFrom(s, i, inesc) == IF i > Len(s) THEN <<>>
                          ELSE IF inesc THEN StripFrom(s, i + 1, s[i] # 109)
                          ELSE IF s[i] = ESC THEN StripFrom(s, i + 1, TRUE)
                          ELSE <<s[i]>> \o StripFrom(s, i + 1, FALSE)
StripColour(s) == StripFrom(s, 1, FALSE)
\* exact value of a decimal number text: [neg, digs (no leading / trailing zeros; <<>> for zero), e10]
\*   value = 0.digs * 10^e10  ... represented as digs and the position of the decimal point
DecNorm(t) ==
    LET neg == Len(t) > 0 /\ t[1] = 45
        s == IF neg THEN Tail(t) ELSE t
        epos == LET S == {i \in 1..Len(s) : s[i] \in {101, 69}} IN IF S = {} THEN 0 ELSE CHOOSE i \in S : TRUE
        mant == IF epos = 0 THEN s ELSE SubSeq(s, 1, epos - 1)
        expt == IF epos = 0 THEN <<>> ELSE SubSeq(s, epos + 1, Len(s))
        eneg == Len(expt) > 0 /\ expt[1] = 45
        ed == IF Len(expt) > 0 /\ expt[1] \in {43, 45} THEN Tail(expt) ELSE expt
        RECURSIVE Val(_, _, _)
        Val(d, i, acc) == IF i > Len(d) THEN acc ELSE Val(d, i + 1, IF acc > 100000 THEN acc ELSE acc * 10 + (d[i] - 48))
        ev == (IF eneg THEN -1 ELSE 1) * Val(ed, 1, 0)
        dot == Pos(mant, 46)
        ip == IF dot = 0 THEN mant ELSE SubSeq(mant, 1, dot - 1)
        fp == IF dot = 0 THEN <<>> ELSE SubSeq(mant, dot + 1, Len(mant))
        all == [i \in 1..(Len(ip) + Len(fp)) |-> (IF i <= Len(ip) THEN ip[i] ELSE fp[i - Len(ip)]) - 48]
        lead == LET NZ == {i \in 1..Len(all) : all[i] # 0} IN IF NZ = {} THEN 0 ELSE CHOOSE i \in NZ : \A j \in NZ : i <= j
        trail == LET NZ == {i \in 1..Len(all) : all[i] # 0} IN IF NZ = {} THEN 0 ELSE CHOOSE i \in NZ : \A j \in NZ : j <= i
    \* (the sign of a zero is part of a double's value: "-0.0" and "0.0" denote different bit patterns)
    IN IF lead = 0 THEN [zero |-> TRUE, neg |-> neg, digs |-> <<>>, e10 |-> 0]
       ELSE [zero |-> FALSE, neg |-> neg, digs |-> SubSeq(all, lead, trail), e10 |-> ev + Len(ip) - (lead - 1)]
RECURSIVE SameValue(_, _, _)
\* tree value v (JsonValue, doubles with fmt/ret) vs denoted value d (Grammar: ints and number tokens)
SameValue(v, d, f) ==
    CASE v.t = "double" -> (d.t = "double" /\ DecNorm(d.text) = DecNorm(IF Len(v.ret) > 0 THEN v.ret ELSE v.fmt))
      [] v.t = "int" -> d.t = "int" /\ d.neg = v.neg /\ d.d = v.d
      [] v.t = "array" -> d.t = "array" /\ Len(d.e) = Len(v.e) /\ \A i \in 1..Len(v.e) : SameValue(v.e[i], d.e[i], f)
      [] v.t = "object" -> d.t = "object" /\ Len(d.m) = Len(v.m) /\ \A i \in 1..Len(v.m) : d.m[i].k = v.m[i].k /\ SameValue(v.m[i].v, d.m[i].v, f)
      [] OTHER -> d = v
\* the text is valid JSON denoting v
DenotesTree(text, v, f) == LET d == G!Denote(StripColour(text)) IN d.ok /\ SameValue(v, d.v, f)
====
