---- MODULE TraceWorld ----
(* Trace specification of the composed object model (World.tla): a client that parses, builds, mutates, copies,
   patches, serializes, compares, walks and releases - every recorded call must be a World step: return value,
   exact destroyed set and fired destructors (RefHeap), and every observation (typed dump with node identities,
   serialization under a flag set, equality, pointer lookup, visitor order, lengths) must be the function of the
   abstract state that World.tla defines.  At the end nothing may remain alive or allocated. *)
EXTENDS Naturals, Integers, Sequences, TLC, Json, IOUtils
VARIABLES st, l
W == INSTANCE World WITH WMUT <- {}
StepOfImpl(w, r) ==
    IF r.op = "end" THEN [ok |-> r.leak = 0 /\ DOMAIN w.n = {}, st |-> w]
    ELSE LET x == W!WorldStep(w, r) IN
         IF x.ok THEN [ok |-> W!WorldInv(x.w) /\ (("mech" \in DOMAIN x) => PrintT(<<"MECH", l>>)), st |-> x.w]
         ELSE [ok |-> FALSE, st |-> w]
TraceLog == ndJsonDeserialize(IOEnv.TRACE)
T == INSTANCE TraceBase WITH Log <- TraceLog, InitSt <- [n |-> <<>>, leaf |-> <<>>], StepOf <- StepOfImpl, ResyncAtNew <- TRUE
Spec == T!Spec
Done == T!Done
====
