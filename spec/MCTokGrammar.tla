---- MODULE MCTokGrammar ----
(* C01 / C15 / C16 (TLC): the tokener transcription against the RFC 8259 grammar fold, for every
   text over a sub-alphabet up to MaxLen, parsed as text + NUL terminator in one call.
     C01  Accepts:      a valid text (integers in range, nesting within the limit) is accepted
                        in default and strict mode with exactly the denoted value; beyond-64-bit
                        integers saturate (default) / are refused (strict)
     C15  DepthExact:   with limit D a valid text is accepted iff no value is enclosed by more than
                        D-1 containers, else "depth" is reported at the first value beyond the limit
     C16  StrictSubset: what strict mode accepts is RFC 8259 (apart from the NaN / Infinity
                        literals, which are not among the documented extensions) *)
EXTENDS Tokener, Grammar
CONSTANTS Alphabet, MaxLen, Depths, FlagSets
VARIABLES tok, txt
vars == <<tok, txt>>
FlagsOf(i) == CASE i = 0 -> Flags(FALSE, FALSE, FALSE) [] i = 1 -> Flags(TRUE, FALSE, FALSE)
                [] i = 2 -> Flags(TRUE, TRUE, FALSE) [] i = 3 -> Flags(FALSE, FALSE, TRUE) [] OTHER -> Flags(TRUE, FALSE, TRUE)
Init == \E f \in FlagSets, D \in Depths : tok = NewCall(Fresh(D, FlagsOf(f))) /\ txt = <<>>
Step(c) == /\ ~tok.done /\ Len(txt) < MaxLen /\ tok' = Feed(tok, c) /\ txt' = Append(txt, c)
Terminate == /\ ~tok.done /\ tok' = Feed(tok, 0) /\ txt' = Append(txt, 0)
Next == (\E c \in Alphabet : Step(c)) \/ Terminate
Spec == Init /\ [][Next]_vars
\* the text proper: without the terminator when the call ended on it
Body == IF Len(txt) > 0 /\ txt[Len(txt)] = 0 THEN SubSeq(txt, 1, Len(txt) - 1) ELSE txt
Terminated == tok.done /\ Len(txt) > 0 /\ txt[Len(txt)] = 0
D == tok.maxd
Accepts == Terminated =>
    LET d == Denote(Body) IN
    (d.ok /\ MaxDepthOf(d) <= D - 1) =>
        IF d.big /\ tok.fl.strict THEN tok.err # "success"
        ELSE tok.err = "success" /\ tok.ret = d.v /\ tok.off = Len(Body)
DepthExact == Terminated =>
    LET d == Denote(Body) IN
    (d.ok /\ MaxDepthOf(d) > D - 1) => (tok.err = "depth" /\ tok.off = FirstTooDeep(d, D))
DepthOnlyWhenDeep == (tok.done /\ tok.err = "depth") =>
    LET d == Denote(Body) IN d.prefix => FirstTooDeep(d, D) = tok.off
NanInf(v) == v.t = "double" /\ v.text \in {NANS, INFS, <<45>> \o INFS}
\* strict mode never accepts a text that uses one of the LISTED extensions (wherever it occurs)
StrictSubset == (Terminated /\ tok.fl.strict /\ ~tok.fl.trailing /\ tok.err = "success") =>
                    LET p == Permissive(Body) IN p.ok => p.ext = {}
\* default mode accepts every text that is valid up to the listed extensions
DefaultAccepts == (Terminated /\ ~tok.fl.strict) =>
                    LET p == Permissive(Body) IN (p.ok /\ p.maxd <= D - 1) => tok.err = "success"
EscOnly == (~tok.done /\ Top(tok).st = "string") => (tok'.done \/ Top(tok').st # "string")
====
