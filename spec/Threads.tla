---- MODULE Threads ----
(* C18: threads sharing reference-counted nodes and racing on the first use of the seeded key hash.
   Every thread runs Prog (a sequence of "get"/"put" on shared nodes, balanced per thread) and then
   hashes a key twice (early: on first use, late: afterwards).
   Counter: with AtomicRMW each get/put is ONE step (the __sync_add_and_fetch / __sync_sub_and_fetch of
   a threaded build); without it (non-threaded build: ++ / --) it is load; store, and TLC finds
   the lost update.  A put that brings the count to 0 destroys the node; touching a destroyed node is
   an error.  After all threads are done the main thread releases its own reference.
   Seed: random_seed = -1 initially; a thread that reads -1 computes its OWN candidate and publishes
   it with compare-and-swap(-1 -> candidate) (or, switch "plain_store", a plain store); every hash
   evaluation RE-READS the published seed. *)
EXTENDS Naturals, Integers, Sequences, FiniteSets, TLC
CONSTANTS NThreads, Nodes, Prog, AtomicRMW, MUTT,
          InitRc,        \* references on every node at the start
          MainHolds      \* one of them is the main thread's, released after all threads are done (else: the threads hold them all)
VARIABLES rc, dead, ndestroy, pc, tmp, bad, seed, phase, cand, used, mainput
vars == <<rc, dead, ndestroy, pc, tmp, bad, seed, phase, cand, used, mainput>>
Thr == 1..NThreads
Init == /\ rc = [n \in Nodes |-> InitRc] /\ dead = {} /\ ndestroy = [n \in Nodes |-> 0]
        /\ pc = [t \in Thr |-> 1] /\ tmp = [t \in Thr |-> -1] /\ bad = FALSE
        /\ seed = -1 /\ phase = [t \in Thr |-> "prog"] /\ cand = [t \in Thr |-> -1] /\ used = [t \in Thr |-> <<>>]
        /\ mainput = ~MainHolds
Touch(n) == n \in dead
Apply(n, delta) == /\ rc' = [rc EXCEPT ![n] = @ + delta]
                   /\ IF rc[n] + delta = 0 THEN dead' = dead \cup {n} /\ ndestroy' = [ndestroy EXCEPT ![n] = @ + 1]
                      ELSE UNCHANGED <<dead, ndestroy>>
\* one thread step of the get/put program
Step(t) ==
    /\ phase[t] = "prog" /\ pc[t] <= Len(Prog[t])
    /\ LET op == Prog[t][pc[t]]
           delta == IF op.op = "get" THEN 1 ELSE -1
           \* "putvia": the reference is released by a container that held it (element deleted / overwritten, member deleted /
           \* replaced, container destroyed) - the same decrement as json_object_put, through another door of the code.
           \* Mutant "container_put_plain": that door decrements with a plain load and store when other owners remain
           atomic == AtomicRMW /\ ~(op.op = "putvia" /\ "container_put_plain" \in MUTT)
       IN IF AtomicRMW /\ op.op = "put" /\ "put_check_then_act" \in MUTT
          \* mutant: json_object_put decides with a plain read ("more than one owner left?") and only then decrements
          THEN IF tmp[t] = -1
               THEN /\ tmp' = [tmp EXCEPT ![t] = rc[op.n]] /\ bad' = (bad \/ Touch(op.n)) /\ UNCHANGED <<rc, dead, ndestroy, pc>>
               ELSE /\ (IF tmp[t] > 1 THEN rc' = [rc EXCEPT ![op.n] = @ - 1] /\ UNCHANGED <<dead, ndestroy>>
                        ELSE rc' = [rc EXCEPT ![op.n] = 0] /\ dead' = dead \cup {op.n} /\ ndestroy' = [ndestroy EXCEPT ![op.n] = @ + 1])
                    /\ tmp' = [tmp EXCEPT ![t] = -1] /\ pc' = [pc EXCEPT ![t] = @ + 1] /\ UNCHANGED bad
          ELSE IF atomic
          THEN /\ Apply(op.n, delta) /\ bad' = (bad \/ Touch(op.n)) /\ pc' = [pc EXCEPT ![t] = @ + 1] /\ UNCHANGED tmp
          ELSE IF tmp[t] = -1
               THEN /\ tmp' = [tmp EXCEPT ![t] = rc[op.n]] /\ bad' = (bad \/ Touch(op.n)) /\ UNCHANGED <<rc, dead, ndestroy, pc>>   \* load
               ELSE /\ rc' = [rc EXCEPT ![op.n] = tmp[t] + delta]                                                                    \* store
                    /\ (IF tmp[t] + delta = 0 THEN dead' = dead \cup {op.n} /\ ndestroy' = [ndestroy EXCEPT ![op.n] = @ + 1] ELSE UNCHANGED <<dead, ndestroy>>)
                    /\ tmp' = [tmp EXCEPT ![t] = -1] /\ pc' = [pc EXCEPT ![t] = @ + 1] /\ UNCHANGED bad
    /\ UNCHANGED <<seed, phase, cand, used, mainput>>
ProgDone(t) == /\ phase[t] = "prog" /\ pc[t] > Len(Prog[t]) /\ phase' = [phase EXCEPT ![t] = "read"]
               /\ UNCHANGED <<rc, dead, ndestroy, pc, tmp, bad, seed, cand, used, mainput>>
\* lh_char_hash: if (random_seed == -1) { seed = own candidate; CAS } ; hash with random_seed
\* The entropy source may answer with -1 itself - the very value that means "not chosen yet": such a draw is repeated
\* (while ((seed = json_c_get_random_seed()) == -1) {}).  Here every thread's FIRST draw is the sentinel (cand = -2
\* records "drew it once"); switch "publish_sentinel": the draw is used as it comes.
ReadSeed(t) == /\ phase[t] = "read"
               /\ IF seed = -1
                  THEN IF cand[t] = -1 THEN /\ cand' = [cand EXCEPT ![t] = -2]
                                            /\ phase' = [phase EXCEPT ![t] = IF "publish_sentinel" \in MUTT THEN "publish" ELSE "read"]
                       ELSE cand' = [cand EXCEPT ![t] = 100 + t] /\ phase' = [phase EXCEPT ![t] = "publish"]
                  ELSE phase' = [phase EXCEPT ![t] = "hash1"] /\ UNCHANGED cand
               /\ UNCHANGED <<rc, dead, ndestroy, pc, tmp, bad, seed, used, mainput>>
Publish(t) == /\ phase[t] = "publish"
              /\ LET c == IF cand[t] = -2 THEN -1 ELSE cand[t] IN
                 seed' = IF "plain_store" \in MUTT THEN c ELSE (IF seed = -1 THEN c ELSE seed)
              /\ phase' = [phase EXCEPT ![t] = "hash1"]
              /\ UNCHANGED <<rc, dead, ndestroy, pc, tmp, bad, cand, used, mainput>>
Hash(t) == /\ phase[t] \in {"hash1", "hash2"}
           /\ used' = [used EXCEPT ![t] = Append(@, IF "hash_own_candidate" \in MUTT /\ cand[t] \notin {-1, -2} THEN cand[t] ELSE seed)]
           /\ phase' = [phase EXCEPT ![t] = IF phase[t] = "hash1" THEN "hash2" ELSE "done"]
           /\ UNCHANGED <<rc, dead, ndestroy, pc, tmp, bad, seed, cand, mainput>>
AllDone == \A t \in Thr : phase[t] = "done"
\* the main thread's final put of its own reference on every node
MainPut == /\ AllDone /\ ~mainput /\ mainput' = TRUE
           /\ rc' = [n \in Nodes |-> rc[n] - 1]
           /\ dead' = dead \cup {n \in Nodes : rc[n] - 1 = 0}
           /\ ndestroy' = [n \in Nodes |-> IF rc[n] - 1 = 0 THEN ndestroy[n] + 1 ELSE ndestroy[n]]
           /\ bad' = (bad \/ \E n \in Nodes : n \in dead)
           /\ UNCHANGED <<pc, tmp, seed, phase, cand, used>>
Next == (\E t \in Thr : Step(t) \/ ProgDone(t) \/ ReadSeed(t) \/ Publish(t) \/ Hash(t)) \/ MainPut
Spec == Init /\ [][Next]_vars
\* net effect of the threads' programs on node n, and the count every node must end with
RECURSIVE NetOf(_, _, _)
NetOf(p, i, n) == IF i > Len(p) THEN 0 ELSE (IF p[i].n = n THEN (IF p[i].op = "get" THEN 1 ELSE -1) ELSE 0) + NetOf(p, i + 1, n)   \* ("put" and "putvia" alike)
RECURSIVE SumThreads(_, _)
SumThreads(t, n) == IF t = 0 THEN 0 ELSE NetOf(Prog[t], 1, n) + SumThreads(t - 1, n)
Final(n) == InitRc + SumThreads(NThreads, n) - (IF MainHolds /\ mainput THEN 1 ELSE 0)
NoLostUpdate == AllDone => \A n \in Nodes : rc[n] = Final(n)
DestroyedExactlyOnce == /\ \A n \in Nodes : ndestroy[n] <= 1
                        /\ (AllDone /\ mainput) => \A n \in Nodes : ndestroy[n] = IF Final(n) = 0 THEN 1 ELSE 0
                        /\ (MainHolds /\ ~mainput) => \A n \in Nodes : ndestroy[n] = 0
NoUseAfterDestroy == ~bad
OneSeed == \A t, u \in Thr : \A i \in 1..Len(used[t]), j \in 1..Len(used[u]) : used[t][i] = used[u][j] /\ used[t][i] # -1
====
