---- MODULE PrintBufInd ----
(* C19, all sizes: the size arithmetic of printbuf.c (printbuf_extend, printbuf_memappend, printbuf_memset, reset) over the
   mathematical integers with the REAL constants (INT_MAX, the initial 32 bytes, the doubling rule, the +8 slack, the three
   overflow guards).  TLC exhausts the byte-level transcription PrintBuf.tla in a small scope; here the contents are abstracted
   away and what remains is checked for EVERY capacity, length and argument value by an inductive invariant (Apalache):
     IndInv:  0 <= bpos <= size,  32 <= size <= INT_MAX,  and no step so far evaluated a C int expression outside the int
              range or wrote a byte outside [0, size).
   An append also leaves its terminating NUL inside the allocation (bpos < size afterwards); a refused request (-1) changes
   nothing.  realloc may fail at any time (ok = FALSE).
   Switch Off1 (CONSTANT): the capacity test of memappend forgets the terminator's byte (`size < bpos + n`) - the invariant
   is then not inductive. *)
EXTENDS Integers
CONSTANTS
    \* @type: Bool;
    Off1
VARIABLES
    \* @type: Int;
    size,
    \* @type: Int;
    bpos,
    \* @type: Bool;
    bad,
    \* @type: Int;
    ret
INTMAX == 2147483647
InInt(x) == x >= -2147483648 /\ x <= INTMAX
CInit == Off1 = FALSE
CInitBad == Off1 = TRUE
Init == size = 32 /\ bpos = 0 /\ bad = FALSE /\ ret = 0

\* printbuf_extend(min): [ok, size after, ovf]
ExtSize(min) == IF size > INTMAX \div 2 THEN min + 8 ELSE (IF size * 2 < min + 8 THEN min + 8 ELSE size * 2)
Append(n, reallocOk) ==
    IF n < 0 \/ n > INTMAX - bpos - 1
    THEN ret' = -1 /\ UNCHANGED <<size, bpos, bad>>
    ELSE LET need == bpos + n + 1
             \* if (p->size <= p->bpos + size + 1) printbuf_extend(p, p->bpos + size + 1)  - which grows only if size < min_size
             grow == (IF Off1 THEN size < bpos + n ELSE size <= need) /\ size < need
         IN IF grow
            THEN (IF need > INTMAX - 8 \/ ~reallocOk
                  THEN ret' = -1 /\ UNCHANGED <<size, bpos>> /\ bad' = (bad \/ ~InInt(need))
                  ELSE /\ size' = ExtSize(need) /\ bpos' = bpos + n /\ ret' = n
                       /\ bad' = (bad \/ ~InInt(need) \/ ~InInt(need + 8) \/ (size <= INTMAX \div 2 /\ ~InInt(size * 2))
                                      \/ ~(bpos + n < ExtSize(need))))              \* the NUL at bpos + n is inside
            ELSE /\ size' = size /\ bpos' = bpos + n /\ ret' = n
                 /\ bad' = (bad \/ ~InInt(need) \/ ~(bpos + n < size))
Memset(off0, len, reallocOk) ==
    LET off == IF off0 = -1 THEN bpos ELSE off0 IN
    IF len < 0 \/ off < -1 \/ len > INTMAX - off
    THEN ret' = -1 /\ UNCHANGED <<size, bpos, bad>>
    ELSE LET need == off + len IN
         IF size < need
         THEN (IF need > INTMAX - 8 \/ ~reallocOk
               THEN ret' = -1 /\ UNCHANGED <<size, bpos>> /\ bad' = (bad \/ ~InInt(need))
               ELSE /\ size' = ExtSize(need) /\ bpos' = (IF bpos < need THEN need ELSE bpos) /\ ret' = 0
                    /\ bad' = (bad \/ ~InInt(need) \/ ~InInt(need + 8) \/ (size <= INTMAX \div 2 /\ ~InInt(size * 2))
                                   \/ off < 0 \/ ~(need <= ExtSize(need))))
         ELSE /\ size' = size /\ bpos' = (IF bpos < need THEN need ELSE bpos) /\ ret' = 0
              /\ bad' = (bad \/ ~InInt(need) \/ off < 0 \/ ~(need <= size))
Reset == bpos' = 0 /\ ret' = 0 /\ UNCHANGED <<size, bad>>
Next == \/ \E n \in Int : \E ok \in BOOLEAN : Append(n, ok)
        \/ \E off \in Int : \E len \in Int : \E ok \in BOOLEAN : Memset(off, len, ok)
        \/ Reset
IndInv == /\ size \in Int /\ bpos \in Int /\ bad \in BOOLEAN /\ ret \in Int
          /\ 0 <= bpos /\ bpos <= size /\ 32 <= size /\ size <= INTMAX /\ ~bad
\* after a successful append the terminator is inside: checked through `bad`; a refusal changes nothing: by construction of the
\* refusing branches (UNCHANGED); this is what remains to be stated about states
Safety == ~bad /\ bpos <= size /\ size <= INTMAX
====
