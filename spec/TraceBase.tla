---- MODULE TraceBase ----
(* Common shape of every trace specification (directions G and V).
   The recorded execution Log is ndJsonDeserialize(IOEnv.TRACE), one event per line, defined in the
   root module (TLC evaluates a root-level constant definition once).  The instantiating module
   supplies  InitSt  and  StepOf(st, rec) = [ok |-> BOOLEAN, st |-> next abstract state] :
   whether the recorded event (call + arguments + observed results) is a step of the
   specification from st.  A line that is not a step is reported as <<"MISMATCH", line>> and
   validation resumes, from InitSt, at the next execution boundary ("new" event), so one
   rejected execution does not leave the rest of the trace unexamined. *)
EXTENDS Naturals, Sequences, TLC, Json, IOUtils
CONSTANTS Log, InitSt, StepOf(_, _), ResyncAtNew   \* ResyncAtNew = FALSE for stateless specs: every event is judged on its own
VARIABLES st, l
RECURSIVE SkipToNew(_)
SkipToNew(i) == IF i > Len(Log) THEN i ELSE IF Log[i].e = "new" THEN i ELSE SkipToNew(i + 1)
Init == st = InitSt /\ l = 1 /\ TLCSet(7, 1)
Next == /\ l <= Len(Log)
        /\ IF Log[l].e = "new"
           THEN st' = InitSt /\ l' = l + 1
           ELSE LET r == StepOf(st, Log[l]) IN
                IF r.ok THEN st' = r.st /\ l' = l + 1
                ELSE PrintT(<<"MISMATCH", l>>) /\ (IF ResyncAtNew THEN st' = InitSt /\ l' = SkipToNew(l + 1) ELSE st' = st /\ l' = l + 1)
        /\ TLCSet(7, l')   \* register 7 = first line not yet consumed (run with -workers 1)
Spec == Init /\ [][Next]_<<st, l>>
Done == PrintT(<<"TRACE_DONE", TLCGet(7) - 1>>)
====
