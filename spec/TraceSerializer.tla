---- MODULE TraceSerializer ----
(* Trace specification for C02: one event per tree with the texts the real serializer produced
   under a rotating subset of the 64 flag combinations (flags 0 always) and the harness's
   relational counters over all 64.  Alarming: every text (colour escapes removed) is RFC
   8259-valid and denotes exactly the tree - numbers by exact decimal value against printf's
   %.17g text / the retained token - the reported length is the text length; over all 64 flag
   sets: re-parsing with json-c gives an equal tree, re-serializing it reproduces the text, a text
   was returned.  Trees containing NaN / infinities are outside the validity claim (only the
   relational counters apply, NaN-free).
   Informational (MECH): the text is byte-identical to the Serializer transcription's. *)
EXTENDS Naturals, Integers, Sequences, TLC, Json, IOUtils
VARIABLES st, l
S == INSTANCE Serializer WITH AsFoundS <- {}
TextOk(r, x) ==
    /\ x.len = Len(x.text)
    /\ r.naninf \/ S!DenotesTree(x.text, r.tree, S!Flag(x.f))
    /\ (r.naninf \/ x.text = S!Serialize(r.tree, x.f) \/ PrintT(<<"MECH", l>>))
\* every retained number text in the tree still denotes its node's value (set_double / deep copy / parse must keep the two
\* in step; the harness compares strtod of the text with the node's bit pattern)
RECURSIVE RetainedOk(_)
RetainedOk(v) == IF v.t = "double" THEN v.retok
                 ELSE IF v.t = "array" THEN \A i \in 1..Len(v.e) : RetainedOk(v.e[i])
                 ELSE IF v.t = "object" THEN \A i \in 1..Len(v.m) : RetainedOk(v.m[i].v)
                 ELSE TRUE
SerOk(r) == /\ \A i \in 1..Len(r.texts) : TextOk(r, r.texts[i])
            /\ r.naninf \/ RetainedOk(r.tree)
            /\ r.bad_len = 0 /\ r.bad_null = 0 /\ r.bad_reparse = 0 /\ r.bad_reser = 0
StepOfImpl(s, r) == [ok |-> SerOk(r), st |-> s]
TraceLog == ndJsonDeserialize(IOEnv.TRACE)
T == INSTANCE TraceBase WITH Log <- TraceLog, InitSt <- 0, StepOf <- StepOfImpl, ResyncAtNew <- FALSE
Spec == T!Spec
Done == T!Done
====
