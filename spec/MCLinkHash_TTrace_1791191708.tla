---- MODULE MCLinkHash_TTrace_1791191708 ----
EXTENDS Sequences, TLCExt, Toolbox, Naturals, TLC, MCLinkHash

_expression ==
    LET MCLinkHash_TEExpression == INSTANCE MCLinkHash_TEExpression
    IN MCLinkHash_TEExpression!expression
----

_trace ==
    LET MCLinkHash_TETrace == INSTANCE MCLinkHash_TETrace
    IN MCLinkHash_TETrace!trace
----

_inv ==
    ~(
        TLCGet("level") = Len(_TETrace)
        /\
        head = (0)
        /\
        slots = ((0 :> [k |-> "a", v |-> 1, next |-> 1, prev |-> 99] @@ 1 :> [k |-> "b", v |-> 1, next |-> 99, prev |-> 0]))
        /\
        last = ([k |-> "", v |-> 1, op |-> "resize", ret |-> 0, ks |-> <<>>, visited |-> <<>>])
        /\
        size = (1)
        /\
        tail = (1)
        /\
        count = (2)
    )
----

_init ==
    /\ tail = _TETrace[1].tail
    /\ slots = _TETrace[1].slots
    /\ last = _TETrace[1].last
    /\ count = _TETrace[1].count
    /\ size = _TETrace[1].size
    /\ head = _TETrace[1].head
----

_next ==
    /\ \E i,j \in DOMAIN _TETrace:
        /\ \/ /\ j = i + 1
              /\ i = TLCGet("level")
        /\ tail  = _TETrace[i].tail
        /\ tail' = _TETrace[j].tail
        /\ slots  = _TETrace[i].slots
        /\ slots' = _TETrace[j].slots
        /\ last  = _TETrace[i].last
        /\ last' = _TETrace[j].last
        /\ count  = _TETrace[i].count
        /\ count' = _TETrace[j].count
        /\ size  = _TETrace[i].size
        /\ size' = _TETrace[j].size
        /\ head  = _TETrace[i].head
        /\ head' = _TETrace[j].head

\* Uncomment the ASSUME below to write the states of the error trace
\* to the given file in Json format. Note that you can pass any tuple
\* to `JsonSerialize`. For example, a sub-sequence of _TETrace.
    \* ASSUME
    \*     LET J == INSTANCE Json
    \*         IN J!JsonSerialize("MCLinkHash_TTrace_1791191708.json", _TETrace)

=============================================================================

 Note that you can extract this module `MCLinkHash_TEExpression`
  to a dedicated file to reuse `expression` (the module in the 
  dedicated `MCLinkHash_TEExpression.tla` file takes precedence 
  over the module `MCLinkHash_TEExpression` below).

---- MODULE MCLinkHash_TEExpression ----
EXTENDS Sequences, TLCExt, Toolbox, Naturals, TLC, MCLinkHash

expression == 
    [
        \* To hide variables of the `MCLinkHash` spec from the error trace,
        \* remove the variables below.  The trace will be written in the order
        \* of the fields of this record.
        tail |-> tail
        ,slots |-> slots
        ,last |-> last
        ,count |-> count
        ,size |-> size
        ,head |-> head
        
        \* Put additional constant-, state-, and action-level expressions here:
        \* ,_stateNumber |-> _TEPosition
        \* ,_tailUnchanged |-> tail = tail'
        
        \* Format the `tail` variable as Json value.
        \* ,_tailJson |->
        \*     LET J == INSTANCE Json
        \*     IN J!ToJson(tail)
        
        \* Lastly, you may build expressions over arbitrary sets of states by
        \* leveraging the _TETrace operator.  For example, this is how to
        \* count the number of times a spec variable changed up to the current
        \* state in the trace.
        \* ,_tailModCount |->
        \*     LET F[s \in DOMAIN _TETrace] ==
        \*         IF s = 1 THEN 0
        \*         ELSE IF _TETrace[s].tail # _TETrace[s-1].tail
        \*             THEN 1 + F[s-1] ELSE F[s-1]
        \*     IN F[_TEPosition - 1]
    ]

=============================================================================



Parsing and semantic processing can take forever if the trace below is long.
 In this case, it is advised to uncomment the module below to deserialize the
 trace from a generated binary file.

\*
\*---- MODULE MCLinkHash_TETrace ----
\*EXTENDS IOUtils, TLC, MCLinkHash
\*
\*trace == IODeserialize("MCLinkHash_TTrace_1791191708.bin", TRUE)
\*
\*=============================================================================
\*

---- MODULE MCLinkHash_TETrace ----
EXTENDS TLC, MCLinkHash

trace == 
    <<
    ([head |-> 99,slots |-> (0 :> [k |-> "EMPTY", v |-> 0, next |-> 99, prev |-> 99] @@ 1 :> [k |-> "EMPTY", v |-> 0, next |-> 99, prev |-> 99] @@ 2 :> [k |-> "EMPTY", v |-> 0, next |-> 99, prev |-> 99]),last |-> [k |-> "", v |-> 0, op |-> "new", ret |-> 0, ks |-> <<>>, visited |-> <<>>],size |-> 3,tail |-> 99,count |-> 0]),
    ([head |-> 2,slots |-> (0 :> [k |-> "EMPTY", v |-> 0, next |-> 99, prev |-> 99] @@ 1 :> [k |-> "EMPTY", v |-> 0, next |-> 99, prev |-> 99] @@ 2 :> [k |-> "a", v |-> 1, next |-> 99, prev |-> 99]),last |-> [k |-> "a", v |-> 1, op |-> "add", ret |-> 0, ks |-> <<>>, visited |-> <<>>],size |-> 3,tail |-> 2,count |-> 1]),
    ([head |-> 2,slots |-> (0 :> [k |-> "b", v |-> 1, next |-> 99, prev |-> 2] @@ 1 :> [k |-> "EMPTY", v |-> 0, next |-> 99, prev |-> 99] @@ 2 :> [k |-> "a", v |-> 1, next |-> 0, prev |-> 99]),last |-> [k |-> "b", v |-> 1, op |-> "add", ret |-> 0, ks |-> <<>>, visited |-> <<>>],size |-> 3,tail |-> 0,count |-> 2]),
    ([head |-> 0,slots |-> (0 :> [k |-> "a", v |-> 1, next |-> 1, prev |-> 99] @@ 1 :> [k |-> "b", v |-> 1, next |-> 99, prev |-> 0]),last |-> [k |-> "", v |-> 1, op |-> "resize", ret |-> 0, ks |-> <<>>, visited |-> <<>>],size |-> 1,tail |-> 1,count |-> 2])
    >>
----


=============================================================================

---- CONFIG MCLinkHash_TTrace_1791191708 ----
CONSTANTS
    Keys = { "a" , "b" , "c" , "d" }
    Vals = { 1 , 2 }
    InitSize = 3
    MaxSize = 12
    HashOf <- HashDef
    DelSets <- DelSetsDef
    ResizeTo = { 1 , 2 , 5 }
    MUT = { "resize_keeps_request" }

INVARIANT
    _inv

CHECK_DEADLOCK
    \* CHECK_DEADLOCK off because of PROPERTY or INVARIANT above.
    FALSE

INIT
    _init

NEXT
    _next

CONSTANT
    _TETrace <- _trace

ALIAS
    _expression
=============================================================================
\* Generated on Mon Oct 05 09:15:09 UTC 2026