---- MODULE TraceLocale ----
(* Trace specification for C14.  "install": the harness really is in the locale it claims (the
   comma locale prints 1,500000).  "parse": whatever the outcome class, the calling thread's locale
   handle and its numeric behaviour are the same after the call, no locale object is left alive,
   the libc locale calls json-c made form one of the paths of the Locale module
   (q = uselocale(NULL), d/D = duplocale ok/failed, n/N = newlocale ok/failed, u = uselocale(obj),
   f = freelocale), and status and value are those of the same call in the C locale (an injected
   duplocale/newlocale failure gives the out-of-memory status and no value).  "ser": serialization
   is byte-identical to the C locale's and leaves the locale alone. *)
EXTENDS Naturals, Integers, Sequences, TLC, Json, IOUtils
VARIABLES st, l
Comma(p) == \E i \in 1..Len(p) : p[i] = 44
\* paths of Locale.tla: size guard | dup fails | new fails (dup freed) | full bracket
Paths == {"", "q", "qD", "qdNf", "qdnuuf"}
ParseOk(r) ==
    /\ r.handle_same /\ r.probe_before = r.probe_after /\ r.loc_leak = 0
    /\ r.calls \in Paths
    /\ IF r.ref_st = "size" THEN r.st = "size" /\ r.calls \in {"", "q"}
       ELSE IF r.inject = 1 THEN r.st = "memory" /\ r.val.t = "null" /\ r.calls = "qD"
       ELSE IF r.inject = 2 THEN r.st = "memory" /\ r.val.t = "null" /\ r.calls = "qdNf"
       ELSE r.st = r.ref_st /\ r.val = r.ref_val /\ r.calls = "qdnuuf"
InstallOk(r) == r.installed /\ (Comma(r.probe) <=> r.loc = "xx_COMMA")
SerOk(r) == r.text = r.ref /\ r.probe_before = r.probe_after /\ (Comma(r.probe_after) <=> r.loc = "xx_COMMA")
StepOfImpl(s, r) == [ok |-> CASE r.e = "parse" -> ParseOk(r) /\ (Comma(r.probe_before) <=> r.loc = "xx_COMMA")
                             [] r.e = "install" -> InstallOk(r) [] r.e = "ser" -> SerOk(r) [] OTHER -> FALSE, st |-> s]
TraceLog == ndJsonDeserialize(IOEnv.TRACE)
T == INSTANCE TraceBase WITH Log <- TraceLog, InitSt <- 0, StepOf <- StepOfImpl, ResyncAtNew <- FALSE
Spec == T!Spec
Done == T!Done
====
