---- MODULE TraceLocale ----
(* Trace specification for C14.  "install": the harness really is in the locale it claims (the
   comma locale prints 1,500000).  "parse": whatever the outcome class, the calling thread's locale
   handle and its numeric behaviour are the same after the call, no locale object is left alive,
   (also between the calls of a chunked parse), and status and value are those of the same call in the C locale (an injected
   duplocale/newlocale failure gives the out-of-memory status and no value).  "ser": serialization
   is byte-identical to the C locale's and leaves the locale alone. *)
EXTENDS Naturals, Integers, Sequences, TLC, Json, IOUtils
VARIABLES st, l
Comma(p) == \E i \in 1..Len(p) : p[i] = 44
\* What C14 states, and no more: how json-c reaches it (which libc calls, in which order - the paths of Locale.tla)
\* is not prescribed; an implementation that skips the switch where it is not needed conforms as long as results
\* are those of the C locale.  A failure injected into duplocale / newlocale counts only when it was actually hit.
ParseOk(r) ==
    /\ r.handle_same /\ r.every_call_ok /\ r.probe_before = r.probe_after /\ r.loc_leak = 0
    /\ IF r.ref_st = "size" THEN r.st = "size"
       ELSE IF r.hit_dup_fail \/ r.hit_new_fail THEN r.st = "memory" /\ r.val.t = "null"
       ELSE r.st = r.ref_st /\ r.val = r.ref_val
\* the libc call path is one of Locale.tla's (reported, not judged)
Paths == {"", "q", "qD", "qdNf", "qdnuuf"}
InstallOk(r) == r.installed /\ (Comma(r.probe) <=> r.loc = "xx_COMMA")
SerOk(r) == r.text = r.ref /\ r.probe_before = r.probe_after /\ (Comma(r.probe_after) <=> r.loc = "xx_COMMA")
StepOfImpl(s, r) == [ok |-> CASE r.e = "parse" -> ParseOk(r) /\ (Comma(r.probe_before) <=> r.loc = "xx_COMMA")
                             [] r.e = "install" -> InstallOk(r) [] r.e = "ser" -> SerOk(r) [] OTHER -> FALSE, st |-> s]
TraceLog == ndJsonDeserialize(IOEnv.TRACE)
T == INSTANCE TraceBase WITH Log <- TraceLog, InitSt <- 0, StepOf <- StepOfImpl, ResyncAtNew <- FALSE
Spec == T!Spec
Done == T!Done
====
