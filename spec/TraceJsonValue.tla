---- MODULE TraceJsonValue ----
(* Trace specification for C09.  "eq": json_object_equal in both directions must be
   JsonValue!Equal of the two dumped values, equal(a, a) is TRUE (identical node, even with NaN).
   "copy": a deep copy succeeds, its dump is exactly the source's (incl. retained number text),
   it is equal to a NaN-free source, shares no node with it, serializes identically under all 64
   flag sets, and mutating one side leaves the other side's dump unchanged. *)
EXTENDS Naturals, Integers, Sequences, TLC, Json, IOUtils
VARIABLES st, l
V == INSTANCE JsonValue WITH MUTV <- {}
EqOk(r) == LET e == V!Equal(r.a, r.b) IN r.ab = e /\ r.ba = e /\ r.aa
CopyOk(r) ==
    IF r.src.t = "null" THEN r.rc # 0                          \* nothing to copy: refused
    ELSE /\ r.rc = 0 /\ r.copy = r.src /\ r.disjoint /\ r.ser_same
         /\ r.eq = ~V!HasNaN(r.src)
         /\ IF r.mutated = 0 THEN r.copy_after = r.copy /\ (r.changed => r.src_after # r.src)
            ELSE r.src_after = r.src /\ (r.changed => r.copy_after # r.copy)
\* "ckcopy": the copy of an object with constant (not copied) member names survives the source and the reuse of the name memory
CkCopyOk(r) == r.rc = 0 /\ r.copy = r.src /\ r.copy_after = r.src /\ r.lookup
StepOfImpl(s, r) == [ok |-> IF r.e = "eq" THEN EqOk(r) ELSE IF r.e = "copy" THEN CopyOk(r) ELSE IF r.e = "ckcopy" THEN CkCopyOk(r) ELSE FALSE, st |-> s]
TraceLog == ndJsonDeserialize(IOEnv.TRACE)
T == INSTANCE TraceBase WITH Log <- TraceLog, InitSt <- 0, StepOf <- StepOfImpl, ResyncAtNew <- FALSE
Spec == T!Spec
Done == T!Done
====
