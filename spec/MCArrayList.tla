---- MODULE MCArrayList ----
EXTENDS ArrayList
====
