---- MODULE MCVisit ----
(* lock-step product Abs x Mech over a universe of small trees and all return-code schedules *)
EXTENDS Visit, FiniteSets, VisitTrees
CONSTANTS MUT, Codes
VARIABLES tree, a, m, last
vars == <<tree, a, m, last>>
AllCodes == {CONTINUE, SKIP, POP, STOP, ERROR, 5}
Trees == AllTrees
Init == /\ tree \in Trees /\ a = AInit(tree) /\ m = MInit(tree) /\ last = [n |-> 0, f |-> 0, p |-> 0, k |-> -1, i |-> -1, c |-> 0]
\* the callback is invoked: both machines must be at the same call; any code may come back
Callback == /\ MAtCall(m) /\ a.mode \in {"first", "second"}
            /\ \E c \in Codes :
                 /\ a' = Advance(tree, a, c) /\ m' = MAnswer(tree, m, c, MUT)
                 /\ last' = [n |-> MCall(m).n, f |-> MCall(m).f, p |-> MCall(m).p, k |-> MCall(m).k, i |-> MCall(m).i, c |-> c]
            /\ UNCHANGED tree
Internal == /\ m.res = RUNNING /\ ~MAtCall(m)
            /\ m' = MInternal(tree, m, MUT) /\ UNCHANGED <<tree, a, last>>
Next == Callback \/ Internal
Spec == Init /\ [][Next]_vars
\* lock step: whenever the code is about to call the user function, it is the call the reference expects
SameCall == MAtCall(m) => (a.mode \in {"first", "second"} /\ MCall(m) = Expect(a))
\* ... and when the code has finished, so has the reference, with the same result (and conversely)
SameEnd == (m.res # RUNNING) => (a.mode = "done" /\ a.res = m.res)
NoEarlyEnd == (a.mode = "done") => (m.res # RUNNING \/ ~MAtCall(m))
DepthOK == Len(m.fr) <= Len(tree)   \* recursion depth bounded by the tree
====
