---- MODULE Wide ----
(* Library: exact non-negative integers of any size as sequences of decimal digits (most
   significant first) - TLC's own integers are 32-bit.  Comparison, canonical form, the 64-bit
   bounds, and the saturating integer node of the JSON value model. *)
EXTENDS Naturals, Integers, Sequences
RECURSIVE StripZerosR(_)
StripZerosR(d) == IF Len(d) > 1 /\ d[1] = 0 THEN StripZerosR(Tail(d)) ELSE d
StripZeros(d) == IF Len(d) = 0 THEN <<0>> ELSE StripZerosR(d)
\* compare canonical digit sequences: -1, 0, 1
RECURSIVE CmpSame(_, _, _)
CmpSame(a, b, i) == IF i > Len(a) THEN 0 ELSE IF a[i] < b[i] THEN -1 ELSE IF a[i] > b[i] THEN 1 ELSE CmpSame(a, b, i + 1)
CmpDigits(a, b) == IF Len(a) < Len(b) THEN -1 ELSE IF Len(a) > Len(b) THEN 1 ELSE CmpSame(a, b, 1)
I64Max    == <<9,2,2,3,3,7,2,0,3,6,8,5,4,7,7,5,8,0,7>>
I64MinMag == <<9,2,2,3,3,7,2,0,3,6,8,5,4,7,7,5,8,0,8>>
U64Max    == <<1,8,4,4,6,7,4,4,0,7,3,7,0,9,5,5,1,6,1,5>>
\* the integer node denoted by sign + canonical magnitude, saturating at INT64_MIN / UINT64_MAX
IntValue(neg, canon) ==
    LET zero == canon = <<0>>
        d == IF neg THEN (IF CmpDigits(canon, I64MinMag) > 0 THEN I64MinMag ELSE canon)
             ELSE (IF CmpDigits(canon, U64Max) > 0 THEN U64Max ELSE canon)
    IN [t |-> "int", neg |-> (neg /\ ~zero), d |-> d]
====
