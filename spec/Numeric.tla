---- MODULE Numeric ----
(* Abs layer for C10: the documented coercions of json_object_get_int / get_int64 / get_uint64 /
   get_double / get_boolean, set-then-get, and json_object_int_inc, on exact 64-bit values.
   Wire/value model (Limbs at base 65536):
     integer  [neg |-> BOOLEAN, m |-> 4 limbs]      magnitude + sign (store "i64" | "u64" given separately)
     double   bits = 4 limbs of the IEEE-754 binary64 pattern (little endian)
   A source node src is [kind, ...]: "int" (store, v), "double" (bits), "bool" (b), "null",
   "string" (s = bytes), "array"/"object".
   Results are [v, errno] with errno \in {"0", "ERANGE", "EINVAL"} where the documentation fixes it.
   No floating point is evaluated: doubles are decoded exactly (sign, exponent, 53-bit mantissa) and
   truncated toward zero with limb shifts. *)
EXTENDS Naturals, Integers, Sequences
L == INSTANCE Limbs WITH B <- 65536
Z4 == <<0, 0, 0, 0>>
I64MaxM == <<65535, 65535, 65535, 32767>>
I64MinM == <<0, 0, 0, 32768>>
U64MaxM == <<65535, 65535, 65535, 65535>>
I32MaxM == <<65535, 32767, 0, 0>>
I32MinM == <<0, 32768, 0, 0>>
MkInt(neg, m) == [neg |-> neg /\ ~L!IsZero(m), m |-> m]
R(v, e) == [v |-> v, errno |-> e]

\* ---- IEEE-754 binary64
Sign(bits) == bits[4] >= 32768
Expo(bits) == (bits[4] % 32768) \div 16
Frac(bits) == <<bits[1], bits[2], bits[3], bits[4] % 16>>
IsNaN(bits) == Expo(bits) = 2047 /\ ~L!IsZero(Frac(bits))
IsInf(bits) == Expo(bits) = 2047 /\ L!IsZero(Frac(bits))
IsZeroD(bits) == Expo(bits) = 0 /\ L!IsZero(Frac(bits))
Mant(bits) == IF Expo(bits) = 0 THEN Frac(bits) ELSE <<bits[1], bits[2], bits[3], (bits[4] % 16) + 16>>   \* 53 bits
\* integer part of |d| as 4 limbs, or "huge" when |d| >= 2^64 (incl. infinities)
\*   |d| = Mant * 2^(e - 1075), e = max(Expo, 1)
TruncMag(bits) ==
    LET e == IF Expo(bits) = 0 THEN 1 ELSE Expo(bits)
        sh == e - 1075
    IN IF Expo(bits) = 2047 \/ sh >= 12 THEN [huge |-> TRUE, m |-> Z4]
       ELSE IF sh >= 0 THEN [huge |-> FALSE, m |-> L!ShlBits(Mant(bits), sh)]          \* < 2^53 * 2^11 = 2^64
       ELSE IF -sh >= 53 THEN [huge |-> FALSE, m |-> Z4]
       ELSE [huge |-> FALSE, m |-> L!ShrBits(L!ShrLimbs(Mant(bits), (-sh) \div 16), (-sh) % 16)]

\* the value has a non-zero fractional part
HasFrac(bits) ==
    LET e == IF Expo(bits) = 0 THEN 1 ELSE Expo(bits)
        sh == e - 1075
    IN IF Expo(bits) = 2047 \/ sh >= 0 THEN FALSE
       ELSE IF -sh >= 53 THEN ~L!IsZero(Mant(bits))
       ELSE L!ShlLimbs(L!ShlBits(TruncMag(bits).m, (-sh) % 16), (-sh) \div 16) # Mant(bits)

\* ---- clamping an exact signed value (neg, magnitude possibly huge) to a target range
\* target: [lo magnitude (of the negative bound), hi magnitude]
ClampTo(neg, huge, m, loM, hiM) ==
    IF neg THEN (IF huge \/ L!Cmp(m, loM) > 0 THEN R(MkInt(TRUE, loM), "ERANGE") ELSE R(MkInt(TRUE, m), "0"))
    ELSE (IF huge \/ L!Cmp(m, hiM) > 0 THEN R(MkInt(FALSE, hiM), "ERANGE") ELSE R(MkInt(FALSE, m), "0"))

\* ---- strings: strtoll / strtoull style prefix parse (leading white space, optional sign, digits)
SPACE == {32, 9, 10, 11, 12, 13}
RECURSIVE SkipWs(_, _)
SkipWs(s, i) == IF i <= Len(s) /\ s[i] \in SPACE THEN SkipWs(s, i + 1) ELSE i
\* digits s[i..] accumulated into 5 limbs; `over` when the value does not fit 4 limbs
RECURSIVE Digits(_, _, _, _, _)
Digits(s, i, acc, over, n) ==
    IF i <= Len(s) /\ s[i] >= 48 /\ s[i] <= 57
    THEN LET o2 == over \/ L!MulAddOverflows(acc, 10, s[i] - 48) IN Digits(s, i + 1, L!MulAdd(acc, 10, s[i] - 48), o2, n + 1)
    ELSE [m |-> acc, over |-> over, n |-> n]
\* json_parse_int64: [ok, r]
ParseI64(s) ==
    LET i0 == SkipWs(s, 1)
        neg == i0 <= Len(s) /\ s[i0] = 45
        i1 == IF i0 <= Len(s) /\ s[i0] \in {43, 45} THEN i0 + 1 ELSE i0
        d == Digits(s, i1, Z4, FALSE, 0)
    IN IF d.n = 0 THEN [ok |-> FALSE, r |-> R(MkInt(FALSE, Z4), "EINVAL")]
       ELSE [ok |-> TRUE, r |-> ClampTo(neg, d.over, d.m, I64MinM, I64MaxM)]
\* json_parse_uint64: leading white space, then a '-' is refused (a uint cannot be negative: never a wrapped value);
\* otherwise an optional '+' and digits, saturating at UINT64_MAX.  (As found, only ' ' was skipped before the '-' test
\* and strtoull negated "\t-1" into 2^64-1: defect D10d, fixed.)
ParseU64(s) ==
    LET j0 == SkipWs(s, 1)
    IN IF j0 <= Len(s) /\ s[j0] = 45 THEN [ok |-> FALSE, r |-> R(MkInt(FALSE, Z4), "ANY")]
       ELSE LET j1 == IF j0 <= Len(s) /\ s[j0] = 43 THEN j0 + 1 ELSE j0
                d == Digits(s, j1, Z4, FALSE, 0)
            IN IF d.n = 0 THEN [ok |-> FALSE, r |-> R(MkInt(FALSE, Z4), "EINVAL")]
               ELSE [ok |-> TRUE, r |-> ClampTo(FALSE, d.over, d.m, Z4, U64MaxM)]

\* ---- accessors.  Result record R(v, errno); v is an Int record (or BOOLEAN / bits for the others)
One == <<1, 0, 0, 0>>
GetI64(src) ==
    CASE src.kind = "int" -> ClampTo(src.v.neg, FALSE, src.v.m, I64MinM, I64MaxM)
      [] src.kind = "double" -> IF IsNaN(src.bits) THEN R(MkInt(TRUE, I64MinM), "EINVAL")
                                ELSE LET t == TruncMag(src.bits) IN ClampTo(Sign(src.bits), t.huge, t.m, I64MinM, I64MaxM)
      [] src.kind = "bool" -> R(MkInt(FALSE, IF src.b THEN One ELSE Z4), "0")
      [] src.kind = "string" -> LET p == ParseI64(src.s) IN IF p.ok THEN p.r ELSE R(MkInt(FALSE, Z4), "EINVAL")
      [] src.kind = "null" -> R(MkInt(FALSE, Z4), "ANY")
      [] OTHER -> R(MkInt(FALSE, Z4), "ANY")
GetU64(src) ==
    CASE src.kind = "int" -> IF src.v.neg THEN R(MkInt(FALSE, Z4), "ERANGE") ELSE R(MkInt(FALSE, src.v.m), "0")
      [] src.kind = "double" -> IF IsNaN(src.bits) THEN R(MkInt(FALSE, Z4), "EINVAL")
                                ELSE LET t == TruncMag(src.bits) IN
                                     IF Sign(src.bits) /\ ~IsZeroD(src.bits) THEN R(MkInt(FALSE, Z4), "ERANGE")
                                     ELSE ClampTo(FALSE, t.huge, t.m, Z4, U64MaxM)
      [] src.kind = "bool" -> R(MkInt(FALSE, IF src.b THEN One ELSE Z4), "0")
      [] src.kind = "string" -> LET p == ParseU64(src.s) IN IF p.ok THEN p.r ELSE R(MkInt(FALSE, Z4), IF p.r.errno = "ANY" THEN "ANY" ELSE "EINVAL")
      [] OTHER -> R(MkInt(FALSE, Z4), "ANY")
GetI32(src) ==
    CASE src.kind = "int" -> ClampTo(src.v.neg, FALSE, src.v.m, I32MinM, I32MaxM)
      [] src.kind = "double" -> IF IsNaN(src.bits) THEN R(MkInt(TRUE, I32MinM), "EINVAL")
                                ELSE LET t == TruncMag(src.bits)
                                         c == ClampTo(Sign(src.bits), t.huge, t.m, I32MinM, I32MaxM)
                                         atBound == ~t.huge /\ HasFrac(src.bits) /\ t.m = (IF Sign(src.bits) THEN I32MinM ELSE I32MaxM)
                                     IN IF atBound THEN [c EXCEPT !.errno = "ANY"] ELSE c
      [] src.kind = "bool" -> R(MkInt(FALSE, IF src.b THEN One ELSE Z4), "0")
      [] src.kind = "string" -> LET p == ParseI64(src.s) IN
                                IF ~p.ok THEN R(MkInt(FALSE, Z4), "ANY")
                                ELSE LET c == ClampTo(p.r.v.neg, FALSE, p.r.v.m, I32MinM, I32MaxM)
                                     IN IF c.errno = "0" /\ p.r.errno = "ERANGE" THEN [c EXCEPT !.errno = "ERANGE"] ELSE c
      [] OTHER -> R(MkInt(FALSE, Z4), "ANY")
GetBool(src) ==
    CASE src.kind = "bool" -> src.b
      [] src.kind = "int" -> ~L!IsZero(src.v.m)
      [] src.kind = "double" -> ~IsZeroD(src.bits)           \* NaN and infinities are non-zero
      [] src.kind = "string" -> Len(src.s) # 0
      [] OTHER -> FALSE

\* ---- json_object_int_inc: exact sum, switching store or saturating at INT64_MIN / UINT64_MAX
\* a node value is (store, Int); increment inc is an Int within int64
IncResult(store, v, inc) ==
    LET a == L!Ext(v.m, 5)
        b == L!Ext(inc.m, 5)
        same == v.neg = inc.neg
        sumM == IF same THEN L!Add(a, b) ELSE IF L!Cmp(a, b) >= 0 THEN L!Sub(a, b) ELSE L!Sub(b, a)
        sumNeg == IF same THEN v.neg ELSE IF L!Cmp(a, b) >= 0 THEN v.neg ELSE inc.neg
        zero == L!IsZero(sumM)
        neg == sumNeg /\ ~zero
    IN IF neg THEN (IF L!Cmp(sumM, L!Ext(I64MinM, 5)) > 0 THEN [store |-> "i64", v |-> MkInt(TRUE, I64MinM)]
                    ELSE [store |-> "i64", v |-> MkInt(TRUE, L!Ext(sumM, 4))])
       ELSE IF L!Cmp(sumM, L!Ext(U64MaxM, 5)) > 0 THEN [store |-> "u64", v |-> MkInt(FALSE, U64MaxM)]
       ELSE IF L!Cmp(sumM, L!Ext(I64MaxM, 5)) > 0 THEN [store |-> "u64", v |-> MkInt(FALSE, L!Ext(sumM, 4))]
       ELSE [store |-> store, v |-> MkInt(FALSE, L!Ext(sumM, 4))]       \* fits both: the store is not prescribed
====
