---- MODULE GArrayList ----
(* behaviour export for direction G (C07): one shortest history per transition of the ArrayList graph *)
EXTENDS MCArrayList, Json
VARIABLE hist
Rec(c) == [op |-> c.op, ib |-> c.idx.big, in |-> c.idx.n, cb |-> c.count.big, cn |-> c.count.n]
GInit == Init /\ hist = <<[op |-> "new", ib |-> 0, in |-> size, cb |-> 0, cn |-> 0]>>
GNext == Next /\ hist' = Append(hist, Rec(last'))
GSpec == GInit /\ [][GNext]_<<vars, hist>>
GView == <<array, length, size>>
GExport == PrintT(<<"EDGE", ToJson(hist')>>)
====
