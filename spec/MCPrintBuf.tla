---- MODULE MCPrintBuf ----
EXTENDS PrintBuf
IM == 2147483647
AppendSizesQ == {0, 1, 7, 30, 31, 32, 33, 127, 128, 129, IM - 40, IM - 1, IM, -1}
MemsetOffsQ == {-1, 0, 5, 31, 32, 40, 200, IM - 5, -2}
MemsetLensQ == {0, 1, 27, 32, 33, 90, IM - 3, IM, -1}
SprintfSizesQ == {0, 126, 127, 128, 129, 300}
AppendSizesG == {0, 1, 31, 32, 33, 129, IM - 1, -1}
MemsetOffsG == {-1, 0, 5, 32, 40, IM - 5}
MemsetLensG == {0, 1, 27, 33, IM - 3, -1}
SprintfSizesG == {0, 127, 128, 300}
====
