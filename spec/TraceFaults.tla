---- MODULE TraceFaults ----
(* Trace specification for C08 (the Faults overlay on every allocating operation): for each
   workload the fault-free run ("clean") succeeds, leaves the caller's other objects alone and
   leaks nothing; each run with one (or two) failing allocation(s) ("fault") ends either with the
   normal result - identical to the fault-free result: never truncated or otherwise different
   text / tree - or with a failure through the documented channel; in both cases the objects the
   caller still owns are unchanged (on success: except the one the operation is meant to change)
   and, after releasing what was returned, nothing stays allocated. *)
EXTENDS Naturals, Integers, Sequences, TLC, Json, IOUtils
VARIABLES st, l
CleanOk(r) == r.status = 0 /\ r.pre_ok /\ r.leak = 0 /\ r.n >= 0
FaultOk(r) == /\ (r.status = 0 /\ r.same) \/ (r.status = 1 /\ r.hit)
              /\ r.pre_ok /\ r.leak = 0
\* "pfault": a generated document parsed (in one call or in chunks) with the k-th allocation request failing: the
\* outcome is the fault-free outcome (status, value, end position) or - only when the failure was really delivered -
\* no value with the out-of-memory status; after the parser and the value are released nothing remains allocated
PFaultOk(r) == /\ r.leak = 0
               /\ \/ r.got = r.clean
                  \/ (r.hit /\ r.got.st = "memory" /\ r.got.val.t = "none")
StepOfImpl(s, r) == [ok |-> IF r.e = "clean" THEN CleanOk(r) ELSE IF r.e = "fault" THEN FaultOk(r) ELSE IF r.e = "pfault" THEN PFaultOk(r) ELSE FALSE, st |-> s]
TraceLog == ndJsonDeserialize(IOEnv.TRACE)
T == INSTANCE TraceBase WITH Log <- TraceLog, InitSt <- 0, StepOf <- StepOfImpl, ResyncAtNew <- FALSE
Spec == T!Spec
Done == T!Done
====
