---- MODULE TraceTokSplit ----
(* Trace specification for C03.  Each event records, for a text cut into chunks, the outcome of the
   chunked run of the real parser (calls continue only while the previous call reported
   "continue") and the outcome of ONE call of a fresh real parser on exactly the same bytes.
   Alarming: the two outcomes (status / error code, value, end position from the start) must be
   equal - C03 is a relation between two runs of the implementation.
   "stream" events: several documents in one buffer parsed by ONE parser resumed at the reported
   end position (no reset), the buffer ending with the terminating NUL, chunked against unchunked:
   when the unchunked loop sees a clean stream (Tokener!StreamClean) the chunked loop yields the same
   statuses, values and error positions (Tokener!StreamNorm), and for generated streams of valid
   documents in a mode that tolerates trailing bytes, document i of the stream yields the value a
   fresh parser gives for document i alone.
   Informational (MECH lines, never a mismatch): the Tokener module's prediction for the chunked
   run, folded over the chunks, agrees with the recorded outcome. *)
EXTENDS Naturals, Integers, Sequences, TLC, Json, IOUtils
VARIABLES st, l
TK == INSTANCE Tokener WITH AsFound <- {}
FlagsOf(i) == CASE i = 0 -> TK!Flags(FALSE, FALSE, FALSE) [] i = 1 -> TK!Flags(TRUE, FALSE, FALSE)
                [] i = 2 -> TK!Flags(TRUE, TRUE, FALSE) [] i = 3 -> TK!Flags(FALSE, FALSE, TRUE) [] OTHER -> TK!Flags(TRUE, FALSE, TRUE)
\* chunk k (1-based) of the text for the cut positions
Chunk(text, cuts, k) == SubSeq(text, (IF k = 1 THEN 0 ELSE cuts[k - 1]) + 1, IF k > Len(cuts) THEN Len(text) ELSE cuts[k])
RECURSIVE RunChunks(_, _, _, _, _)
\* returns [tok, base]: the tokener after the last call made, base = text offset where that call started
RunChunks(tok, text, cuts, k, base) ==
    LET t1 == TK!Call(tok, Chunk(text, cuts, k)) IN
    IF t1.err = "continue" /\ k <= Len(cuts) THEN RunChunks(t1, text, cuts, k + 1, IF k > Len(cuts) THEN base ELSE cuts[k])
    ELSE [tok |-> t1, base |-> base]
Predict(r) == LET x == RunChunks(TK!Fresh(r.depth, FlagsOf(r.fl)), r.text, r.cuts, 1, 0)
              IN [st |-> x.tok.err, val |-> x.tok.ret, end |-> x.base + x.tok.off]
MechAgrees(r) == Predict(r) = r.got
StreamMech(r) == TK!Stream(TK!Fresh(r.depth, FlagsOf(r.fl)), r.text, r.cuts) = r.got
\* the recorded outcome lists in the shape of Tokener!Stream's ([st, val, end])
AllOk(a, i) == \A j \in 1..i : a[j].st = "success"
StreamOk(r) ==
    \* (a chunked run that stopped early on an error was given only r.given bytes: the single-document relation covers it)
    /\ (r.given = Len(r.text) /\ TK!StreamClean(r.ref, Len(r.text))) => TK!StreamNorm(r.got) = TK!StreamNorm(r.ref)
    /\ (r.clean /\ Len(r.alone) > 0 /\ r.fl \in {0, 2, 3}) =>
          /\ AllOk(r.alone, Len(r.alone)) => (Len(r.ref) = Len(r.alone) + 1 /\ TK!StreamClean(r.ref, Len(r.text)))
          /\ \A i \in 1..Len(r.alone) : AllOk(r.alone, i) =>
                 (Len(r.ref) >= i /\ r.ref[i].st = "success" /\ r.ref[i].val = r.alone[i].val /\ r.ref[i].end >= r.alone[i].end)
StepOfImpl(s, r) ==
    IF r.e = "stream" THEN [ok |-> StreamOk(r) /\ (Len(r.text) > 1500 \/ StreamMech(r) \/ PrintT(<<"MECH", l>>)), st |-> s]
    \* (the informational prediction is skipped for texts of several KiB: folding the transcription over them costs minutes)
    ELSE [ok |-> r.ref = r.got /\ (Len(r.text) > 1500 \/ MechAgrees(r) \/ PrintT(<<"MECH", l>>)), st |-> s]
TraceLog == ndJsonDeserialize(IOEnv.TRACE)
T == INSTANCE TraceBase WITH Log <- TraceLog, InitSt <- 0, StepOf <- StepOfImpl, ResyncAtNew <- FALSE
Spec == T!Spec
Done == T!Done
====
