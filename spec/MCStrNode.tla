---- MODULE MCStrNode ----
EXTENDS StrNode
====
