---- MODULE TraceVisit ----
(* Trace specification for C17: one event per real json_c_visit run - the tree, the recorded
   calls with the codes the callback returned, the final result.  The reference traversal
   (Visit!Abs machine) is run over the recorded codes: every recorded call must be the call the
   reference expects next, the traversal must end exactly when the reference ends, and the
   result must be the reference's. *)
EXTENDS Naturals, Integers, Sequences, TLC, Json, IOUtils, Functions, SequencesExt
VARIABLES st, l
V == INSTANCE Visit
\* "vdeep": a chain of n containers around one scalar (see the harness): by the traversal of Visit.tla a callback that
\* always continues is called 2n+1 times and the result is 0; one that reports an error at the scalar is called n+1
\* times and the result is -1 - for every n, however large
DeepOk(r) == r.calls = 2 * r.n + 1 /\ r.ret = 0 /\ r.calls_err = r.n + 1 /\ r.ret_err = -1
StepOfImpl(s, r) ==
    IF r.e = "vdeep" THEN [ok |-> DeepOk(r), st |-> 0] ELSE
    LET t == r.nodes
        fin == FoldLeft(LAMBDA acc, c : V!RunStep(t, acc, c), V!AInit(t), r.calls)
    IN [ok |-> r.ncalls = Len(r.calls) /\ fin.mode = "done" /\ fin.res = r.ret, st |-> 0]
TraceLog == ndJsonDeserialize(IOEnv.TRACE)
T == INSTANCE TraceBase WITH Log <- TraceLog, InitSt <- 0, StepOf <- StepOfImpl, ResyncAtNew <- FALSE
Spec == T!Spec
Done == T!Done
====
