---- MODULE MCPatchAlias_TTrace_1791161312 ----
EXTENDS Sequences, TLCExt, MCPatchAlias, Toolbox, Naturals, TLC

_expression ==
    LET MCPatchAlias_TEExpression == INSTANCE MCPatchAlias_TEExpression
    IN MCPatchAlias_TEExpression!expression
----

_trace ==
    LET MCPatchAlias_TETrace == INSTANCE MCPatchAlias_TETrace
    IN MCPatchAlias_TETrace!trace
----

_inv ==
    ~(
        TLCGet("level") = Len(_TETrace)
        /\
        nextid = (50)
        /\
        nops = (1)
        /\
        heap = ((1 :> [kind |-> "o", keys |-> <<<<97>>, <<108>>, <<111>>>>, kids |-> <<2, 4, 20>>] @@ 2 :> [kind |-> "o", keys |-> <<<<120>>>>, kids |-> <<3>>] @@ 3 :> [kind |-> "l", keys |-> <<>>, kids |-> <<>>] @@ 4 :> [kind |-> "a", keys |-> <<>>, kids |-> <<5>>] @@ 5 :> [kind |-> "l", keys |-> <<>>, kids |-> <<>>] @@ 20 :> [kind |-> "o", keys |-> <<<<112>>>>, kids |-> <<21>>] @@ 21 :> [kind |-> "l", keys |-> <<>>, kids |-> <<>>] @@ 22 :> [kind |-> "l", keys |-> <<>>, kids |-> <<>>] @@ 23 :> [kind |-> "a", keys |-> <<>>, kids |-> <<24>>] @@ 24 :> [kind |-> "l", keys |-> <<>>, kids |-> <<>>]))
    )
----

_init ==
    /\ heap = _TETrace[1].heap
    /\ nops = _TETrace[1].nops
    /\ nextid = _TETrace[1].nextid
----

_next ==
    /\ \E i,j \in DOMAIN _TETrace:
        /\ \/ /\ j = i + 1
              /\ i = TLCGet("level")
        /\ heap  = _TETrace[i].heap
        /\ heap' = _TETrace[j].heap
        /\ nops  = _TETrace[i].nops
        /\ nops' = _TETrace[j].nops
        /\ nextid  = _TETrace[i].nextid
        /\ nextid' = _TETrace[j].nextid

\* Uncomment the ASSUME below to write the states of the error trace
\* to the given file in Json format. Note that you can pass any tuple
\* to `JsonSerialize`. For example, a sub-sequence of _TETrace.
    \* ASSUME
    \*     LET J == INSTANCE Json
    \*         IN J!JsonSerialize("MCPatchAlias_TTrace_1791161312.json", _TETrace)

=============================================================================

 Note that you can extract this module `MCPatchAlias_TEExpression`
  to a dedicated file to reuse `expression` (the module in the 
  dedicated `MCPatchAlias_TEExpression.tla` file takes precedence 
  over the module `MCPatchAlias_TEExpression` below).

---- MODULE MCPatchAlias_TEExpression ----
EXTENDS Sequences, TLCExt, MCPatchAlias, Toolbox, Naturals, TLC

expression == 
    [
        \* To hide variables of the `MCPatchAlias` spec from the error trace,
        \* remove the variables below.  The trace will be written in the order
        \* of the fields of this record.
        heap |-> heap
        ,nops |-> nops
        ,nextid |-> nextid
        
        \* Put additional constant-, state-, and action-level expressions here:
        \* ,_stateNumber |-> _TEPosition
        \* ,_heapUnchanged |-> heap = heap'
        
        \* Format the `heap` variable as Json value.
        \* ,_heapJson |->
        \*     LET J == INSTANCE Json
        \*     IN J!ToJson(heap)
        
        \* Lastly, you may build expressions over arbitrary sets of states by
        \* leveraging the _TETrace operator.  For example, this is how to
        \* count the number of times a spec variable changed up to the current
        \* state in the trace.
        \* ,_heapModCount |->
        \*     LET F[s \in DOMAIN _TETrace] ==
        \*         IF s = 1 THEN 0
        \*         ELSE IF _TETrace[s].heap # _TETrace[s-1].heap
        \*             THEN 1 + F[s-1] ELSE F[s-1]
        \*     IN F[_TEPosition - 1]
    ]

=============================================================================



Parsing and semantic processing can take forever if the trace below is long.
 In this case, it is advised to uncomment the module below to deserialize the
 trace from a generated binary file.

\*
\*---- MODULE MCPatchAlias_TETrace ----
\*EXTENDS IOUtils, MCPatchAlias, TLC
\*
\*trace == IODeserialize("MCPatchAlias_TTrace_1791161312.bin", TRUE)
\*
\*=============================================================================
\*

---- MODULE MCPatchAlias_TETrace ----
EXTENDS MCPatchAlias, TLC

trace == 
    <<
    ([nextid |-> 50,nops |-> 0,heap |-> (1 :> [kind |-> "o", keys |-> <<<<97>>, <<108>>>>, kids |-> <<2, 4>>] @@ 2 :> [kind |-> "o", keys |-> <<<<120>>>>, kids |-> <<3>>] @@ 3 :> [kind |-> "l", keys |-> <<>>, kids |-> <<>>] @@ 4 :> [kind |-> "a", keys |-> <<>>, kids |-> <<5>>] @@ 5 :> [kind |-> "l", keys |-> <<>>, kids |-> <<>>] @@ 20 :> [kind |-> "o", keys |-> <<<<112>>>>, kids |-> <<21>>] @@ 21 :> [kind |-> "l", keys |-> <<>>, kids |-> <<>>] @@ 22 :> [kind |-> "l", keys |-> <<>>, kids |-> <<>>] @@ 23 :> [kind |-> "a", keys |-> <<>>, kids |-> <<24>>] @@ 24 :> [kind |-> "l", keys |-> <<>>, kids |-> <<>>])]),
    ([nextid |-> 50,nops |-> 1,heap |-> (1 :> [kind |-> "o", keys |-> <<<<97>>, <<108>>, <<111>>>>, kids |-> <<2, 4, 20>>] @@ 2 :> [kind |-> "o", keys |-> <<<<120>>>>, kids |-> <<3>>] @@ 3 :> [kind |-> "l", keys |-> <<>>, kids |-> <<>>] @@ 4 :> [kind |-> "a", keys |-> <<>>, kids |-> <<5>>] @@ 5 :> [kind |-> "l", keys |-> <<>>, kids |-> <<>>] @@ 20 :> [kind |-> "o", keys |-> <<<<112>>>>, kids |-> <<21>>] @@ 21 :> [kind |-> "l", keys |-> <<>>, kids |-> <<>>] @@ 22 :> [kind |-> "l", keys |-> <<>>, kids |-> <<>>] @@ 23 :> [kind |-> "a", keys |-> <<>>, kids |-> <<24>>] @@ 24 :> [kind |-> "l", keys |-> <<>>, kids |-> <<>>])])
    >>
----


=============================================================================

---- CONFIG MCPatchAlias_TTrace_1791161312 ----
CONSTANTS
    MUT = { "share_value" }
    MaxOps = 3

INVARIANT
    _inv

CHECK_DEADLOCK
    \* CHECK_DEADLOCK off because of PROPERTY or INVARIANT above.
    FALSE

INIT
    _init

NEXT
    _next

CONSTANT
    _TETrace <- _trace

ALIAS
    _expression
=============================================================================
\* Generated on Mon Oct 05 00:48:34 UTC 2026