---- MODULE MCTokStream ----
(* C03, streams (TLC): every text over a sub-alphabet up to MaxLen, parsed as a stream of documents by
   one tokener resumed at the reported end position (Tokener!Stream): for every single cut and every
   pair of cuts the sequence of outcomes (Tokener!StreamNorm: statuses, values, error positions) equals that
   of the unchunked loop.  Texts are built byte by byte (one state per text); the invariant folds the real
   transcription over each chunking of the text. *)
EXTENDS Tokener
CONSTANTS Alphabet, MaxLen, FlagSets, TwoCuts
VARIABLES txt, fl
vars == <<txt, fl>>
FlagsOf(i) == CASE i = 0 -> Flags(FALSE, FALSE, FALSE) [] i = 1 -> Flags(TRUE, FALSE, FALSE)
                [] i = 2 -> Flags(TRUE, TRUE, FALSE) [] i = 3 -> Flags(FALSE, FALSE, TRUE) [] OTHER -> Flags(TRUE, FALSE, TRUE)
Init == txt = <<>> /\ fl \in FlagSets
Next == \E c \in Alphabet : Len(txt) < MaxLen /\ txt' = Append(txt, c) /\ UNCHANGED fl
Spec == Init /\ [][Next]_vars
F0 == Fresh(3, FlagsOf(fl))
\* the buffer ends with the terminating NUL (so that "nothing pending" and "inside a document" are told apart at the end)
Z == Append(txt, 0)
WholeRaw == Stream(F0, Z, <<>>)
Whole == StreamNorm(WholeRaw)
CutInvisible == StreamClean(WholeRaw, Len(Z)) =>
                /\ \A p \in 1..(Len(Z) - 1) : StreamNorm(Stream(F0, Z, <<p>>)) = Whole
                /\ TwoCuts => \A p \in 1..(Len(Z) - 1) : \A q \in (p + 1)..(Len(Z) - 1) : StreamNorm(Stream(F0, Z, <<p, q>>)) = Whole
\* C04: no call of the stream returns while a completed value is held only by the call's locals (it would be leaked, and
\* neither json_tokener_reset nor json_tokener_free could release it)
NothingLost == \A i \in 1..Len(WholeRaw) : ~WholeRaw[i].lost
\* anti-vacuity: some stream in the space really has several documents
SomeStream == ~(StreamClean(WholeRaw, Len(Z)) /\ Len(Whole) >= 4)
====
