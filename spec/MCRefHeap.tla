---- MODULE MCRefHeap ----
(* bounded client for RefHeap: every sequence of ownership-respecting calls over at most MaxN live
   nodes, Keys, small indices; node ids are the least free id (as in the harness). *)
EXTENDS RefHeap
CONSTANTS MaxN, Keys, MaxHeld, MaxKids, Ops, MaxIdx
VARIABLES h, last
vars == <<h, last>>
Ids == 1..MaxN
Free == Ids \ Live(h)
LeastFree == CHOOSE x \in Free : \A y \in Free : x <= y
Base == [op |-> "none", a |-> 0, b |-> 0, k |-> 0, i |-> 0, cnt |-> 0, kind |-> "l", tok |-> 0, deflt |-> 0,
         newids |-> <<>>, path |-> <<>>, from |-> <<>>, ret |-> 0, dead |-> {}, fired |-> {}]
Held == {x \in Live(h) : h.n[x].held > 0}
Givable == Held \cup {0}
RECURSIVE FreeSeq(_, _)
FreeSeq(S, k) == IF k = 0 THEN <<>> ELSE LET x == CHOOSE y \in S : \A z \in S : y <= z IN <<x>> \o FreeSeq(S \ {x}, k - 1)
Tok(a) == IF h.n[a].ud = a + 10 THEN a + 20 ELSE a + 10
KidAt(a, k, i) == LET nd == h.n[a] IN
                  IF nd.kind = "o" THEN (IF KeyPos(nd, k) = 0 THEN 0 ELSE nd.kids[KeyPos(nd, k)])
                  ELSE IF nd.kind = "a" THEN (IF i < Len(nd.kids) THEN nd.kids[i + 1] ELSE 0) ELSE 0
AllCands ==
    (IF Free # {} THEN {[Base EXCEPT !.op = "new", !.a = LeastFree, !.kind = kd, !.tok = LeastFree] : kd \in {"o", "a", "l"}} ELSE {})
    \cup {[Base EXCEPT !.op = "get", !.a = a] : a \in Held}
    \cup {[Base EXCEPT !.op = "put", !.a = a] : a \in Held}
    \cup {[Base EXCEPT !.op = op, !.a = a, !.b = b, !.k = k] : op \in {"oadd", "oaddnew"}, a \in Held, b \in Givable, k \in Keys}
    \cup {[Base EXCEPT !.op = "odel", !.a = a, !.k = k] : a \in Held, k \in Keys}
    \cup {[Base EXCEPT !.op = "aadd", !.a = a, !.b = b] : a \in Held, b \in Givable}
    \cup {[Base EXCEPT !.op = op, !.a = a, !.b = b, !.i = i] : op \in {"aput", "ains"}, a \in Held, b \in Givable, i \in 0..MaxIdx}
    \cup {[Base EXCEPT !.op = "adel", !.a = a, !.i = i, !.cnt = n] : a \in Held, i \in 0..MaxIdx, n \in 1..(MaxIdx + 1)}
    \cup {[Base EXCEPT !.op = "borrow", !.a = a, !.k = k, !.i = i, !.b = KidAt(a, k, i)] : a \in Held, k \in Keys, i \in 0..1}
    \cup {[Base EXCEPT !.op = "setud", !.a = a, !.tok = Tok(a)] : a \in Held}
    \cup {[Base EXCEPT !.op = "copy", !.a = a, !.deflt = d, !.newids = FreeSeq(Free, TreeSize(h, a))] :
             a \in {x \in Held : TreeSize(h, x) <= Cardinality(Free)}, d \in {0, 1}}
    \cup {[Base EXCEPT !.op = "ptrset", !.a = a, !.b = b, !.path = p] : a \in Held, b \in Givable,
             p \in {<<[t |-> "k", v |-> 1]>>, <<[t |-> "i", v |-> 0]>>, <<[t |-> "-", v |-> 0]>>,
                    <<[t |-> "k", v |-> 1], [t |-> "i", v |-> 0]>>, <<[t |-> "i", v |-> 0], [t |-> "k", v |-> 1]>>}}
PatchPaths == {<<[t |-> "k", v |-> 1]>>, <<[t |-> "i", v |-> 0]>>, <<[t |-> "i", v |-> 1]>>, <<[t |-> "-", v |-> 0]>>,
               <<[t |-> "k", v |-> 1], [t |-> "k", v |-> 1]>>, <<[t |-> "k", v |-> 1], [t |-> "i", v |-> 0]>>,
               <<[t |-> "i", v |-> 0], [t |-> "k", v |-> 1]>>}
PatchCands ==
    {[Base EXCEPT !.op = "premove", !.a = a, !.path = p] : a \in Held, p \in PatchPaths}
    \cup {[Base EXCEPT !.op = "pmove", !.a = a, !.path = p, !.from = f] : a \in Held, p \in PatchPaths, f \in PatchPaths}
Cands == {c \in AllCands \cup PatchCands : c.op \in Ops}
Init == h = [n |-> <<>>] /\ last = Base
Next == \E c \in Cands : LET r == Apply(h, c) IN
            /\ r.ok /\ h' = r.h
            /\ last' = [c EXCEPT !.ret = r.ret, !.dead = r.dead, !.fired = r.fired]
Spec == Init /\ [][Next]_vars
Bound == /\ \A x \in Live(h) : h.n[x].held <= MaxHeld /\ Len(h.n[x].kids) <= MaxKids
HView == h
Inv == RcConsistent(h) /\ NoDangling(h) /\ AliveIffOwned(h) /\ Positive(h)
\* put reports 'freed' exactly when the node died in that call; a failed call destroys nothing
PutReport == [][(last'.op = "put") => ((last'.ret = 1) <=> (last'.a \notin Live(h')))]_vars
\* (a patch applied in place is documented to leave the document partially modified on failure)
FailureKeeps == [][(last'.ret = -1 /\ last'.op # "pmove") => (h' = h /\ last'.dead = {})]_vars
\* move relocates: it never destroys or creates the moved value, only a value it replaces or, on failure, loses
MoveKeepsIdentity == [][(last'.op = "pmove" /\ last'.ret = 0) => Cardinality(last'.dead) <= Cardinality(Live(h)) - Cardinality(Live(h'))]_vars
\* nothing is destroyed while still owned, everything destroyed was alive
DeadWasLive == [][last'.dead \subseteq Live(h) /\ last'.dead \cap Live(h') = {}]_vars
====
