---- MODULE OrderedMap ----
(* Abs layer for C06: a JSON object is an insertion-ordered map.
   State: om = sequence of [k, v] with unique keys.  A replaced key keeps its position, a deleted
   and re-added key goes to the end.  XxxStep(om, c) = [ok, om']: whether the recorded call c
   (arguments + results) is possible from om, and the resulting map. *)
EXTENDS Naturals, Integers, Sequences, FiniteSets
VARIABLES om, call
Yes(m) == [ok |-> TRUE, om |-> m]
No(m) == [ok |-> FALSE, om |-> m]
KeysOf(m) == [i \in 1..Len(m) |-> m[i].k]
ValsOf(m) == [i \in 1..Len(m) |-> m[i].v]
Has(m, k) == \E i \in 1..Len(m) : m[i].k = k
ValOf(m, k) == IF Has(m, k) THEN (CHOOSE i \in 1..Len(m) : m[i].k = k) ELSE 0
Get(m, k) == IF Has(m, k) THEN m[ValOf(m, k)].v ELSE -1          \* values are naturals; -1 = absent
Put(m, k, v) == IF Has(m, k) THEN [i \in 1..Len(m) |-> IF m[i].k = k THEN [k |-> k, v |-> v] ELSE m[i]]
                ELSE Append(m, [k |-> k, v |-> v])
Remove(m, ks) == SelectSeq(m, LAMBDA e : e.k \notin ks)
Unique(m) == \A i, j \in 1..Len(m) : m[i].k = m[j].k => i = j

\* add / add_ex: c = [k, v, ret]; succeeds - unless the harness made an allocation request of this very call fail
\* (c.fault = 1: the failure was actually delivered): then it may report -1 and the map is as it was (C08 on every
\* history the model generates)
FaultOf(c) == IF "fault" \in DOMAIN c THEN c.fault ELSE 0
Refused(m, c) == IF c.ret = -1 /\ FaultOf(c) = 1 THEN Yes(m) ELSE No(m)
AddStep(m, c) == IF c.ret = 0 THEN Yes(Put(m, c.k, c.v)) ELSE Refused(m, c)
\* add with the KEY_IS_NEW promise: only legal when the key is absent
AddNewStep(m, c) == IF ~Has(m, c.k) THEN (IF c.ret = 0 THEN Yes(Append(m, [k |-> c.k, v |-> c.v])) ELSE Refused(m, c)) ELSE No(m)
\* delete: c = [k, ret] ; ret = 0 iff the key was present (-1 otherwise), map without k
DelStep(m, c) == IF (c.ret = 0) = Has(m, c.k) /\ c.ret \in {0, -1} THEN Yes(Remove(m, {c.k})) ELSE No(m)
\* lookup: c = [k, v] ; v = -1 when absent
GetStep(m, c) == IF c.v = Get(m, c.k) THEN Yes(m) ELSE No(m)
\* foreach with deletion of the current key when it belongs to c.ks; c.visited = keys seen by the loop body
ForeachDelStep(m, c) == IF c.visited = KeysOf(m) THEN Yes(Remove(m, {c.ks[i] : i \in 1..Len(c.ks)})) ELSE No(m)

\* any read-only traversal (visitor): c.ret = 0, state unchanged; what it saw is checked as an observation
VisitStep(m, c) == IF c.ret = 0 THEN Yes(m) ELSE No(m)

\* lh_table_resize with a caller-chosen capacity (c.v): never visible in the map; may fail only on a failed allocation
ResizeStep(m, c) == IF c.ret = 0 THEN Yes(m) ELSE Refused(m, c)

CallStep(m, c) ==
    IF c.op = "add" THEN AddStep(m, c)
    ELSE IF c.op = "addnew" THEN AddNewStep(m, c)
    ELSE IF c.op = "del" THEN DelStep(m, c)
    ELSE IF c.op = "get" THEN GetStep(m, c)
    ELSE IF c.op = "fdel" THEN ForeachDelStep(m, c)
    ELSE IF c.op = "visit" THEN VisitStep(m, c)
    ELSE IF c.op = "resize" THEN ResizeStep(m, c)
    ELSE No(m)

Init == om = <<>>
Next == LET r == CallStep(om, call') IN r.ok /\ om' = r.om
Spec == Init /\ [][Next]_<<om, call>>
====
