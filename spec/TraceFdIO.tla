---- MODULE TraceFdIO ----
(* Trace specification for C20.  "tofd": the serialization text, the script of per-call write
   outcomes (n > 0: at most n bytes are accepted, 0: everything, -1: the call fails) and what
   arrived in the file.  FdIO!WriteRun over the script decides: success (ret 0) exactly when no
   failing call is reached, then delivered = text, once, in order; on failure ret = -1, a write
   error message is retrievable, and what arrived is the prefix written before the failure.
   "fromfd": FdIO!ReadRun decides whether a read failed before the end of the data (then: no value,
   read error message); otherwise the result equals the one-call memory parse of the same bytes
   with the same depth (value and all), a parse failure leaves a parse error message, depth < 1 an
   allocation message; no allocation survives any call. *)
EXTENDS Naturals, Integers, Sequences, TLC, Json, IOUtils
VARIABLES st, l
F == INSTANCE FdIO WITH MUTF <- {}
Ramp(n) == [i \in 1..n |-> i % 251]
ToFdOk(r) ==
    LET long == r.textlen > 3000
        text == IF long THEN Ramp(r.textlen) ELSE r.text
        w == F!WriteRun(text, r.script \o <<0>>)       \* after the script, calls transfer everything
    IN /\ r.leak = 0
       /\ IF w.st = "ok" THEN r.ret = 0 /\ r.dlen = r.textlen /\ r.prefix_ok /\ (long \/ r.delivered = r.text)
          ELSE r.ret = -1 /\ r.errcls = "write" /\ r.dlen = Len(w.out) /\ r.prefix_ok /\ (long \/ r.delivered = SubSeq(r.text, 1, Len(w.out)))
FromFdOk(r) ==
    LET data == IF r.blen > 3000 THEN Ramp(r.blen) ELSE r.bytes
        rd == F!ReadRun(data, 4096, r.script \o [i \in 1..((r.blen \div 4096) + 2) |-> 0])
    IN /\ r.leak = 0
       /\ IF r.depth = 0 THEN ~r.got_value /\ r.errcls = "alloc"
          ELSE IF rd.st = "err" THEN ~r.got_value /\ r.errcls = "read"
          ELSE IF r.mem_ok THEN (IF r.mem_null_value THEN ~r.got_value ELSE r.got_value /\ r.equal /\ r.val = r.mem)
          ELSE ~r.got_value /\ r.errcls = "parse"
OpenOk(r) == ~r.got_value /\ r.errcls = "open" /\ r.ret = -1 /\ r.errcls2 = "open" /\ r.ret_null = -1 /\ r.leak = 0
StepOfImpl(s, r) == [ok |-> CASE r.e = "tofd" -> ToFdOk(r) [] r.e = "fromfd" -> FromFdOk(r) [] r.e = "open" -> OpenOk(r) [] OTHER -> FALSE, st |-> s]
TraceLog == ndJsonDeserialize(IOEnv.TRACE)
T == INSTANCE TraceBase WITH Log <- TraceLog, InitSt <- 0, StepOf <- StepOfImpl, ResyncAtNew <- FALSE
Spec == T!Spec
Done == T!Done
====
