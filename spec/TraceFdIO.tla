---- MODULE TraceFdIO ----
(* Trace specification for C20.  "tofd": the serialization text, the script of per-call write
   outcomes (n > 0: at most n bytes are accepted, 0: everything, -1: the call fails), how many
   failures were actually returned to the library (err_hit) and what arrived in the file: success
   (ret 0) exactly when no write failed, then delivered = text, once, in order; after a failed
   write ret = -1, a write error message is retrievable, and what arrived is a prefix of the text.
   "fromfd": when a read failed: no value, read error message; otherwise the result equals the
   one-call memory parse of the same bytes with the same depth (value and all), a parse failure
   leaves a parse error message, depth < 1 an allocation message; no allocation survives any call.
   How many read()/write() calls json-c makes and with which sizes is not prescribed (a different
   buffer size conforms): the verdict uses the failures actually delivered to the library; the loop
   structure itself (FdIO.tla, json-c's present 4096-byte loops) is model-checked by MCFdIO. *)
EXTENDS Naturals, Integers, Sequences, TLC, Json, IOUtils
VARIABLES st, l
NoFailure(script) == \A i \in 1..Len(script) : script[i] >= 0
ToFdOk(r) ==
    LET long == r.textlen > 3000
    IN /\ r.leak = 0
       /\ NoFailure(r.script) => r.err_hit = 0
       /\ IF r.err_hit = 0 THEN r.ret = 0 /\ r.dlen = r.textlen /\ r.prefix_ok /\ (long \/ r.delivered = r.text)
          ELSE r.ret = -1 /\ r.errcls = "write" /\ r.prefix_ok /\ r.dlen <= r.textlen
FromFdOk(r) ==
    /\ r.leak = 0
    /\ NoFailure(r.script) => r.err_hit = 0
    /\ IF r.depth = 0 THEN ~r.got_value /\ r.errcls = "alloc"
       ELSE IF r.err_hit > 0 THEN ~r.got_value /\ r.errcls = "read"
       ELSE IF r.mem_ok THEN (IF r.mem_null_value THEN ~r.got_value ELSE r.got_value /\ r.equal /\ r.val = r.mem)
       ELSE ~r.got_value /\ r.errcls = "parse"
OpenOk(r) == ~r.got_value /\ r.errcls = "open" /\ r.ret = -1 /\ r.errcls2 = "open" /\ r.ret_null = -1 /\ r.leak = 0
\* a readable file read while descriptor 0 was free: the value is there and the descriptor was closed again
Fd0Ok(r) == r.got_value /\ r.len = 3 /\ r.closed_again
StepOfImpl(s, r) == [ok |-> CASE r.e = "fd0" -> Fd0Ok(r) [] r.e = "tofd" -> ToFdOk(r) [] r.e = "fromfd" -> FromFdOk(r) [] r.e = "open" -> OpenOk(r) [] OTHER -> FALSE, st |-> s]
TraceLog == ndJsonDeserialize(IOEnv.TRACE)
T == INSTANCE TraceBase WITH Log <- TraceLog, InitSt <- 0, StepOf <- StepOfImpl, ResyncAtNew <- FALSE
Spec == T!Spec
Done == T!Done
====
