---- MODULE MCFdIO ----
(* C20 (TLC): every schedule of per-call transfer sizes (1 .. whole remainder) and failures for
   texts up to MaxLen bytes (write side), and for a set of small documents on the read side with
   the tokener transcription as the memory parser. *)
EXTENDS FdIO, TLC
CONSTANTS MaxLen, Buf
VARIABLES mode, text, sched, depth
TK == INSTANCE Tokener WITH AsFound <- {}
Docs == { <<91, 49, 93>>, <<49, 50>>, <<123, 34, 97, 34, 58, 49, 125>>, <<91, 49, 44>>, <<91, 91, 49, 93, 93>>, <<>>, <<34, 97, 34>>, <<110, 117>> }
Init == /\ mode \in {"w", "r"} /\ sched = <<>>
        /\ IF mode = "w" THEN \E n \in 0..MaxLen : text = [i \in 1..n |-> i] /\ depth = 0
           ELSE text \in Docs /\ depth \in {1, 2, 32}
Next == /\ Len(sched) < MaxLen + 1 /\ \E s \in (1..MaxLen) \cup {-5} : sched' = Append(sched, s)
        /\ UNCHANGED <<mode, text, depth>>
Spec == Init /\ [][Next]_<<mode, text, sched, depth>>
\* write: delivered is always a prefix; complete and exact on success; an error is reported iff a write failed before completion
WriteExact == mode = "w" =>
    LET w == WriteRun(text, sched) IN
    /\ w.out = SubSeq(text, 1, Len(w.out))
    /\ w.st = "ok" => w.out = text
    /\ w.st = "err" => Len(w.out) < Len(text)
\* read: whatever the schedule, the one parse sees exactly the bytes read; with no error that is the whole data
MemParse(bytes, d) == TK!Outcome(TK!Call(TK!Fresh(d, TK!Flags(FALSE, FALSE, FALSE)), bytes))
FdParse(r, d) == IF "parse_per_read" \in MUTF
                 THEN (LET RECURSIVE P(_, _)
                           P(tok, i) == IF i > Len(r.chunks) THEN tok
                                        ELSE LET t1 == TK!Call(tok, r.chunks[i]) IN IF t1.err = "continue" THEN P(t1, i + 1) ELSE t1
                       IN [err |-> P(TK!Fresh(d, TK!Flags(FALSE, FALSE, FALSE)), 1).err, ret |-> P(TK!Fresh(d, TK!Flags(FALSE, FALSE, FALSE)), 1).ret])
                 ELSE [err |-> MemParse(r.acc, d).err, ret |-> MemParse(r.acc, d).ret]
ReadExact == mode = "r" =>
    LET r == ReadRun(text, Buf, sched) IN
    /\ r.acc = SubSeq(text, 1, Len(r.acc))
    /\ r.st = "eof" => (r.acc = text /\ FdParse(r, depth).err = MemParse(text, depth).err /\ FdParse(r, depth).ret = MemParse(text, depth).ret)
====
