---- MODULE Bytes ----
(* Abs layer for C19: a print buffer is a byte array.  One action per public call; the call
   record (operation, arguments, observed return value) is part of the state so that the same
   operators serve (a) as the refinement target of the Mech module PrintBuf and (b) as the step
   function of the trace specification, where the record is a line of the recorded execution.
   Every XxxStep(bs, c) returns [ok, bs]: whether the call with its recorded result is possible
   from bs, and the resulting contents.
   Refusal (ret = -1, state unchanged) is mandatory when the request does not fit a non-negative
   int, permitted when the request is large enough for an allocation to fail legitimately
   (>= BigAlloc), and forbidden otherwise. *)
EXTENDS Naturals, Integers, Sequences
CONSTANTS IntMax,       \* 2^31-1 in the real system
          BigAlloc      \* sizes >= BigAlloc may be refused for lack of memory
VARIABLES bytes, call
Pat(b, step, n) == [i \in 1..n |-> (b + (i - 1) * step) % 256]
Max(a, b) == IF a > b THEN a ELSE b
No(bs) == [ok |-> FALSE, bs |-> bs]
Yes(bs) == [ok |-> TRUE, bs |-> bs]

\* (IF-shaped, not \/: inside an action TLC explores both sides of a disjunction, and the
\*  right-hand sides would overflow TLC's 32-bit integers exactly where the C guards matter)
\* c.fault = 1: the harness made an allocation request of this very call fail (and the failure was delivered): the call
\* may then be refused, the contents stay as they were (C08 on C19's histories)
FaultOf(c) == IF "fault" \in DOMAIN c THEN c.fault ELSE 0
AppendMustRefuse(bs, n) == IF n < 0 THEN TRUE ELSE n > IntMax - Len(bs) - 1
AppendMayRefuse(bs, n)  == IF AppendMustRefuse(bs, n) THEN TRUE ELSE Len(bs) + n + 1 >= BigAlloc
\* c = [n, b, step, ret]
AppendStep(bs, c) ==
    IF c.ret = c.n /\ ~AppendMustRefuse(bs, c.n) THEN Yes(bs \o Pat(c.b, c.step, c.n))
    ELSE IF c.ret = -1 /\ (IF FaultOf(c) = 1 THEN TRUE ELSE AppendMayRefuse(bs, c.n)) THEN Yes(bs)
    ELSE No(bs)

EffOff(bs, off) == IF off = -1 THEN Len(bs) ELSE off
MemsetMustRefuse(bs, off, n) == IF n < 0 \/ off < -1 THEN TRUE ELSE n > IntMax - EffOff(bs, off)
MemsetMayRefuse(bs, off, n)  == IF MemsetMustRefuse(bs, off, n) THEN TRUE ELSE EffOff(bs, off) + n >= BigAlloc
MemsetResult(bs, o, ch, n) ==
    LET newlen == Max(Len(bs), o + n)
    IN [i \in 1..newlen |-> IF i > o /\ i <= o + n THEN ch
                            ELSE IF i <= Len(bs) THEN bs[i] ELSE 0]
\* c = [off, ch, n, ret]
MemsetStep(bs, c) ==
    IF c.ret = 0 /\ ~MemsetMustRefuse(bs, c.off, c.n) THEN Yes(MemsetResult(bs, EffOff(bs, c.off), c.ch, c.n))
    ELSE IF c.ret = -1 /\ (IF FaultOf(c) = 1 THEN TRUE ELSE MemsetMayRefuse(bs, c.off, c.n)) THEN Yes(bs)
    ELSE No(bs)

ResetStep(bs, c) == Yes(<<>>)
\* a request the guards accept but whose buffer is outside the bounded Mech model (never in a trace)
OutOfModel(bs, c) == IF c.ret = -2 THEN Yes(bs) ELSE No(bs)

AppendLike == {"append", "sprintf_stack", "sprintf_heap"}
CallStep(bs, c) ==
    IF c.op \in AppendLike THEN AppendStep(bs, c)
    ELSE IF c.op = "memset" THEN MemsetStep(bs, c)
    ELSE IF c.op = "reset" THEN ResetStep(bs, c)
    ELSE No(bs)

Init == bytes = <<>>
Next == LET r == CallStep(bytes, call') o == OutOfModel(bytes, call')
        IN (r.ok /\ bytes' = r.bs) \/ (o.ok /\ bytes' = o.bs)
Spec == Init /\ [][Next]_<<bytes, call>>
====
