---- MODULE MCSerializer ----
(* C02 (TLC): for every tree of a small universe (strings with quote, backslash, slash, NUL, control,
   DEL and high bytes; integers at the 64-bit boundaries; double texts standing for printf output
   incl. exponent forms and trailing zeros; retained number texts; nested containers) and all 64
   flag combinations: the emitted text, with colour escapes removed, is RFC 8259-valid and denotes
   exactly the tree. *)
EXTENDS Serializer, TLC
VARIABLES tree, flags
I(neg, d) == [t |-> "int", neg |-> neg, d |-> d]
D(fmt) == [t |-> "double", fmt |-> fmt, ret |-> <<>>]
DR(fmt, ret) == [t |-> "double", fmt |-> fmt, ret |-> ret]
S(s) == [t |-> "string", s |-> s]
O(m) == [t |-> "object", m |-> m]
A(e) == [t |-> "array", e |-> e]
M(k, v) == [k |-> k, v |-> v]
Leaves == { [t |-> "null"], [t |-> "bool", b |-> TRUE], [t |-> "bool", b |-> FALSE],
            I(FALSE, <<0>>), I(TRUE, <<1>>), I(TRUE, <<9,2,2,3,3,7,2,0,3,6,8,5,4,7,7,5,8,0,8>>), I(FALSE, <<1,8,4,4,6,7,4,4,0,7,3,7,0,9,5,5,1,6,1,5>>),
            S(<<>>), S(<<97>>), S(<<34>>), S(<<92>>), S(<<47>>), S(<<0>>), S(<<31, 127>>), S(<<195, 169>>), S(<<97, 0, 98>>),
            D(<<48>>), D(<<53>>), D(<<45, 48>>), D(<<49, 46, 53>>), D(<<49, 46, 53, 48>>), D(<<48, 46, 49, 48, 48, 48, 48, 48, 48, 48, 48, 48, 48, 48, 48, 48, 48, 48, 49>>),
            D(<<49, 101, 43, 50, 48>>), D(<<49, 46, 53, 101, 43, 50, 48>>), D(<<49, 46, 50, 53, 48, 101, 45, 49, 48>>), D(<<49, 48, 48>>), D(<<45, 49, 46, 53, 101, 45, 48, 55>>),
            D(<<50, 46, 48, 48>>), DR(<<49, 46, 53>>, <<49, 46, 53, 48>>), DR(<<49, 46, 53>>, <<49, 53, 101, 45, 49>>) }
ka == <<97>>  kq == <<34, 47>>  ke == <<>>
Trees == Leaves \cup {A(<<>>), O(<<>>)}
         \cup {A(<<x>>) : x \in Leaves} \cup {O(<<M(kq, x)>>) : x \in Leaves}
         \cup {A(<<x, A(<<>>), O(<<M(ke, x)>>)>>) : x \in Leaves}
         \cup {O(<<M(ka, A(<<x, x>>)), M(kq, O(<<>>))>>) : x \in Leaves}
Init == tree \in Trees /\ flags \in 0..63
Next == UNCHANGED <<tree, flags>>
Spec == Init /\ [][Next]_<<tree, flags>>
ValidAndDenotes == DenotesTree(Serialize(tree, flags), tree, Flag(flags))
\* without colour there is no escape byte at all; without PRETTY no newline
NoStrayBytes == LET t == Serialize(tree, flags) IN
                (~Flag(flags).color => \A i \in 1..Len(t) : t[i] # ESC) /\ (~Flag(flags).pretty => \A i \in 1..Len(t) : t[i] # 10)
====
