---- MODULE Faults ----
(* C08 (Mech): micro-step allocation models of the library's rollback paths under an allocator that
   fails exactly once.  An operation is a program: a sequence of instructions
       [i |-> "alloc", r]   allocate resource r (may be the failing allocation)
       [i |-> "free", r]    release r
       [i |-> "link", r]    r becomes owned by a structure that outlives the call (success effect)
       [i |-> "take", r]    r was handed to the call by the caller-side state machine (e.g. the
                            parser's completed child) and is owned by the call until linked
   and for every alloc position the clean-up program run when THAT allocation fails.
   A run: choose which allocation fails (or none); execute; at return check
       NoLeak     everything allocated or taken is freed or linked
       NoPartial  a failed operation linked nothing (caller-visible state unchanged)
       NoDoubleFree
   AsFoundF switches select the clean-up programs as found at the pinned commit:
   "objadd_key_leak" (D08a), "attach_leak" (D08b), "format_dangling" (D08e: the process-wide double format is released
   before its replacement is duplicated and the pointer keeps addressing it when the duplication fails).
   [i |-> "unlink", r]: the outliving structure stops referring to r.  NoDangling: at return nothing that an outliving
   structure refers to has been freed. *)
EXTENDS Naturals, Sequences, FiniteSets, TLC
CONSTANT AsFoundF
A(r) == [i |-> "alloc", r |-> r]
F(r) == [i |-> "free", r |-> r]
L(r) == [i |-> "link", r |-> r]
T(r) == [i |-> "take", r |-> r]
U(r) == [i |-> "unlink", r |-> r]
\* json_object_object_add_ex on a table that must grow: strdup(key); lh_table_new: struct, slots;
\* re-insert; free old slots; free new struct; insert
ObjAddGrow == [prog |-> <<A("key"), A("tstruct"), A("tslots"), F("oldslots"), F("tstruct"), L("key"), L("tslots")>>,
               pre |-> {"oldslots"},
               onfail |-> [key |-> <<>>,
                           tstruct |-> IF "objadd_key_leak" \in AsFoundF THEN <<>> ELSE <<F("key")>>,
                           tslots |-> IF "objadd_key_leak" \in AsFoundF THEN <<F("tstruct")>> ELSE <<F("tstruct"), F("key")>>]]
ObjAddPlain == [prog |-> <<A("key"), L("key")>>, pre |-> {}, onfail |-> [key |-> <<>>]]
\* parser: the completed child is attached to its parent array, which has to grow
ParserAttach == [prog |-> <<T("child"), A("newelems"), L("child"), L("newelems")>>, pre |-> {},
                 onfail |-> [newelems |-> IF "attach_leak" \in AsFoundF THEN <<>> ELSE <<F("child")>>]]
\* parser: member attach = key strdup inside object_add, child taken
ParserMember == [prog |-> <<T("child"), A("key"), L("key"), L("child")>>, pre |-> {},
                 onfail |-> [key |-> IF "attach_leak" \in AsFoundF THEN <<>> ELSE <<F("child")>>]]
NewDoubleS == [prog |-> <<A("node"), A("text"), L("node"), L("text")>>, pre |-> {}, onfail |-> [node |-> <<>>, text |-> <<F("node")>>]]
NewObject == [prog |-> <<A("node"), A("tstruct"), A("tslots"), L("node"), L("tstruct"), L("tslots")>>, pre |-> {},
              onfail |-> [node |-> <<>>, tstruct |-> <<F("node")>>, tslots |-> <<F("tstruct"), F("node")>>]]
SetStringGrow == [prog |-> <<A("newbuf"), F("oldbuf"), L("newbuf")>>, pre |-> {"oldbuf"}, onfail |-> [newbuf |-> <<>>]]
TokenerNew == [prog |-> <<A("tok"), A("stack"), A("pb"), A("pbbuf"), L("tok"), L("stack"), L("pb"), L("pbbuf")>>, pre |-> {},
               onfail |-> [tok |-> <<>>, stack |-> <<F("tok")>>, pb |-> <<F("stack"), F("tok")>>, pbbuf |-> <<F("pb"), F("stack"), F("tok")>>]]
\* json_c_set_serialization_double_format(fmt, GLOBAL) over an installed format: the old text is released, the new one duplicated;
\* a failed call leaves no format installed (prelinked = what the library's global refers to before the call)
SetFormat == [prog |-> IF "format_dangling" \in AsFoundF THEN <<F("oldfmt"), A("newfmt"), U("oldfmt"), L("newfmt")>>
                       ELSE <<F("oldfmt"), U("oldfmt"), A("newfmt"), L("newfmt")>>,
              pre |-> {"oldfmt"}, prelinked |-> {"oldfmt"}, failpre |-> {}, onfail |-> [newfmt |-> <<>>]]
Ops == <<ObjAddGrow, ObjAddPlain, ParserAttach, ParserMember, NewDoubleS, NewObject, SetStringGrow, TokenerNew, SetFormat>>
PreLinked(o) == IF "prelinked" \in DOMAIN Ops[o] THEN Ops[o].prelinked ELSE {}
FailPre(o) == IF "failpre" \in DOMAIN Ops[o] THEN Ops[o].failpre ELSE Ops[o].pre

VARIABLES op, failat, pc, cleanup, held, linked, freed, status, dbl
vars == <<op, failat, pc, cleanup, held, linked, freed, status, dbl>>
Allocs(o) == {Ops[o].prog[i].r : i \in {j \in 1..Len(Ops[o].prog) : Ops[o].prog[j].i = "alloc"}}
Init == /\ op \in 1..Len(Ops) /\ failat \in Allocs(op) \cup {"none"}
        /\ pc = 1 /\ cleanup = <<>> /\ held = Ops[op].pre /\ linked = PreLinked(op) /\ freed = {} /\ status = "run" /\ dbl = FALSE
Exec(ins) == /\ held' = (CASE ins.i \in {"alloc", "take"} -> held \cup {ins.r} [] ins.i \in {"free", "link"} -> held \ {ins.r} [] OTHER -> held)
             /\ linked' = IF ins.i = "link" THEN linked \cup {ins.r} ELSE IF ins.i = "unlink" THEN linked \ {ins.r} ELSE linked
             /\ freed' = IF ins.i = "free" THEN freed \cup {ins.r} ELSE freed
             /\ dbl' = (dbl \/ (ins.i = "free" /\ (ins.r \in freed \/ ins.r \notin held)))
Step == /\ status = "run"
        /\ IF pc <= Len(Ops[op].prog)
           THEN LET ins == Ops[op].prog[pc] IN
                IF ins.i = "alloc" /\ ins.r = failat
                THEN /\ status' = "cleanup" /\ cleanup' = Ops[op].onfail[ins.r] /\ UNCHANGED <<pc, held, linked, freed, dbl>>
                ELSE /\ Exec(ins) /\ pc' = pc + 1 /\ UNCHANGED <<status, cleanup>>
           ELSE /\ status' = "ok" /\ UNCHANGED <<pc, cleanup, held, linked, freed, dbl>>
        /\ UNCHANGED <<op, failat>>
Clean == /\ status = "cleanup"
         /\ IF cleanup = <<>> THEN status' = "failed" /\ UNCHANGED <<cleanup, held, linked, freed, dbl>>
            ELSE Exec(Head(cleanup)) /\ cleanup' = Tail(cleanup) /\ UNCHANGED status
         /\ UNCHANGED <<op, failat, pc>>
Next == Step \/ Clean
Spec == Init /\ [][Next]_vars
Returned == status \in {"ok", "failed"}
\* caller-owned resources that existed before the call and were not replaced stay held by the caller: only "pre" ones may remain on failure
NoLeak == Returned => IF status = "ok" THEN held = {} ELSE held = FailPre(op)
NoPartial == status = "failed" => linked \subseteq PreLinked(op)
NoDangling == Returned => linked \cap freed = {}
NoDoubleFree == ~dbl
FailsOnlyWhenFaulted == (status = "failed") => failat # "none"
====
