---- MODULE Pointer ----
(* Abs layer for C12 (and the location semantics of C13): RFC 6901 JSON Pointer over a tree of
   identified nodes.
   A tree t is a function from node ids (positive integers) to records
       [kind ("o" object | "a" array | "l" scalar leaf), keys (Seq of byte strings), kids (Seq of ids; 0 = JSON null)]
   with a root id.  Pointers are byte strings.
     Tokens(p)    reference tokens of a pointer that is "" or starts with "/"
     Unescape(s)  "~1" -> "/", "~0" -> "~"  (one left-to-right pass = RFC 6901's "~1 first, then ~0")
     Eval(t, r, p) = [st |-> "ok", node |-> id (0 for a JSON null target), par, slot] | "notfound" | "invalid"
     Set(t, r, p, v) = [st, t]   v = id of the value node (already present in t's domain), 0 = null
   A "~" not followed by 0 or 1 makes the string no JSON Pointer at all; RFC 6901 defines no
   evaluation for it and both "fails" and "read literally" are admitted (Lenient). *)
EXTENDS Naturals, Integers, Sequences, FiniteSets
SLASH == 47  TILDE == 126  DASH == 45
IsPtrShape(p) == Len(p) = 0 \/ p[1] = SLASH
\* split p (which starts with '/') into tokens
RECURSIVE SplitFrom(_, _, _, _)
SplitFrom(p, i, cur, acc) == IF i > Len(p) THEN Append(acc, cur)
                             ELSE IF p[i] = SLASH THEN SplitFrom(p, i + 1, <<>>, Append(acc, cur))
                             ELSE SplitFrom(p, i + 1, Append(cur, p[i]), acc)
Tokens(p) == IF Len(p) = 0 THEN <<>> ELSE SplitFrom(p, 2, <<>>, <<>>)
\* well-formed escapes: every '~' is followed by '0' or '1'
WellEscaped(s) == \A i \in 1..Len(s) : s[i] = TILDE => (i < Len(s) /\ s[i + 1] \in {48, 49})
RECURSIVE UnescFrom(_, _)
UnescFrom(s, i) == IF i > Len(s) THEN <<>>
                   ELSE IF s[i] = TILDE /\ i < Len(s) /\ s[i + 1] = 49 THEN <<SLASH>> \o UnescFrom(s, i + 2)
                   ELSE IF s[i] = TILDE /\ i < Len(s) /\ s[i + 1] = 48 THEN <<TILDE>> \o UnescFrom(s, i + 2)
                   ELSE <<s[i]>> \o UnescFrom(s, i + 1)
Unescape(s) == UnescFrom(s, 1)
IsDigit(c) == c >= 48 /\ c <= 57
IsIndex(s) == Len(s) > 0 /\ (\A i \in 1..Len(s) : IsDigit(s[i])) /\ (s[1] # 48 \/ Len(s) = 1)
\* value of a canonical index token (only used when it has at most 9 digits), else a huge number
IndexVal(s) == IF Len(s) > 9 THEN 2000000000
               ELSE LET RECURSIVE V(_, _)
                        V(i, acc) == IF i > Len(s) THEN acc ELSE V(i + 1, acc * 10 + (s[i] - 48))
                    IN V(1, 0)
KeyPos(nd, k) == IF \E i \in 1..Len(nd.keys) : nd.keys[i] = k THEN CHOOSE i \in 1..Len(nd.keys) : nd.keys[i] = k ELSE 0

NotFound == [st |-> "notfound", node |-> 0, par |-> 0, slot |-> 0]
Invalid == [st |-> "invalid", node |-> 0, par |-> 0, slot |-> 0]
\* one step from node id `n` along token tk: [st, node, slot]
StepTok(t, n, tk) ==
    IF n = 0 \/ t[n].kind = "l" THEN NotFound
    ELSE IF t[n].kind = "o" THEN
        LET p == KeyPos(t[n], Unescape(tk)) IN
        IF p = 0 THEN NotFound ELSE [st |-> "ok", node |-> t[n].kids[p], par |-> n, slot |-> p]
    ELSE \* array
        IF IsIndex(tk) THEN (IF IndexVal(tk) < Len(t[n].kids)
                             THEN [st |-> "ok", node |-> t[n].kids[IndexVal(tk) + 1], par |-> n, slot |-> IndexVal(tk) + 1]
                             ELSE NotFound)
        ELSE IF tk = <<DASH>> THEN NotFound            \* the (nonexistent) element after the last one
        ELSE Invalid
RECURSIVE Walk(_, _, _, _)
Walk(t, cur, toks, i) ==
    IF i > Len(toks) THEN cur
    ELSE LET s == StepTok(t, cur.node, toks[i]) IN IF s.st # "ok" THEN s ELSE Walk(t, s, toks, i + 1)
Eval(t, r, p) ==
    IF ~IsPtrShape(p) THEN Invalid
    ELSE Walk(t, [st |-> "ok", node |-> r, par |-> 0, slot |-> 0], Tokens(p), 1)
\* the pointer string uses a '~' that starts no escape: not a JSON Pointer, evaluation left open
Lenient(p) == \E i \in 1..Len(Tokens(p)) : ~WellEscaped(Tokens(p)[i])

\* ---- set: v = id of the value (0 = null).  [st, t]; st: "ok" | "fail" | "extends" (index beyond the
\* end: json-c pads with nulls; RFC 6901 does not define it: both refusal and padding are admitted)
Nulls(k) == [i \in 1..k |-> 0]
Set(t, r, p, v) ==
    IF ~IsPtrShape(p) THEN [st |-> "fail", t |-> t]
    ELSE IF Len(p) = 0 THEN [st |-> "root", t |-> t]           \* the whole document is replaced by the value
    ELSE LET toks == Tokens(p)
             par == Walk(t, [st |-> "ok", node |-> r, par |-> 0, slot |-> 0], SubSeq(toks, 1, Len(toks) - 1), 1)
             tk == toks[Len(toks)]
         IN IF par.st # "ok" \/ par.node = 0 THEN [st |-> "fail", t |-> t]
            ELSE LET n == par.node
                     nd == t[n]
                 IN IF nd.kind = "o" THEN
                        LET k == Unescape(tk)
                            pos == KeyPos(nd, k)
                        IN IF pos = 0 THEN [st |-> "ok", t |-> [t EXCEPT ![n].keys = Append(nd.keys, k), ![n].kids = Append(nd.kids, v)]]
                           ELSE [st |-> "ok", t |-> [t EXCEPT ![n].kids[pos] = v]]
                    ELSE IF nd.kind = "a" THEN
                        IF tk = <<DASH>> THEN [st |-> "ok", t |-> [t EXCEPT ![n].kids = Append(nd.kids, v)]]
                        ELSE IF ~IsIndex(tk) THEN [st |-> "fail", t |-> t]
                        ELSE LET ix == IndexVal(tk) IN
                             IF ix < Len(nd.kids) THEN [st |-> "ok", t |-> [t EXCEPT ![n].kids[ix + 1] = v]]
                             ELSE IF ix = Len(nd.kids) THEN [st |-> "ok", t |-> [t EXCEPT ![n].kids = Append(nd.kids, v)]]
                             ELSE IF ix < 1000000 THEN [st |-> "extends", t |-> [t EXCEPT ![n].kids = nd.kids \o Nulls(ix - Len(nd.kids)) \o <<v>>]]
                             ELSE [st |-> "fail", t |-> t]
                    ELSE [st |-> "fail", t |-> t]

\* the part of t reachable from r (what a dump of the document shows)
RECURSIVE ReachSet(_, _)
ReachSet(t, n) == IF n = 0 THEN {} ELSE {n} \cup UNION {ReachSet(t, t[n].kids[i]) : i \in 1..Len(t[n].kids)}
Visible(t, r) == [n \in ReachSet(t, r) |-> t[n]]
====
