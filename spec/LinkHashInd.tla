---- MODULE LinkHashInd ----
(* C06, every table size: the size / count arithmetic of linkhash.c.  lh_table_insert_w_hash grows the table when
   count >= size * 0.66 and then probes WITHOUT a bound for an EMPTY or FREED slot - the probe ends only because a free slot
   exists, i.e. because count < size at that moment.  Tables are created with any positive size (lh_kchar_table_new(n), and
   json_object's 16) and may be resized by the user to any positive size (lh_table_resize), which re-inserts every entry into
   a new table of that size - and that table may itself grow while it is being filled.
   The re-insertion is modelled step by step (phase "rebuild": nsize / ncount of the table being filled); a growth step inside
   an insertion is an atomic doubling (with count <= size no further growth can occur while the doubled table is filled:
   100 i < 100 size <= 66 * 2 size for every i < count).  Tombstones do not count: deleting lowers count.
   IndInv (inductive, Apalache; sizes in 1..INT_MAX, any request): 0 <= count <= size and in the rebuild phase
   0 <= ncount <= nsize; `stuck` - an insertion probing a table without a free slot - never becomes true.
   Switch ResizeKeepsRequest (json-c as found, defect D06a): at the end of a user resize the table takes the REQUESTED size
   although the array it adopts is that of the table that had grown: count may exceed size - not inductive. *)
EXTENDS Integers
CONSTANTS
    \* @type: Bool;
    ResizeKeepsRequest
VARIABLES
    \* @type: Int;
    size,
    \* @type: Int;
    count,
    \* @type: Bool;
    rebuilding,
    \* @type: Int;
    nsize,
    \* @type: Int;
    ncount,
    \* @type: Int;
    req,
    \* @type: Bool;
    stuck
INTMAX == 2147483647
CInit == ResizeKeepsRequest = FALSE
CInitBad == ResizeKeepsRequest = TRUE
Init == size \in 1..INTMAX /\ count = 0 /\ rebuilding = FALSE /\ nsize = 1 /\ ncount = 0 /\ req = 1 /\ stuck = FALSE
NeedsGrowth(c, s) == 100 * c >= 66 * s
Doubled(s) == IF s > INTMAX \div 2 THEN INTMAX ELSE 2 * s
\* lh_table_insert_w_hash on the user's table (growth may be refused: size INT_MAX, or out of memory)
Insert(growOk) ==
    /\ ~rebuilding
    /\ IF NeedsGrowth(count, size)
       THEN IF size = INTMAX \/ ~growOk THEN UNCHANGED <<size, count, stuck>>                                 \* -1, nothing changed
            ELSE size' = Doubled(size) /\ count' = count + 1 /\ stuck' = (stuck \/ ~(count < Doubled(size)))
       ELSE size' = size /\ count' = count + 1 /\ stuck' = (stuck \/ ~(count < size))
    /\ UNCHANGED <<rebuilding, nsize, ncount, req>>
Delete == ~rebuilding /\ count > 0 /\ count' = count - 1 /\ UNCHANGED <<size, rebuilding, nsize, ncount, req, stuck>>
\* lh_table_resize(t, n) called by the user
StartResize(n) == /\ ~rebuilding /\ n >= 1 /\ n <= INTMAX
                  /\ rebuilding' = TRUE /\ nsize' = n /\ ncount' = 0 /\ req' = n /\ UNCHANGED <<size, count, stuck>>
ReinsertOne(growOk) ==
    /\ rebuilding /\ ncount < count
    /\ IF NeedsGrowth(ncount, nsize)
       THEN IF nsize = INTMAX \/ ~growOk
            THEN rebuilding' = FALSE /\ UNCHANGED <<nsize, ncount, stuck>>                                  \* the resize fails: the old table stays
            ELSE nsize' = Doubled(nsize) /\ ncount' = ncount + 1 /\ stuck' = (stuck \/ ~(ncount < Doubled(nsize))) /\ UNCHANGED rebuilding
       ELSE nsize' = nsize /\ ncount' = ncount + 1 /\ stuck' = (stuck \/ ~(ncount < nsize)) /\ UNCHANGED rebuilding
    /\ UNCHANGED <<size, count, req>>
FinishResize == /\ rebuilding /\ ncount = count
                /\ size' = (IF ResizeKeepsRequest THEN req ELSE nsize) /\ rebuilding' = FALSE
                /\ UNCHANGED <<count, nsize, ncount, req, stuck>>
Next == \/ \E ok \in BOOLEAN : Insert(ok) \/ ReinsertOne(ok)
        \/ Delete \/ FinishResize
        \/ \E n \in 1..INTMAX : StartResize(n)
IndInv == /\ size \in Int /\ count \in Int /\ rebuilding \in BOOLEAN /\ nsize \in Int /\ ncount \in Int /\ req \in Int /\ stuck \in BOOLEAN
          /\ 1 <= size /\ size <= INTMAX /\ 0 <= count /\ count <= size /\ ~stuck
          /\ 1 <= nsize /\ nsize <= INTMAX /\ 1 <= req /\ req <= INTMAX
          /\ rebuilding => (0 <= ncount /\ ncount <= nsize /\ ncount <= count)
Safety == ~stuck /\ count <= size
====
