---- MODULE TraceRefHeap ----
(* Trace specification for C05: every recorded call of the client on the real library must be a
   RefHeap step with the recorded return value, exactly the recorded set of destroyed nodes and of
   fired user-data destructors; the probed node must look as the heap says; after the client has
   released everything no node and no allocation may remain. *)
EXTENDS Naturals, Integers, Sequences, TLC, Json, IOUtils
VARIABLES st, l
R == INSTANCE RefHeap WITH MUT <- {}
Probe(h, r) ==
    IF r.pid = 0 THEN TRUE
    ELSE /\ R!IsLive(h, r.pid) /\ h.n[r.pid].kind = r.pkind /\ h.n[r.pid].kids = r.pkids
         /\ (r.pkind = "o" => h.n[r.pid].keys = r.pkeys)
StepOfImpl(h, r) ==
    IF r.op = "end" THEN [ok |-> r.leak = 0 /\ R!Live(h) = {}, st |-> h]
    ELSE LET x == R!CallStep(h, r) IN
         IF x.ok THEN [ok |-> Probe(x.h, r) /\ R!RcConsistent(x.h) /\ R!AliveIffOwned(x.h), st |-> x.h] ELSE [ok |-> FALSE, st |-> h]
TraceLog == ndJsonDeserialize(IOEnv.TRACE)
T == INSTANCE TraceBase WITH Log <- TraceLog, InitSt <- [n |-> <<>>], StepOf <- StepOfImpl, ResyncAtNew <- TRUE
Spec == T!Spec
Done == T!Done
====
