/* C07 array = sequence with null gaps: replay scripts / drive random histories on a raw array_list
 * (level 0) or a json_object array (level 1); record each call with return value, the set of
 * elements the array released, the length and every element incl. three reads past the end. */
#include "vhrt.h"
#include "arraylist.h"
#include "json.h"
#include <errno.h>
#include <stdint.h>
#include <stdlib.h>
#include <string.h>

#define MAXN 4096
static int level;
static struct array_list *al;
static json_object *arr;
static int next_id;
static json_object *node[MAXN]; /* id -> node (level 1), NULL when destroyed */
static long long freed[256];
static int nfreed;

static void raw_free(void *p)
{
	if (nfreed < 256)
		freed[nfreed++] = (long long)(intptr_t)p;
}
static void on_free(void *p)
{
	for (int i = 1; i < next_id && i < MAXN; i++)
		if (node[i] == p)
		{
			node[i] = 0;
			if (nfreed < 256)
				freed[nfreed++] = i;
			return;
		}
}
static int id_of(json_object *o)
{
	if (!o)
		return 0;
	if (json_object_get_type(o) != json_type_int)
		return -1;
	int id = json_object_get_int(o);
	if (id > 0 && id < next_id && id < MAXN && node[id] == o)
		return id;
	return -1; /* a pointer that is no live element */
}

typedef struct
{
	int big, n;
} arg_t;
static size_t real(arg_t a)
{
	if (a.big == 1)
		return SIZE_MAX - (size_t)a.n;
	if (a.big == 2)
		return ((size_t)1 << 50) + (size_t)a.n;
	/* around SIZE_MAX / sizeof(void *): where a slot count times the slot size wraps */
	if (a.big == 3)
		return SIZE_MAX / sizeof(void *) - (size_t)a.n;
	if (a.big == 4)
		return SIZE_MAX / sizeof(void *) + 1 + (size_t)a.n;
	return (size_t)a.n;
}
static void ev_arg(const char *k, arg_t a)
{
	ev_open_obj(k);
	ev_int("big", a.big);
	ev_int("n", a.n);
	ev_close_obj();
}
static int cmp_ll(const void *a, const void *b)
{
	long long x = *(const long long *)a, y = *(const long long *)b;
	return x < y ? -1 : x > y;
}
static size_t cur_len(void) { return level == 0 ? array_list_length(al) : json_object_array_length(arr); }
static int elem_at(size_t i)
{
	if (level == 0)
		return (int)(intptr_t)array_list_get_idx(al, i);
	return id_of(json_object_array_get_idx(arr, i));
}

/* fault overlay: fault_k >= 0: the fault_k-th allocation request of the NEXT armed library call fails;
 * fault_k == -1: only count the requests of that call */
static long fault_k = -2, fault_n;
static int fault_hit;
#define ARMED(call) \
	do \
	{ \
		fault_hit = 0; \
		if (fault_k >= -1) \
			vh_alloc_arm(fault_k); \
		call; \
		if (fault_k >= -1) \
		{ \
			fault_n = vh_nalloc; \
			fault_hit = fault_k >= 0 && vh_nalloc > fault_k; \
			vh_alloc_disarm(); \
			fault_k = -2; \
		} \
	} while (0)
static void observe(const char *op, arg_t idx, arg_t count, int v, int ret, const long long *after, int nafter, int key)
{
	ev_begin("op");
	ev_str("op", op);
	ev_arg("idx", idx);
	ev_arg("count", count);
	ev_int("v", v);
	ev_int("ret", ret);
	ev_int("fault", fault_hit);
	fault_hit = 0;
	qsort(freed, (size_t)nfreed, sizeof freed[0], cmp_ll);
	ev_ints("freed", freed, (size_t)nfreed);
	ev_ints("after", after, (size_t)nafter);
	ev_int("key", key);
	size_t len = cur_len();
	ev_int("len", (long long)len);
	static long long el[MAXN + 8];
	size_t n = 0;
	for (size_t i = 0; i < len + 3 && n < MAXN + 8; i++)
		el[n++] = elem_at(i);
	ev_ints("elems", el, n);
	ev_end();
	nfreed = 0;
}
static const arg_t Z = {0, 0};

static long cur_script = -1;
/* end of an execution: everything is released, nothing json-c allocated during it may remain */
static long live0;
static int started;
static void finish_execution(void)
{
	vh_on_free = 0;
	if (al)
		array_list_free(al);
	if (arr)
		json_object_put(arr);
	al = 0;
	arr = 0;
	if (started)
	{
		ev_begin("op");
		ev_str("op", "end");
		ev_int("leak", (int)(vh_live - live0));
		ev_end();
	}
	started = 0;
}
static void fresh(int lvl, int initsize)
{
	finish_execution();
	started = 1;
	live0 = vh_live;
	level = lvl;
	next_id = 1;
	nfreed = 0;
	memset(node, 0, sizeof node);
	if (lvl == 0)
		al = initsize == 32 && vh_below(2) ? array_list_new(raw_free) : array_list_new2(raw_free, initsize); /* (the old constructor: 32 slots) */
	else
	{
		arr = initsize < 0 ? json_object_new_array() : json_object_new_array_ext(initsize);
		vh_on_free = on_free;
	}
	ev_begin("new");
	ev_int("level", lvl);
	ev_int("init", initsize);
	if (cur_script >= 0)
		ev_int("script", cur_script);
	ev_end();
}

/* the next element given to the array is JSON null (id 0, a NULL pointer): arrays hold nulls like any other value */
static int null_next;
static int new_elem(void)
{
	if (null_next)
	{
		null_next = 0;
		return 0;
	}
	int id = next_id++;
	if (id >= MAXN)
	{
		fprintf(stderr, "too many elements\n");
		exit(2);
	}
	if (level == 1)
		node[id] = json_object_new_int(id);
	return id;
}
static void give_back(int id)
{
	/* a failed call leaves ownership with the caller */
	if (level == 1 && node[id])
	{
		vh_on_free = 0;
		json_object_put(node[id]);
		node[id] = 0;
		vh_on_free = on_free;
	}
}

/* a json_object array's own list is public too (json_object_get_array): one call in four goes through that door */
#define LST json_object_get_array(arr)
#define VIA_LIST (vh_below(4) == 0)
static void do_add(void)
{
	int id = new_elem();
	int ret;
	ARMED(ret = level == 0 ? array_list_add(al, (void *)(intptr_t)id) : VIA_LIST ? array_list_add(LST, node[id]) : json_object_array_add(arr, node[id]));
	observe("add", Z, Z, id, ret, 0, 0, 0);
	if (ret)
		give_back(id);
}
static void do_put(arg_t idx)
{
	int id = new_elem();
	int ret;
	ARMED(ret = level == 0 ? array_list_put_idx(al, real(idx), (void *)(intptr_t)id)
	            : VIA_LIST ? array_list_put_idx(LST, real(idx), node[id])
	                       : json_object_array_put_idx(arr, real(idx), node[id]));
	observe("put", idx, Z, id, ret, 0, 0, 0);
	if (ret)
		give_back(id);
}
static void do_insert(arg_t idx)
{
	int id = new_elem();
	int ret;
	ARMED(ret = level == 0 ? array_list_insert_idx(al, real(idx), (void *)(intptr_t)id)
	            : VIA_LIST ? array_list_insert_idx(LST, real(idx), node[id])
	                       : json_object_array_insert_idx(arr, real(idx), node[id]));
	observe("insert", idx, Z, id, ret, 0, 0, 0);
	if (ret)
		give_back(id);
}
static void do_del(arg_t idx, arg_t count)
{
	int ret;
	ARMED(ret = level == 0 ? array_list_del_idx(al, real(idx), real(count))
	            : VIA_LIST ? array_list_del_idx(LST, real(idx), real(count))
	                       : json_object_array_del_idx(arr, real(idx), real(count)));
	observe("del", idx, count, 0, ret, 0, 0, 0);
}
static void do_shrink(arg_t c)
{
	int ret, via = VIA_LIST;
	if (c.big && level != 0 && !via)
		c.big = 0, c.n = 1; /* (json_object_array_shrink takes an int) */
	ARMED(ret = level == 0 ? array_list_shrink(al, real(c)) : via ? array_list_shrink(LST, real(c)) : json_object_array_shrink(arr, c.n));
	observe("shrink", Z, c, 0, ret, 0, 0, 0);
}
static void do_get(arg_t idx)
{
	int v = level == 0 ? (int)(intptr_t)array_list_get_idx(al, real(idx))
	        : VIA_LIST ? id_of((json_object *)array_list_get_idx(LST, real(idx)))
	                   : id_of(json_object_array_get_idx(arr, real(idx)));
	observe("get", idx, Z, v, 0, 0, 0, 0);
}

#define KEYMOD 7
static int key_of_id(int id) { return id == 0 ? -1 : id % KEYMOD; }
static int cmp_raw(const void *a, const void *b)
{
	int x = key_of_id((int)(intptr_t) * (void *const *)a), y = key_of_id((int)(intptr_t) * (void *const *)b);
	return x < y ? -1 : x > y;
}
static int cmp_obj(const void *a, const void *b)
{
	json_object *const *oa = a, *const *ob = b;
	int x = *oa ? json_object_get_int(*oa) % KEYMOD : -1, y = *ob ? json_object_get_int(*ob) % KEYMOD : -1;
	return x < y ? -1 : x > y;
}
static void do_sort(void)
{
	if (level == 0)
		array_list_sort(al, cmp_raw);
	else
		json_object_array_sort(arr, cmp_obj);
	static long long after[MAXN];
	size_t len = cur_len();
	for (size_t i = 0; i < len && i < MAXN; i++)
		after[i] = elem_at(i);
	observe("sort", Z, Z, 0, 0, after, (int)(len < MAXN ? len : MAXN), 0);
}
static void do_bsearch(int key)
{
	int found;
	if (level == 0)
	{
		const void *k = (void *)(intptr_t)(key < 0 ? 0 : (key == 0 ? KEYMOD : key)); /* an id with that key */
		void **r = array_list_bsearch(&k, al, cmp_raw);
		found = r ? (int)(intptr_t)*r : 0;
	}
	else
	{
		vh_on_free = 0;
		json_object *k = key < 0 ? NULL : json_object_new_int(key);
		json_object *r = json_object_array_bsearch(k, arr, cmp_obj);
		found = id_of(r);
		if (k)
			json_object_put(k);
		vh_on_free = on_free;
		if (key < 0 && r == NULL)
			found = 0;
	}
	/* a found NULL element (key -1) cannot be told from "not found" through the API: skip that case */
	observe("bsearch", Z, Z, found, 0, 0, 0, key);
}

static arg_t parse_arg(char **p)
{
	arg_t a;
	a.big = (int)strtol(*p, p, 10);
	a.n = (int)strtol(*p, p, 10);
	return a;
}
/* script: "N lvl init;a;p B N;i B N;d B N B N;s K;g B N;o;b K"
 * fault_last: -2 plain; -1 count the allocation requests of the LAST operation; k >= 0 fail its k-th request */
static void run_script(char *line, int lvl, long fault_last)
{
	int nops = 0;
	for (char *q = line; *q; q++)
		if (*q == ';')
			nops++;
	nops++;
	char *save = 0;
	int i = 0;
	for (char *tok = strtok_r(line, ";\n", &save); tok; tok = strtok_r(0, ";\n", &save))
	{
		char op = tok[0];
		char *p = tok + 1;
		fault_k = (++i == nops) ? fault_last : -2;
		switch (op)
		{
		case 'N': fresh(lvl, (int)strtol(p, &p, 10)); break;
		case 'a': do_add(); break;
		case 'p': do_put(parse_arg(&p)); break;
		case 'i': do_insert(parse_arg(&p)); break;
		case 'd':
		{
			arg_t a = parse_arg(&p), b = parse_arg(&p);
			do_del(a, b);
			break;
		}
		case 's':
		{
			arg_t c = {0, (int)strtol(p, &p, 10)};
			do_shrink(c);
			break;
		}
		case 'g': do_get(parse_arg(&p)); break;
		case 'o': do_sort(); break;
		case 'b': do_bsearch((int)strtol(p, &p, 10)); break;
		default: fprintf(stderr, "bad op %s\n", tok); exit(2);
		}
		fault_k = -2;
	}
}
static int replay(const char *path, long start, int lvl, int faults)
{
	FILE *f = fopen(path, "r");
	if (!f)
		return 2;
	char *line = 0;
	size_t cap = 0;
	long idx = 0;
	while (getline(&line, &cap, f) > 0)
	{
		if (idx++ < start)
			continue;
		cur_script = faults ? idx - 1 : -1;
		if (!faults)
		{
			run_script(line, lvl, -2);
			continue;
		}
		/* count the requests of the last operation, then fail each in turn (every run replays the whole history) */
		char *copy = strdup(line);
		fault_n = 0;
		{
			/* the counting run is not recorded */
			finish_execution(); /* the previous execution's "end" belongs to the recorded trace, this run's does not */
			FILE *keep = ev_out, *nul = fopen("/dev/null", "w");
			ev_out = nul;
			run_script(copy, lvl, -1);
			finish_execution();
			ev_out = keep;
			fclose(nul);
		}
		long n = fault_n;
		for (long k = 0; k < n; k++)
		{
			strcpy(copy, line);
			run_script(copy, lvl, k);
		}
		free(copy);
	}
	free(line);
	fclose(f);
	return 0;
}

static arg_t pick_idx(void)
{
	size_t len = cur_len();
	arg_t a = {0, 0};
	switch (vh_below(12))
	{
	case 0: a.n = 0; break;
	case 1: a.n = len ? (int)len - 1 : 0; break;
	case 2: a.n = (int)len; break;
	case 3: a.n = (int)len + 1; break;
	case 4: a.n = (int)len + 2 + (int)vh_below(30); break;
	case 5: a.big = 1; a.n = (int)vh_below(3); break;            /* SIZE_MAX, SIZE_MAX-1, -2 */
	case 6: a.big = 1; a.n = (int)len + (int)vh_below(3); break; /* idx + count wraps around */
	case 7: a.big = 2 + (int)vh_below(3); a.n = vh_below(2) ? (int)vh_below(100) : (int)len + (int)vh_below(3); break;
	default: a.n = len ? (int)vh_below((uint32_t)len) : 0; break;
	}
	return a;
}

static int drive(int start, int nexec, int nops)
{
	const char *seed = getenv("VERIF_SEED");
	uint64_t s0 = seed ? strtoull(seed, 0, 10) : 1;
	static const int inits[] = {0, 1, 2, 3, 8, 31, 32, 33, -1};
	for (int x = start; x < nexec; x++)
	{
		vh_srand(s0 * 1000003ull + (uint64_t)x);
		int lvl = (int)vh_below(3) ? 1 : 0;
		int init = inits[vh_below(9)];
		if (lvl == 0 && init < 0)
			init = 32;
		fresh(lvl, init);
		int ops = 1 + (int)vh_below((uint32_t)nops);
		for (int i = 0; i < ops && next_id < MAXN - 2; i++)
		{
			size_t len = cur_len();
			if (len > 300)
			{
				arg_t a = {0, 10}, c = {0, (int)len - 20};
				do_del(a, c);
				continue;
			}
			switch (vh_below(16))
			{
			/* now and then the call's first allocation request fails */
			case 0: case 1: case 2: fault_k = vh_below(12) ? -2 : 0; null_next = vh_below(8) == 0; do_add(); break;
			case 3: case 4: case 5: fault_k = vh_below(12) ? -2 : 0; null_next = vh_below(6) == 0; do_put(pick_idx()); break;
			case 6: case 7: fault_k = vh_below(12) ? -2 : 0; null_next = vh_below(6) == 0; do_insert(pick_idx()); break;
			case 8: case 9:
			{
				arg_t a = pick_idx(), c = {0, 0};
				switch (vh_below(6))
				{
				case 0: c.n = 0; break;
				case 1: c.n = 1; break;
				case 2: c.n = a.big ? 1 : ((int)len - a.n > 0 ? (int)len - a.n : 0); break; /* exactly to the end */
				case 3: c.n = a.big ? 2 : ((int)len - a.n > 0 ? (int)len - a.n + 1 : 1); break; /* one too many */
				case 4: c.big = 1; c.n = (int)vh_below(3); break;
				default: c.n = (int)vh_below(5); break;
				}
				do_del(a, c);
				break;
			}
			case 10:
			{
				/* spare slots: a few, or a count near one of the places where the size computation wraps */
				arg_t c = {0, (int)vh_below(4)};
				if (vh_below(3) == 0)
				{
					c.big = 1 + (int)vh_below(4);
					c.n = vh_below(2) ? (int)vh_below(3) : (int)len + (int)vh_below(3) - 1;
					if (c.n < 0)
						c.n = 0;
				}
				do_shrink(c);
				break;
			}
			case 11: do_get(pick_idx()); break;
			case 12: case 13:
				do_sort();
				for (int j = 0; j < 3; j++)
					do_bsearch((int)vh_below(KEYMOD));
				break;
			default: do_add(); break;
			}
		}
	}
	return 0;
}

int c07_main(int argc, char **argv)
{
	int r = 2;
	if (argc >= 4 && !strcmp(argv[0], "replay"))
		r = replay(argv[1], atol(argv[2]), atoi(argv[3]), argc >= 5 ? atoi(argv[4]) : 0);
	else if (argc >= 4 && !strcmp(argv[0], "drive"))
		r = drive(atoi(argv[1]), atoi(argv[2]), atoi(argv[3]));
	finish_execution();
	return r;
}
