/* C06 object = insertion-ordered map: replay scripts (raw lh_table with a prescribed hash, or a
 * json_object) and drive random churn on json_objects; record each call with everything
 * observable afterwards (length, every iteration form, lookup of every universe key). */
#include "vhrt.h"
#include "json.h"
#include "json_object_iterator.h"
#include "json_visit.h"
#include "linkhash.h"
#include <errno.h>
#include <stdlib.h>
#include <string.h>

#define MAXK 64
static const char *uni[MAXK + 1]; /* key id -> string, ids 1..nuni */
static int nuni;
static char longkey[400], longkey2[400];

/* the same key text presented through pointers of every alignment (a key is its bytes, not where they live):
 * a rotating pool of copies at offsets 0..3 from an aligned base */
static const char *kp(int k)
{
	static union { long long align; char b[520]; } pool[16];
	static int rot;
	char *base = pool[rot++ & 15].b + vh_below(4);
	size_t n = strlen(uni[k]);
	memcpy(base, uni[k], n + 1);
	return base;
}
static int key_id(const char *s)
{
	for (int i = 1; i <= nuni; i++)
		if (!strcmp(uni[i], s))
			return i;
	return 0; /* a key the universe does not know: shows up as 0 in the trace */
}

/* ------------------------------------------------------------ raw lh_table level */
static unsigned long model_hash(const void *k)
{
	/* HashDef of MCLinkHash.tla */
	switch (*(const char *)k)
	{
	case 'a': return 2;
	case 'b': return 5;
	case 'c': return 8;
	case 'd': return 0;
	default: return 7;
	}
}
static int str_equal(const void *a, const void *b) { return strcmp((const char *)a, (const char *)b) == 0; }
static struct lh_table *tab;
static int nfree; /* calls of the raw table's entry-free callback since the last event */
static void count_free(struct lh_entry *e)
{
	(void)e;
	nfree++;
}
static int raw_kind; /* raw table: 0 model hash, 1 lh_kchar_table_new, 2 lh_kptr_table_new (keys are the uni[] pointers) */
static int raw_size = 3;
static json_object *obj;
static int level; /* 0 raw, 1 json_object */

/* fault overlay (as in vh_c07.c): fault_k >= 0: the fault_k-th allocation request of the next armed call fails; -1: count */
static long fault_k = -2, fault_n, cur_script = -1;
static int fault_hit;
#define ARMED(call) \
	do \
	{ \
		fault_hit = 0; \
		if (fault_k >= -1) \
			vh_alloc_arm(fault_k); \
		call; \
		if (fault_k >= -1) \
		{ \
			fault_n = vh_nalloc; \
			fault_hit = fault_k >= 0 && vh_nalloc > fault_k; \
			vh_alloc_disarm(); \
			fault_k = -2; \
		} \
	} while (0)
static void it_begin(const char *name) { ev_open_arr(name); }

static void observe(const char *op, int k, int v, int ret, const int *ks, int nks, const int *vis, int nvis)
{
	long long tmp[MAXK * 8];
	ev_begin("op");
	ev_str("op", op);
	ev_int("k", k);
	ev_int("v", v);
	ev_int("ret", ret);
	ev_int("fault", fault_hit);
	fault_hit = 0;
	for (int i = 0; i < nks; i++)
		tmp[i] = ks[i];
	ev_ints("ks", tmp, nks);
	for (int i = 0; i < nvis; i++)
		tmp[i] = vis[i];
	ev_ints("visited", tmp, nvis);
	if (level == 0)
	{
		ev_int("nfree", nfree);
		nfree = 0;
		ev_int("len", lh_table_length(tab));
		struct lh_entry *e;
		int n = 0;
		long long kk[64], vv[64];
		lh_foreach(tab, e)
		{
			if (n < 64)
			{
				kk[n] = key_id((const char *)lh_entry_k(e));
				vv[n] = (long long)(intptr_t)lh_entry_v(e);
				n++;
			}
		}
		it_begin("it");
		ev_ints(NULL, kk, n);
		/* backwards through prev links, reversed */
		long long kb[64];
		int m = 0;
		for (e = tab->tail; e && m < 64; e = lh_entry_prev(e))
			kb[m++] = key_id((const char *)lh_entry_k(e));
		for (int i = 0; i < m / 2; i++)
		{
			long long t = kb[i];
			kb[i] = kb[m - 1 - i];
			kb[m - 1 - i] = t;
		}
		ev_ints(NULL, kb, m);
		ev_close_arr();
		it_begin("itv");
		ev_ints(NULL, vv, n);
		ev_close_arr();
		long long look[MAXK];
		for (int i = 1; i <= nuni; i++)
		{
			void *val = 0;
			look[i - 1] = lh_table_lookup_ex(tab, uni[i], &val) ? (long long)(intptr_t)val : -1;
		}
		ev_ints("look", look, nuni);
	}
	else
	{
		ev_int("len", json_object_object_length(obj));
		long long kk[5][MAXK * 2], vv[5][MAXK * 2];
		int n[5] = {0, 0, 0, 0, 0};
		{
			json_object_object_foreach(obj, key, val)
			{
				if (n[0] < MAXK * 2)
				{
					kk[0][n[0]] = key_id(key);
					vv[0][n[0]] = json_object_get_int(val);
					n[0]++;
				}
			}
		}
		{
			struct json_object_iter it;
			json_object_object_foreachC(obj, it)
			{
				if (n[1] < MAXK * 2)
				{
					kk[1][n[1]] = key_id(it.key);
					vv[1][n[1]] = json_object_get_int(it.val);
					n[1]++;
				}
			}
		}
		{
			struct json_object_iterator it = json_object_iter_begin(obj), end = json_object_iter_end(obj);
			while (!json_object_iter_equal(&it, &end) && n[2] < MAXK * 2)
			{
				kk[2][n[2]] = key_id(json_object_iter_peek_name(&it));
				vv[2][n[2]] = json_object_get_int(json_object_iter_peek_value(&it));
				n[2]++;
				json_object_iter_next(&it);
			}
		}
		{
			/* serialization order: keys are drawn from an alphabet without quotes/backslashes,
			 * values are non-negative ints: {"k":v,"k2":v2} */
			size_t len = 0;
			const char *s = json_object_to_json_string_length(obj, JSON_C_TO_STRING_PLAIN | JSON_C_TO_STRING_NOSLASHESCAPE, &len);
			size_t i = 0;
			while (s && i < len && n[3] < MAXK * 2)
			{
				if (s[i] == '"')
				{
					size_t j = i + 1;
					while (j < len && s[j] != '"')
						j++;
					char buf[512];
					size_t kl = j - i - 1;
					if (kl >= sizeof buf)
						kl = sizeof buf - 1;
					memcpy(buf, s + i + 1, kl);
					buf[kl] = 0;
					kk[3][n[3]] = key_id(buf);
					i = j + 2; /* skip ": */
					vv[3][n[3]] = atoi(s + i);
					n[3]++;
				}
				else
					i++;
			}
		}
		it_begin("it");
		for (int f = 0; f < 4; f++)
			ev_ints(NULL, kk[f], n[f]);
		ev_close_arr();
		it_begin("itv");
		for (int f = 0; f < 4; f++)
			ev_ints(NULL, vv[f], n[f]);
		ev_close_arr();
		long long look[MAXK];
		for (int i = 1; i <= nuni; i++)
		{
			json_object *val = 0;
			int found = json_object_object_get_ex(obj, kp(i), &val);
			json_object *val2 = json_object_object_get(obj, kp(i));
			if (found && val2 != val)
				look[i - 1] = -7; /* the two lookup entry points disagree */
			else
				look[i - 1] = found ? json_object_get_int(val) : -1;
		}
		ev_ints("look", look, nuni);
	}
	ev_end();
}

/* visitor form of iteration, recorded as a separate observation event (json_object level) */
static long long vis_k[MAXK * 2], vis_v[MAXK * 2];
static int vis_n;
static int visit_cb(json_object *jso, int flags, json_object *parent, const char *key, size_t *idx, void *arg)
{
	(void)idx;
	(void)arg;
	if (parent && !(flags & JSON_C_VISIT_SECOND) && vis_n < MAXK * 2)
	{
		vis_k[vis_n] = key_id(key);
		vis_v[vis_n] = json_object_get_int(jso);
		vis_n++;
	}
	return JSON_C_VISIT_RETURN_CONTINUE;
}
static void observe_visit(void)
{
	vis_n = 0;
	int rc = json_c_visit(obj, 0, visit_cb, NULL);
	ev_begin("op");
	ev_str("op", "visit");
	ev_int("k", 0);
	ev_int("v", 0);
	ev_int("ret", rc);
	ev_ints("ks", vis_k, 0);
	ev_ints("visited", vis_k, vis_n);
	ev_int("len", json_object_object_length(obj));
	it_begin("it");
	ev_ints(NULL, vis_k, vis_n);
	ev_close_arr();
	it_begin("itv");
	ev_ints(NULL, vis_v, vis_n);
	ev_close_arr();
	ev_ints("look", vis_k, 0);
	ev_end();
}

/* end of an execution: everything is released, nothing json-c allocated during it may remain */
static long live0;
static int started;
static void finish_execution(void)
{
	int wasraw = tab != 0;
	if (tab)
		lh_table_free(tab);
	if (obj)
		json_object_put(obj);
	tab = 0;
	obj = 0;
	if (started)
	{
		ev_begin("op");
		ev_str("op", "end");
		if (wasraw)
			ev_int("nfree", nfree);
		nfree = 0;
		ev_int("leak", (int)(vh_live - live0));
		ev_end();
	}
	started = 0;
}
static void fresh(int lvl, int hash)
{
	finish_execution();
	started = 1;
	live0 = vh_live;
	level = lvl;
	if (lvl == 0)
	{
		tab = raw_kind == 1   ? lh_kchar_table_new(raw_size, count_free)
		      : raw_kind == 2 ? lh_kptr_table_new(raw_size, count_free)
		                      : lh_table_new(raw_size, count_free, model_hash, str_equal);
		nfree = 0;
	}
	else
	{
		json_global_set_string_hash(hash ? JSON_C_STR_HASH_PERLLIKE : JSON_C_STR_HASH_DFLT);
		obj = json_object_new_object();
	}
	ev_begin("new");
	ev_int("level", lvl);
	ev_int("hash", hash);
	if (cur_script >= 0)
		ev_int("script", cur_script);
	ev_end();
}

static void do_add(int k, int v, int isnew, int constkey)
{
	int ret;
	if (level == 0)
	{
		if (isnew && vh_below(2))
			ARMED(ret = lh_table_insert_w_hash(tab, uni[k], (void *)(intptr_t)v, lh_get_hash(tab, uni[k]), 0));
		else if (isnew)
			ARMED(ret = lh_table_insert(tab, uni[k], (void *)(intptr_t)v));
		else
		{
			struct lh_entry *e = vh_below(2) ? lh_table_lookup_entry(tab, uni[k])
			                                 : lh_table_lookup_entry_w_hash(tab, uni[k], lh_get_hash(tab, uni[k]));
			if (e)
			{
				lh_entry_set_val(e, (void *)(intptr_t)v);
				ret = 0;
			}
			else
				ARMED(ret = lh_table_insert(tab, uni[k], (void *)(intptr_t)v));
		}
	}
	else
	{
		json_object *val = json_object_new_int(v);
		unsigned opts = (isnew ? JSON_C_OBJECT_ADD_KEY_IS_NEW : 0) | (constkey ? JSON_C_OBJECT_ADD_CONSTANT_KEY : 0);
		if (!opts && vh_below(2))
			ARMED(ret = json_object_object_add(obj, kp(k), val));
		else
			ARMED(ret = json_object_object_add_ex(obj, constkey ? uni[k] : kp(k), val, opts));
		if (ret != 0)
			json_object_put(val);
	}
	observe(isnew ? "addnew" : "add", k, v, ret, 0, 0, 0, 0);
}

static void do_del(int k)
{
	int ret;
	if (level == 0)
	{
		struct lh_entry *e;
		if (vh_below(2))
			ret = lh_table_delete(tab, uni[k]);
		else
			ret = (e = lh_table_lookup_entry(tab, uni[k])) ? lh_table_delete_entry(tab, e) : -1;
	}
	else
	{
		/* json_object_object_del returns nothing: presence before the call is the result */
		ret = json_object_object_get_ex(obj, kp(k), NULL) ? 0 : -1;
		json_object_object_del(obj, kp(k));
	}
	observe("del", k, 0, ret, 0, 0, 0, 0);
}

/* lh_table_resize with a caller-chosen size (any positive value), on the raw table or on an object's own table */
static void do_resize(int n)
{
	int ret;
	ARMED(ret = lh_table_resize(level == 0 ? tab : json_object_get_object(obj), n));
	observe("resize", 0, n, ret, 0, 0, 0, 0);
}

static const int *fdel_ks;
static int fdel_nks, *fdel_vis, fdel_nvis;
static int fdel_cb(json_object *jso, int flags, json_object *parent, const char *key, size_t *idx, void *arg)
{
	(void)jso;
	(void)idx;
	(void)arg;
	if (parent != obj || !key || (flags & JSON_C_VISIT_SECOND))
		return JSON_C_VISIT_RETURN_CONTINUE;
	int id = key_id(key);
	if (fdel_nvis < MAXK * 2)
		fdel_vis[fdel_nvis++] = id;
	for (int i = 0; i < fdel_nks; i++)
		if (fdel_ks[i] == id)
		{
			json_object_object_del(parent, key);
			return JSON_C_VISIT_RETURN_SKIP;
		}
	return JSON_C_VISIT_RETURN_CONTINUE;
}
static void do_fdel(const int *ks, int nks)
{
	int vis[MAXK * 2], nvis = 0;
	if (level == 0)
	{
		struct lh_entry *e, *tmp;
		lh_foreach_safe(tab, e, tmp)
		{
			const char *key = (const char *)lh_entry_k(e);
			int id = key_id(key);
			if (nvis < MAXK * 2)
				vis[nvis++] = id;
			for (int i = 0; i < nks; i++)
				if (ks[i] == id)
				{
					lh_table_delete(tab, key);
					break;
				}
		}
	}
	else if (vh_below(2))
	{
		json_object_object_foreach(obj, key, val)
		{
			(void)val;
			int id = key_id(key);
			if (nvis < MAXK * 2)
				vis[nvis++] = id;
			for (int i = 0; i < nks; i++)
				if (ks[i] == id)
				{
					json_object_object_del(obj, key);
					break;
				}
		}
	}
	else
	{
		/* the visitor form of the same loop: the callback deletes the member it is called for and skips it */
		fdel_ks = ks;
		fdel_nks = nks;
		fdel_vis = vis;
		fdel_nvis = 0;
		json_c_visit(obj, 0, fdel_cb, NULL);
		nvis = fdel_nvis;
	}
	observe("fdel", 0, 0, 0, ks, nks, vis, nvis);
}

static void do_get(int k)
{
	int v;
	if (level == 0)
	{
		void *val = 0;
		v = lh_table_lookup_ex(tab, uni[k], &val) ? (int)(intptr_t)val : -1;
	}
	else
	{
		json_object *val = 0;
		v = json_object_object_get_ex(obj, kp(k), &val) ? json_object_get_int(val) : -1;
	}
	observe("get", k, v, 0, 0, 0, 0, 0);
}

static void small_universe(void)
{
	static const char *names[] = {"a", "b", "c", "d", "e"};
	nuni = 5;
	for (int i = 0; i < 5; i++)
		uni[i + 1] = names[i];
}

/* script: "a K V;n K V;d K;g K;f K K K" per line
 * fault_last: -2 plain; -1 count the allocation requests of the LAST operation; k >= 0 fail its k-th request */
static void run_script(char *line, int lvl, long idx, long fault_last)
{
	int nops = 1, i = 0;
	for (char *q = line; *q; q++)
		if (*q == ';')
			nops++;
	fresh(lvl, (int)(idx & 1));
	char *save = 0;
	for (char *tok = strtok_r(line, ";\n", &save); tok; tok = strtok_r(0, ";\n", &save))
	{
		char op = tok[0];
		int a[8], n = 0;
		char *p = tok + 1;
		while (*p && n < 8)
		{
			while (*p == ' ')
				p++;
			if (!*p)
				break;
			a[n++] = (int)strtol(p, &p, 10);
		}
		fault_k = (++i == nops) ? fault_last : -2;
		switch (op)
		{
		case 'a': do_add(a[0], a[1], 0, 0); break;
		case 'n': do_add(a[0], a[1], 1, 0); break;
		case 'd': do_del(a[0]); break;
		case 'g': do_get(a[0]); break;
		case 'f': do_fdel(a, n); break;
		case 'r': do_resize(a[0]); break;
		default: fprintf(stderr, "bad op %s\n", tok); exit(2);
		}
		fault_k = -2;
		if (lvl == 1 && fault_last == -2 && vh_below(4) == 0)
			observe_visit();
	}
}
static int replay(const char *path, long start, int lvl, int faults)
{
	FILE *f = fopen(path, "r");
	if (!f)
		return 2;
	small_universe();
	char *line = 0;
	size_t cap = 0;
	long idx = 0;
	while (getline(&line, &cap, f) > 0)
	{
		if (idx++ < start)
			continue;
		if (!faults)
		{
			run_script(line, lvl, idx, -2);
			continue;
		}
		cur_script = idx - 1;
		char *copy = strdup(line);
		fault_n = 0;
		{
			/* the counting run is not recorded */
			finish_execution(); /* the previous execution's "end" belongs to the recorded trace, this run's does not */
			FILE *keep = ev_out, *nul = fopen("/dev/null", "w");
			ev_out = nul;
			run_script(copy, lvl, idx, -1);
			finish_execution();
			ev_out = keep;
			fclose(nul);
		}
		long n = fault_n;
		for (long k = 0; k < n; k++)
		{
			strcpy(copy, line);
			run_script(copy, lvl, idx, k);
		}
		free(copy);
	}
	free(line);
	fclose(f);
	return 0;
}

/* universe for the random driver: empty key, long keys, keys sharing a prefix, and keys that
 * collide (same home slot mod 16 and mod 32) under the hash in effect, found by search */
static char coll[12][24];
static void big_universe(int hash)
{
	/* (lengths 11, 12, 13, 23, 24, 35: every tail case of a 12-byte-block hash) */
	static const char *base[] = {"", "a", "b", "ab", "ba", "key", "key0", "key1", "0", "1", "-", "x y", "~0", "/a", "Z",
	                             "elevenchars", "twelve chars", "thirteen char", "twenty-three characters",
	                             "twenty-four characters..", "a key of thirty-five characters ...", "abcde", "abcdefg", "abcdefghij"};
	nuni = 0;
	for (unsigned i = 0; i < sizeof base / sizeof *base; i++)
		uni[++nuni] = base[i];
	/* one name of every remaining length up to 22, and 33: with the ones above, every tail length 0..12 of the block hash,
	 * each in a short and a long form; all characters of a name differ (no tail byte can stand in for another) */
	static char lenkey[16][40];
	static const int lens[] = {6, 8, 9, 14, 15, 16, 17, 18, 19, 20, 21, 22, 33};
	static const char alnum[] = "qwertyuiopasdfghjklzxcvbnmQWERTYUIOPASDFGHJKLZXCVBNM9876543210";
	for (unsigned i = 0; i < sizeof lens / sizeof *lens; i++)
	{
		for (int j = 0; j < lens[i]; j++)
			lenkey[i][j] = alnum[(i * 5 + (unsigned)j) % 62];
		lenkey[i][lens[i]] = 0;
		uni[++nuni] = lenkey[i];
	}
	memset(longkey, 'L', 300);
	longkey[300] = 0;
	memset(longkey2, 'L', 300);
	longkey2[299] = 'M';
	longkey2[300] = 0;
	uni[++nuni] = longkey;
	uni[++nuni] = longkey2;
	json_global_set_string_hash(hash ? JSON_C_STR_HASH_PERLLIKE : JSON_C_STR_HASH_DFLT);
	json_object *o = json_object_new_object();
	struct lh_table *t = json_object_get_object(o);
	unsigned long target = lh_get_hash(t, "a") % 32;
	int nc = 0;
	for (int c = 0; c < 200000 && nc < 7; c++)
	{
		char cand[24];
		snprintf(cand, sizeof cand, "c%d", c);
		if (lh_get_hash(t, cand) % 32 == target)
		{
			strcpy(coll[nc], cand);
			uni[++nuni] = coll[nc];
			nc++;
		}
	}
	json_object_put(o);
}

static int drive(int start, int nexec, int nops)
{
	const char *seed = getenv("VERIF_SEED");
	uint64_t s0 = seed ? strtoull(seed, 0, 10) : 1;
	for (int x = start; x < nexec; x++)
	{
		vh_srand(s0 * 1000003ull + (uint64_t)x);
		int hash = x & 1;
		big_universe(hash);
		/* every third execution on a raw lh_table: prescribed hash, the string hash or pointer keys; any initial size */
		int raw = x % 3 == 2;
		raw_kind = raw ? (int)vh_below(3) : 0;
		raw_size = raw ? 1 + (int)vh_below(vh_below(2) ? 4 : 40) : 3;
		fresh(raw ? 0 : 1, hash);
		raw_kind = 0;
		raw_size = 3;
		int ops = nops / 2 + (int)vh_below((uint32_t)nops / 2 + 1);
		int phase = 0; /* 0 grow, 1 churn, 2 shrink */
		for (int i = 0; i < ops; i++)
		{
			if (vh_below(40) == 0)
				phase = (int)vh_below(3);
			int k = 1 + (int)vh_below((uint32_t)nuni);
			int present = level == 0 ? lh_table_lookup_ex(tab, uni[k], NULL) : json_object_object_get_ex(obj, uni[k], NULL);
			uint32_t r = vh_below(100);
			int padd = phase == 0 ? 70 : phase == 1 ? 45 : 25;
			if (r < (uint32_t)padd)
			{
				int v = (int)vh_below(1000);
				/* now and then one of this call's first allocation requests fails (key copy, entry, table growth) */
				{
					/* ... more often where the next insertion makes the table grow (load factor 0.66 of 16, 32, 64 slots) */
					int len = level == 0 ? lh_table_length(tab) : json_object_object_length(obj);
					int near = (len >= 10 && len <= 12) || (len >= 21 && len <= 23) || (len >= 42 && len <= 44);
					if (vh_below(near ? 2 : 12) == 0)
						fault_k = (long)vh_below(near ? 5 : 3);
				}
				if (!present && vh_below(3) == 0)
					do_add(k, v, 1, (int)vh_below(2));
				else
					do_add(k, v, 0, !present && vh_below(4) == 0);
			}
			else if (r < 90)
				do_del(k);
			else if (r < 93)
				do_get(k);
			else if (r < 95)
			{
				/* a caller-chosen capacity: tiny, around the current count, or large */
				int len = level == 0 ? lh_table_length(tab) : json_object_object_length(obj);
				uint32_t m = vh_below(4);
				do_resize(m == 0 ? 1 + (int)vh_below(3) : m == 1 ? 1 + (int)vh_below((uint32_t)len + 2) : m == 2 ? len + 1 + (int)vh_below(8) : 1 + (int)vh_below(200));
			}
			else if (r < 97)
			{
				if (level == 1)
					observe_visit();
			}
			else
			{
				int ks[MAXK], n = 0;
				uint32_t mode = vh_below(4);
				for (int j = 1; j <= nuni; j++)
					if (mode == 0 || (mode == 1 && vh_below(2)) || (mode == 2 && vh_below(5) == 0) || (mode == 3 && j % 2))
						ks[n++] = j;
				do_fdel(ks, n);
			}
		}
	}
	if (obj)
		json_object_put(obj);
	obj = 0;
	return 0;
}

int c06_main(int argc, char **argv)
{
	int r = 2;
	if (argc >= 4 && !strcmp(argv[0], "replay"))
		r = replay(argv[1], atol(argv[2]), atoi(argv[3]), argc >= 5 ? atoi(argv[4]) : 0);
	else if (argc >= 4 && !strcmp(argv[0], "drive"))
		r = drive(atoi(argv[1]), atoi(argv[2]), atoi(argv[3]));
	finish_execution();
	return r;
}
