/* C08 single allocation failure: a corpus of workloads; for each workload the number N of allocation
 * requests json-c makes is counted in a fault-free run, then the workload is re-run N times with the
 * k-th request failing (k = 0..N-1; optionally a second failure).  One event per (workload, k):
 * the json-c function whose request failed, the outcome (normal result identical to the fault-free
 * one / failure through the documented channel / something else), whether the objects the caller
 * still owns are unchanged, and the allocations left after releasing everything. */
#include "vhrt.h"
#include "json.h"
#include "json_patch.h"
#include "json_pointer.h"
#include <errno.h>
#include <stdlib.h>
#include <string.h>

/* ---- caller-owned state that must survive any failed operation */
static json_object *pre_obj, *pre_arr, *pre_str, *pre_str2, *pre_doc, *pre_patch;
static char *snap_obj, *snap_arr, *snap_str, *snap_str2, *snap_doc, *snap_patch;
static char *ser(json_object *o)
{
	/* dump through the iteration API, not through the serializer under test */
	static char buf[1 << 16];
	size_t n = 0;
	buf[0] = 0;
	if (!o)
		return strdup("null");
	switch (json_object_get_type(o))
	{
	case json_type_object:
	{
		/* (members are rendered first: the recursion reuses the static buffer) */
		char *parts[256];
		const char *names[256];
		int np = 0;
		json_object_object_foreach(o, k, v)
		{
			if (np < 256)
			{
				names[np] = k;
				parts[np] = ser(v);
				np++;
			}
		}
		/* (the reported length is part of what the caller sees of an object) */
		n += (size_t)snprintf(buf + n, sizeof buf - n, "{#%d:", json_object_object_length(o));
		for (int i = 0; i < np; i++)
		{
			n += (size_t)snprintf(buf + n, sizeof buf - n, "%s=%s;", names[i], parts[i]);
			free(parts[i]);
		}
		snprintf(buf + n, sizeof buf - n, "}");
		break;
	}
	case json_type_array:
	{
		char *parts[256];
		size_t len = json_object_array_length(o);
		for (size_t i = 0; i < len && i < 256; i++)
			parts[i] = ser(json_object_array_get_idx(o, i));
		n += (size_t)snprintf(buf + n, sizeof buf - n, "[#%zu:", len);
		for (size_t i = 0; i < len && i < 256; i++)
		{
			n += (size_t)snprintf(buf + n, sizeof buf - n, "%s,", parts[i]);
			free(parts[i]);
		}
		snprintf(buf + n, sizeof buf - n, "]");
		break;
	}
	case json_type_string: snprintf(buf, sizeof buf, "s%d:%.*s", json_object_get_string_len(o), json_object_get_string_len(o), json_object_get_string(o)); break;
	case json_type_int: snprintf(buf, sizeof buf, "i%lld/%llu", (long long)json_object_get_int64(o), (unsigned long long)json_object_get_uint64(o)); break;
	case json_type_double: snprintf(buf, sizeof buf, "d%.17g", json_object_get_double(o)); break;
	case json_type_boolean: snprintf(buf, sizeof buf, "b%d", json_object_get_boolean(o)); break;
	default: snprintf(buf, sizeof buf, "?"); break;
	}
	return strdup(buf);
}
static const char *DOC = "{\"a\":[1,2,{\"b\":\"xxxxxxxxxxxxxxxxxxxxxxxxxxxxxxxxxxxxxxxxxxxxx\"}],\"c\":1.5,\"d\":1,\"e\":2,\"f\":3,\"g\":4,\"h\":5,\"i\":6,\"j\":7,\"k\":8,\"l\":9,\"m\":10}";
/* history mode: after the fixed set-up, a pseudo-random prefix of ordinary (fault-free) operations is applied to the
 * caller-owned objects, so that the operation under fault meets them in states a fresh object never has: tables with
 * tombstones or already grown, arrays with spare or no capacity, strings already moved to a separate buffer, shrunk,
 * or emptied.  hist = 0: no prefix. */
static long hist;
static void apply_history(void)
{
	static const char *vals[] = {"", "s", "sixteen bytes..!", "a string of thirty-one bytes...", "a string of more than thirty-two bytes, in fact a good deal more than that",
	                             "an even longer string: an even longer string: an even longer string: an even longer string: an even longer string"};
	if (!hist)
		return;
	vh_srand(0xC08 * 1000003ull + (uint64_t)hist);
	int n = 2 + (int)vh_below(10);
	for (int i = 0; i < n; i++)
	{
		char k[8];
		snprintf(k, sizeof k, "k%u", vh_below(14));
		switch (vh_below(9))
		{
		case 0: json_object_object_add(pre_obj, k, json_object_new_int(100 + i)); break;
		case 1: json_object_object_del(pre_obj, k); break;
		case 2: json_object_array_add(pre_arr, json_object_new_int(i)); break;
		case 3:
			if (json_object_array_length(pre_arr) > 0)
				json_object_array_del_idx(pre_arr, vh_below((uint32_t)json_object_array_length(pre_arr)), 1);
			break;
		case 4: json_object_array_put_idx(pre_arr, vh_below(12), json_object_new_string("p")); break;
		case 5: json_object_set_string(pre_str, vals[vh_below(6)]); break;
		case 6: json_object_set_string(pre_str2, vals[vh_below(6)]); break;
		case 7: json_object_object_add(pre_doc, k, json_object_new_string(vals[vh_below(6)])); break;
		default: json_object_object_del(pre_doc, k); break;
		}
	}
}
static void build_pre(void)
{
	pre_obj = json_object_new_object();
	for (int i = 0; i < 11; i++)
	{
		/* 11 members in a 16-slot table: the next NEW name makes the table grow (load factor 0.66) */
		char k[8];
		snprintf(k, sizeof k, "k%d", i);
		json_object_object_add(pre_obj, k, json_object_new_int(i));
	}
	pre_arr = json_object_new_array_ext(2);
	json_object_array_add(pre_arr, json_object_new_int(1));
	json_object_array_add(pre_arr, json_object_new_string("two"));
	pre_str = json_object_new_string("short");
	/* a string that has been grown once already: its value lives in a separately allocated buffer */
	pre_str2 = json_object_new_string("tiny");
	json_object_set_string(pre_str2, "grown once: this value no longer fits the storage inside the node itself");
	pre_doc = json_tokener_parse(DOC);
	pre_patch = json_tokener_parse("[{\"op\":\"add\",\"path\":\"/new\",\"value\":{\"x\":[1,2,3]}},{\"op\":\"copy\",\"from\":\"/a\",\"path\":\"/a2\"},"
	                               "{\"op\":\"move\",\"from\":\"/c\",\"path\":\"/c2\"},{\"op\":\"replace\",\"path\":\"/d\",\"value\":\"r\"},"
	                               "{\"op\":\"test\",\"path\":\"/e\",\"value\":2},{\"op\":\"remove\",\"path\":\"/f\"}]");
	apply_history();
	snap_obj = ser(pre_obj);
	snap_arr = ser(pre_arr);
	snap_str = ser(pre_str);
	snap_str2 = ser(pre_str2);
	snap_doc = ser(pre_doc);
	snap_patch = ser(pre_patch);
}
static void drop_pre(void)
{
	json_object_put(pre_obj);
	json_object_put(pre_arr);
	json_object_put(pre_str);
	json_object_put(pre_str2);
	json_object_put(pre_doc);
	json_object_put(pre_patch);
	free(snap_obj);
	free(snap_arr);
	free(snap_str);
	free(snap_str2);
	free(snap_doc);
	free(snap_patch);
}

/* ---- a workload returns: status (0 normal, 1 failed through its documented channel, 2 neither),
 * a malloc'd rendering of its result (compared with the fault-free rendering), and is told which of the
 * pre-existing objects it may legitimately have changed on SUCCESS (mask). */
typedef struct
{
	int status;
	char *result;
	int changed_mask; /* 1 obj, 2 arr, 4 str, 8 doc */
} wres;
typedef wres (*workload_fn)(int variant);

static wres w_parse(int v)
{
	static const char *docs[] = {NULL, "[1,2,3,4,5,6,7,8,9,10,11,12,13,14,15,16,17,18,19,20,21,22,23,24,25,26,27,28,29,30,31,32,33,34]",
	                             "{\"a\":{\"b\":{\"c\":[[[\"deep\"]]]}},\"s\":\"\\u00e9\\ud83d\\ude00 long string value long string value long string value\"}",
	                             "[1.5,2.5e10,\"x\",null,true,{\"k\":1,\"k\":2}]", "  \"just a string that is longer than thirty-two bytes to grow the buffer\"  ",
	                             "{\"k0\":0,\"k1\":1,\"k2\":2,\"k3\":3,\"k4\":4,\"k5\":5,\"k6\":6,\"k7\":7,\"k8\":8,\"k9\":9,\"k10\":10,\"k11\":11,\"k12\":12}"};
	const char *d = v % 6 == 0 ? DOC : docs[v % 6];
	wres r = {2, NULL, 0};
	json_tokener *t = json_tokener_new();
	if (!t)
	{
		r.status = 1;
		return r;
	}
	json_object *o = NULL;
	size_t len = strlen(d);
	if (v >= 6)
	{
		/* chunked */
		size_t cut = len / 2;
		o = json_tokener_parse_ex(t, d, (int)cut);
		if (json_tokener_get_error(t) == json_tokener_continue)
			o = json_tokener_parse_ex(t, d + cut, (int)(len - cut + 1));
	}
	else
		o = json_tokener_parse_ex(t, d, (int)len + 1);
	enum json_tokener_error e = json_tokener_get_error(t);
	if (e == json_tokener_success)
	{
		r.status = 0;
		r.result = ser(o);
	}
	else if (e == json_tokener_error_memory && o == NULL)
		r.status = 1;
	if (o)
		json_object_put(o);
	json_tokener_free(t);
	return r;
}
static wres w_parse_simple(int v)
{
	/* json_tokener_parse: NULL is the only failure channel */
	(void)v;
	wres r = {2, NULL, 0};
	json_object *o = json_tokener_parse(DOC);
	if (o)
	{
		r.status = 0;
		r.result = ser(o);
		json_object_put(o);
	}
	else
		r.status = 1;
	return r;
}
static wres w_construct(int v)
{
	wres r = {2, NULL, 0};
	json_object *o = NULL;
	switch (v)
	{
	case 0: o = json_object_new_object(); break;
	case 1: o = json_object_new_array(); break;
	case 2: o = json_object_new_array_ext(5); break;
	case 3: o = json_object_new_string("a string that is longer than the inline capacity of a node"); break;
	case 4: o = json_object_new_string_len("ab\0cd", 5); break;
	case 5: o = json_object_new_double_s(1.5, "1.50"); break;
	case 6: o = json_object_new_int64(7); break;
	case 7: o = json_object_new_double(2.5); break;
	case 8: o = json_object_new_boolean(1); break;
	default: o = json_object_new_uint64(9); break;
	}
	if (o)
	{
		r.status = 0;
		r.result = ser(o);
		json_object_put(o);
	}
	else
		r.status = 1;
	return r;
}
static wres w_obj_add(int v)
{
	/* pre_obj has 11 members: a 12th name grows the table */
	wres r = {2, NULL, 1};
	json_object *val = json_object_new_int(99);
	if (!val)
	{
		r.status = 1;
		r.changed_mask = 0;
		return r;
	}
	int rc = v == 0 ? json_object_object_add(pre_obj, "k11", val) : v == 1 ? json_object_object_add(pre_obj, "k3", val)
	                                                                       : json_object_object_add_ex(pre_obj, "const", val, JSON_C_OBJECT_ADD_CONSTANT_KEY | JSON_C_OBJECT_ADD_KEY_IS_NEW);
	if (rc == 0)
	{
		r.status = 0;
		r.result = ser(pre_obj);
	}
	else
	{
		r.status = rc < 0 ? 1 : 2;
		r.changed_mask = 0;
		json_object_put(val); /* ownership stays with the caller on failure */
	}
	return r;
}
static wres w_arr(int v)
{
	wres r = {2, NULL, 2};
	json_object *val = json_object_new_string("elem");
	if (!val)
	{
		r.status = 1;
		r.changed_mask = 0;
		return r;
	}
	/* variants 4..: the LAST slot of an array whose length equals its capacity (every parsed array is like that):
	 * replacing or shifting there still makes the list grow first */
	json_object *parsed = NULL;
	json_object_object_get_ex(pre_doc, "a", &parsed);
	size_t len = json_object_array_length(pre_arr), plen = json_object_array_length(parsed);
	json_object *tgt = v >= 6 ? parsed : pre_arr;
	if (v >= 6)
		r.changed_mask = 8;
	int rc = v == 0 ? json_object_array_add(pre_arr, val) : v == 1 ? json_object_array_put_idx(pre_arr, 9, val)
	       : v == 2 ? json_object_array_insert_idx(pre_arr, 1, val) : v == 3 ? json_object_array_put_idx(pre_arr, 0, val)
	       : v == 4 ? json_object_array_put_idx(pre_arr, len ? len - 1 : 0, val)
	       : v == 5 ? json_object_array_insert_idx(pre_arr, len ? len - 1 : 0, val)
	       : v == 6 ? json_object_array_put_idx(parsed, plen ? plen - 1 : 0, val)
	       : v == 7 ? json_object_array_add(parsed, val)
	                : json_object_array_insert_idx(parsed, 0, val);
	if (rc == 0)
	{
		r.status = 0;
		r.result = ser(tgt);
	}
	else
	{
		r.status = rc < 0 ? 1 : 2;
		r.changed_mask = 0;
		json_object_put(val);
	}
	return r;
}
static wres w_set_string(int v)
{
	wres r = {2, NULL, v < 2 ? 4 : 32};
	json_object *tgt = v < 2 ? pre_str : pre_str2;
	int rc = v == 0 ? json_object_set_string(pre_str, "a considerably longer string than before, forcing a separate buffer")
	       : v == 1 ? json_object_set_string_len(pre_str, "x\0y-a considerably longer string than before..", 40)
	       : v == 2 ? json_object_set_string(pre_str2, "grown a second time: longer again than the separately allocated buffer that held the previous value")
	       : v == 3 ? json_object_set_string_len(pre_str2, "grown a second time\0 with an embedded NUL: longer again than the separately allocated buffer was.", 95)
	       : v == 4 ? json_object_set_string(pre_str2, "shrunk")
	                : json_object_set_string(pre_str2, "equal len: this value no longer fits the storage inside the node itself!");
	if (rc == 1)
	{
		r.status = 0;
		r.result = ser(tgt);
	}
	else
	{
		r.status = rc == 0 ? 1 : 2;
		r.changed_mask = 0;
	}
	return r;
}
static wres w_deep_copy(int v)
{
	(void)v;
	wres r = {2, NULL, 0};
	json_object *c = NULL;
	int rc = json_object_deep_copy(pre_doc, &c, NULL);
	if (rc == 0 && c)
	{
		r.status = 0;
		r.result = ser(c);
		json_object_put(c);
	}
	else if (rc < 0 && c == NULL)
		r.status = 1;
	else if (c)
		json_object_put(c);
	return r;
}
static wres w_serialize(int v)
{
	static const int fl[] = {0, JSON_C_TO_STRING_SPACED, JSON_C_TO_STRING_PRETTY, JSON_C_TO_STRING_PRETTY | JSON_C_TO_STRING_PRETTY_TAB,
	                         JSON_C_TO_STRING_NOZERO, JSON_C_TO_STRING_COLOR | JSON_C_TO_STRING_PRETTY};
	wres r = {2, NULL, 0};
	size_t len = 0;
	json_object *t = v >= 6 ? pre_obj : pre_doc;
	const char *s = v == 12 ? json_object_to_json_string(t) : json_object_to_json_string_length(t, fl[v % 6], &len);
	if (s)
	{
		r.status = 0;
		r.result = strdup(s); /* any text that is returned must be the complete text */
	}
	else
		r.status = 1;
	return r;
}
static wres w_pointer_set(int v)
{
	wres r = {2, NULL, 8};
	json_object *val = json_object_new_string("via pointer");
	if (!val)
	{
		r.status = 1;
		r.changed_mask = 0;
		return r;
	}
	json_object *root = pre_doc;
	int rc = v == 0 ? json_pointer_set(&root, "/a/2/newkey", val) : v == 1 ? json_pointer_set(&root, "/a/-", val)
	       : v == 3 ? json_pointer_set(&root, "/a/2/esc~1aped~0key", val) /* (a last token that has to be unescaped into a copy) */
	       : v == 4 ? json_pointer_setf(&root, val, "/a/2/%s", "~0~1")
	                : json_pointer_setf(&root, val, "/%s/%d", "a", 0);
	if (rc == 0)
	{
		r.status = 0;
		r.result = ser(pre_doc);
	}
	else
	{
		r.status = rc < 0 ? 1 : 2;
		r.changed_mask = 0;
		json_object_put(val);
	}
	return r;
}
static wres w_pointer_get(int v)
{
	wres r = {2, NULL, 0};
	json_object *res = NULL;
	int rc = v == 0 ? json_pointer_get(pre_doc, "/a/2/b", &res) : json_pointer_getf(pre_doc, &res, "/%s/%d", "a", 1);
	if (rc == 0)
	{
		r.status = 0;
		r.result = ser(res);
	}
	else
		r.status = rc < 0 ? 1 : 2;
	return r;
}
static wres w_patch(int v)
{
	wres r = {2, NULL, 0};
	json_object *base = NULL;
	struct json_patch_error pe;
	int rc;
	if (v == 0)
		rc = json_patch_apply(pre_doc, pre_patch, &base, &pe);
	else
	{
		/* single operations in place on a private copy made before the fault window would hide its own
		 * allocations: use copy mode with a one-operation patch */
		json_object *one = json_object_new_array();
		if (!one)
		{
			r.status = 1;
			return r;
		}
		json_object *op = json_object_array_get_idx(pre_patch, (size_t)(v - 1));
		if (json_object_array_add(one, json_object_get(op)) != 0)
		{
			json_object_put(op);
			json_object_put(one);
			r.status = 1;
			return r;
		}
		rc = json_patch_apply(pre_doc, one, &base, &pe);
		json_object_put(one);
	}
	if (rc == 0 && base)
	{
		r.status = 0;
		r.result = ser(base);
	}
	else if (rc < 0)
		r.status = 1;
	if (base)
		json_object_put(base);
	return r;
}
/* json_c_set_serialization_double_format (v = 0 process-wide, 1 per thread): install a format, replace it, serialize a
 * double.  Whichever request fails, the call reports it, and the library stays usable: the double is then printed under a
 * format that was installed (or the default), never through a released one */
static wres w_double_format(int v)
{
	wres r = {2, NULL, 0};
	int where = v == 0 ? JSON_C_OPTION_GLOBAL : JSON_C_OPTION_THREAD;
	json_object *d = json_object_new_double(1.5);
	if (!d)
	{
		r.status = 1;
		return r;
	}
	int rc1 = json_c_set_serialization_double_format("%.3f", where);
	int rc2 = rc1 == 0 ? json_c_set_serialization_double_format("%.5f", where) : -1;
	const char *s = json_object_to_json_string(d);
	if (rc1 == 0 && rc2 == 0 && s)
	{
		r.status = 0;
		r.result = strdup(s);
	}
	else if (!s || !strcmp(s, "1.5") || !strcmp(s, "1.500") || !strcmp(s, "1.50000"))
		r.status = 1;
	json_object_put(d);
	json_c_set_serialization_double_format(NULL, where);
	return r;
}
static struct
{
	const char *name;
	workload_fn fn;
	int variants;
	int uses_pre; /* operates on the caller-owned objects: worth repeating after a history */
} W[] = {{"parse_ex", w_parse, 12, 0},   {"tokener_parse", w_parse_simple, 1, 0}, {"construct", w_construct, 10, 0}, {"object_add", w_obj_add, 3, 1},
         {"array_grow", w_arr, 9, 1},    {"set_string", w_set_string, 6, 1},      {"deep_copy", w_deep_copy, 1, 1},  {"serialize", w_serialize, 13, 1},
         {"pointer_set", w_pointer_set, 5, 1}, {"pointer_get", w_pointer_get, 2, 1}, {"patch", w_patch, 7, 1},
         {"double_format", w_double_format, 2, 0}};
#define NW (int)(sizeof W / sizeof *W)

static int unchanged(int mask)
{
	int ok = 1;
	char *s;
#define CHK(bit, obj, snap) \
	if (!(mask & bit)) \
	{ \
		s = ser(obj); \
		if (strcmp(s, snap)) \
			ok = 0; \
		free(s); \
	}
	CHK(1, pre_obj, snap_obj)
	CHK(2, pre_arr, snap_arr)
	CHK(4, pre_str, snap_str)
	CHK(8, pre_doc, snap_doc)
	CHK(16, pre_patch, snap_patch)
	CHK(32, pre_str2, snap_str2)
	return ok;
}

static int sweep(int wfrom, int wto, int pairs, long hfrom, long hto)
{
	for (hist = hfrom; hist < hto; hist++)
	for (int w = wfrom; w < wto && w < NW; w++)
		for (int v = 0; v < W[w].variants; v++)
		{
			if (hist && !W[w].uses_pre)
				continue;
			ev_begin("new");
			ev_end();
			/* fault-free run: count the allocation requests, keep the result */
			long base0 = vh_live;
			build_pre();
			vh_alloc_arm(-1);
			wres clean = W[w].fn(v);
			long N = vh_nalloc;
			vh_alloc_disarm();
			int clean_ok = clean.status == 0 && unchanged(clean.changed_mask | 0);
			drop_pre();
			ev_begin("clean");
			ev_str("w", W[w].name);
			ev_int("v", v);
			ev_int("h", (int)hist);
			ev_int("n", N);
			ev_int("status", clean.status);
			ev_bool("pre_ok", clean_ok);
			ev_int("leak", (int)(vh_live - base0));
			ev_end();
			for (long k = 0; k < N; k++)
			{
				int second = -1;
				int rounds = pairs ? 2 : 1;
				for (int rr = 0; rr < rounds; rr++)
				{
					long live0 = vh_live;
					build_pre();
					vh_alloc_arm(k);
					if (rr == 1)
					{
						second = (int)(k + 1 + vh_below((uint32_t)(N - k)));
						vh_fail_at2 = second;
					}
					wres r = W[w].fn(v);
					const char *site = vh_fail_site;
					int hit = vh_nalloc > k;
					vh_alloc_disarm();
					/* a normal result must be the fault-free result; a failure must leave everything as it was */
					int same = r.status == 0 && clean.result && r.result && !strcmp(r.result, clean.result);
					int pre_ok = unchanged(r.status == 0 ? clean.changed_mask : 0);
					drop_pre();
					ev_begin("fault");
					ev_str("w", W[w].name);
					ev_int("v", v);
					ev_int("h", (int)hist);
					ev_int("k", k);
					ev_int("k2", rr ? second : -1);
					ev_int("n", N);
					ev_str("site", site);
					ev_bool("hit", hit);
					ev_int("status", r.status);
					ev_bool("same", same);
					ev_bool("pre_ok", pre_ok);
					ev_int("leak", (int)(vh_live - live0));
					ev_end();
					free(r.result);
				}
			}
			free(clean.result);
		}
	return 0;
}
int c08_main(int argc, char **argv)
{
	if (argc >= 4 && !strcmp(argv[0], "sweep"))
		return sweep(atoi(argv[1]), atoi(argv[2]), atoi(argv[3]), argc >= 6 ? atol(argv[4]) : 0, argc >= 6 ? atol(argv[5]) : 1);
	return 2;
}
