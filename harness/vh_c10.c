/* C10 numeric accessors: boundary lattice + random 64-bit patterns; every accessor on every source,
 * set-then-get, and json_object_int_inc on (value, increment) pairs.  UBSan makes an undefined
 * conversion or signed overflow inside json-c fatal (= no event). */
#include "vhrt.h"
#include "json.h"
#include <errno.h>
#include <float.h>
#include <limits.h>
#include <math.h>
#include "json_util.h"
#include <stdlib.h>
#include <string.h>

static const char *en(int e) { return e == 0 ? "0" : e == ERANGE ? "ERANGE" : e == EINVAL ? "EINVAL" : "other"; }

static void ev_src(json_object *o, const char *kind)
{
	ev_open_obj("src");
	ev_str("kind", kind);
	if (!strcmp(kind, "int"))
	{
		/* the node's exact value, read through the accessor of its own store */
		errno = 0;
		int64_t s = json_object_get_int64(o);
		uint64_t u = json_object_get_uint64(o);
		if (s < 0)
			ev_i64("v", s);
		else
			ev_u64("v", u);
	}
	else if (!strcmp(kind, "double"))
		ev_dbl("bits", json_object_get_double(o));
	else if (!strcmp(kind, "bool"))
		ev_bool("b", json_object_get_boolean(o));
	else if (!strcmp(kind, "string"))
		ev_bytes("s", json_object_get_string(o), (size_t)json_object_get_string_len(o));
	ev_close_obj();
}
static void accessors(json_object *o, const char *kind, int exact_neg, uint64_t exact_mag, int have_exact)
{
	ev_begin("acc");
	ev_open_obj("src");
	ev_str("kind", kind);
	if (have_exact)
	{
		ev_open_obj("v");
		ev_bool("neg", exact_neg);
		ev_u64limbs("m", exact_mag);
		ev_close_obj();
	}
	if (!strcmp(kind, "double"))
		ev_dbl("bits", json_object_get_double(o));
	if (!strcmp(kind, "bool"))
		ev_bool("b", json_object_get_boolean(o));
	if (!strcmp(kind, "string"))
		ev_bytes("s", json_object_get_string(o), (size_t)json_object_get_string_len(o));
	ev_close_obj();
	errno = 0;
	int32_t i32 = json_object_get_int(o);
	int e = errno;
	ev_open_obj("i32");
	ev_i64("v", i32);
	ev_str("errno", en(e));
	ev_close_obj();
	errno = 0;
	int64_t i64 = json_object_get_int64(o);
	e = errno;
	ev_open_obj("i64");
	ev_i64("v", i64);
	ev_str("errno", en(e));
	ev_close_obj();
	errno = 0;
	uint64_t u64 = json_object_get_uint64(o);
	e = errno;
	ev_open_obj("u64");
	ev_u64("v", u64);
	ev_str("errno", en(e));
	ev_close_obj();
	errno = 0;
	double d = json_object_get_double(o);
	e = errno;
	ev_open_obj("dbl");
	ev_dbl("bits", d);
	ev_str("errno", en(e));
	ev_close_obj();
	ev_bool("bool", json_object_get_boolean(o));
	{
		/* the node's kind as the type API reports it: name, the one type is_type answers yes to, and the accessors of
		 * other kinds answering "nothing" (no table, no list, length 0 for a non-string) */
		const char *tn = json_type_to_name(json_object_get_type(o));
		ev_str("tname", tn ? tn : "(none)");
		long long is[8];
		int nis = 0;
		for (int t = 0; t <= 6; t++)
			if (json_object_is_type(o, (json_type)t))
				is[nis++] = t;
		ev_ints("is", is, (size_t)nis);
		int isstr = !strcmp(kind, "string"), isarr = !strcmp(kind, "array"), isobj = !strcmp(kind, "object");
		ev_bool("foreign_empty", (isstr || json_object_get_string_len(o) == 0) && (isarr || json_object_get_array(o) == NULL) &&
		                             (isobj || json_object_get_object(o) == NULL)); /* (the length functions assert the kind) */
		ev_bool("noname", json_type_to_name((json_type)7) == NULL && json_type_to_name((json_type)-1) == NULL);
	}
	{
		/* the value an accessor returns is a function of the node, not of what errno happened to hold on entry
		 * (the caller of the previous accessor may have left ERANGE or EINVAL there) */
		static const int amb[] = {ERANGE, EINVAL, ENOMEM};
		int same = 1;
		for (int a = 0; a < 3; a++)
		{
			errno = amb[a];
			if (json_object_get_int(o) != i32)
				same = 0;
			errno = amb[a];
			if (json_object_get_int64(o) != i64)
				same = 0;
			errno = amb[a];
			if (json_object_get_uint64(o) != u64)
				same = 0;
			errno = amb[a];
			double d2 = json_object_get_double(o);
			if (memcmp(&d2, &d, sizeof d) && !(d2 != d2 && d != d))
				same = 0;
		}
		ev_bool("ambient_same", same);
	}
	/* trusted conversions supplied as data */
	double cast = 0;
	if (have_exact)
		cast = exact_neg ? -(double)exact_mag : (double)exact_mag;
	if (have_exact && exact_neg && exact_mag == (uint64_t)1 << 63)
		cast = (double)INT64_MIN;
	ev_dbl("cast", cast);
	int full = 0, range = 0;
	double sd = 0;
	if (!strcmp(kind, "string"))
	{
		const char *s = json_object_get_string(o);
		char *end;
		errno = 0;
		sd = strtod(s, &end);
		full = end != s && *end == 0 && strlen(s) == (size_t)json_object_get_string_len(o);
		range = errno == ERANGE && (sd == HUGE_VAL || sd == -HUGE_VAL);
	}
	if (!strcmp(kind, "string") && strlen(json_object_get_string(o)) == (size_t)json_object_get_string_len(o))
	{
		/* the public text-to-integer helpers called directly on the same text */
		int64_t pv = 0;
		uint64_t pu = 0;
		int r1 = json_parse_int64(json_object_get_string(o), &pv), r2 = json_parse_uint64(json_object_get_string(o), &pu);
		ev_open_obj("pi64");
		ev_int("ret", r1);
		ev_i64("v", r1 ? 0 : pv);
		ev_close_obj();
		ev_open_obj("pu64");
		ev_int("ret", r2);
		ev_u64("v", r2 ? 0 : pu);
		ev_close_obj();
	}
	ev_open_obj("strtod");
	ev_bool("full", full);
	ev_bool("range", range);
	ev_dbl("bits", sd);
	ev_close_obj();
	ev_end();
}

static const uint64_t lat[] = {0, 1, 2, 0x7fffffffull, 0x80000000ull, 0x80000001ull, 0xffffffffull, 0x100000000ull,
                               (1ull << 53) - 1, 1ull << 53, (1ull << 53) + 1, (1ull << 62), 0x7ffffffffffffffeull, 0x7fffffffffffffffull,
                               0x8000000000000000ull, 0x8000000000000001ull, 0xfffffffffffffffeull, 0xffffffffffffffffull, 0x7ffffffeull, 12345};
#define NLAT (sizeof lat / sizeof *lat)
static double dlat[200];
static int ndlat;
static void mk_dlat(void)
{
	static const double base[] = {0.0, 0.5, 1.0, 1.5, 2147483647.0, 2147483648.0, 2147483649.0, 4294967296.0, 9007199254740992.0,
	                              9223372036854775807.0, 9223372036854775808.0, 18446744073709551615.0, 18446744073709551616.0,
	                              1e19, 1e300, 4.9e-324, 2.2250738585072014e-308, 0.99999999999999989, 2147483647.5, 2147483648.5, 123.75};
	ndlat = 0;
	for (unsigned i = 0; i < sizeof base / sizeof *base; i++)
	{
		double b = base[i];
		double v[] = {b, -b, nextafter(b, INFINITY), nextafter(b, -INFINITY), -nextafter(b, INFINITY), -nextafter(b, -INFINITY)};
		for (int j = 0; j < 6; j++)
			dlat[ndlat++] = v[j];
	}
	dlat[ndlat++] = INFINITY;
	dlat[ndlat++] = -INFINITY;
	dlat[ndlat++] = NAN;
	dlat[ndlat++] = -NAN;
}
static const char *strs[] = {"0", "1", "-1", "42", " 42", "\t\n 42", "+42", "42abc", "abc", "", " ", "-", "+", "2147483647", "2147483648", "-2147483648", "-2147483649",
                             "9223372036854775807", "9223372036854775808", "-9223372036854775808", "-9223372036854775809", "18446744073709551615",
                             "18446744073709551616", "99999999999999999999999999", "-99999999999999999999999999", "1.5", "1e3", "-0", "0x10", "1e400", "-1e400",
                             "1e-400", "Infinity", "NaN", "  12  ", "12 ", "007", "1,5", ".5", "5.", "1e", "--1", "4294967296",
                             /* subnormal and boundary doubles spelled as text (strtod reports ERANGE for inexact tiny results, yet the value exists) */
                             "1e-310", "-1e-310", "3e-320", "4.9406564584124654e-324", "-4.9406564584124654e-324", "2.2250738585072009e-308",
                             "2.2250738585072014e-308", "1.7976931348623157e308", "-1.7976931348623157e308", "1.7976931348623159e308", "2.4703282292062327e-324",
                             "\t-1", "\n-5", " \t-1", "\v-9223372036854775808", "\r-0", "\f-18446744073709551615", "\t+7", "\t 7", "- 1", "-\t1",
                             "1e-5", "0.1", "123456789.125", "-0.0", "1E2", "1e+2", " 1.5", "1.5 ", "1.5x", "inf", "-inf", "nan", "0x1p-1074", "1e-323"};

static void int_inc(json_object *o, int64_t inc, int neg, uint64_t mag, const char *store)
{
	ev_begin("inc");
	ev_str("store", store);
	ev_open_obj("v");
	ev_bool("neg", neg);
	ev_u64limbs("m", mag);
	ev_close_obj();
	ev_i64("inc", inc);
	int ret = json_object_int_inc(o, inc);
	ev_int("ret", ret);
	errno = 0;
	int64_t s = json_object_get_int64(o);
	uint64_t u = json_object_get_uint64(o);
	if (s < 0)
		ev_i64("after", s);
	else
		ev_u64("after", u);
	/* which store the node is in now, as its serialization shows */
	ev_bytes("text", json_object_to_json_string(o), strlen(json_object_to_json_string(o)));
	ev_end();
}

/* the same value reached through a history of sets (a node's representation may depend on its past: a string moved
 * to a separate buffer, an integer that changed store, a double that had retained text) */
static json_object *string_via_history(const char *s)
{
	static const char fill[] = "a considerably longer string than anything in the lattice: it forces a separate buffer....";
	json_object *n;
	switch (vh_below(5))
	{
	case 0: return json_object_new_string(s);
	case 1:
		n = json_object_new_string("");
		json_object_set_string(n, fill);
		json_object_set_string(n, s);
		return n;
	case 2:
		n = json_object_new_string(fill);
		json_object_set_string(n, s);
		return n;
	case 3:
		n = json_object_new_string("x");
		json_object_set_string(n, fill);
		json_object_set_string(n, "");
		json_object_set_string(n, s);
		return n;
	default:
		n = json_object_new_string_len(s, (int)strlen(s) > 0 ? (int)strlen(s) - 1 : 0);
		json_object_set_string(n, s);
		return n;
	}
}
static json_object *uint_via_history(uint64_t u)
{
	json_object *n;
	switch (vh_below(4))
	{
	case 0: return json_object_new_uint64(u);
	case 1:
		n = json_object_new_int64(-5);
		json_object_set_uint64(n, u);
		return n;
	case 2:
		n = json_object_new_int(7);
		json_object_set_int64(n, INT64_MAX);
		json_object_set_uint64(n, u);
		return n;
	default:
		n = json_object_new_uint64(UINT64_MAX);
		json_object_set_uint64(n, u);
		return n;
	}
}
static json_object *int_via_history(int64_t v)
{
	json_object *n;
	switch (vh_below(4))
	{
	case 0: return json_object_new_int64(v);
	case 1:
		n = json_object_new_uint64(UINT64_MAX);
		json_object_set_int64(n, v);
		return n;
	case 2:
		n = json_object_new_int64(v / 2);
		json_object_int_inc(n, v - v / 2);
		return n;
	default:
		n = json_object_new_int(0);
		json_object_set_int64(n, v);
		return n;
	}
}
static json_object *double_via_history(double d)
{
	json_object *n;
	switch (vh_below(3))
	{
	case 0: return json_object_new_double(d);
	case 1:
		n = json_object_new_double_s(7.25, "7.250");
		json_object_set_double(n, d);
		return n;
	default:
		n = json_object_new_double(-1.0);
		json_object_set_double(n, d);
		return n;
	}
}
/* the small exported functions beside the object model: version, sizes, the null constructor, json_parse_double, the default
 * iterator, the key comparison functions of linkhash, and the debug switches of debug.c (a two-flag state machine) */
#include "json_c_version.h"
#include "json_object_iterator.h"
#include "linkhash.h"
#include "debug.h"
static void misc_facts(void)
{
	double d = -1;
	int pd_ok = json_parse_double("1.5", &d) == 0 && d == 1.5;
	double d2 = 7;
	int pd_bad = json_parse_double("x", &d2) != 0;
	struct json_object_iterator i1 = json_object_iter_init_default(), i2 = json_object_iter_init_default();
	char k1[] = "key", k2[] = "key", k3[] = "kez";
	ev_begin("misc");
	ev_bool("version", !strcmp(json_c_version(), JSON_C_VERSION) && json_c_version_num() == JSON_C_VERSION_NUM);
	ev_bool("sizeof_pos", json_c_object_sizeof() > 0);
	ev_bool("null_is_null", json_object_new_null() == NULL);
	ev_bool("parse_double", pd_ok && pd_bad);
	ev_bool("iter_default", json_object_iter_equal(&i1, &i2));
	ev_bool("char_equal", lh_char_equal(k1, k2) != 0 && lh_char_equal(k1, k3) == 0);
	ev_bool("ptr_equal", lh_ptr_equal(k1, k1) != 0 && lh_ptr_equal(k1, k2) == 0);
	/* debug.c: set / get of the debug flag, under either log destination; the log functions return (to stderr, silenced) */
	long long seen[4];
	int n = 0;
	FILE *keep = stderr;
	stderr = fopen("/dev/null", "w");
	for (int sys = 0; sys < 2; sys++)
		for (int dbg = 1; dbg >= 0; dbg--)
		{
			mc_set_syslog(sys);
			mc_set_debug(dbg);
			/* (with the debug flag on and no syslog, mc_debug prints to stdout - where the events go: only called otherwise) */
			if (!dbg || sys)
				mc_debug("vh %d\n", 1);
			mc_info("vh %d\n", 2);
			mc_error("vh %d\n", 3);
			seen[n++] = mc_get_debug();
		}
	mc_set_syslog(0);
	if (stderr)
		fclose(stderr);
	stderr = keep;
	ev_ints("debug_seen", seen, 4);
	ev_end();
}
static int drive(int start, int nexec)
{
	const char *seed = getenv("VERIF_SEED");
	uint64_t s0 = seed ? strtoull(seed, 0, 10) : 1;
	mk_dlat();
	for (int x = start; x < nexec; x++)
	{
		vh_srand(s0 * 1000003ull + (uint64_t)x);
		ev_begin("new");
		ev_end();
		if (x == start)
			misc_facts();
		/* integer sources, both stores */
		for (int k = 0; k < 12; k++)
		{
			uint64_t u = (x == 0 && k < (int)NLAT) ? lat[k] : (vh_below(2) ? lat[vh_below(NLAT)] + vh_below(3) - 1 : vh_rand());
			if (x > 0 && vh_below(4) == 0)
				u >>= vh_below(64);
			json_object *o = uint_via_history(u);
			accessors(o, "int", 0, u, 1);
			json_object_put(o);
			int64_t s = (int64_t)u;
			o = int_via_history(s);
			accessors(o, "int", s < 0, s < 0 ? (uint64_t)0 - (uint64_t)s : (uint64_t)s, 1);
			json_object_put(o);
		}
		/* double sources */
		for (int k = 0; k < 12; k++)
		{
			double d;
			if (vh_below(2))
				d = dlat[(x * 12 + k) % ndlat];
			else
			{
				uint64_t b = vh_rand();
				if (vh_below(2)) /* exponents around 2^31 .. 2^64 */
					b = (b & 0x800fffffffffffffull) | ((uint64_t)(1023 + 20 + vh_below(50)) << 52);
				memcpy(&d, &b, 8);
			}
			json_object *o = double_via_history(d);
			accessors(o, "double", 0, 0, 0);
			json_object_put(o);
		}
		/* strings, booleans, null, containers */
		for (int k = 0; k < 6; k++)
		{
			char tmp[64];
			const char *s = strs[(x * 6 + k) % (sizeof strs / sizeof *strs)];
			if (vh_below(3) == 0)
			{
				if (vh_below(3))
					snprintf(tmp, sizeof tmp, "%s%llu", vh_below(2) ? "-" : "", (unsigned long long)(vh_rand() >> vh_below(64)));
				else
				{
					/* a random double bit pattern (all exponents incl. subnormals) printed as text */
					uint64_t b = vh_rand();
					if (vh_below(3) == 0)
						b &= 0x800fffffffffffffull; /* subnormal */
					double d;
					memcpy(&d, &b, 8);
					if (d != d || d - d != 0)
						d = 1.5;
					if (vh_below(2))
						snprintf(tmp, sizeof tmp, "%.17g", d);
					else
						snprintf(tmp, sizeof tmp, "%.*e", (int)vh_below(18), d);
				}
				s = tmp;
			}
			json_object *o = string_via_history(s);
			accessors(o, "string", 0, 0, 0);
			json_object_put(o);
		}
		json_object *b = json_object_new_boolean(x & 1);
		accessors(b, "bool", 0, 0, 0);
		json_object_put(b);
		accessors(NULL, "null", 0, 0, 0);
		json_object *c = (x & 1) ? json_object_new_array() : json_object_new_object();
		accessors(c, (x & 1) ? "array" : "object", 0, 0, 0);
		json_object_put(c);
		/* set then get */
		{
			json_object *o = json_object_new_int(0);
			uint64_t u = vh_below(2) ? lat[vh_below(NLAT)] : vh_rand();
			ev_begin("setget");
			int r1 = json_object_set_int64(o, (int64_t)u);
			ev_i64("set_i64", (int64_t)u);
			ev_i64("got_i64", json_object_get_int64(o));
			int r2 = json_object_set_uint64(o, u);
			ev_u64("set_u64", u);
			ev_u64("got_u64", json_object_get_uint64(o));
			int r3 = json_object_set_int(o, (int)(int32_t)u);
			ev_i64("set_i32", (int32_t)u);
			ev_i64("got_i32", json_object_get_int(o));
			json_object *dn = json_object_new_double(0);
			double d = dlat[vh_below((uint32_t)ndlat)];
			int r4 = json_object_set_double(dn, d);
			ev_dbl("set_dbl", d);
			ev_dbl("got_dbl", json_object_get_double(dn));
			json_object *bn = json_object_new_boolean(0);
			int r5 = json_object_set_boolean(bn, 1);
			ev_bool("got_bool", json_object_get_boolean(bn));
			ev_int("rets", r1 + r2 + r3 + r4 + r5);
			/* wrong-kind sets are refused */
			ev_int("wrong", json_object_set_int64(dn, 1) + json_object_set_double(o, 1.0) + json_object_set_boolean(o, 1) + json_object_set_uint64(bn, 1));
			ev_end();
			json_object_put(o);
			json_object_put(dn);
			json_object_put(bn);
		}
		/* increments: lattice pairs */
		for (int k = 0; k < 24; k++)
		{
			uint64_t u = (x == 0) ? lat[k % NLAT] : (vh_below(3) ? lat[vh_below(NLAT)] + vh_below(3) - 1 : vh_rand());
			uint64_t iu = (x == 0) ? lat[(k * 7 + 3) % NLAT] : (vh_below(3) ? lat[vh_below(NLAT)] + vh_below(3) - 1 : vh_rand());
			int64_t inc = (int64_t)iu;
			if (vh_below(2) && inc != INT64_MIN)
				inc = -inc;
			if (k == 5)
				inc = INT64_MIN;
			if (k == 6)
				inc = INT64_MAX;
			json_object *o;
			if (vh_below(2))
			{
				o = json_object_new_uint64(u);
				int_inc(o, inc, 0, u, "u64");
			}
			else
			{
				int64_t s = (int64_t)u;
				o = json_object_new_int64(s);
				int_inc(o, inc, s < 0, s < 0 ? (uint64_t)0 - (uint64_t)s : (uint64_t)s, "i64");
			}
			json_object_put(o);
		}
	}
	return 0;
}

int c10_main(int argc, char **argv)
{
	(void)ev_src;
	if (argc >= 3 && !strcmp(argv[0], "drive"))
		return drive(atoi(argv[1]), atoi(argv[2]));
	return 2;
}
