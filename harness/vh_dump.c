/* typed dump of a json_object tree as nested JSON (value model of spec/JsonValue.tla):
 *  {"t":"null"} {"t":"bool","b":..} {"t":"int","neg":..,"d":[digits]} {"t":"double","text":[bytes]}
 *  {"t":"string","s":[bytes]} {"t":"array","e":[..]} {"t":"object","m":[{"k":[bytes],"v":..}]}  {"t":"none"} */
#include "vhrt.h"
#include "vh_dump.h"
#include "json_object_private.h"
#include <stdlib.h>
#include <string.h>
#include <inttypes.h>
#include <stdio.h>
#include <string.h>

int dump_bits = 0; /* doubles also carry their IEEE bit pattern */
int dump_fmt = 0;  /* doubles carry fmt = printf("%.17g") in the C locale and ret = retained token text (or empty) */
void dump_none(const char *key)
{
	ev_open_obj(key);
	ev_str("t", "none");
	ev_close_obj();
}
/* values nested deeper than this are dumped as {"t":"deep"} below the cap (the trace reader's JSON parser has a nesting
 * limit of 255 and a level of the value costs up to three levels of the dump); 0 = no cap */
int dump_depth_cap = 0;
static int dump_level = 0;
void dump_value(const char *key, json_object *o)
{
	ev_open_obj(key);
	if (dump_depth_cap && dump_level >= dump_depth_cap && (json_object_is_type(o, json_type_array) || json_object_is_type(o, json_type_object)))
	{
		ev_str("t", "deep");
		ev_close_obj();
		return;
	}
	dump_level++;
	switch (json_object_get_type(o))
	{
	case json_type_null: ev_str("t", "null"); break;
	case json_type_boolean:
		ev_str("t", "bool");
		ev_bool("b", json_object_get_boolean(o));
		break;
	case json_type_int:
	{
		char buf[40];
		ev_str("t", "int");
		/* the node's own decimal rendering in its store: int64 or uint64 */
		int64_t s = json_object_get_int64(o);
		uint64_t u = json_object_get_uint64(o);
		if (s < 0)
		{
			ev_bool("neg", 1);
			snprintf(buf, sizeof buf, "%" PRIu64, (uint64_t)0 - (uint64_t)s);
		}
		else
		{
			ev_bool("neg", 0);
			snprintf(buf, sizeof buf, "%" PRIu64, u);
		}
		ev_digits("d", buf);
		break;
	}
	case json_type_double:
	{
		size_t n = 0;
		const char *t = json_object_to_json_string_length(o, JSON_C_TO_STRING_PLAIN, &n);
		ev_str("t", "double");
		ev_bytes("text", t ? t : "", t ? n : 0);
		if (dump_bits)
			ev_dbl("bits", json_object_get_double(o));
		if (dump_fmt)
		{
			char fb[64];
			int fl = snprintf(fb, sizeof fb, "%.17g", json_object_get_double(o));
			ev_bytes("fmt", fb, (size_t)fl);
			const char *ud = (const char *)json_object_get_userdata(o);
			/* (a node printed by json_object_double_to_json_string keeps a FORMAT there, not a retained text) */
			if (o->_to_json_string == json_object_double_to_json_string)
				ud = NULL;
			ev_bytes("ret", ud ? ud : "", ud ? strlen(ud) : 0);
			/* the retained text (if any) still denotes the node's value: strtod of it gives the same bit pattern
			 * (sign of zero included); NaN / infinities compare by class */
			int retok = 1;
			if (ud)
			{
				double dv = json_object_get_double(o), rv = strtod(ud, NULL);
				retok = (dv != dv) ? (rv != rv) : (memcmp(&dv, &rv, sizeof dv) == 0);
			}
			ev_bool("retok", retok);
		}
		break;
	}
	case json_type_string:
		ev_str("t", "string");
		ev_bytes("s", json_object_get_string(o), (size_t)json_object_get_string_len(o));
		break;
	case json_type_array:
	{
		ev_str("t", "array");
		ev_open_arr("e");
		size_t n = json_object_array_length(o);
		for (size_t i = 0; i < n; i++)
			dump_value(NULL, json_object_array_get_idx(o, i));
		ev_close_arr();
		break;
	}
	case json_type_object:
	{
		ev_str("t", "object");
		ev_open_arr("m");
		json_object_object_foreach(o, k, v)
		{
			ev_open_obj(NULL);
			ev_bytes("k", k, strlen(k));
			dump_value("v", v);
			ev_close_obj();
		}
		ev_close_arr();
		break;
	}
	}
	dump_level--;
	ev_close_obj();
}
