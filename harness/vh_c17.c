/* C17 visitor: build a tree from a description, run json_c_visit with a scripted (replay) or
 * random (drive) callback, record the tree, every call (node, flags, parent, key, index) with the
 * code the callback returned, and the final result - one event per traversal. */
#include "vhrt.h"
#include "json.h"
#include "json_visit.h"
#include <stdlib.h>
#include <string.h>

#define MAXNODES 600
#define MAXCALLS 2000
typedef struct
{
	char kind;
	int nk;
	int kids[64];
	int keys[64];
	json_object *obj;
} tnode;
static tnode T[MAXNODES + 1];
static int nnodes;
static char keyname[MAXNODES * 64 + 100][12];

typedef struct
{
	int n, f, p, k, i, c;
} call_t;
static call_t calls[MAXCALLS];
static int ncalls;
static int codes[MAXCALLS], ncodes;
static int random_codes;
static int pr[6]; /* per-execution percentages for SKIP POP STOP ERROR INVALID, second-bias */

static int churn_on = 1;
static json_object *build(int id)
{
	tnode *t = &T[id];
	switch (t->kind)
	{
	case 'z': t->obj = NULL; break;
	case 'l':
		switch (id % 4)
		{
		case 0: t->obj = json_object_new_int(id); break;
		case 1: t->obj = json_object_new_string("s"); break;
		case 2: t->obj = json_object_new_boolean(1); break;
		default: t->obj = json_object_new_double(0.5); break;
		}
		break;
	case 'o':
		t->obj = json_object_new_object();
		{
			/* the visited tree is what it is, whatever its containers went through: now and then members and elements
			 * that do not belong to the tree are added in between and taken out again (tombstones, grown tables,
			 * deleted-and-re-added members, trimmed arrays) */
			int churn = churn_on && vh_below(3) == 0 ? 1 + (int)vh_below(30) : 0;
			char jk[24];
			for (int c = 0; c < churn; c++)
			{
				snprintf(jk, sizeof jk, "junk%d", c);
				json_object_object_add(t->obj, jk, json_object_new_int(c));
			}
			for (int j = 0; j < t->nk; j++)
			{
				snprintf(keyname[t->keys[j]], sizeof keyname[0], "k%d", t->keys[j]);
				if (churn && vh_below(4) == 0)
				{
					/* added, deleted, added again (goes to the end each time, as the model expects of the final add) */
					json_object_object_add(t->obj, keyname[t->keys[j]], json_object_new_string("temporary"));
					json_object_object_del(t->obj, keyname[t->keys[j]]);
				}
				json_object_object_add(t->obj, keyname[t->keys[j]], build(t->kids[j]));
				if (churn && vh_below(3) == 0)
				{
					snprintf(jk, sizeof jk, "mid%d", j);
					json_object_object_add(t->obj, jk, json_object_new_int(j));
					json_object_object_del(t->obj, jk);
				}
			}
			if (churn)
			{
				/* a random program of adds and deletes over a small pool of other names (slots are reused, tombstones
				 * come and go, the newest entry is deleted again and again) ... */
				for (int c = 0; c < 60; c++)
				{
					snprintf(jk, sizeof jk, "p%u", vh_below(10));
					if (vh_below(2))
						json_object_object_add(t->obj, jk, json_object_new_int(c));
					else
						json_object_object_del(t->obj, jk);
				}
				for (int c = 0; c < 10; c++)
				{
					snprintf(jk, sizeof jk, "p%d", c);
					json_object_object_del(t->obj, jk);
				}
			}
			for (int c = churn - 1; c >= 0; c--)
			{
				snprintf(jk, sizeof jk, "junk%d", c);
				json_object_object_del(t->obj, jk);
			}
			if (churn)
				/* ... and every member of the tree is stored once more under its own name (a replacement in place) */
				for (int j = 0; j < t->nk; j++)
				{
					json_object *cur = NULL;
					if (json_object_object_get_ex(t->obj, keyname[t->keys[j]], &cur))
						json_object_object_add(t->obj, keyname[t->keys[j]], json_object_get(cur));
					else
						json_object_object_add(t->obj, keyname[t->keys[j]], json_object_get(T[t->kids[j]].obj));
				}
		}
		break;
	default:
		t->obj = json_object_new_array();
		{
			int pre = churn_on && vh_below(4) == 0 ? 1 + (int)vh_below(3) : 0, post = churn_on && vh_below(4) == 0 ? 1 + (int)vh_below(40) : 0;
			for (int c = 0; c < pre; c++)
				json_object_array_add(t->obj, json_object_new_int(c));
			for (int j = 0; j < t->nk; j++)
				json_object_array_add(t->obj, build(t->kids[j]));
			for (int c = 0; c < post; c++)
				json_object_array_add(t->obj, json_object_new_string("junk"));
			if (post)
				json_object_array_del_idx(t->obj, (size_t)pre + (size_t)t->nk, (size_t)post);
			if (pre)
				json_object_array_del_idx(t->obj, 0, (size_t)pre);
		}
		break;
	}
	return t->obj;
}
static int id_of(json_object *o)
{
	if (!o)
		return 0;
	for (int i = 1; i <= nnodes; i++)
		if (T[i].obj == o)
			return i;
	return -1;
}
static int cb(json_object *jso, int flags, json_object *parent, const char *key, size_t *idx, void *arg)
{
	(void)arg;
	int code;
	if (random_codes)
	{
		uint32_t r = vh_below(100);
		int second = flags & JSON_C_VISIT_SECOND;
		int boost = second ? pr[5] : 1;
		if (r < (uint32_t)(pr[0] * boost))
			code = JSON_C_VISIT_RETURN_SKIP;
		else if (r < (uint32_t)((pr[0] + pr[1]) * boost))
			code = JSON_C_VISIT_RETURN_POP;
		else if (r < (uint32_t)((pr[0] + pr[1]) * boost + pr[2]))
			code = JSON_C_VISIT_RETURN_STOP;
		else if (r < (uint32_t)((pr[0] + pr[1]) * boost + pr[2] + pr[3]))
			code = JSON_C_VISIT_RETURN_ERROR;
		else if (r < (uint32_t)((pr[0] + pr[1]) * boost + pr[2] + pr[3] + pr[4]))
			code = 1 + (int)vh_below(50);
		else
			code = JSON_C_VISIT_RETURN_CONTINUE;
	}
	else
		code = ncalls < ncodes ? codes[ncalls] : JSON_C_VISIT_RETURN_CONTINUE;
	if (ncalls < MAXCALLS)
	{
		call_t *c = &calls[ncalls];
		c->n = id_of(jso);
		c->f = flags & JSON_C_VISIT_SECOND; /* (the one documented bit: set exactly on a container's second visit) */
		c->p = id_of(parent);
		c->k = key ? atoi(key + 1) : -1;
		c->i = idx ? (int)*idx : -1;
		c->c = code;
	}
	ncalls++;
	return code;
}

static void run_and_record(void)
{
	json_object *root = build(1);
	ncalls = 0;
	fflush(stdout);
	/* the library reports invalid codes on stderr: silence it */
	/* json_c_visit's second argument is reserved ("future_flags"): whatever the caller passes there, the traversal and
	 * the flag the callback sees are the documented ones */
	static const int ff[] = {1, JSON_C_VISIT_SECOND, 0x10, -1, 0x7fffffff};
	int rc = json_c_visit(root, vh_below(5) < 3 ? 0 : ff[vh_below(5)], cb, NULL);
	ev_begin("visit");
	ev_open_arr("nodes");
	for (int i = 1; i <= nnodes; i++)
	{
		char kind[2] = {T[i].kind, 0};
		long long kk[64], ky[64];
		for (int j = 0; j < T[i].nk; j++)
		{
			kk[j] = T[i].kids[j];
			ky[j] = T[i].keys[j];
		}
		ev_open_obj(NULL);
		ev_str("kind", kind);
		ev_ints("kids", kk, (size_t)T[i].nk);
		ev_ints("keys", ky, T[i].kind == 'o' ? (size_t)T[i].nk : 0);
		ev_close_obj();
	}
	ev_close_arr();
	ev_open_arr("calls");
	for (int i = 0; i < ncalls && i < MAXCALLS; i++)
	{
		ev_open_obj(NULL);
		ev_int("n", calls[i].n);
		ev_int("f", calls[i].f);
		ev_int("p", calls[i].p);
		ev_int("k", calls[i].k);
		ev_int("i", calls[i].i);
		ev_int("c", calls[i].c);
		ev_close_obj();
	}
	ev_close_arr();
	ev_int("ncalls", ncalls);
	ev_int("ret", rc);
	ev_end();
	json_object_put(root);
}

/* script line:  N  then per node: kind nk (kid key)*  then  M codes...   */
static int replay(const char *path, long start)
{
	FILE *f = fopen(path, "r");
	if (!f)
		return 2;
	char *line = 0;
	size_t cap = 0;
	long idx = 0;
	random_codes = 0;
	while (getline(&line, &cap, f) > 0)
	{
		if (idx++ < start)
			continue;
		char *p = line;
		nnodes = (int)strtol(p, &p, 10);
		for (int i = 1; i <= nnodes; i++)
		{
			while (*p == ' ')
				p++;
			T[i].kind = *p++;
			T[i].nk = (int)strtol(p, &p, 10);
			for (int j = 0; j < T[i].nk; j++)
			{
				T[i].kids[j] = (int)strtol(p, &p, 10);
				T[i].keys[j] = (int)strtol(p, &p, 10);
			}
		}
		ncodes = (int)strtol(p, &p, 10);
		for (int i = 0; i < ncodes; i++)
			codes[i] = (int)strtol(p, &p, 10);
		ev_begin("new");
		ev_end();
		run_and_record();
	}
	free(line);
	fclose(f);
	return 0;
}

static int gen_tree(int budget, int depth)
{
	int id = ++nnodes;
	tnode *t = &T[id];
	t->nk = 0;
	uint32_t r = vh_below(10);
	if (budget <= 1 || depth > 12 || r < 3)
	{
		t->kind = r == 0 ? 'z' : (r == 1 ? (vh_below(2) ? 'o' : 'a') : 'l');
		return id;
	}
	t->kind = vh_below(2) ? 'o' : 'a';
	int kids = 1 + (int)vh_below(budget > 8 ? 8 : (uint32_t)budget);
	int left = budget - 1;
	for (int j = 0; j < kids && left > 0 && nnodes < MAXNODES - 2 && t->nk < 60; j++)
	{
		int share = 1 + (int)vh_below((uint32_t)left);
		if (vh_below(3))
			share = 1 + (int)vh_below(share > 3 ? 3 : (uint32_t)share);
		int kid = gen_tree(share, depth + 1);
		t = &T[id];
		t->kids[t->nk] = kid;
		t->keys[t->nk] = id * 64 + t->nk;
		t->nk++;
		left -= share;
	}
	return id;
}

static int drive(int start, int nexec, int maxnodes)
{
	const char *seed = getenv("VERIF_SEED");
	uint64_t s0 = seed ? strtoull(seed, 0, 10) : 1;
	random_codes = 1;
	for (int x = start; x < nexec; x++)
	{
		vh_srand(s0 * 1000003ull + (uint64_t)x);
		nnodes = 0;
		gen_tree(1 + (int)vh_below((uint32_t)maxnodes), 0);
		static const int profiles[][6] = {{0, 0, 0, 0, 0, 1}, {10, 0, 0, 0, 0, 1}, {0, 10, 0, 0, 0, 1}, {5, 5, 1, 1, 1, 1},
		                                  {3, 3, 0, 0, 0, 8}, {0, 0, 2, 0, 0, 1}, {0, 0, 0, 2, 0, 1}, {0, 0, 0, 0, 2, 1},
		                                  {15, 15, 2, 2, 2, 2}, {2, 20, 0, 0, 0, 1}};
		memcpy(pr, profiles[vh_below(10)], sizeof pr);
		ev_begin("new");
		ev_end();
		/* several schedules on the same tree */
		run_and_record();
	}
	return 0;
}

/* ---- chains: a tree that is ONE path of N nested containers around a scalar, N up to tens of thousands (built through
 * the API: no parser limit applies).  With a callback that always continues the visitor makes 2N+1 calls and returns
 * 0; with one that reports an error at the scalar it makes N+1 calls and returns -1.  Runs on a thread with a large
 * stack: the visitor and json_object_put both recurse once per level. */
#include <pthread.h>
static long deep_calls;
static int deep_err_at_leaf;
static int deep_cb(json_object *jso, int flags, json_object *parent, const char *key, size_t *idx, void *arg)
{
	(void)flags;
	(void)parent;
	(void)key;
	(void)idx;
	(void)arg;
	deep_calls++;
	if (deep_err_at_leaf && json_object_get_type(jso) == json_type_int)
		return JSON_C_VISIT_RETURN_ERROR;
	return JSON_C_VISIT_RETURN_CONTINUE;
}
static void *deep_thread(void *a)
{
	static const int ns[] = {1, 1000, 16383, 16384, 16385, 20000, 32768, 40000};
	(void)a;
	for (unsigned i = 0; i < sizeof ns / sizeof *ns; i++)
	{
		int n = ns[i];
		json_object *cur = json_object_new_int(7);
		for (int k = 0; k < n; k++)
		{
			json_object *c;
			if (k % 3 == 2)
			{
				c = json_object_new_object();
				json_object_object_add(c, "k", cur);
			}
			else
			{
				c = json_object_new_array();
				json_object_array_add(c, cur);
			}
			cur = c;
		}
		deep_calls = 0;
		deep_err_at_leaf = 0;
		int r1 = json_c_visit(cur, 0, deep_cb, NULL);
		long c1 = deep_calls;
		deep_calls = 0;
		deep_err_at_leaf = 1;
		int r2 = json_c_visit(cur, 0, deep_cb, NULL);
		long c2 = deep_calls;
		json_object_put(cur);
		ev_begin("new");
		ev_end();
		ev_begin("vdeep");
		ev_int("n", n);
		ev_int("calls", c1);
		ev_int("ret", r1);
		ev_int("calls_err", c2);
		ev_int("ret_err", r2);
		ev_end();
	}
	return NULL;
}
static int deep(void)
{
	pthread_attr_t at;
	pthread_t th;
	pthread_attr_init(&at);
	pthread_attr_setstacksize(&at, (size_t)1 << 30);
	if (pthread_create(&th, &at, deep_thread, NULL))
		return 2;
	pthread_join(th, NULL);
	return 0;
}
int c17_main(int argc, char **argv)
{
	/* the library prints a message for invalid return codes */
	if (!freopen("/dev/null", "w", stderr))
		return 2;
	if (argc >= 1 && !strcmp(argv[0], "deep"))
		return deep();
	if (argc >= 3 && !strcmp(argv[0], "replay"))
		return replay(argv[1], atol(argv[2]));
	if (argc >= 4 && !strcmp(argv[0], "drive"))
		return drive(atoi(argv[1]), atoi(argv[2]), atoi(argv[3]));
	return 2;
}
