#define _GNU_SOURCE
#include "vhrt.h"
#include <errno.h>
#include <signal.h>
#include <inttypes.h>
#include <stdlib.h>
#include <string.h>
#include <unistd.h>

/* ------------------------------------------------------------------ allocator */
long vh_live = 0, vh_nalloc = 0, vh_fail_at = -1, vh_fail_at2 = -1, vh_peak_live = 0;
const char *vh_fail_site = "-";
vh_free_observer vh_on_free = 0;

/* the wrappers are also linked into the threaded harness: a tiny spin lock keeps the table consistent */
static volatile int tablock = 0;
static void lock(void)
{
	while (__sync_lock_test_and_set(&tablock, 1))
		;
}
static void unlock(void) { __sync_lock_release(&tablock); }
static void **tab = 0;
static size_t tabsz = 0, tabn = 0; /* open addressing, tombstone = (void*)1 */

static void tab_put_raw(void **t, size_t sz, void *p)
{
	size_t h = (((size_t)p >> 4) * 0x9E3779B97F4A7C15ull) % sz;
	while (t[h] && t[h] != (void *)1)
		h = (h + 1) % sz;
	t[h] = p;
}
static void tab_add_locked(void *p);
static void tab_add(void *p)
{
	if (!p)
		return;
	lock();
	tab_add_locked(p);
	unlock();
}
static void tab_add_locked(void *p)
{
	if ((tabn + 1) * 2 > tabsz)
	{
		size_t nsz = tabsz ? tabsz * 2 : 1 << 16;
		void **nt = calloc(nsz, sizeof(void *));
		if (!nt)
			abort();
		size_t live = 0;
		for (size_t i = 0; i < tabsz; i++)
			if (tab[i] && tab[i] != (void *)1)
			{
				tab_put_raw(nt, nsz, tab[i]);
				live++;
			}
		free(tab);
		tab = nt;
		tabsz = nsz;
		tabn = live;
	}
	tab_put_raw(tab, tabsz, p);
	tabn++;
	vh_live++;
	if (vh_live > vh_peak_live)
		vh_peak_live = vh_live;
}
static int tab_del_locked(void *p);
static int tab_del(void *p)
{
	lock();
	int r = tab_del_locked(p);
	unlock();
	return r;
}
static int tab_del_locked(void *p)
{
	if (!tabsz)
		return 0;
	size_t h = (((size_t)p >> 4) * 0x9E3779B97F4A7C15ull) % tabsz, n = 0;
	while (tab[h] != p)
	{
		if (!tab[h] || ++n >= tabsz)
			return 0;
		h = (h + 1) % tabsz;
	}
	tab[h] = (void *)1;
	vh_live--;
	return 1;
}
static int should_fail(const char *site)
{
	long k = __sync_fetch_and_add(&vh_nalloc, 1);
	if (k == vh_fail_at || k == vh_fail_at2)
	{
		vh_fail_site = site;
		errno = ENOMEM;
		return 1;
	}
	return 0;
}
void vh_alloc_arm(long fail_at)
{
	vh_nalloc = 0;
	vh_fail_at = fail_at;
	vh_fail_at2 = -1;
	vh_fail_site = "-";
}
void vh_alloc_disarm(void)
{
	vh_fail_at = -1;
	vh_fail_at2 = -1;
}
void *verif_malloc(size_t n, const char *f)
{
	if (should_fail(f))
		return NULL;
	void *p = malloc(n);
	tab_add(p);
	return p;
}
void *verif_calloc(size_t a, size_t b, const char *f)
{
	if (should_fail(f))
		return NULL;
	void *p = calloc(a, b);
	tab_add(p);
	return p;
}
void *verif_realloc(void *o, size_t n, const char *f)
{
	if (should_fail(f))
		return NULL;
	void *p = realloc(o, n);
	if (p || n == 0)
	{
		if (o)
			tab_del(o);
		tab_add(p);
	}
	return p;
}
void verif_free(void *p)
{
	if (p)
	{
		if (vh_on_free)
			vh_on_free(p);
		tab_del(p); /* blocks that came from libc (vasprintf) are simply passed through */
	}
	free(p);
}
char *verif_strdup(const char *s, const char *f)
{
	if (should_fail(f))
		return NULL;
	char *p = strdup(s);
	tab_add(p);
	return p;
}

/* ------------------------------------------------------------------ io */
int vh_io_fd = -1, vh_io_n = 0, vh_io_pos = 0, vh_io_calls = 0, vh_io_errs = 0;
int vh_io_script[VH_IO_MAX];
static int io_next(void)
{
	vh_io_calls++;
	if (vh_io_pos < vh_io_n)
		return vh_io_script[vh_io_pos++];
	return 0;
}
ssize_t verif_read(int fd, void *b, size_t n)
{
	if (fd == vh_io_fd)
	{
		int s = io_next();
		if (s < 0)
		{
			vh_io_errs++;
			errno = -s;
			return -1;
		}
		if (s > 0 && (size_t)s < n)
			n = (size_t)s;
	}
	return read(fd, b, n);
}
ssize_t verif_write(int fd, const void *b, size_t n)
{
	if (fd == vh_io_fd)
	{
		int s = io_next();
		if (s < 0)
		{
			vh_io_errs++;
			errno = -s;
			return -1;
		}
		if (s > 0 && (size_t)s < n)
			n = (size_t)s;
	}
	return write(fd, b, n);
}

/* ------------------------------------------------------------------ locale */
int vh_loc_dup_fail = 0, vh_loc_new_fail = 0, vh_loc_used_c = 0;
long vh_loc_live = 0, vh_loc_calls = 0;
char vh_loc_log[64];
int vh_loc_logn = 0;
static void loclog(char c)
{
	if (vh_loc_logn < 63)
		vh_loc_log[vh_loc_logn++] = c;
	vh_loc_log[vh_loc_logn] = 0;
}
locale_t verif_uselocale(locale_t l)
{
	vh_loc_calls++;
	loclog(l ? 'u' : 'q');
	if (l)
		vh_loc_used_c++;
	return uselocale(l);
}
locale_t verif_duplocale(locale_t l)
{
	vh_loc_calls++;
	if (vh_loc_dup_fail)
	{
		vh_loc_dup_fail = 0;
		loclog('D');
		errno = ENOMEM;
		return (locale_t)0;
	}
	loclog('d');
	locale_t r = duplocale(l);
	if (r)
		vh_loc_live++;
	return r;
}
locale_t verif_newlocale(int m, const char *n, locale_t b)
{
	vh_loc_calls++;
	if (vh_loc_new_fail)
	{
		vh_loc_new_fail = 0;
		loclog('N');
		errno = ENOMEM;
		return (locale_t)0;
	}
	loclog('n');
	locale_t r = newlocale(m, n, b);
	if (r && !b)
		vh_loc_live++; /* with a base, the base object is consumed and the result replaces it */
	return r;
}
void verif_freelocale(locale_t l)
{
	vh_loc_calls++;
	loclog('f');
	vh_loc_live--;
	freelocale(l);
}

/* ------------------------------------------------------------------ prng */
static uint64_t rs = 0x9E3779B97F4A7C15ull;
void vh_srand(uint64_t s)
{
	rs = s * 0x9E3779B97F4A7C15ull + 0x123456789ull;
	if (!rs)
		rs = 1;
	for (int i = 0; i < 4; i++)
		vh_rand();
}
uint64_t vh_rand(void)
{
	rs ^= rs << 13;
	rs ^= rs >> 7;
	rs ^= rs << 17;
	return rs * 0x2545F4914F6CDD1Dull;
}
uint32_t vh_below(uint32_t n) { return n ? (uint32_t)((vh_rand() >> 33) % n) : 0; }

/* ------------------------------------------------------------------ ndjson */
FILE *ev_out = 0;
long ev_count = 0;
static int first;
static int depth_first[1024];
static int dtop = 0;
static void sep(void)
{
	if (!depth_first[dtop])
		fputc(',', ev_out);
	depth_first[dtop] = 0;
}
static void key(const char *k)
{
	sep();
	if (k)
		fprintf(ev_out, "\"%s\":", k);
}
void ev_begin(const char *name)
{
	if (!ev_out)
		ev_out = stdout;
	dtop = 0;
	depth_first[0] = 0;
	(void)first;
	fprintf(ev_out, "{\"e\":\"%s\"", name);
}
void ev_int(const char *k, long long v)
{
	if (v > 2147483647LL || v < -2147483647LL)
	{
		fprintf(stderr, "ev_int: %s=%lld does not fit TLC int\n", k ? k : "?", v);
		abort();
	}
	key(k);
	fprintf(ev_out, "%lld", v);
}
void ev_bool(const char *k, int v)
{
	key(k);
	fputs(v ? "true" : "false", ev_out);
}
void ev_str(const char *k, const char *v)
{
	key(k);
	fputc('"', ev_out);
	for (; *v; v++)
	{
		unsigned char c = (unsigned char)*v;
		if (c == '"' || c == '\\')
			fprintf(ev_out, "\\%c", c);
		else if (c < 0x20 || c >= 0x7f)
			fprintf(ev_out, "\\u%04x", c);
		else
			fputc(c, ev_out);
	}
	fputc('"', ev_out);
}
void ev_bytes(const char *k, const void *p, size_t n)
{
	const unsigned char *b = p;
	key(k);
	fputc('[', ev_out);
	for (size_t i = 0; i < n; i++)
		fprintf(ev_out, i ? ",%u" : "%u", b[i]);
	fputc(']', ev_out);
}
void ev_ints(const char *k, const long long *v, size_t n)
{
	key(k);
	fputc('[', ev_out);
	for (size_t i = 0; i < n; i++)
		fprintf(ev_out, i ? ",%lld" : "%lld", v[i]);
	fputc(']', ev_out);
}
void ev_raw(const char *k, const char *json)
{
	key(k);
	fputs(json, ev_out);
}
void ev_u64limbs(const char *k, uint64_t v)
{
	key(k);
	fprintf(ev_out, "[%u,%u,%u,%u]", (unsigned)(v & 0xffff), (unsigned)((v >> 16) & 0xffff),
	        (unsigned)((v >> 32) & 0xffff), (unsigned)((v >> 48) & 0xffff));
}
void ev_u64(const char *k, uint64_t v)
{
	key(k);
	fprintf(ev_out, "{\"neg\":false,\"m\":[%u,%u,%u,%u]}", (unsigned)(v & 0xffff), (unsigned)((v >> 16) & 0xffff),
	        (unsigned)((v >> 32) & 0xffff), (unsigned)((v >> 48) & 0xffff));
}
void ev_i64(const char *k, int64_t s)
{
	uint64_t v = s < 0 ? (uint64_t)0 - (uint64_t)s : (uint64_t)s;
	key(k);
	fprintf(ev_out, "{\"neg\":%s,\"m\":[%u,%u,%u,%u]}", s < 0 ? "true" : "false", (unsigned)(v & 0xffff),
	        (unsigned)((v >> 16) & 0xffff), (unsigned)((v >> 32) & 0xffff), (unsigned)((v >> 48) & 0xffff));
}
void ev_dbl(const char *k, double d)
{
	uint64_t v;
	memcpy(&v, &d, 8);
	ev_u64limbs(k, v);
}
void ev_digits(const char *k, const char *dec)
{
	key(k);
	fputc('[', ev_out);
	int n = 0;
	for (; *dec; dec++)
		if (*dec >= '0' && *dec <= '9')
			fprintf(ev_out, n++ ? ",%d" : "%d", *dec - '0');
	fputc(']', ev_out);
}
void ev_open_arr(const char *k)
{
	key(k);
	fputc('[', ev_out);
	depth_first[++dtop] = 1;
}
void ev_close_arr(void)
{
	dtop--;
	fputc(']', ev_out);
}
void ev_open_obj(const char *k)
{
	key(k);
	fputc('{', ev_out);
	depth_first[++dtop] = 1;
}
void ev_close_obj(void)
{
	dtop--;
	fputc('}', ev_out);
}
/* watchdog: a call into json-c that does not come back (a probe loop without an exit, ...) must end the process
 * with a recognisable status instead of stalling the check: re-armed at every recorded event */
static void vh_watchdog(int sig)
{
	(void)sig;
	static const char msg[] = "VH-WATCHDOG: no event recorded for too long - the implementation does not return\n";
	if (write(2, msg, sizeof msg - 1) < 0)
		_exit(86);
	_exit(86);
}
void ev_end(void)
{
	static int armed, secs;
	fputs("}\n", ev_out);
	fflush(ev_out); /* a dying implementation must not take recorded events with it */
	ev_count++;
	if (!armed)
	{
		const char *w = getenv("VH_WATCHDOG");
		secs = w ? atoi(w) : 120;
		signal(SIGALRM, vh_watchdog);
		armed = 1;
	}
	if (secs > 0)
		alarm((unsigned)secs);
}
