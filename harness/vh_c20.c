/* C20 fd I/O under scripted short reads / writes and injected errors (the read()/write() calls
 * made by json-c go through vhrt's verif_read / verif_write).  Regular temp files are used, so
 * what was delivered can be read back byte for byte. */
#include "vhrt.h"
#include "vh_dump.h"
#include "json.h"
#include <errno.h>
#include <fcntl.h>
#include <stdlib.h>
#include <string.h>
#include <unistd.h>

static char tmpl[64];
static const char *errcls(void)
{
	const char *m = json_util_get_last_err();
	if (!m)
		return "none";
	if (strstr(m, "error reading fd"))
		return "read";
	if (strstr(m, "json_tokener_parse_ex failed"))
		return "parse";
	if (strstr(m, "error opening file"))
		return "open";
	if (strstr(m, "error writing file"))
		return "write";
	if (strstr(m, "unable to allocate json_tokener"))
		return "alloc";
	if (strstr(m, "object is null"))
		return "null";
	return "other";
}
static void set_script(int fd, const int *s, int n)
{
	vh_io_fd = fd;
	vh_io_n = n;
	vh_io_pos = 0;
	vh_io_calls = 0;
	vh_io_errs = 0;
	memcpy(vh_io_script, s, sizeof(int) * (size_t)n);
}
static int gen_script(int *s, int maxn, int total)
{
	int n = 0;
	int mode = (int)vh_below(7);
	int errat = vh_below(3) == 0 ? (int)vh_below(6) : -1;
	for (int i = 0; i < maxn; i++)
	{
		int v;
		switch (mode)
		{
		case 0: v = 1; break;                                      /* byte by byte */
		case 1: v = 0; break;                                      /* as much as asked */
		case 2: v = 1 + (int)vh_below(7); break;
		case 3: v = 1 + (int)vh_below((uint32_t)(total > 0 ? total : 1)); break;
		case 4: v = vh_below(2) ? 1 : 4096; break;
		case 5: v = i == 0 ? 1 + (int)vh_below(3) : 0; break;       /* a very short first transfer, then everything */
		default: v = i < 2 ? 1 + (int)vh_below(2) : (i == 2 ? 0 : 1 + (int)vh_below(9)); break;
		}
		if (i == errat)
			v = vh_below(2) ? -EIO : -EINTR;
		s[n++] = v;
	}
	return n;
}
extern json_object *c20_gen(int depth);
static json_object *gen(int depth)
{
	uint32_t r = vh_below(depth <= 0 ? 6 : 9);
	switch (r)
	{
	case 0: return NULL;
	case 1: return json_object_new_boolean((int)vh_below(2));
	case 2: return json_object_new_int64((int64_t)vh_rand() >> vh_below(60));
	case 3: return json_object_new_double((double)vh_below(1000) / 8.0);
	case 4: return json_object_new_string_len("s\0\n\"\xc3\xa9/", (int)vh_below(8));
	case 5: return json_object_new_string("string value");
	case 6: case 7:
	{
		json_object *a = json_object_new_array();
		int n = (int)vh_below(5);
		for (int i = 0; i < n; i++)
			json_object_array_add(a, gen(depth - 1));
		return a;
	}
	default:
	{
		json_object *o = json_object_new_object();
		int n = (int)vh_below(5);
		static const char *keys[] = {"a", "b", "key", "", "k k"};
		for (int i = 0; i < n; i++)
			json_object_object_add(o, keys[vh_below(5)], gen(depth - 1));
		return o;
	}
	}
}
static json_object *big_doc(int kb)
{
	json_object *a = json_object_new_array();
	for (int i = 0; i < kb * 40; i++)
		json_object_array_add(a, json_object_new_string("0123456789abcdef012345"));
	return a;
}
static void slurp(const char *path, unsigned char **buf, size_t *len)
{
	FILE *f = fopen(path, "rb");
	*buf = NULL;
	*len = 0;
	if (!f)
		return;
	fseek(f, 0, SEEK_END);
	long n = ftell(f);
	fseek(f, 0, SEEK_SET);
	*buf = malloc((size_t)n + 1);
	*len = fread(*buf, 1, (size_t)n, f);
	fclose(f);
}
static void ev_script(const int *s, int n)
{
	long long v[VH_IO_MAX];
	for (int i = 0; i < n; i++)
		v[i] = s[i] < 0 ? -1 : s[i];
	ev_ints("script", v, (size_t)n);
}

static void do_tofd(json_object *obj, int flags, int via_file)
{
	int script[64];
	if (via_file == 2)
		flags = JSON_C_TO_STRING_PLAIN; /* json_object_to_file: the plain form */
	const char *txt = json_object_to_json_string_ext(obj, flags);
	char *want = strdup(txt ? txt : "");
	int ns = gen_script(script, 40, (int)strlen(want));
	long live0 = vh_live;
	strcpy(tmpl, "/tmp/vh_c20_XXXXXX");
	int fd = mkstemp(tmpl);
	int ret;
	if (via_file)
	{
		/* the file exists already and is longer than the document: nothing of it may survive */
		static char junk[6000];
		memset(junk, 'J', sizeof junk);
		size_t jl = strlen(want) + 1 + vh_below(2000);
		if (jl > sizeof junk)
			jl = sizeof junk;
		if (vh_below(2) && write(fd, junk, jl) < 0)
			exit(2);
		close(fd);
		/* the library opens the file itself: the script applies to whatever fd it gets (next free = fd again) */
		set_script(fd, script, ns);
		ret = via_file == 2 ? json_object_to_file(tmpl, obj) : json_object_to_file_ext(tmpl, obj, flags);
	}
	else
	{
		set_script(fd, script, ns);
		ret = json_object_to_fd(fd, obj, flags);
		close(fd);
	}
	int calls = vh_io_calls;
	vh_io_fd = -1;
	unsigned char *got;
	size_t gl;
	slurp(tmpl, &got, &gl);
	unlink(tmpl);
	ev_begin("tofd");
	ev_int("via", via_file);
	ev_bytes("text", want, strlen(want) > 3000 ? 0 : strlen(want));
	ev_int("textlen", (long long)strlen(want));
	ev_script(script, ns);
	ev_int("ret", ret);
	ev_int("calls", calls);
	ev_int("err_hit", vh_io_errs);
	ev_bytes("delivered", got ? got : (unsigned char *)"", gl > 3000 ? 0 : gl);
	ev_int("dlen", (long long)gl);
	/* for long documents only the verdict of the byte comparison travels */
	ev_bool("prefix_ok", got && gl <= strlen(want) && memcmp(got, want, gl) == 0);
	ev_str("errcls", ret ? errcls() : "none");
	ev_int("leak", (int)(vh_live - live0) - (obj && 0));
	ev_end();
	free(got);
	free(want);
}

/* serialize every double node once, so that the dump later allocates nothing (per-node print buffers) */
static void prewarm(json_object *o)
{
	if (!o)
		return;
	if (json_object_get_type(o) == json_type_double)
		(void)json_object_to_json_string_ext(o, JSON_C_TO_STRING_PLAIN);
	else if (json_object_get_type(o) == json_type_array)
		for (size_t i = 0; i < json_object_array_length(o); i++)
			prewarm(json_object_array_get_idx(o, i));
	else if (json_object_get_type(o) == json_type_object)
	{
		json_object_object_foreach(o, k, v)
		{
			(void)k;
			prewarm(v);
		}
	}
}
/* a fixed schedule for the next read test (forced_n > 0), else a generated one */
static int forced[64], forced_n;
static void do_fromfd(const unsigned char *data, size_t len, int depth, int via_file)
{
	int script[64];
	int ns = forced_n ? forced_n : gen_script(script, 40, (int)len);
	if (forced_n)
		memcpy(script, forced, sizeof(int) * (size_t)forced_n);
	forced_n = 0;
	strcpy(tmpl, "/tmp/vh_c20_XXXXXX");
	int fd = mkstemp(tmpl);
	if (write(fd, data, len) != (ssize_t)len)
		exit(2);
	lseek(fd, 0, SEEK_SET);
	/* reference first (so that its allocations are a constant offset): the same bytes parsed from
	 * memory in one call, same depth */
	int d = (via_file || depth == -1) ? JSON_TOKENER_DEFAULT_DEPTH : depth;
	json_tokener *tk = d >= 1 ? json_tokener_new_ex(d) : NULL;
	json_object *m = NULL;
	enum json_tokener_error me = json_tokener_error_memory;
	if (tk)
	{
		char *copy = malloc(len ? len : 1);
		memcpy(copy, data, len);
		m = json_tokener_parse_ex(tk, copy, (int)len);
		me = json_tokener_get_error(tk);
		free(copy);
		prewarm(m);
	}
	long live0 = vh_live;
	json_object *o;
	if (via_file)
	{
		close(fd);
		set_script(fd, script, ns);
		o = json_object_from_file(tmpl);
		depth = -1;
	}
	else
	{
		set_script(fd, script, ns);
		o = depth == -1 && vh_below(2) ? json_object_from_fd(fd) : json_object_from_fd_ex(fd, depth);
		close(fd);
	}
	vh_io_fd = -1;
	unlink(tmpl);
	const char *cls = o ? "none" : errcls();
	ev_begin("fromfd");
	ev_int("via", via_file);
	ev_bytes("bytes", data, len > 3000 ? 0 : len);
	ev_int("blen", (long long)len);
	ev_int("depth", depth);
	ev_script(script, ns);
	ev_int("err_hit", vh_io_errs);
	ev_bool("got_value", o != NULL);
	if (len <= 3000)
	{
		dump_value("val", o);
		dump_value("mem", m);
	}
	else
	{
		dump_none("val");
		dump_none("mem");
	}
	ev_bool("equal", json_object_equal(o, m));
	ev_bool("mem_ok", tk && me == json_tokener_success);
	ev_bool("mem_null_value", tk && me == json_tokener_success && m == NULL);
	ev_str("errcls", cls);
	if (o)
		json_object_put(o);
	ev_int("leak", (int)(vh_live - live0) - 0);
	ev_end();
	if (m)
		json_object_put(m);
	if (tk)
		json_tokener_free(tk);
}

static char nestkind[256];
static int drive(int start, int nexec)
{
	dump_depth_cap = 60; /* deeper parts are compared by json_object_equal only (field "equal") */
	const char *seed = getenv("VERIF_SEED");
	uint64_t s0 = seed ? strtoull(seed, 0, 10) : 1;
	if (start == 0)
	{
		/* schedule matrix: documents just below / above the sizes at which the accumulation buffer grows, read with a
		 * first transfer of k bytes (then everything), with k-byte transfers throughout, and with one k-byte transfer
		 * after a full first buffer */
		static const int kb[] = {1, 2, 5, 9, 70};
		static const int ks[] = {1, 2, 3, 4, 7, 8, 31, 32, 33, 1023, 1024, 1025, 4095};
		for (unsigned d = 0; d < sizeof kb / sizeof *kb; d++)
		{
			json_object *t = big_doc(kb[d]);
			const char *txt = json_object_to_json_string_ext(t, 0);
			size_t len = strlen(txt);
			unsigned char *data = malloc(len + 1);
			memcpy(data, txt, len);
			for (unsigned i = 0; i < sizeof ks / sizeof *ks; i++)
				for (int shape = 0; shape < 3; shape++)
				{
					ev_begin("new");
					ev_end();
					for (int j = 0; j < 40; j++)
						forced[j] = shape == 0 ? (j == 0 ? ks[i] : 0) : shape == 1 ? ks[i] : (j == 1 ? ks[i] : 0);
					forced_n = 40;
					do_fromfd(data, len, -1, 0);
				}
			free(data);
			json_object_put(t);
		}
	}
	for (int x = start; x < nexec; x++)
	{
		vh_srand(s0 * 1000003ull + (uint64_t)x);
		ev_begin("new");
		ev_end();
		json_object *t = x % 25 == 24 ? big_doc(1 + (int)vh_below(64)) : x % 6 == 5 ? big_doc(1 + (int)vh_below(4)) : gen(3);
		static const int fl[] = {0, JSON_C_TO_STRING_SPACED, JSON_C_TO_STRING_PRETTY, JSON_C_TO_STRING_PRETTY | JSON_C_TO_STRING_PRETTY_TAB, JSON_C_TO_STRING_NOSLASHESCAPE};
		int flags = fl[vh_below(5)];
		if (t)
			do_tofd(t, flags, vh_below(4) ? 0 : 1 + (int)vh_below(2));
		/* reading: the serialization of t, a mutated one, or garbage */
		const char *txt = json_object_to_json_string_ext(t, flags);
		size_t len = strlen(txt);
		unsigned char *data = malloc(len + 8);
		memcpy(data, txt, len);
		uint32_t r = vh_below(6);
		if (r == 0 && len > 2)
			len = 1 + vh_below((uint32_t)len - 1); /* truncated */
		else if (r == 1 && len > 0)
			data[vh_below((uint32_t)len)] = (unsigned char)"{}[],:x\"0"[vh_below(9)];
		else if (r == 2)
		{
			memcpy(data + len, " \n ", 3);
			len += 3;
		}
		static const int depths[] = {-1, -1, -1, 1, 2, 3, 0, 32};
		int depth = depths[vh_below(8)];
		if (r == 3 || r == 4)
		{
			/* deeply nested documents against limits below, at and above the nesting - also limits above the default (32) */
			static const int nests[] = {1, 2, 5, 30, 31, 32, 33, 34, 40, 64, 100, 127, 128, 129, 200};
			int n = nests[vh_below(sizeof nests / sizeof *nests)];
			free(data);
			data = malloc((size_t)n * 8 + 16);
			len = 0;
			for (int i = 0; i < n; i++)
			{
				if (vh_below(3) == 0)
				{
					memcpy(data + len, "{\"k\":", 5);
					len += 5;
					nestkind[i] = '}';
				}
				else
				{
					data[len++] = '[';
					nestkind[i] = ']';
				}
			}
			data[len++] = '7';
			for (int i = n - 1; i >= 0; i--)
				data[len++] = (unsigned char)nestkind[i];
			static const int around[] = {-2, -1, 0, 1, 2};
			depth = vh_below(4) == 0 ? (int[]){33, 64, 128, 1000, 32, -1}[vh_below(6)] : n + around[vh_below(5)];
			if (depth < 1 && depth != -1)
				depth = 1;
		}
		do_fromfd(data, len, depth, depth == -1 && (int)vh_below(5) == 0);
		free(data);
		if (x % 10 == 0)
		{
			/* unopenable files */
			long live0 = vh_live;
			{
				/* a readable file opened while descriptor 0 is free (a process started without stdin): the lowest
				 * descriptor, 0, is a perfectly good one */
				char tn[] = "/tmp/vh_c20_fd0_XXXXXX";
				int tfd = mkstemp(tn);
				if (tfd >= 0 && write(tfd, "[1,2,3]", 7) == 7)
				{
					close(tfd);
					int keep = dup(0);
					close(0);
					json_object *z = json_object_from_file(tn);
					int fd0_free_after = fcntl(0, F_GETFD) == -1;
					if (keep >= 0)
					{
						dup2(keep, 0);
						close(keep);
					}
					ev_begin("fd0");
					ev_bool("got_value", z != NULL);
					ev_int("len", z ? (int)json_object_array_length(z) : -1);
					ev_bool("closed_again", fd0_free_after);
					ev_end();
					if (z)
						json_object_put(z);
				}
				unlink(tn);
			}
			json_object *o = json_object_from_file("/nonexistent-dir/x.json");
			ev_begin("open");
			ev_bool("got_value", o != NULL);
			ev_str("errcls", errcls());
			int rc = t ? json_object_to_file_ext("/nonexistent-dir/x.json", t, 0) : -1;
			ev_int("ret", rc);
			ev_str("errcls2", t ? errcls() : "open");
			ev_int("ret_null", json_object_to_fd(1, NULL, 0));
			ev_int("leak", (int)(vh_live - live0));
			ev_end();
		}
		json_object_put(t);
	}
	return 0;
}
int c20_main(int argc, char **argv)
{
	if (argc >= 3 && !strcmp(argv[0], "drive"))
		return drive(atoi(argv[1]), atoi(argv[2]));
	return 2;
}
