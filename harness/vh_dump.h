#ifndef VH_DUMP_H
#define VH_DUMP_H
#include "json.h"
void dump_value(const char *key, json_object *o);
void dump_none(const char *key);
extern int dump_bits, dump_fmt, dump_depth_cap;
#endif
