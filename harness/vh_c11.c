#define _GNU_SOURCE
/* C11 string nodes: replay scripts / drive random set histories; record each call with the
 * bytes given and everything observable afterwards (bytes, length, NUL, equality, copy, text). */
#include "vhrt.h"
#include "json.h"
#include <limits.h>
#include <stdlib.h>
#include <string.h>

static json_object *node;
static long live0;

/* fault overlay (as in vh_c07.c): fault_k >= 0: the fault_k-th allocation request of the next armed call fails */
static long fault_k = -2;
static int fault_hit;
#define ARMED(call) \
	do \
	{ \
		fault_hit = 0; \
		if (fault_k >= 0) \
			vh_alloc_arm(fault_k); \
		call; \
		if (fault_k >= 0) \
		{ \
			fault_hit = vh_nalloc > fault_k; \
			vh_alloc_disarm(); \
			fault_k = -2; \
		} \
	} while (0)
static void observe(const char *op, int n, const unsigned char *data, size_t dlen, int ret)
{
	ev_begin("op");
	ev_str("op", op);
	ev_int("n", n);
	ev_bytes("data", data, dlen);
	ev_int("ret", ret);
	ev_int("fault", fault_hit);
	fault_hit = 0;
	if (node)
	{
		int len = json_object_get_string_len(node);
		const char *s = json_object_get_string(node);
		ev_int("len", len);
		ev_bytes("bytes", s, (size_t)len);
		ev_bool("nul", s[len] == 0);
		/* equality / copy / serialization must use all bytes */
		json_object *same = json_object_new_string_len(s, len);
		ev_bool("eq_same", json_object_equal(node, same) && json_object_equal(same, node));
		json_object_put(same);
		int eqd = 0;
		{
			/* values that differ from the node's: last byte changed; the node's bytes followed by a NUL-led suffix; a proper
			 * prefix; a prefix cut at an embedded NUL; one byte more - none of them is equal to it */
			char *d = malloc((size_t)len + 8);
			memcpy(d, s, (size_t)len);
			memcpy(d + len, "\0suffix", 7);
			json_object *diffs[5];
			int nd = 0;
			diffs[nd++] = json_object_new_string_len(d, len + 7);
			diffs[nd++] = json_object_new_string_len(d, len + 1);
			if (len > 0)
			{
				diffs[nd++] = json_object_new_string_len(d, len - 1);
				const char *z = memchr(s, 0, (size_t)len);
				if (z)
					diffs[nd++] = json_object_new_string_len(d, (int)(z - s));
				d[len - 1] ^= 1;
				diffs[nd++] = json_object_new_string_len(d, len);
			}
			for (int j = 0; j < nd; j++)
			{
				eqd |= json_object_equal(node, diffs[j]) || json_object_equal(diffs[j], node);
				json_object_put(diffs[j]);
			}
			free(d);
		}
		ev_bool("eq_diff", eqd);
		json_object *copy = NULL;
		int rc = json_object_deep_copy(node, &copy, NULL);
		if (rc == 0 && copy)
		{
			ev_bytes("copy", json_object_get_string(copy), (size_t)json_object_get_string_len(copy));
			json_object_put(copy);
		}
		else
			ev_bytes("copy", "?", 1);
		size_t tl = 0;
		const char *t = json_object_to_json_string_length(node, JSON_C_TO_STRING_PLAIN, &tl);
		ev_bytes("ser", t ? t : "", t ? tl : 0);
		ev_int("leak", 0);
	}
	else
	{
		ev_int("len", 0);
		ev_bytes("bytes", "", 0);
		ev_bool("nul", 1);
		ev_bool("eq_same", 1);
		ev_bool("eq_diff", 0);
		ev_bytes("copy", "", 0);
		ev_bytes("ser", "\"\"", 2);
		ev_int("leak", (int)(vh_live - live0));
	}
	ev_end();
}

static void fresh(void)
{
	if (node)
		json_object_put(node);
	node = 0;
	live0 = vh_live;
	ev_begin("new");
	ev_end();
}

/* kind 0: length-counted entry point, 1: strlen-based entry point (data gets a terminator) */
static void do_new(const unsigned char *data, int n, int kind)
{
	json_object *fresh_node;
	if (kind)
	{
		char *z = malloc((size_t)n + 1);
		memcpy(z, data, (size_t)n);
		z[n] = 0;
		ARMED(fresh_node = json_object_new_string(z));
		free(z);
	}
	else
		ARMED(fresh_node = json_object_new_string_len((const char *)data, n));
	if (fresh_node)
	{
		/* the new node replaces the one under observation; a refused creation leaves it */
		if (node)
			json_object_put(node);
		node = fresh_node;
	}
	if (kind)
		observe("new", -1, data, (size_t)n, fresh_node != NULL);
	else
		observe("newlen", n, data, n > 0 && n < 100000 ? (size_t)n : 0, fresh_node != NULL);
}
static void do_set(const unsigned char *data, int n, int kind)
{
	int ret;
	if (kind)
	{
		char *z = malloc((size_t)n + 1);
		memcpy(z, data, (size_t)n);
		z[n] = 0;
		ARMED(ret = json_object_set_string(node, z));
		free(z);
		observe("set", -1, data, (size_t)n, ret);
	}
	else
	{
		ARMED(ret = json_object_set_string_len(node, (const char *)data, n));
		observe("setlen", n, data, n > 0 && n < 100000 ? (size_t)n : 0, ret);
	}
}
/* a C string of 2^32 + 5 bytes without 4 GiB of memory: a 16 MiB block of 'x' mapped 256 times back to back, then a
 * page with "xxxxx" and the terminator */
#include <sys/mman.h>
static const char *huge_string(void)
{
	static char *base;
	if (base)
		return base;
	const size_t blk = (size_t)16 << 20, total = (size_t)1 << 32;
	int fd = memfd_create("vh_c11_big", 0);
	if (fd < 0 || ftruncate(fd, (off_t)blk) != 0)
		return NULL;
	char *w = mmap(NULL, blk, PROT_READ | PROT_WRITE, MAP_SHARED, fd, 0);
	if (w == MAP_FAILED)
		return NULL;
	memset(w, 'x', blk);
	munmap(w, blk);
	char *b = mmap(NULL, total + 65536, PROT_NONE, MAP_PRIVATE | MAP_ANONYMOUS | MAP_NORESERVE, -1, 0);
	if (b == MAP_FAILED)
		return NULL;
	for (size_t i = 0; i < total / blk; i++)
		if (mmap(b + i * blk, blk, PROT_READ, MAP_SHARED | MAP_FIXED, fd, 0) == MAP_FAILED)
			return NULL;
	char *tail = mmap(b + total, 65536, PROT_READ | PROT_WRITE, MAP_PRIVATE | MAP_ANONYMOUS | MAP_FIXED, -1, 0);
	if (tail == MAP_FAILED)
		return NULL;
	memcpy(tail, "xxxxx", 6);
	close(fd);
	base = b;
	return base;
}
static void do_setbig(void)
{
	const char *h = huge_string();
	if (!h)
		return;
	int ret = json_object_set_string(node, h);
	observe("setbig", -1, (const unsigned char *)"", 0, ret);
}
/* a NEW node from a C string of 2^31 + 10 bytes (the tail of the oversize source): a length that json_object_get_string_len
 * (an int) cannot report.  Either no node is made, or one whose reported length is the count of its bytes */
static void do_newbig(void)
{
	const char *h = huge_string();
	if (!h)
		return;
	const size_t L = ((size_t)1 << 31) + 10;
	json_object *big = json_object_new_string(h + (((size_t)1 << 32) + 5 - L));
	ev_begin("op");
	ev_str("op", "newbig");
	ev_bool("created", big != NULL);
	ev_bool("len_is_count", big && (long long)json_object_get_string_len(big) == (long long)L);
	ev_end();
	if (big)
		json_object_put(big);
}
static void do_delete(void)
{
	json_object_put(node);
	node = 0;
	observe("delete", 0, (const unsigned char *)"", 0, 0);
}

static unsigned char buf[70000];
static void fill(int n, int v)
{
	/* bytes incl. NUL, controls, quote, backslash, slash, DEL, high bytes */
	static const unsigned char special[] = {0, 1, 8, 9, 10, 12, 13, 31, 34, 47, 92, 127, 128, 195, 255, 'a'};
	for (int i = 0; i < n; i++)
	{
		uint32_t r = vh_below(8);
		buf[i] = r < 3 ? special[vh_below(sizeof special)] : (unsigned char)(r < 5 ? 32 + vh_below(95) : vh_below(256));
	}
	if (v == 1 && n > 2)
		buf[n / 2] = 0; /* an embedded NUL */
	if (v == 2)
		for (int i = 0; i < n; i++)
			if (!buf[i])
				buf[i] = 'x'; /* NUL-free */
	if (v == 3)
		for (int i = 0; i < n; i++)
			buf[i] = (unsigned char)"abcdefghijklmnopqrstuvwxyz0123456789 ,.;"[i % 40]; /* nothing to escape: one long run for the serializer */
}

/* model length -> real length (P = 2 in the model, 8 here) */
static int maplen(int k)
{
	switch (k)
	{
	case -1: return -1;
	case 0: return 0;
	case 1: return 7;
	case 2: return 8;
	case 3: return 9;
	case 4: return 17;
	case 5: return 64;
	case 1000: return INT_MAX - 1;
	default: return k;
	}
}
/* script: "n K V;s K V;d" */
static int replay(const char *path, long start)
{
	FILE *f = fopen(path, "r");
	if (!f)
		return 2;
	char *line = 0;
	size_t cap = 0;
	long idx = 0;
	while (getline(&line, &cap, f) > 0)
	{
		if (idx++ < start)
			continue;
		vh_srand((uint64_t)idx * 7919u);
		fresh();
		char *save = 0;
		for (char *tok = strtok_r(line, ";\n", &save); tok; tok = strtok_r(0, ";\n", &save))
		{
			int k = 0, v = 0;
			sscanf(tok + 1, "%d %d", &k, &v);
			int n = maplen(k);
			v = (int)((idx + v) % 3);
			int bad = n < 0 || n >= INT_MAX - 1;
			if (!bad)
				fill(n, v);
			switch (tok[0])
			{
			case 'n': do_new(buf, n, !bad && v == 2 && (idx & 1)); break;
			case 's':
				if (!node)
					do_new(buf, 0, 0);
				do_set(buf, n, !bad && v == 2 && (idx & 2));
				break;
			case 'd':
				if (node)
					do_delete();
				break;
			default: return 2;
			}
		}
		if (node)
			do_delete();
	}
	free(line);
	fclose(f);
	return 0;
}

static int pick_len(void)
{
	static const int e[] = {0, 1, 2, 6, 7, 8, 9, 15, 16, 17, 31, 32, 33, 63, 64, 100, 255, 256, 300};
	switch (vh_below(4))
	{
	case 0: return (int)vh_below(12);
	case 1: return (int)vh_below(50);
	default: return e[vh_below(sizeof e / sizeof *e)];
	}
}
static int drive(int start, int nexec, int nops)
{
	const char *seed = getenv("VERIF_SEED");
	uint64_t s0 = seed ? strtoull(seed, 0, 10) : 1;
	for (int x = start; x < nexec; x++)
	{
		vh_srand(s0 * 1000003ull + (uint64_t)x);
		fresh();
		int n = pick_len();
		int v = (int)vh_below(3);
		fill(n, v);
		do_new(buf, n, v == 2 && vh_below(2));
		if (x % 60 == 59)
		{
			/* large values in succession: the node (and the print buffer it caches for serialization) is already
			 * large when a much larger / much smaller value arrives */
			static const int seq[][4] = {{9005, 40005, 100, 66000}, {8200, 20000, 5, 33000}, {16000, 60000, 0, 300}};
			const int *q = seq[vh_below(3)];
			for (int i = 0; i < 4; i++)
			{
				fill(q[i], vh_below(2) ? 3 : (int)vh_below(2));
				do_set(buf, q[i], 0);
			}
			do_delete();
			continue;
		}
		if (x == start)
		{
			/* once per process: the oversize source, on an inline node and again after the node has grown */
			do_setbig();
			fill(200, 3);
			do_set(buf, 200, 0);
			do_setbig();
			do_newbig();
		}
		int ops = 1 + (int)vh_below((uint32_t)nops);
		for (int i = 0; i < ops; i++)
		{
			uint32_t r = vh_below(20);
			if (r == 0)
			{
				static const int badn[] = {-1, -2, -100, INT_MAX - 1, INT_MAX, -INT_MAX};
				do_set(buf, badn[vh_below(6)], 0);
				continue;
			}
			if (r == 1)
			{
				do_new(buf, -1 - (int)vh_below(3), 0); /* refused creation */
				continue;
			}
			n = r < 5 ? (int)vh_below(10) : pick_len();
			if (x % 50 == 0 && i == 0)
				n = 65000; /* one long string now and then */
			v = (int)vh_below(3);
			fill(n, v);
			/* now and then the call's allocation request fails: refused, contents as they were */
			if (vh_below(8) == 0)
				fault_k = 0;
			if (vh_below(12) == 0)
				do_new(buf, n, v == 2 && vh_below(2));
			else
				do_set(buf, n, v == 2 && vh_below(2));
		}
		do_delete();
	}
	return 0;
}

int c11_main(int argc, char **argv)
{
	int r = 2;
	if (argc >= 3 && !strcmp(argv[0], "replay"))
		r = replay(argv[1], atol(argv[2]));
	else if (argc >= 4 && !strcmp(argv[0], "drive"))
		r = drive(atoi(argv[1]), atoi(argv[2]), atoi(argv[3]));
	if (node)
		json_object_put(node);
	return r;
}
