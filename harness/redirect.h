/* Force-included (-include) into every json-c translation unit by the verification build.
 * Maps allocation, fd I/O and locale calls made *by json-c* onto recording / fault-injecting
 * wrappers (vhrt.c) without touching the repository.  The libc headers are included first so
 * that their later, guarded re-inclusion cannot see the macros. */
#ifndef VERIF_REDIRECT_H
#define VERIF_REDIRECT_H
#include <stddef.h>
#include <stdlib.h>
#include <string.h>
#include <unistd.h>
#include <fcntl.h>
#include <locale.h>
#include <sys/types.h>

void *verif_malloc(size_t, const char *);
void *verif_calloc(size_t, size_t, const char *);
void *verif_realloc(void *, size_t, const char *);
void verif_free(void *);
char *verif_strdup(const char *, const char *);
ssize_t verif_read(int, void *, size_t);
ssize_t verif_write(int, const void *, size_t);
locale_t verif_uselocale(locale_t);
locale_t verif_duplocale(locale_t);
locale_t verif_newlocale(int, const char *, locale_t);
void verif_freelocale(locale_t);
int vh_seed_candidate(void); /* C18: per-thread distinct seed candidate (OVERRIDE_GET_RANDOM_SEED) */

#define malloc(n) verif_malloc((n), __func__)
#define calloc(a, b) verif_calloc((a), (b), __func__)
#define realloc(p, n) verif_realloc((p), (n), __func__)
#define free(p) verif_free((p))
#undef strdup
#define strdup(s) verif_strdup((s), __func__)
#define read(fd, b, n) verif_read((fd), (b), (n))
#define write(fd, b, n) verif_write((fd), (b), (n))
#define uselocale(l) verif_uselocale((l))
#define duplocale(l) verif_duplocale((l))
#define newlocale(m, n, b) verif_newlocale((m), (n), (b))
#define freelocale(l) verif_freelocale((l))
#endif
