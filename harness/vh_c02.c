/* C02 serializer: trees built through the API (random byte strings, 64-bit boundaries in both
 * stores, a double lattice + random bit patterns, retained number text, nesting) under all 64 flag
 * combinations.  For every (tree, flags): text, reported length, result of re-parsing with json-c
 * (equal to the tree?) and of re-serializing the re-parsed tree (same text?).  A rotating subset
 * of the texts goes into the event for TLC (validity + denotation); the relational checks cover
 * all 64. */
#include "vhrt.h"
#include "vh_dump.h"
#include "json.h"
#include <float.h>
#include <math.h>
#include <stdlib.h>
#include <string.h>

extern json_object *c09_twin_h(json_object *o);
static int naninf;
static json_object *gen_double(void)
{
	static const double lat[] = {0.0, -0.0, 1.0, -1.0, 0.1, 0.5, 1.5, 100.0, 1e5, 1e-5, 9.9999999999999995e-06, 1e16, 1e17, 123456789012345680.0,
	                             1e21, 1e-7, 1.5e20, 1.25e-10, 1e100, 1e-100, 1.7976931348623157e308, 2.2250738585072014e-308, 4.9e-324,
	                             3.0e10, 2.5e-10, 1e20, 120000.0, 0.30000000000000004, 1.0e22, 5e-324, 1e15, 123.0, 1.10, 7e30, 4e-30};
	uint32_t r = vh_below(10);
	if (r < 5)
	{
		double d = lat[vh_below(sizeof lat / sizeof *lat)];
		return json_object_new_double(vh_below(2) ? d : -d);
	}
	if (r < 7)
	{
		uint64_t b = vh_rand();
		double d;
		memcpy(&d, &b, 8);
		if (isnan(d) || isinf(d))
			d = 1.5;
		json_object *o = json_object_new_double(d);
		/* the public per-node serializer with the default format spelled out prints what the built-in one prints */
		if (vh_below(5) == 0)
			json_object_set_serializer(o, json_object_double_to_json_string, strdup("%.17g"), json_object_free_userdata);
		return o;
	}
	if (r == 7)
	{
		/* powers of ten and neighbours around the %g style switches */
		double d = pow(10.0, (double)((int)vh_below(40) - 12));
		d = vh_below(3) == 0 ? nextafter(d, 0) : vh_below(2) ? nextafter(d, INFINITY) : d;
		return json_object_new_double(d);
	}
	if (r == 8)
	{
		static const char *txt[] = {"1.50", "15e-1", "0.10", "1E2", "-0.0", "1.0e+2", "100.000", "1e-2"};
		const char *t = txt[vh_below(8)];
		if (vh_below(3) == 0)
		{
			/* the same through the public pieces new_double_s is made of */
			json_object *o = json_object_new_double(strtod(t, NULL));
			json_object_set_serializer(o, json_object_userdata_to_json_string, strdup(t), json_object_free_userdata);
			return o;
		}
		return json_object_new_double_s(strtod(t, NULL), t);
	}
	naninf = 1;
	switch (vh_below(3))
	{
	case 0: return json_object_new_double(NAN);
	case 1: return json_object_new_double(INFINITY);
	default: return json_object_new_double(-INFINITY);
	}
}
static json_object *gen_string(void)
{
	if (vh_below(40) == 0)
	{
		/* a long string (the print buffer grows several times while it is emitted): plain runs, or escapes throughout */
		static char big[2100];
		int n = 100 + (int)vh_below(2000), plain = (int)vh_below(2);
		for (int i = 0; i < n; i++)
			big[i] = plain || vh_below(6) ? (char)('a' + i % 26) : (char)"\n\"\\/\x01\x7f"[vh_below(6)];
		return json_object_new_string_len(big, n);
	}
	char b[40];
	int n = (int)vh_below(vh_below(3) ? 6 : 30);
	static const unsigned char sp[] = {0, 1, 8, 9, 10, 12, 13, 31, 34, 47, 92, 127, 128, 195, 255, 'a', ' '};
	for (int i = 0; i < n; i++)
		b[i] = (char)(vh_below(3) ? sp[vh_below(sizeof sp)] : vh_below(256));
	return json_object_new_string_len(b, n);
}
/* now and then a container is wide: more members than the first table size holds (growth, longer probe sequences),
 * more elements than the first array capacity */
static int wide_n(void) { return vh_below(25) == 0 ? 12 + (int)vh_below(30) : (int)vh_below(4); }
static const char *wide_key(int i)
{
	static char kb[8][12];
	static int rot;
	char *k = kb[rot++ & 7];
	snprintf(k, 12, "m%d", i);
	return k;
}
static json_object *gen(int depth)
{
	uint32_t r = vh_below(depth <= 0 ? 8 : 12);
	switch (r)
	{
	case 0: return NULL;
	case 1: return json_object_new_boolean((int)vh_below(2));
	case 2:
	{
		static const int64_t v[] = {0, 1, -1, INT64_MAX, INT64_MIN, 2147483647, -2147483648LL, 4294967296LL, 9007199254740993LL};
		return json_object_new_int64(vh_below(2) ? v[vh_below(9)] : (int64_t)vh_rand());
	}
	case 3:
	{
		static const uint64_t v[] = {0, (uint64_t)INT64_MAX, (uint64_t)INT64_MAX + 1, UINT64_MAX, 18446744073709551614ULL};
		return json_object_new_uint64(vh_below(2) ? v[vh_below(5)] : vh_rand());
	}
	case 4: case 5: return gen_double();
	case 6: case 7: return gen_string();
	case 8: case 9:
	{
		json_object *a = json_object_new_array();
		int n = wide_n();
		for (int i = 0; i < n; i++)
			json_object_array_add(a, gen(n > 4 ? 0 : depth - 1));
		return a;
	}
	default:
	{
		json_object *o = json_object_new_object();
		int n = wide_n();
		static const char *keys[] = {"a", "", "k\"q", "sl/ash", "b\\s", "ctl\x01\x1f", "\xc3\xa9", "z z", "tab\t"};
		for (int i = 0; i < n; i++)
			json_object_object_add(o, n > 4 ? wide_key(i) : keys[vh_below(9)], gen(n > 4 ? 0 : depth - 1));
		return o;
	}
	}
}
static json_object *nested(int levels)
{
	json_object *leaf = gen(0), *cur = leaf;
	for (int i = 0; i < levels; i++)
	{
		json_object *c;
		if (vh_below(2))
		{
			c = json_object_new_array();
			json_object_array_add(c, cur);
		}
		else
		{
			c = json_object_new_object();
			json_object_object_add(c, "n", cur);
		}
		cur = c;
	}
	return cur;
}
static int flags_of(int f)
{
	return (f & 1 ? JSON_C_TO_STRING_SPACED : 0) | (f & 2 ? JSON_C_TO_STRING_PRETTY : 0) | (f & 4 ? JSON_C_TO_STRING_NOZERO : 0) |
	       (f & 8 ? JSON_C_TO_STRING_PRETTY_TAB : 0) | (f & 16 ? JSON_C_TO_STRING_NOSLASHESCAPE : 0) | (f & 32 ? JSON_C_TO_STRING_COLOR : 0);
}
static int has_nan(json_object *o)
{
	if (!o)
		return 0;
	if (json_object_get_type(o) == json_type_double)
		return isnan(json_object_get_double(o));
	if (json_object_get_type(o) == json_type_array)
	{
		for (size_t i = 0; i < json_object_array_length(o); i++)
			if (has_nan(json_object_array_get_idx(o, i)))
				return 1;
		return 0;
	}
	if (json_object_get_type(o) == json_type_object)
	{
		json_object_object_foreach(o, k, v)
		{
			(void)k;
			if (has_nan(v))
				return 1;
		}
	}
	return 0;
}

static int drive(int start, int nexec, int per_event)
{
	const char *seed = getenv("VERIF_SEED");
	uint64_t s0 = seed ? strtoull(seed, 0, 10) : 1;
	dump_fmt = 1;
	for (int x = start; x < nexec; x++)
	{
		vh_srand(s0 * 1000003ull + (uint64_t)x);
		ev_begin("new");
		ev_end();
		naninf = 0;
		json_object *t = (x % 10 == 9) ? nested(10 + (int)vh_below(30)) : gen(1 + (int)vh_below(3));
		if (x % 3 == 1)
		{
			/* the same kind of tree, but every node reached through a history (strings grown / shrunk by set, objects with
			 * deleted members and grown tables, arrays trimmed / built by insert, numbers set or incremented): what is
			 * serialized is the value, whatever the node went through */
			json_object *th = c09_twin_h(t);
			json_object_put(t);
			t = th;
		}
		int nan = has_nan(t);
		ev_begin("ser");
		dump_value("tree", t);
		ev_bool("naninf", naninf);
		int bad_len = 0, bad_reparse = 0, bad_reser = 0, bad_null = 0;
		ev_open_arr("texts");
		for (int f = 0; f < 64; f++)
		{
			size_t len = 0;
			const char *txt = json_object_to_json_string_length(t, flags_of(f), &len);
			if (!txt)
			{
				bad_null++;
				continue;
			}
			if (strlen(txt) != len && memchr(txt, 0, len) == NULL)
				bad_len++;
			if (txt[len] != 0)
				bad_len++;
			const char *txt2 = json_object_to_json_string_ext(t, flags_of(f));
			if (!txt2 || strlen(txt2) > len || memcmp(txt2, txt, strlen(txt2)))
				bad_len++;
			char *keep = malloc(len + 1);
			memcpy(keep, txt, len + 1);
			if (!(f & 32))
			{
				/* round trip through json-c's own parser */
				json_tokener *tk = json_tokener_new_ex(64);
				json_object *back = json_tokener_parse_ex(tk, keep, (int)len + 1);
				if (json_tokener_get_error(tk) != json_tokener_success)
					bad_reparse++;
				else
				{
					if (!nan && !json_object_equal(t, back))
						bad_reparse++;
					size_t l2 = 0;
					const char *again = json_object_to_json_string_length(back, flags_of(f), &l2);
					/* NOZERO re-trims a retained text on output only for fresh doubles: compare without it */
					if (!again || l2 != len || memcmp(again, keep, len))
						bad_reser++;
				}
				if (back)
					json_object_put(back);
				json_tokener_free(tk);
			}
			if ((f + x) % 64 < per_event || f == 0)
			{
				ev_open_obj(NULL);
				ev_int("f", f);
				ev_bytes("text", keep, len);
				ev_int("len", (long long)len);
				ev_close_obj();
			}
			free(keep);
		}
		ev_close_arr();
		ev_int("bad_len", bad_len);
		ev_int("bad_reparse", bad_reparse);
		ev_int("bad_reser", bad_reser);
		ev_int("bad_null", bad_null);
		ev_end();
		json_object_put(t);
	}
	return 0;
}
int c02_main(int argc, char **argv)
{
	if (argc >= 4 && !strcmp(argv[0], "drive"))
		return drive(atoi(argv[1]), atoi(argv[2]), atoi(argv[3]));
	return 2;
}
