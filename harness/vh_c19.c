/* C19 print buffer: replay scripts / drive random histories, record call + observations. */
#include "vhrt.h"
#include "printbuf.h"
#include <errno.h>
#include <limits.h>
#include <stdlib.h>
#include <string.h>

static struct printbuf *pb;

/* fault overlay (as in vh_c07.c): fault_k >= 0: the fault_k-th allocation request of the next armed call fails */
static long fault_k = -2;
static int fault_hit;
#define ARMED(call) \
	do \
	{ \
		fault_hit = 0; \
		if (fault_k >= 0) \
			vh_alloc_arm(fault_k); \
		call; \
		if (fault_k >= 0) \
		{ \
			fault_hit = vh_nalloc > fault_k; \
			vh_alloc_disarm(); \
			fault_k = -2; \
		} \
	} while (0)
static void observe(const char *op, int n, int b, int step, int off, int ch, int ret, int efbig)
{
	ev_begin("op");
	ev_str("op", op);
	ev_int("n", n);
	ev_int("b", b);
	ev_int("step", step);
	ev_int("off", off);
	ev_int("ch", ch);
	ev_int("ret", ret);
	ev_int("fault", fault_hit);
	fault_hit = 0;
	ev_bool("efbig", efbig);
	int len = printbuf_length(pb);
	ev_int("bpos", len);
	/* the NUL rule is only observable when the byte at bpos is inside the allocation */
	ev_bool("room", pb->size > pb->bpos);
	ev_bool("nul", pb->size > pb->bpos && pb->buf[pb->bpos] == 0);
	int full = len <= 160;
	ev_bool("full", full);
	ev_bytes("content", pb->buf, full ? (size_t)len : 0);
	/* probes: a few positions incl. the edges of what this call touched */
	long long pi[12], pv[12];
	int np = 0;
	if (!full)
	{
		long long cand[12];
		int nc = 0;
		long long eo = off == -1 ? (long long)len - n : off;
		cand[nc++] = 0;
		cand[nc++] = len - 1;
		cand[nc++] = (long long)len - n;
		cand[nc++] = (long long)len - n - 1;
		cand[nc++] = eo;
		cand[nc++] = eo - 1;
		cand[nc++] = eo + n - 1;
		cand[nc++] = eo + n;
		for (int i = 0; i < 4; i++)
			cand[nc++] = (int)vh_below((uint32_t)len);
		for (int i = 0; i < nc; i++)
			if (cand[i] >= 0 && cand[i] < len)
			{
				pi[np] = cand[i];
				pv[np] = (unsigned char)pb->buf[cand[i]];
				np++;
			}
	}
	ev_ints("pi", pi, np);
	ev_ints("pv", pv, np);
	ev_end();
}

static void fresh(void)
{
	if (pb)
		printbuf_free(pb);
	pb = printbuf_new();
	ev_begin("new");
	ev_end();
}

static char *pattern(int b, int step, int n)
{
	char *d = malloc((size_t)(n > 0 ? n : 0) + 1);
	for (int i = 0; i < n; i++)
		d[i] = (char)((b + i * step) & 255);
	if (n >= 0)
		d[n] = 0;
	return d;
}

/* kind: 0 memappend, 1 memappend_fast macro, 2 strappend-like (only for NUL-free data) */
static void do_append(int n, int b, int step, int kind)
{
	/* the data pointer is only dereferenced by the library when the request is accepted; for
	 * refused (negative / overflowing) sizes pass a 1-byte buffer */
	int big = n < 0 || n > (1 << 24);
	char *d = big ? pattern(b, 0, 1) : pattern(b, step, n);
	errno = 0;
	int ret;
	if (kind == 1 && fault_k < 0)
	{
		printbuf_memappend_fast(pb, d, n);
		ret = n; /* the macro has no result; failure shows as unchanged length */
		if (printbuf_length(pb) < n)
			ret = -1;
	}
	else
		ARMED(ret = printbuf_memappend(pb, d, n));
	int e = errno;
	observe("append", n, b, big ? 0 : step, 0, 0, ret, ret < 0 && e == EFBIG);
	free(d);
}

static void do_memset(int off, int ch, int n)
{
	errno = 0;
	int ret;
	ARMED(ret = printbuf_memset(pb, off, ch, n));
	int e = errno;
	observe("memset", n, 0, 0, off, ch & 255, ret, ret < 0 && e == EFBIG);
}

static void do_sprintf(int n, int b, int form)
{
	if (form == 2 && n >= 2 && n <= 250)
	{
		/* formatted output with a NUL byte inside (%c of 0): the bytes b, b+1, ... wrap through 0 once */
		int k = 1 + (int)vh_below((uint32_t)n - 1); /* position of the NUL */
		int b0 = (256 - k) & 255;
		char *d = pattern(b0, 1, n);
		errno = 0;
		int ret;
		ARMED(ret = sprintbuf(pb, "%.*s%c%.*s", k, d, 0, n - k - 1, d + k + 1));
		int e = errno;
		observe(n > 127 ? "sprintf_heap" : "sprintf_stack", n, b0, 1, 0, 0, ret, ret < 0 && e == EFBIG);
		free(d);
		return;
	}
	char *d = pattern(b ? b : 65, 0, n);
	errno = 0;
	int ret;
	if (form == 1)
		ARMED(ret = sprintbuf(pb, "%.*s", n, d));
	else
		ARMED(ret = sprintbuf(pb, "%s", d));
	int e = errno;
	observe(n > 127 ? "sprintf_heap" : "sprintf_stack", n, b ? b : 65, 0, 0, 0, ret, ret < 0 && e == EFBIG);
	free(d);
}

static void do_reset(void)
{
	printbuf_reset(pb);
	observe("reset", 0, 0, 0, 0, 0, 0, 0);
}

/* script file: one script per line, ops separated by ';'
 *   a N B STEP K | m OFF CH N | s N B | r      */
static int replay(const char *path, long start)
{
	FILE *f = fopen(path, "r");
	if (!f)
		return 2;
	char *line = 0;
	size_t cap = 0;
	long idx = 0;
	while (getline(&line, &cap, f) > 0)
	{
		if (idx++ < start)
			continue;
		fresh();
		for (char *tok = strtok(line, ";\n"); tok; tok = strtok(0, ";\n"))
		{
			int a = 0, b = 0, c = 0, d = 0;
			char op = 0;
			sscanf(tok, " %c %d %d %d %d", &op, &a, &b, &c, &d);
			switch (op)
			{
			case 'a': do_append(a, b, c, d); break;
			case 'm': do_memset(a, b, c); break;
			case 's': do_sprintf(a, b, 0); break;
			case 'r': do_reset(); break;
			default: fprintf(stderr, "bad op '%s'\n", tok); return 2;
			}
		}
	}
	free(line);
	fclose(f);
	return 0;
}

static int pick_size(void)
{
	static const int edges[] = {0, 1, 2, 7, 8, 23, 24, 30, 31, 32, 33, 55, 56, 63, 64, 65, 119, 120, 126, 127, 128, 129, 255, 256, 257, 500, 1000, 4000};
	switch (vh_below(4))
	{
	case 0: return edges[vh_below(sizeof edges / sizeof *edges)];
	case 1: return (int)vh_below(40);
	case 2: return (int)vh_below(300);
	default: return (int)vh_below(10);
	}
}

static int drive(int start, int nexec, int nops)
{
	const char *seed = getenv("VERIF_SEED");
	uint64_t s0 = seed ? strtoull(seed, 0, 10) : 1;
	for (int x = start; x < nexec; x++)
	{
		vh_srand(s0 * 1000003ull + (uint64_t)x); /* executions are independent: restartable at any index */
		fresh();
		if (x % 40 == 39)
		{
			/* a buffer that is already large, then single requests of more than half / more than all of its size
			 * (growth by a factor is not enough), a reset of a large buffer followed by ordinary appends */
			static const int first[] = {5000, 8200, 9005, 16000, 33000, 66000};
			static const int then[] = {4200, 9000, 20000, 40005, 70000, 100000};
			do_append(first[vh_below(6)], (int)vh_below(256), 1 + (int)vh_below(6), (int)vh_below(2));
			do_append((int)vh_below(40), 65, 1, 0);
			do_append(then[vh_below(6)], (int)vh_below(256), 1 + (int)vh_below(6), (int)vh_below(2));
			if (vh_below(2))
				do_memset(printbuf_length(pb) + 30000, 7, 10);
			do_sprintf(200 + (int)vh_below(3000), 66, (int)vh_below(2));
			do_reset();
			do_append(33 + (int)vh_below(300), 67, 1, (int)vh_below(2));
			do_append(then[vh_below(6)], 68, 3, 0);
			continue;
		}
		int ops = 1 + (int)vh_below((uint32_t)nops);
		for (int i = 0; i < ops; i++)
		{
			int len = printbuf_length(pb);
			switch (vh_below(12))
			{
			case 0: case 1: case 2: case 3:
				if (vh_below(10) == 0)
					fault_k = 0; /* now and then the growth of the buffer fails */
				do_append(pick_size(), (int)vh_below(256), (int)vh_below(7), (int)vh_below(2));
				break;
			case 4: case 5: case 6:
			{
				int off;
				switch (vh_below(7))
				{
				case 0: off = -1; break;
				case 1: off = 0; break;
				case 2: off = len ? (int)vh_below((uint32_t)len) : 0; break;
				case 3: off = len; break;
				case 4: off = len + 1 + (int)vh_below(40); break;
				case 5: off = pb->size + (int)vh_below(3) - 1; break;
				default: off = pb->size - (int)vh_below(3); if (off < 0) off = 0; break;
				}
				int n = pick_size();
				/* fills that end exactly at / one short of / one past the allocation */
				if (vh_below(4) == 0 && pb->size - (off < 0 ? len : off) >= 0)
					n = pb->size - (off < 0 ? len : off) + (int)vh_below(3) - 1;
				if (n < 0)
					n = 0;
				if (vh_below(10) == 0)
					fault_k = 0;
				do_memset(off, (int)vh_below(256), n);
				break;
			}
			case 7: case 8:
				if (vh_below(10) == 0)
					fault_k = 0;
				if (vh_below(4) == 0)
					do_sprintf(2 + (int)vh_below(249), 0, 2);
				else
					do_sprintf(pick_size(), 33 + (int)vh_below(90), (int)vh_below(2));
				break;
			case 9:
				do_reset();
				break;
			case 10:
				/* requests that must be refused: negative and not fitting an int */
				switch (vh_below(6))
				{
				case 0: do_append(-1 - (int)vh_below(5), 1, 0, 0); break;
				/* (also through the inline fast-path macro of printbuf.h, which must fall back to the checked function) */
				case 1: do_append(INT_MAX - len, 1, 0, (int)vh_below(2)); break;
				case 2: do_append(INT_MAX - (int)vh_below(3), 1, 0, (int)vh_below(2)); break;
				case 3: do_memset(-2 - (int)vh_below(3), 1, 1); break;
				case 4: do_memset(-1, 1, -1 - (int)vh_below(3)); break;
				default: do_memset(len + 1 + (int)vh_below(5), 1, INT_MAX - len); break;
				}
				break;
			default:
				/* refused by the growth guard: resulting size in (INT_MAX-8, INT_MAX] */
				if (vh_below(2))
					do_memset(INT_MAX - 7 + (int)vh_below(8), 2, 0);
				else
					do_append(INT_MAX - len - 1 - (int)vh_below(7), 1, 0, (int)vh_below(2));
				break;
			}
		}
	}
	if (pb)
		printbuf_free(pb);
	pb = 0;
	return 0;
}

int c19_main(int argc, char **argv)
{
	if (argc >= 2 && !strcmp(argv[0], "replay"))
	{
		int r = replay(argv[1], argc >= 3 ? atol(argv[2]) : 0);
		if (pb)
			printbuf_free(pb);
		return r;
	}
	if (argc >= 4 && !strcmp(argv[0], "drive"))
		return drive(atoi(argv[1]), atoi(argv[2]), atoi(argv[3]));
	return 2;
}
