/* C13 JSON Patch: generated target documents and patch documents (well-formed operation sequences
 * that track the evolving document, and malformed / arbitrary patch values); json_patch_apply in
 * copy mode and in-place mode.  One event per application: both documents as typed dumps, return
 * code, failure index, result dump, the patch dumped again afterwards, sharing probes. */
#include "vhrt.h"
#include "vh_dump.h"
#include "json.h"
#include "json_patch.h"
#include "json_pointer.h"
#include <errno.h>
#include <stdlib.h>
#include <string.h>

/* member names: plain ones, and names whose escaped spelling ("~0", "~1") is itself the name of, or decodes in the wrong
 * order to, another member ("~1" <-> "/", "~01" <-> "~1", "~" <-> "~0") */
extern json_object *c09_twin_h(json_object *o);
static const char *keys[] = {"a", "b", "c", "a/b", "m~n", "", "0", "-", "x", "~1", "/", "~", "~0", "~01", "x~1y", "1"};
#define NKEYS 16

/* now and then a container is wide: more members than the first table size holds (growth, longer probe sequences),
 * more elements than the first array capacity */
static int wide_n(void) { return vh_below(25) == 0 ? 12 + (int)vh_below(30) : (int)vh_below(4); }
static const char *wide_key(int i)
{
	static char kb[8][12];
	static int rot;
	char *k = kb[rot++ & 7];
	snprintf(k, 12, "m%d", i);
	return k;
}
static json_object *gen_val(int depth)
{
	uint32_t r = vh_below(depth <= 0 ? 5 : 9);
	switch (r)
	{
	case 0: return NULL;
	case 1: return json_object_new_int((int)vh_below(5));
	case 2: return json_object_new_string(vh_below(2) ? "s" : "");
	case 3: return json_object_new_boolean((int)vh_below(2));
	case 4: return vh_below(3) ? json_object_new_int64((int64_t)vh_below(3) - 1)
	                           /* numbers that are not integers by kind: k.0 (numerically an integer) and k.5 */
	                           : json_object_new_double((double)vh_below(5) + (vh_below(2) ? 0.5 : 0.0));
	case 5: case 6:
	{
		json_object *a = json_object_new_array();
		int n = wide_n();
		for (int i = 0; i < n; i++)
			json_object_array_add(a, gen_val(n > 4 ? 0 : depth - 1));
		return a;
	}
	default:
	{
		json_object *o = json_object_new_object();
		int n = wide_n();
		for (int i = 0; i < n; i++)
			json_object_object_add(o, n > 4 ? wide_key(i) : keys[vh_below(NKEYS)], gen_val(n > 4 ? 0 : depth - 1));
		return o;
	}
	}
}
static void esc_append(char *out, const char *key)
{
	size_t n = strlen(out);
	for (; *key; key++)
	{
		if (*key == '~') { out[n++] = '~'; out[n++] = '0'; }
		else if (*key == '/') { out[n++] = '~'; out[n++] = '1'; }
		else out[n++] = *key;
	}
	out[n] = 0;
}
/* a pointer into doc: to an existing location (walk), optionally extended into a new place */
static void rand_path(json_object *doc, char *out, int want_new)
{
	out[0] = 0;
	json_object *cur = doc;
	int steps = (int)vh_below(4);
	for (int s = 0; s < steps && cur; s++)
	{
		if (json_object_get_type(cur) == json_type_object && json_object_object_length(cur) > 0)
		{
			int j = (int)vh_below((uint32_t)json_object_object_length(cur)), i = 0;
			json_object_object_foreach(cur, k, v)
			{
				if (i++ == j)
				{
					strcat(out, "/");
					esc_append(out, k);
					cur = v;
					break;
				}
			}
		}
		else if (json_object_get_type(cur) == json_type_array && json_object_array_length(cur) > 0)
		{
			int j = (int)vh_below((uint32_t)json_object_array_length(cur));
			sprintf(out + strlen(out), "/%d", j);
			cur = json_object_array_get_idx(cur, (size_t)j);
		}
		else
			break;
	}
	if (want_new)
	{
		if (cur && json_object_get_type(cur) == json_type_array)
		{
			int len = (int)json_object_array_length(cur);
			switch (vh_below(5))
			{
			case 0: strcat(out, "/-"); break;
			case 1: sprintf(out + strlen(out), "/%d", len); break;
			case 2:
				if (vh_below(3))
					sprintf(out + strlen(out), "/%d", len + 1 + (int)vh_below(2)); /* beyond the end: must fail */
				else
					strcat(out, vh_below(2) ? "/18446744073709551616" : "/4294967296"); /* 2^64, 2^32: far beyond */
				break;
			case 3: strcat(out, "/0"); break;
			default: sprintf(out + strlen(out), "/%d", len ? (int)vh_below((uint32_t)len) : 0); break;
			}
		}
		else
		{
			strcat(out, "/");
			esc_append(out, keys[vh_below(NKEYS)]);
		}
	}
	else if (vh_below(12) == 0)
	{
		/* nonexistent: a name, a non-canonical index, indices at the widths an implementation may compute in */
		static const char *tails[] = {"/nope", "/01", "/nope", "/01", "/4294967296", "/4294967297", "/18446744073709551616", "/18446744073709551617",
		                              "/18446744073709551615", "/9223372036854775808", "/340282366920938463463374607431768211456"};
		strcat(out, tails[vh_below(sizeof tails / sizeof *tails)]);
	}
}
static json_object *mkop(const char *op, const char *path, const char *from, json_object *value, int has_value)
{
	json_object *o = json_object_new_object();
	json_object_object_add(o, "op", json_object_new_string(op));
	json_object_object_add(o, "path", json_object_new_string(path));
	if (from)
		json_object_object_add(o, "from", json_object_new_string(from));
	if (has_value)
		json_object_object_add(o, "value", value);
	return o;
}
static json_object *gen_patch(json_object *doc, int nops)
{
	json_object *work = NULL;
	json_object_deep_copy(doc, &work, NULL);
	json_object *patch = json_object_new_array();
	char p[300], f[300];
	for (int i = 0; i < nops; i++)
	{
		json_object *op;
		switch (vh_below(12))
		{
		case 0: case 1: case 2:
			rand_path(work, p, 1);
			op = mkop("add", p, NULL, gen_val(2), 1);
			break;
		case 3:
			rand_path(work, p, 0);
			op = mkop("remove", p, NULL, NULL, 0);
			break;
		case 4: case 5:
			rand_path(work, p, (int)vh_below(5) == 0);
			op = mkop("replace", p, NULL, gen_val(2), 1);
			break;
		case 6: case 7:
			rand_path(work, f, 0);
			if (vh_below(5) == 0)
				strcpy(p, f); /* onto itself */
			else if (vh_below(5) == 0)
			{
				strcpy(p, f);
				strcat(p, "/c"); /* into its own child */
			}
			else if (vh_below(5) == 0)
			{
				strcpy(p, f);
				strcat(p, "x"); /* sibling whose name extends from's last token */
			}
			else if (vh_below(3) == 0 && strrchr(f, '/'))
			{
				/* another index of the same array: 0, the old last index, the old length, one more */
				json_object *par = NULL;
				char parent[300];
				strcpy(parent, f);
				*strrchr(parent, '/') = 0;
				strcpy(p, f);
				if (json_pointer_get(work, parent, &par) == 0 && json_object_get_type(par) == json_type_array)
				{
					int len = (int)json_object_array_length(par);
					sprintf(p, "%s/%d", parent, vh_below(2) ? len - (int)vh_below(2) : (int)vh_below((uint32_t)len + 2));
				}
			}
			else
				rand_path(work, p, 1);
			op = mkop("move", p, f, NULL, 0);
			break;
		case 8: case 9:
			rand_path(work, f, 0);
			if (vh_below(4) == 0)
			{
				strcpy(p, f);
				strcat(p, "/c");
			}
			else
				rand_path(work, p, 1);
			op = mkop("copy", p, f, NULL, 0);
			break;
		default:
		{
			rand_path(work, p, 0);
			json_object *at = NULL, *val = NULL;
			if (vh_below(2) && json_pointer_get(work, p, &at) == 0)
			{
				/* the value that is there - a number now and then in its other spelling (RFC 6902 4.6: numbers are equal
				 * if numerically equal): 2 for 2.0, 2.0 for 2 */
				if (json_object_is_type(at, json_type_int) && vh_below(2) && json_object_get_int64(at) > -100 && json_object_get_int64(at) < 100)
					val = json_object_new_double((double)json_object_get_int64(at));
				else if (json_object_is_type(at, json_type_double) && vh_below(2) && json_object_get_double(at) == (double)(int)json_object_get_double(at))
					val = json_object_new_int((int)json_object_get_double(at));
				else
					json_object_deep_copy(at, &val, NULL);
			}
			else
				val = gen_val(1);
			op = mkop("test", p, NULL, val, 1);
			break;
		}
		}
		json_object_array_add(patch, op);
		/* keep `work` roughly in step with the document the later operations will see */
		if (work)
		{
			json_object *one = json_object_new_array();
			json_object_array_add(one, json_object_get(op));
			json_object *w2 = NULL;
			if (json_patch_apply(work, one, &w2, NULL) == 0 && w2)
			{
				json_object_put(work);
				work = w2;
			}
			else if (w2)
				json_object_put(w2);
			json_object_put(one);
		}
	}
	if (work)
		json_object_put(work);
	return patch;
}
/* malformed / arbitrary patch documents */
static json_object *gen_bad_patch(json_object *doc)
{
	(void)doc;
	switch (vh_below(5))
	{
	case 0: return gen_val(2); /* any value, usually not an array of operations */
	case 1: return vh_below(2) ? json_object_new_object() : json_object_new_string("patch");
	default: break;
	}
	json_object *patch = json_object_new_array();
	int pre = (int)vh_below(4);
	if (pre == 1)
		json_object_array_add(patch, mkop("add", "/zz", NULL, json_object_new_int(1), 1));
	else if (pre == 2)
		/* an operation that REPLACES the whole document (the old root is released, *base gets the new one) before the
		 * operation that is malformed: whatever the outcome, *base must still be something the caller can release */
		json_object_array_add(patch, mkop(vh_below(2) ? "add" : "replace", "", NULL, gen_val(2), 1));
	else if (pre == 3 && vh_below(2))
		json_object_array_add(patch, mkop("remove", "", NULL, NULL, 0));
	json_object *o = json_object_new_object();
	/* valid names, unknown names, and near misses of the valid ones: longer, shorter, other case, padded */
	static const char *opsn[] = {"add", "remove", "replace", "move", "copy", "test", "frob", "", "ADD",
	                             "removed", "address", "add ", " add", "tests", "test1", "copy-of", "moved", "replacement", "replaces",
	                             "ad", "remov", "t", "Add", "Remove", "cop", "mov", "copyy", "testt", "move/", "replace\t"};
	const char *opn = opsn[vh_below(sizeof opsn / sizeof *opsn)];
	uint32_t defect = vh_below(12);
	/* op */
	if (defect == 0)
		;
	else if (defect == 1)
		json_object_object_add(o, "op", NULL);
	else if (defect == 2)
		json_object_object_add(o, "op", json_object_new_int(3));
	else
		json_object_object_add(o, "op", json_object_new_string(opn));
	/* path */
	if (defect == 3)
		;
	else if (defect == 4)
		json_object_object_add(o, "path", NULL);
	else if (defect == 5)
		json_object_object_add(o, "path", vh_below(2) ? json_object_new_int(0) : json_object_new_array());
	else
		json_object_object_add(o, "path", json_object_new_string(vh_below(3) ? "/zz" : "/q"));
	/* from */
	if (defect == 6)
		json_object_object_add(o, "from", NULL);
	else if (defect == 7)
		json_object_object_add(o, "from", json_object_new_boolean(1));
	else if (defect != 8)
		json_object_object_add(o, "from", json_object_new_string("/zz"));
	/* value */
	if (defect != 9)
		json_object_object_add(o, "value", defect == 10 ? NULL : json_object_new_int(1));
	if (defect == 11)
	{
		json_object_put(o);
		o = vh_below(2) ? NULL : gen_val(1); /* element that is no object */
		if (o && json_object_get_type(o) == json_type_object)
		{
			json_object_put(o);
			o = json_object_new_int(7);
		}
	}
	json_object_array_add(patch, o);
	return patch;
}

/* identity probes */
#define MAXP 20000
static void *RP[MAXP], *PP[MAXP], *DP[MAXP];
static int nR, nPp, nD;
static void collect(json_object *o, void **arr, int *n)
{
	if (!o)
		return;
	if (*n < MAXP)
		arr[(*n)++] = o;
	if (json_object_get_type(o) == json_type_object)
	{
		json_object_object_foreach(o, k, v)
		{
			(void)k;
			collect(v, arr, n);
		}
	}
	else if (json_object_get_type(o) == json_type_array)
		for (size_t i = 0; i < json_object_array_length(o); i++)
			collect(json_object_array_get_idx(o, i), arr, n);
}
static int cmpp(const void *a, const void *b)
{
	uintptr_t x = (uintptr_t) * (void *const *)a, y = (uintptr_t) * (void *const *)b;
	return x < y ? -1 : x > y;
}
static int has_dups(void **arr, int n)
{
	qsort(arr, (size_t)n, sizeof arr[0], cmpp);
	for (int i = 1; i < n; i++)
		if (arr[i] == arr[i - 1])
			return 1;
	return 0;
}
static int intersects(void **a, int na, void **b, int nb)
{
	/* both sorted */
	int i = 0, j = 0;
	while (i < na && j < nb)
	{
		if (a[i] == b[j])
			return 1;
		if ((uintptr_t)a[i] < (uintptr_t)b[j])
			i++;
		else
			j++;
	}
	return 0;
}

static void one_case(json_object *doc, json_object *patch, int mode)
{
	/* mode 0: copy_from = doc, *base = NULL; mode 1: in place on a private copy of doc */
	json_object *base = NULL, *priv = NULL;
	struct json_patch_error pe;
	memset(&pe, 0, sizeof pe);
	if (mode == 1)
	{
		/* in place: on a private equal document - now and then one whose nodes have a history (strings grown by set,
		 * objects with deleted members, trimmed arrays); the in-place mode is the one that meets such nodes */
		if (vh_below(2))
			priv = c09_twin_h(doc);
		else
			json_object_deep_copy(doc, &priv, NULL);
	}
	ev_begin("patch");
	ev_int("mode", mode);
	dump_value("doc", mode == 1 ? priv : doc);
	dump_value("patch", patch);
	int rc;
	if (mode == 0)
		rc = json_patch_apply(doc, patch, &base, &pe);
	else
	{
		base = priv;
		rc = json_patch_apply(NULL, patch, &base, &pe);
	}
	ev_int("ret", rc);
	ev_int("idx", rc ? (pe.patch_failure_idx > 1000000 ? -2 : (long long)pe.patch_failure_idx) : -1);
	ev_bool("has_msg", rc == 0 || pe.errmsg != NULL);
	if (rc == 0)
		dump_value("result", base);
	else
		dump_none("result");
	dump_value("patch_after", patch);
	if (mode == 0)
		dump_value("doc_after", doc);
	else
		dump_none("doc_after");
	/* sharing: no node of the result is a node of the patch document or of the source document, none occurs twice */
	int shared_patch = 0, shared_self = 0, shared_src = 0;
	if (rc == 0)
	{
		nR = nPp = nD = 0;
		collect(base, RP, &nR);
		shared_self = has_dups(RP, nR);
		collect(patch, PP, &nPp);
		has_dups(PP, nPp);
		shared_patch = intersects(RP, nR, PP, nPp);
		if (mode == 0)
		{
			collect(doc, DP, &nD);
			has_dups(DP, nD);
			shared_src = intersects(RP, nR, DP, nD);
		}
	}
	ev_bool("shared_self", shared_self);
	ev_bool("shared_patch", shared_patch);
	ev_bool("shared_src", shared_src);
	ev_end();
	if (base)
		json_object_put(base);
}

/* the same application while the k-th allocation request made by json_patch_apply fails (k = 0, 1, ... until the call no
 * longer reaches request k): it completes as usual or reports failure; either way the patch (and, copying, the source
 * document) is what it was, whatever *base holds can be released, and nothing stays allocated */
/* (the typed dump serializes every double node by itself, which leaves a print buffer attached to that node: do it once
 * beforehand so that the dumps inside the accounting window allocate nothing on the long-lived documents) */
static void warm(json_object *o)
{
	if (!o)
		return;
	if (json_object_get_type(o) == json_type_double)
		(void)json_object_to_json_string_ext(o, JSON_C_TO_STRING_PLAIN);
	else if (json_object_get_type(o) == json_type_array)
		for (size_t i = 0; i < json_object_array_length(o); i++)
			warm(json_object_array_get_idx(o, i));
	else if (json_object_get_type(o) == json_type_object)
	{
		json_object_object_foreach(o, k, v)
		{
			(void)k;
			warm(v);
		}
	}
}
static void faulted_cases(json_object *doc, json_object *patch, int mode)
{
	warm(doc);
	warm(patch);
	for (long k = 0; k < 24; k++)
	{
		long live0 = vh_live;
		json_object *base = NULL, *priv = NULL;
		struct json_patch_error pe;
		memset(&pe, 0, sizeof pe);
		if (mode == 1)
			json_object_deep_copy(doc, &priv, NULL);
		int rc;
		vh_alloc_arm(k);
		if (mode == 0)
			rc = json_patch_apply(doc, patch, &base, &pe);
		else
		{
			base = priv;
			rc = json_patch_apply(NULL, patch, &base, &pe);
		}
		int hit = vh_nalloc > k;
		const char *site = vh_fail_site;
		vh_alloc_disarm();
		if (hit)
		{
			ev_begin("fpatch");
			ev_int("mode", mode);
			ev_int("k", k);
			ev_str("site", site ? site : "");
			dump_value("doc", doc);
			dump_value("patch", patch);
			ev_int("ret", rc);
			if (rc == 0)
				dump_value("result", base);
			else
				dump_none("result");
			dump_value("patch_after", patch);
			dump_value("doc_after", doc);
		}
		if (base)
			json_object_put(base);
		if (hit)
		{
			ev_int("leak", (int)(vh_live - live0));
			ev_end();
		}
		else
			break;
	}
}
static int drive(int start, int nexec)
{
	const char *seed = getenv("VERIF_SEED");
	uint64_t s0 = seed ? strtoull(seed, 0, 10) : 1;
	for (int x = start; x < nexec; x++)
	{
		vh_srand(s0 * 1000003ull + (uint64_t)x);
		ev_begin("new");
		ev_end();
		json_object *doc;
		do
			doc = gen_val(3);
		while (!doc || (json_object_get_type(doc) != json_type_object && json_object_get_type(doc) != json_type_array));
		if (x % 3 == 2)
		{
			/* the same document with every node reached through a history (deleted members, grown tables, trimmed arrays,
			 * strings grown / shrunk by set): a patch acts on the value, whatever the nodes went through */
			json_object *h = c09_twin_h(doc);
			json_object_put(doc);
			doc = h;
		}
		for (int k = 0; k < 6; k++)
		{
			json_object *patch = (k < 4) ? gen_patch(doc, 1 + (int)vh_below(k < 2 ? 2 : 8)) : gen_bad_patch(doc);
			one_case(doc, patch, (int)vh_below(2));
			if (vh_below(4) == 0)
				faulted_cases(doc, patch, (int)vh_below(2));
			json_object_put(patch);
		}
		json_object_put(doc);
	}
	return 0;
}

int c13_main(int argc, char **argv)
{
	if (argc >= 3 && !strcmp(argv[0], "drive"))
		return drive(atoi(argv[1]), atoi(argv[2]));
	return 2;
}
