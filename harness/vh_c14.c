/* C14 locale independence: parse / serialize under the C locale and a synthesised comma-decimal
 * locale, installed process-wide (setlocale) or per thread (uselocale); every outcome class of the
 * parser incl. injected duplocale / newlocale failures.  Records the thread's locale handle and a
 * printf("%f") probe before and after each call, the libc locale calls json-c made, locale objects
 * left alive, and the result next to the result of the same call in the C locale. */
#include "vhrt.h"
#include "vh_dump.h"
#include "json.h"
#include <locale.h>
#include <stdlib.h>
#include <string.h>

static const char *errname(enum json_tokener_error e)
{
	switch (e)
	{
	case json_tokener_success: return "success";
	case json_tokener_continue: return "continue";
	case json_tokener_error_depth: return "depth";
	case json_tokener_error_parse_eof: return "eof";
	case json_tokener_error_parse_unexpected: return "unexpected";
	case json_tokener_error_parse_null: return "null";
	case json_tokener_error_parse_boolean: return "boolean";
	case json_tokener_error_parse_number: return "number";
	case json_tokener_error_parse_array: return "array";
	case json_tokener_error_parse_object_key_name: return "key_name";
	case json_tokener_error_parse_object_key_sep: return "key_sep";
	case json_tokener_error_parse_object_value_sep: return "value_sep";
	case json_tokener_error_parse_string: return "string";
	case json_tokener_error_parse_comment: return "comment";
	case json_tokener_error_parse_utf8_string: return "utf8";
	case json_tokener_error_size: return "size";
	case json_tokener_error_memory: return "memory";
	default: return "unknown";
	}
}
typedef struct
{
	const char *text;
	int len; /* -9 = strlen+1 */
	int flags, depth;
} pcase;
static const pcase cases[] = {
    {"[1.5,2.25e3,-0.125,1e-2]", -9, 0, 32},            /* success */
    {"{\"a\":10.75,\"b\":[0.5]}", -9, JSON_TOKENER_STRICT, 32},
    {"3.75", -9, 0, 32},
    {"[1.5", 4, 0, 32},                                   /* continue */
    {"12.", 3, 0, 32},
    {"[1.5,]", -9, JSON_TOKENER_STRICT, 32},             /* unexpected */
    {"nul!", -9, 0, 32},                                  /* null */
    {"trux", -9, 0, 32},                                  /* boolean */
    {"[1.2.3]", -9, 0, 32},                               /* number */
    {"[1.5 2]", -9, 0, 32},                               /* array */
    {"{1.5:2}", -9, 0, 32},                               /* key_name */
    {"{\"a\" 1.5}", -9, 0, 32},                           /* key_sep */
    {"{\"a\":1.5 \"b\":2}", -9, 0, 32},                   /* value_sep */
    {"\"\\q\"", -9, 0, 32},                               /* string */
    {"/x 1.5", -9, 0, 32},                                /* comment */
    {"\"\xff\"", -9, JSON_TOKENER_VALIDATE_UTF8, 32},     /* utf8 */
    {"[[1.5]]", -9, 0, 1},                                /* depth */
    {"[1.5", -9, 0, 32},                                  /* eof */
    {"1.5", -2, 0, 32},                                   /* size */
};
#define NCASES (int)(sizeof cases / sizeof *cases)

static void probe(char *out)
{
	snprintf(out, 32, "%f|%.2f", 1.5, 2.25);
}
static void run_case(const pcase *c, int inject, const char *mode, const char *loc, json_object **val_out, const char **st_out, int emit,
                     json_object *ref_val, const char *ref_st)
{
	json_tokener *t = json_tokener_new_ex(c->depth);
	json_tokener_set_flags(t, c->flags);
	char pb[32], pa[32];
	probe(pb);
	locale_t before = uselocale((locale_t)0);
	long live0 = vh_loc_live;
	vh_loc_logn = 0;
	vh_loc_log[0] = 0;
	if (inject == 1)
		vh_loc_dup_fail = 1;
	if (inject == 2)
		vh_loc_new_fail = 1;
	int len = c->len == -9 ? (int)strlen(c->text) + 1 : c->len;
	json_object *o = json_tokener_parse_ex(t, c->text, len);
	const char *st = errname(json_tokener_get_error(t));
	vh_loc_dup_fail = vh_loc_new_fail = 0;
	locale_t after = uselocale((locale_t)0);
	probe(pa);
	if (emit)
	{
		ev_begin("parse");
		ev_str("mode", mode);
		ev_str("loc", loc);
		ev_bytes("text", c->text, strlen(c->text));
		ev_int("inject", inject);
		ev_bool("handle_same", before == after);
		ev_bytes("probe_before", pb, strlen(pb));
		ev_bytes("probe_after", pa, strlen(pa));
		ev_int("loc_leak", (int)(vh_loc_live - live0));
		ev_str("calls", vh_loc_log);
		ev_str("st", st);
		dump_value("val", o);
		ev_str("ref_st", ref_st);
		dump_value("ref_val", ref_val);
		ev_end();
	}
	if (val_out)
		*val_out = o;
	else if (o)
		json_object_put(o);
	if (st_out)
		*st_out = st;
	json_tokener_free(t);
}

static json_object *ser_tree(void)
{
	json_object *a = json_object_new_array();
	static const double v[] = {1.5, -0.125, 1e20, 1.25e-10, 100.0, 0.1, 12345.678, 1e-5, 5.0};
	for (int i = 0; i < 9; i++)
		json_object_array_add(a, json_object_new_double(v[i]));
	json_object_array_add(a, json_object_new_double_s(2.5, "2.50"));
	json_object *o = json_object_new_object();
	json_object_object_add(o, "x", json_object_new_double(0.75));
	json_object_array_add(a, o);
	return a;
}

static int drive(void)
{
	dump_bits = 1;
	/* reference results in the C locale */
	json_object *refv[NCASES];
	const char *refs[NCASES];
	setlocale(LC_ALL, "C");
	for (int i = 0; i < NCASES; i++)
		run_case(&cases[i], 0, "ref", "C", &refv[i], &refs[i], 0, NULL, "");
	json_object *tree = ser_tree();
	char *reftext[8];
	static const int fl[] = {0, JSON_C_TO_STRING_SPACED, JSON_C_TO_STRING_PRETTY, JSON_C_TO_STRING_NOZERO, JSON_C_TO_STRING_PRETTY | JSON_C_TO_STRING_NOZERO};
	for (int f = 0; f < 5; f++)
		reftext[f] = strdup(json_object_to_json_string_ext(tree, fl[f]));
	static const char *modes[] = {"global", "thread"};
	static const char *locs[] = {"C", "xx_COMMA"};
	for (int m = 0; m < 2; m++)
		for (int l = 0; l < 2; l++)
		{
			ev_begin("new");
			ev_end();
			locale_t tl = (locale_t)0;
			int installed;
			if (m == 0)
				installed = setlocale(LC_ALL, locs[l]) != NULL;
			else
			{
				setlocale(LC_ALL, "C");
				tl = newlocale(LC_ALL_MASK, locs[l], (locale_t)0);
				installed = tl != (locale_t)0;
				if (installed)
					uselocale(tl);
			}
			char pr[32];
			probe(pr);
			ev_begin("install");
			ev_str("mode", modes[m]);
			ev_str("loc", locs[l]);
			ev_bool("installed", installed);
			ev_bytes("probe", pr, strlen(pr));
			ev_end();
			for (int i = 0; i < NCASES; i++)
			{
				run_case(&cases[i], 0, modes[m], locs[l], NULL, NULL, 1, refv[i], refs[i]);
				if (cases[i].len != -2)
				{
					run_case(&cases[i], 1, modes[m], locs[l], NULL, NULL, 1, refv[i], refs[i]);
					run_case(&cases[i], 2, modes[m], locs[l], NULL, NULL, 1, refv[i], refs[i]);
				}
			}
			for (int f = 0; f < 5; f++)
			{
				char pb[32], pa[32];
				probe(pb);
				const char *t = json_object_to_json_string_ext(tree, fl[f]);
				probe(pa);
				ev_begin("ser");
				ev_str("mode", modes[m]);
				ev_str("loc", locs[l]);
				ev_int("f", f);
				ev_bytes("text", t, strlen(t));
				ev_bytes("ref", reftext[f], strlen(reftext[f]));
				ev_bytes("probe_before", pb, strlen(pb));
				ev_bytes("probe_after", pa, strlen(pa));
				ev_end();
			}
			/* file-level entry points use the same bracket: json_tokener_parse */
			{
				json_object *o = json_tokener_parse("[0.5,1.25]");
				char pa[32];
				probe(pa);
				ev_begin("ser");
				ev_str("mode", modes[m]);
				ev_str("loc", locs[l]);
				ev_int("f", 9);
				const char *t = json_object_to_json_string_ext(o, 0);
				ev_bytes("text", t, strlen(t));
				ev_bytes("ref", "[0.5,1.25]", 10);
				ev_bytes("probe_before", pr, strlen(pr));
				ev_bytes("probe_after", pa, strlen(pa));
				ev_end();
				json_object_put(o);
			}
			if (m == 1)
			{
				uselocale(LC_GLOBAL_LOCALE);
				if (tl)
					freelocale(tl);
			}
			setlocale(LC_ALL, "C");
		}
	for (int i = 0; i < NCASES; i++)
		if (refv[i])
			json_object_put(refv[i]);
	for (int f = 0; f < 5; f++)
		free(reftext[f]);
	json_object_put(tree);
	return 0;
}
int c14_main(int argc, char **argv)
{
	(void)argv;
	if (argc >= 1)
		return drive();
	return 2;
}
