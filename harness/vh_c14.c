/* C14 locale independence: parse / serialize under the C locale and a synthesised comma-decimal
 * locale, installed process-wide (setlocale) or per thread (uselocale); every outcome class of the
 * parser incl. injected duplocale / newlocale failures.  Records the thread's locale handle and a
 * printf("%f") probe before and after each call, the libc locale calls json-c made, locale objects
 * left alive, and the result next to the result of the same call in the C locale. */
#include "vhrt.h"
#include "vh_dump.h"
#include "json.h"
#include <locale.h>
#include <stdlib.h>
#include <string.h>

static const char *errname(enum json_tokener_error e)
{
	switch (e)
	{
	case json_tokener_success: return "success";
	case json_tokener_continue: return "continue";
	case json_tokener_error_depth: return "depth";
	case json_tokener_error_parse_eof: return "eof";
	case json_tokener_error_parse_unexpected: return "unexpected";
	case json_tokener_error_parse_null: return "null";
	case json_tokener_error_parse_boolean: return "boolean";
	case json_tokener_error_parse_number: return "number";
	case json_tokener_error_parse_array: return "array";
	case json_tokener_error_parse_object_key_name: return "key_name";
	case json_tokener_error_parse_object_key_sep: return "key_sep";
	case json_tokener_error_parse_object_value_sep: return "value_sep";
	case json_tokener_error_parse_string: return "string";
	case json_tokener_error_parse_comment: return "comment";
	case json_tokener_error_parse_utf8_string: return "utf8";
	case json_tokener_error_size: return "size";
	case json_tokener_error_memory: return "memory";
	default: return "unknown";
	}
}
typedef struct
{
	const char *text;
	int len; /* -9 = strlen+1 */
	int flags, depth;
} pcase;
static const pcase cases[] = {
    {"[1.5,2.25e3,-0.125,1e-2]", -9, 0, 32},            /* success */
    {"{\"a\":10.75,\"b\":[0.5]}", -9, JSON_TOKENER_STRICT, 32},
    {"3.75", -9, 0, 32},
    {"[1.5", 4, 0, 32},                                   /* continue */
    {"12.", 3, 0, 32},
    {"[1.5,]", -9, JSON_TOKENER_STRICT, 32},             /* unexpected */
    {"nul!", -9, 0, 32},                                  /* null */
    {"trux", -9, 0, 32},                                  /* boolean */
    {"[1.2.3]", -9, 0, 32},                               /* number */
    {"[1.5 2]", -9, 0, 32},                               /* array */
    {"{1.5:2}", -9, 0, 32},                               /* key_name */
    {"{\"a\" 1.5}", -9, 0, 32},                           /* key_sep */
    {"{\"a\":1.5 \"b\":2}", -9, 0, 32},                   /* value_sep */
    {"\"\\q\"", -9, 0, 32},                               /* string */
    {"/x 1.5", -9, 0, 32},                                /* comment */
    {"\"\xff\"", -9, JSON_TOKENER_VALIDATE_UTF8, 32},     /* utf8 */
    {"[[1.5]]", -9, 0, 1},                                /* depth */
    {"[1.5", -9, 0, 32},                                  /* eof */
    {"1.5", -2, 0, 32},                                   /* size */
};
#define NCASES (int)(sizeof cases / sizeof *cases)

static void probe(char *out)
{
	snprintf(out, 32, "%f|%.2f", 1.5, 2.25);
}
/* generated texts: documents whose numbers take every printf shape (%f %e %E %g, precision 0..17, signs, exponents),
 * next to strings containing '.' and ',' (which must not be touched) */
#define MAXGEN 2500
static pcase gcases[MAXGEN];
static int ngen;
static double rand_double(void)
{
	switch (vh_below(4))
	{
	case 0: return ((double)(int64_t)(vh_rand() >> 20) - 8.0e12) / 1e6;
	case 1: return (double)(vh_rand() >> 11) / 9007199254740992.0;
	case 2: return ((double)vh_below(2000000) - 1e6) * (vh_below(2) ? 1e-12 : 1e15);
	default:
	{
		static const double sp[] = {0.5, 1.5, -0.125, 1e20, 1.25e-10, 100.0, 0.1, 12345.678, 1e-5, 5.0, -0.0, 1e300, 2.2250738585072014e-308, 123456789.125};
		return sp[vh_below(sizeof sp / sizeof *sp)];
	}
	}
}
static void fmt_number(char *out, size_t cap)
{
	static const char *f[] = {"%.*f", "%.*e", "%.*E", "%.*g", "%.*G"};
	int which = (int)vh_below(5);
	double d = rand_double();
	if (which == 0 && (d > 1e18 || d < -1e18))
		which = 1;
	snprintf(out, cap, f[which], (int)vh_below(18), d);
}
static void gen_texts(int n)
{
	/* called in the C locale */
	char num[4][400];
	for (ngen = 0; ngen < n && ngen < MAXGEN; ngen++)
	{
		char *t = malloc(2000);
		for (int j = 0; j < 4; j++)
			fmt_number(num[j], sizeof num[j]);
		switch (vh_below(5))
		{
		case 0: snprintf(t, 2000, "%s", num[0]); break;
		case 1: snprintf(t, 2000, "[%s,%s , %s]", num[0], num[1], num[2]); break;
		case 2: snprintf(t, 2000, "{\"a\":%s,\"1,5\":\"2.5,3.5\",\"b\":[%s,{\"c\":%s}]}", num[0], num[1], num[2]); break;
		case 3: snprintf(t, 2000, " [ [ %s ] , \"%s\" , %s\n]", num[0], num[1], num[2]); break;
		default: snprintf(t, 2000, "[%s,%s,%s,%s]", num[0], num[1], num[2], num[3]); break;
		}
		gcases[ngen].text = t;
		gcases[ngen].len = -9;
		gcases[ngen].flags = vh_below(3) ? 0 : JSON_TOKENER_STRICT;
		gcases[ngen].depth = 32;
	}
}
/* cut positions of split variant j (1..NSPLIT) of a text of n bytes (+ the terminator): deterministic in (case, j) */
#define NSPLIT 3
static int cuts_of(int ci, int j, int n, int *cuts)
{
	uint64_t h = (uint64_t)ci * 1000003ull + (uint64_t)j * 7919ull + 12345;
	int nc = 0;
	if (n < 2)
		return 0;
	int want = j == 1 ? 1 : j == 2 ? 2 : 4;
	int pos = 0;
	for (int k = 0; k < want; k++)
	{
		h = h * 6364136223846793005ull + 1442695040888963407ull;
		int step = 1 + (int)((h >> 33) % (uint64_t)(n / want + 1));
		pos += step;
		if (pos >= n)
			break;
		cuts[nc++] = pos;
	}
	return nc;
}
/* one parse: in one call (ncuts = 0) or chunk by chunk; the locale observations span the whole sequence and are
 * also taken after every single call */
static void run_case(const pcase *c, int inject, const int *cuts, int ncuts, const char *mode, const char *loc, json_object **val_out,
                     const char **st_out, int emit, json_object *ref_val, const char *ref_st)
{
	json_tokener *t = json_tokener_new_ex(c->depth);
	json_tokener_set_flags(t, c->flags);
	char pb[32], pa[32], pm[32];
	probe(pb);
	locale_t before = uselocale((locale_t)0);
	long live0 = vh_loc_live;
	vh_loc_logn = 0;
	vh_loc_log[0] = 0;
	if (inject == 1)
		vh_loc_dup_fail = 1;
	if (inject == 2)
		vh_loc_new_fail = 1;
	int len = c->len == -9 ? (int)strlen(c->text) + 1 : c->len;
	json_object *o = NULL;
	int every_call_ok = 1, ncalls = 0, from = 0;
	for (int k = 0; k <= ncuts; k++)
	{
		int to = k < ncuts ? cuts[k] : len;
		o = json_tokener_parse_ex(t, c->text + from, c->len == -2 ? c->len : to - from);
		ncalls++;
		probe(pm);
		if (uselocale((locale_t)0) != before || strcmp(pm, pb) || vh_loc_live != live0)
			every_call_ok = 0;
		from = to;
		if (json_tokener_get_error(t) != json_tokener_continue)
			break;
	}
	const char *st = errname(json_tokener_get_error(t));
	vh_loc_dup_fail = vh_loc_new_fail = 0;
	locale_t after = uselocale((locale_t)0);
	probe(pa);
	if (emit)
	{
		ev_begin("parse");
		ev_str("mode", mode);
		ev_str("loc", loc);
		ev_bytes("text", c->text, strlen(c->text));
		ev_int("inject", inject);
		ev_int("ncalls", ncalls);
		{
			long long cl[8];
			for (int k = 0; k < ncuts; k++)
				cl[k] = cuts[k];
			ev_ints("cuts", cl, (size_t)ncuts);
		}
		ev_bool("handle_same", before == after);
		ev_bool("every_call_ok", every_call_ok);
		ev_bytes("probe_before", pb, strlen(pb));
		ev_bytes("probe_after", pa, strlen(pa));
		ev_int("loc_leak", (int)(vh_loc_live - live0));
		ev_str("calls", vh_loc_log);
		ev_bool("hit_dup_fail", strchr(vh_loc_log, 'D') != NULL);
		ev_bool("hit_new_fail", strchr(vh_loc_log, 'N') != NULL);
		ev_str("st", st);
		dump_value("val", o);
		ev_str("ref_st", ref_st);
		dump_value("ref_val", ref_val);
		ev_end();
	}
	if (val_out)
		*val_out = o;
	else if (o)
		json_object_put(o);
	if (st_out)
		*st_out = st;
	json_tokener_free(t);
}

static json_object *ser_tree(int nrand)
{
	json_object *a = json_object_new_array();
	static const double v[] = {1.5, -0.125, 1e20, 1.25e-10, 100.0, 0.1, 12345.678, 1e-5, 5.0};
	for (int i = 0; i < 9; i++)
		json_object_array_add(a, json_object_new_double(v[i]));
	json_object_array_add(a, json_object_new_double_s(2.5, "2.50"));
	json_object *o = json_object_new_object();
	json_object_object_add(o, "x", json_object_new_double(0.75));
	json_object_object_add(o, "1,5", json_object_new_string("2,5 and 3.5"));
	json_object_array_add(a, o);
	for (int i = 0; i < nrand; i++)
		json_object_array_add(a, json_object_new_double(rand_double()));
	return a;
}
static const int fl[] = {0, JSON_C_TO_STRING_SPACED, JSON_C_TO_STRING_PRETTY, JSON_C_TO_STRING_NOZERO, JSON_C_TO_STRING_PRETTY | JSON_C_TO_STRING_NOZERO};
/* serialization variants: 0..4 flag sets with the default format, 5..7 with a configured global double format */
#define NSER 12
static const char *ser_variant(json_object *tree, int f)
{
	static const char *gf[] = {"%.3f", "%.17g", "%e", "%.124f", "%.130f", "%125.3f", "%.60f"};  /* incl. outputs around the 128-byte scratch buffer */
	if (f >= 5)
		json_c_set_serialization_double_format(gf[f - 5], JSON_C_OPTION_GLOBAL);
	const char *t = json_object_to_json_string_ext(tree, f < 5 ? fl[f] : 0);
	if (f >= 5)
		json_c_set_serialization_double_format(NULL, JSON_C_OPTION_GLOBAL);
	return t;
}

static int drive(int ngenwant)
{
	dump_bits = 1;
	const char *seed = getenv("VERIF_SEED");
	vh_srand((seed ? strtoull(seed, 0, 10) : 1) * 1000003ull + 14);
	setlocale(LC_ALL, "C");
	gen_texts(ngenwant);
	int NC = NCASES + ngen;
	pcase *all = malloc(sizeof(pcase) * (size_t)NC);
	memcpy(all, cases, sizeof cases);
	memcpy(all + NCASES, gcases, sizeof(pcase) * (size_t)ngen);
	/* reference results in the C locale: variant 0 = one call, 1..NSPLIT = chunked */
	json_object *(*refv)[NSPLIT + 1] = calloc((size_t)NC, sizeof *refv);
	const char *(*refs)[NSPLIT + 1] = calloc((size_t)NC, sizeof *refs);
	int cuts[8];
	for (int i = 0; i < NC; i++)
		for (int j = 0; j <= NSPLIT; j++)
		{
			if (j && all[i].len != -9)
				continue;
			int nc = j ? cuts_of(i, j, (int)strlen(all[i].text), cuts) : 0;
			run_case(&all[i], 0, cuts, nc, "ref", "C", &refv[i][j], &refs[i][j], 0, NULL, "");
		}
	json_object *tree = ser_tree(ngenwant);
	char *reftext[NSER];
	for (int f = 0; f < NSER; f++)
		reftext[f] = strdup(ser_variant(tree, f));
	static const char *modes[] = {"global", "thread"};
	static const char *locs[] = {"C", "xx_COMMA"};
	for (int m = 0; m < 2; m++)
		for (int l = 0; l < 2; l++)
		{
			ev_begin("new");
			ev_end();
			locale_t tl = (locale_t)0;
			int installed;
			if (m == 0)
				installed = setlocale(LC_ALL, locs[l]) != NULL;
			else
			{
				setlocale(LC_ALL, "C");
				tl = newlocale(LC_ALL_MASK, locs[l], (locale_t)0);
				installed = tl != (locale_t)0;
				if (installed)
					uselocale(tl);
			}
			char pr[32];
			probe(pr);
			ev_begin("install");
			ev_str("mode", modes[m]);
			ev_str("loc", locs[l]);
			ev_bool("installed", installed);
			ev_bytes("probe", pr, strlen(pr));
			ev_end();
			for (int i = 0; i < NC; i++)
			{
				run_case(&all[i], 0, cuts, 0, modes[m], locs[l], NULL, NULL, 1, refv[i][0], refs[i][0]);
				if (all[i].len != -2 && i < NCASES + 10)
				{
					run_case(&all[i], 1, cuts, 0, modes[m], locs[l], NULL, NULL, 1, refv[i][0], refs[i][0]);
					run_case(&all[i], 2, cuts, 0, modes[m], locs[l], NULL, NULL, 1, refv[i][0], refs[i][0]);
				}
				if (all[i].len == -9)
					for (int j = 1; j <= NSPLIT; j++)
					{
						int nc = cuts_of(i, j, (int)strlen(all[i].text), cuts);
						run_case(&all[i], 0, cuts, nc, modes[m], locs[l], NULL, NULL, 1, refv[i][j], refs[i][j]);
					}
			}
			for (int f = 0; f < NSER; f++)
			{
				char pb[32], pa[32];
				probe(pb);
				const char *t = ser_variant(tree, f);
				probe(pa);
				ev_begin("ser");
				ev_str("mode", modes[m]);
				ev_str("loc", locs[l]);
				ev_int("f", f);
				ev_bytes("text", t, strlen(t));
				ev_bytes("ref", reftext[f], strlen(reftext[f]));
				ev_bytes("probe_before", pb, strlen(pb));
				ev_bytes("probe_after", pa, strlen(pa));
				ev_end();
			}
			/* file-level entry points use the same bracket: json_tokener_parse */
			{
				json_object *o = json_tokener_parse("[0.5,1.25]");
				char pa[32];
				probe(pa);
				ev_begin("ser");
				ev_str("mode", modes[m]);
				ev_str("loc", locs[l]);
				ev_int("f", 9);
				const char *t = json_object_to_json_string_ext(o, 0);
				ev_bytes("text", t, strlen(t));
				ev_bytes("ref", "[0.5,1.25]", 10);
				ev_bytes("probe_before", pr, strlen(pr));
				ev_bytes("probe_after", pa, strlen(pa));
				ev_end();
				json_object_put(o);
			}
			if (m == 1)
			{
				uselocale(LC_GLOBAL_LOCALE);
				if (tl)
					freelocale(tl);
			}
			setlocale(LC_ALL, "C");
		}
	for (int i = 0; i < NC; i++)
		for (int j = 0; j <= NSPLIT; j++)
			if (refv[i][j])
				json_object_put(refv[i][j]);
	for (int f = 0; f < NSER; f++)
		free(reftext[f]);
	for (int i = 0; i < ngen; i++)
		free((char *)gcases[i].text);
	free(all);
	free(refv);
	free(refs);
	json_object_put(tree);
	return 0;
}
int c14_main(int argc, char **argv)
{
	if (argc >= 1)
		return drive(argc >= 2 ? atoi(argv[1]) : 30);
	return 2;
}
