/* C05 ownership: a client that follows the documented ownership rules over a pool of handles;
 * every call is recorded with its return value, the set of nodes destroyed during the call
 * (seen by the allocator wrapper), the set of user-data destructors that fired, and a probe of a
 * node the client still holds.  Node ids are the least free positive integer (as in MCRefHeap). */
#include "vhrt.h"
#include "json.h"
#include "json_patch.h"
#include "json_pointer.h"
#include "json_object_private.h"
#include <stdlib.h>
#include <string.h>

#define MAXID 400
static json_object *node[MAXID + 1]; /* id -> live node */
static int held[MAXID + 1];          /* client's own count of references it holds */
static long long dead[512], fired[512];
static int ndead, nfired;
static long live0;
static char keybuf[16][8];

static int least_free(int from)
{
	for (int i = from; i <= MAXID; i++)
		if (!node[i])
			return i;
	fprintf(stderr, "out of ids\n");
	exit(2);
}
static int id_of(json_object *o)
{
	if (!o)
		return 0;
	for (int i = 1; i <= MAXID; i++)
		if (node[i] == o)
			return i;
	return -1;
}
static void on_free(void *p)
{
	for (int i = 1; i <= MAXID; i++)
		if (node[i] == p)
		{
			node[i] = 0;
			held[i] = 0;
			if (ndead < 512)
				dead[ndead++] = i;
			return;
		}
}
/* a destruction callback may be registered with a NULL cookie ("may be NULL even if user_delete is non-NULL"):
 * the token of such a registration is kept here, by node */
static int nulltok[MAXID + 1], pending_nulltok, pending_id;
static int id_of(json_object *p);
static void ud_delete(json_object *jso, void *ud)
{
	long long tok = (long long)(intptr_t)ud;
	if (!ud)
	{
		int id = id_of(jso);
		tok = id > 0 ? nulltok[id] : -1;
	}
	if (nfired < 512)
		fired[nfired++] = tok;
}
/* the cookie to register token `tok` on node `id` with: the token itself or, one time in three, NULL */
static void *cookie_for(int id, int tok)
{
	if (vh_below(3) == 0)
	{
		pending_nulltok = tok;
		pending_id = id;
		return NULL;
	}
	return (void *)(intptr_t)tok;
}
static int ser_fn(struct json_object *jso, struct printbuf *pb, int level, int flags)
{
	(void)jso;
	(void)level;
	(void)flags;
	return printbuf_memappend(pb, "0", 1) < 0 ? -1 : 1;
}
static int cmp_ll(const void *a, const void *b)
{
	long long x = *(const long long *)a, y = *(const long long *)b;
	return x < y ? -1 : x > y;
}
static const char *kind_of(json_object *o)
{
	switch (json_object_get_type(o))
	{
	case json_type_object: return "o";
	case json_type_array: return "a";
	default: return "l";
	}
}

typedef struct
{
	const char *op;
	int a, b, k, i, cnt, tok, deflt, ret;
	const char *kind;
	long long newids[256];
	int nnew;
	int ptype[4], pval[4], npath;
	int ftype[4], fval[4], nfrom;
} call_t;

/* fault overlay (as in vh_c07.c): fault_k >= 0: the fault_k-th allocation request of the next armed call fails */
static long fault_k = -2;
static int fault_hit;
#define ARMED(call) \
	do \
	{ \
		fault_hit = 0; \
		if (fault_k >= 0) \
			vh_alloc_arm(fault_k); \
		call; \
		if (fault_k >= 0) \
		{ \
			fault_hit = vh_nalloc > fault_k; \
			vh_alloc_disarm(); \
			fault_k = -2; \
		} \
	} while (0)
static void emit(call_t *c)
{
	ev_begin("op");
	ev_str("op", c->op);
	ev_int("a", c->a);
	ev_int("b", c->b);
	ev_int("k", c->k);
	ev_int("i", c->i);
	ev_int("cnt", c->cnt);
	ev_str("kind", c->kind ? c->kind : "l");
	ev_int("tok", c->tok);
	ev_int("deflt", c->deflt);
	ev_ints("newids", c->newids, (size_t)c->nnew);
	ev_open_arr("path");
	for (int j = 0; j < c->npath; j++)
	{
		ev_open_obj(NULL);
		ev_str("t", c->ptype[j] == 0 ? "k" : c->ptype[j] == 1 ? "i" : "-");
		ev_int("v", c->pval[j]);
		ev_close_obj();
	}
	ev_close_arr();
	ev_open_arr("from");
	for (int j = 0; j < c->nfrom; j++)
	{
		ev_open_obj(NULL);
		ev_str("t", c->ftype[j] == 0 ? "k" : c->ftype[j] == 1 ? "i" : "-");
		ev_int("v", c->fval[j]);
		ev_close_obj();
	}
	ev_close_arr();
	ev_int("ret", c->ret);
	ev_int("fault", fault_hit);
	fault_hit = 0;
	qsort(dead, (size_t)ndead, sizeof dead[0], cmp_ll);
	qsort(fired, (size_t)nfired, sizeof fired[0], cmp_ll);
	ev_ints("dead", dead, (size_t)ndead);
	ev_ints("fired", fired, (size_t)nfired);
	/* usability probe: shape of one node the client still holds (after its parents may be gone) */
	int probe = 0;
	for (int tries = 0; tries < 8 && !probe; tries++)
	{
		int cand = 1 + (int)vh_below(24);
		if (cand <= MAXID && node[cand] && held[cand] > 0)
			probe = cand;
	}
	if (c->a > 0 && c->a <= MAXID && node[c->a] && held[c->a] > 0 && vh_below(2))
		probe = c->a;
	ev_int("pid", probe);
	long long pk[128], pc[128];
	int np = 0;
	const char *pkind = "l";
	if (probe)
	{
		json_object *o = node[probe];
		pkind = kind_of(o);
		if (json_object_get_type(o) == json_type_object)
		{
			json_object_object_foreach(o, key, val)
			{
				if (np < 128)
				{
					pk[np] = key[0] == 'k' ? atoi(key + 1) : key[0] == '-' ? 2000 : 1000 + atoi(key);
					pc[np] = id_of(val);
					np++;
				}
			}
		}
		else if (json_object_get_type(o) == json_type_array)
		{
			for (size_t j = 0; j < json_object_array_length(o) && np < 128; j++)
			{
				pk[np] = 0;
				pc[np] = id_of(json_object_array_get_idx(o, j));
				np++;
			}
		}
	}
	ev_str("pkind", pkind);
	ev_ints("pkeys", pk, json_object_get_type(probe ? node[probe] : NULL) == json_type_object ? (size_t)np : 0);
	ev_ints("pkids", pc, (size_t)np);
	ev_int("leak", 0);
	ev_end();
	ndead = nfired = 0;
}
static call_t C;
static call_t *mk(const char *op)
{
	memset(&C, 0, sizeof C);
	C.op = op;
	C.kind = "l";
	return &C;
}
static const char *keystr(int k)
{
	snprintf(keybuf[k & 15], sizeof keybuf[0], "k%d", k);
	return keybuf[k & 15];
}

static void fresh(void)
{
	vh_on_free = 0;
	for (int i = 1; i <= MAXID; i++)
		if (node[i] && held[i] > 0)
			for (; held[i] > 0; held[i]--)
				json_object_put(node[i]); /* should not happen: executions end balanced */
	memset(node, 0, sizeof node);
	memset(held, 0, sizeof held);
	ndead = nfired = 0;
	live0 = vh_live;
	vh_on_free = on_free;
	ev_begin("new");
	ev_end();
}

static int last_new_id;
static int wmode, w_notok;
static json_object *w_new_leaf(void);
static void w_declare(const char *op, int a, int ret);
static void op_new(char kind)
{
	call_t *c = mk("new");
	int id = least_free(1);
	last_new_id = id;
	json_object *o = kind == 'o' ? json_object_new_object() : kind == 'a' ? json_object_new_array_ext(2) : wmode ? w_new_leaf() : json_object_new_int(id);
	node[id] = o;
	held[id] = 1;
	/* the destruction callback the property speaks of */
	pending_id = 0;
	if (wmode && (w_notok || json_object_get_type(o) == json_type_double || vh_below(3) == 0))
		id = 0; /* (a double's user-data slot may hold its retained text: no destructor token on doubles in world mode, and
		         * none on one node in three, so that values can be copied by patches;
		         * none at all when model histories are replayed - the bounded model's nodes carry none, and a node with
		         * foreign user data cannot be copied by a patch) */
	else if (id & 1)
		json_object_set_userdata(o, cookie_for(id, id), ud_delete);
	else
		json_object_set_serializer(o, NULL, cookie_for(id, id), ud_delete);
	if (pending_id)
		nulltok[pending_id] = pending_nulltok;
	c->a = last_new_id;
	c->tok = id;
	c->kind = kind == 'o' ? "o" : kind == 'a' ? "a" : "l";
	emit(c);
	if (wmode && kind == 'l')
		w_declare("wleaf", last_new_id, 1);
}
static void op_get(int a)
{
	call_t *c = mk("get");
	json_object *r = json_object_get(node[a]);
	held[a]++;
	c->a = a;
	c->ret = r == node[a] ? 0 : -5;
	emit(c);
}
static void op_put(int a)
{
	call_t *c = mk("put");
	json_object *o = node[a];
	held[a]--;
	c->a = a;
	c->ret = json_object_put(o);
	emit(c);
}
static void after_give(int b, int ret)
{
	if (ret == 0 && b)
		held[b]--; /* ownership moved into the container */
}
static int force_const;
static void op_oadd(int a, int b, int k, int isnew)
{
	call_t *c = mk(isnew ? "oaddnew" : "oadd");
	c->a = a;
	c->b = b;
	c->k = k;
	/* now and then the name is handed over as a constant (not copied, never freed by the library): a stable string */
	static char consts[64][8];
	unsigned copts = (isnew ? JSON_C_OBJECT_ADD_KEY_IS_NEW : 0);
	const char *key = keystr(k);
	if (k >= 0 && k < 64 && (force_const || vh_below(4) == 0))
	{
		snprintf(consts[k], sizeof consts[k], "k%d", k);
		key = consts[k];
		copts |= JSON_C_OBJECT_ADD_CONSTANT_KEY;
	}
	ARMED(c->ret = copts ? json_object_object_add_ex(node[a], key, b ? node[b] : NULL, copts)
	                     : json_object_object_add(node[a], key, b ? node[b] : NULL));
	after_give(b, c->ret);
	emit(c);
}
static void op_odel(int a, int k)
{
	call_t *c = mk("odel");
	c->a = a;
	c->k = k;
	json_object_object_del(node[a], keystr(k));
	emit(c);
}
static void op_arr(const char *op, int a, int b, int i, int cnt)
{
	call_t *c = mk(op);
	c->a = a;
	c->b = b;
	c->i = i;
	c->cnt = cnt;
	json_object *v = b ? node[b] : NULL;
	if (!strcmp(op, "aadd"))
		ARMED(c->ret = json_object_array_add(node[a], v));
	else if (!strcmp(op, "aput"))
		ARMED(c->ret = json_object_array_put_idx(node[a], (size_t)i, v));
	else if (!strcmp(op, "ains"))
		ARMED(c->ret = json_object_array_insert_idx(node[a], (size_t)i, v));
	else
		c->ret = json_object_array_del_idx(node[a], (size_t)i, (size_t)cnt);
	if (strcmp(op, "adel"))
		after_give(b, c->ret);
	emit(c);
}
static void op_borrow(int a, int k, int i)
{
	call_t *c = mk("borrow");
	c->a = a;
	c->k = k;
	c->i = i;
	json_object *kid = NULL;
	if (json_object_get_type(node[a]) == json_type_object)
		json_object_object_get_ex(node[a], keystr(k), &kid);
	else if (json_object_get_type(node[a]) == json_type_array)
		kid = json_object_array_get_idx(node[a], (size_t)i);
	c->b = id_of(kid);
	if (kid && c->b > 0)
	{
		json_object_get(kid);
		held[c->b]++;
	}
	emit(c);
}
static void op_setud(int a, int tok)
{
	call_t *c = mk("setud");
	if (wmode)
	{
		if (json_object_get_type(node[a]) == json_type_double)
			return;
		if (tok == 0)
			return;
		tok |= 1; /* (a custom serializer would change what the node prints) */
	}
	c->a = a;
	c->tok = tok;
	/* (the previous registration's callback runs inside these calls: its token is looked up before the table changes) */
	pending_id = 0;
	if (tok == 0)
		/* a constant text as the node's serialization, no destruction callback: nothing to fire later, and a deep copy
		 * (which duplicates the text) must release its duplicate itself */
		json_object_set_serializer(node[a], json_object_userdata_to_json_string, (void *)"7.000", NULL);
	else if ((tok & 1) && node[a]->_to_json_string != json_object_userdata_to_json_string)
		json_object_set_userdata(node[a], cookie_for(a, tok), ud_delete);
	else
		/* (also taken when the node prints a constant text through json_object_userdata_to_json_string: replacing only the
		 * user data under that serializer would be a misuse - it reads its user data as a string) */
		json_object_set_serializer(node[a], ser_fn, cookie_for(a, tok), ud_delete);
	if (pending_id)
		nulltok[pending_id] = pending_nulltok;
	emit(c);
}
static int copy2(json_object *src, json_object *parent, const char *key, size_t index, json_object **dst)
{
	int rc = json_c_shallow_copy_default(src, parent, key, index, dst);
	if (rc < 0)
		return rc;
	if (json_object_get_type(src) == json_type_double)
		return rc; /* (world mode: a double's user data is its retained text, which the library copies itself) */
	return 2; /* "userdata handled": the copy carries none */
}
static void assign_ids(json_object *o, call_t *c, int *from)
{
	if (!o)
		return;
	int id = least_free(*from);
	*from = id + 1;
	node[id] = o;
	held[id] = 0;
	if (c->nnew < 256)
		c->newids[c->nnew++] = id;
	if (json_object_get_type(o) == json_type_object)
	{
		json_object_object_foreach(o, key, val)
		{
			(void)key;
			assign_ids(val, c, from);
		}
	}
	else if (json_object_get_type(o) == json_type_array)
		for (size_t j = 0; j < json_object_array_length(o); j++)
			assign_ids(json_object_array_get_idx(o, j), c, from);
}
static void op_copy(int a, int deflt)
{
	call_t *c = mk("copy");
	c->a = a;
	c->deflt = deflt;
	json_object *dst = NULL;
	ARMED(c->ret = json_object_deep_copy(node[a], &dst, deflt ? NULL : copy2));
	if (c->ret == 0 && dst)
	{
		int from = 1;
		assign_ids(dst, c, &from);
		held[(int)c->newids[0]] = 1;
	}
	else if (dst)
		c->ret = -7; /* failure must not hand out an object */
	emit(c);
}
static void op_ptrset(int a, int b, const int *ptype, const int *pval, int np, int usef)
{
	call_t *c = mk("ptrset");
	c->a = a;
	c->b = b;
	c->npath = np;
	char path[128] = "";
	for (int j = 0; j < np; j++)
	{
		c->ptype[j] = ptype[j];
		c->pval[j] = pval[j];
		char seg[32];
		if (ptype[j] == 0)
			snprintf(seg, sizeof seg, "/k%d", pval[j]);
		else if (ptype[j] == 1)
			snprintf(seg, sizeof seg, "/%d", pval[j]);
		else
			snprintf(seg, sizeof seg, "/-");
		strcat(path, seg);
	}
	json_object *root = node[a];
	ARMED(c->ret = usef ? json_pointer_setf(&root, b ? node[b] : NULL, "%s", path) : json_pointer_set(&root, path, b ? node[b] : NULL));
	if (root != node[a])
		c->ret = -9; /* a non-empty path never replaces the root */
	after_give(b, c->ret);
	emit(c);
}
/* json_patch_apply in place on node a with a one-operation patch: remove (nf = 0) or move */
static void path_string(char *out, const int *pt, const int *pv, int np)
{
	out[0] = 0;
	for (int j = 0; j < np; j++)
	{
		char seg[32];
		if (pt[j] == 0)
			snprintf(seg, sizeof seg, "/k%d", pv[j]);
		else if (pt[j] == 1)
			snprintf(seg, sizeof seg, "/%d", pv[j]);
		else
			snprintf(seg, sizeof seg, "/-");
		strcat(out, seg);
	}
}
static void op_patch(int a, const int *ft, const int *fv, int nf, const int *pt, const int *pv, int np)
{
	call_t *c = mk(nf ? "pmove" : "premove");
	c->a = a;
	c->npath = np;
	c->nfrom = nf;
	for (int j = 0; j < np; j++)
	{
		c->ptype[j] = pt[j];
		c->pval[j] = pv[j];
	}
	for (int j = 0; j < nf; j++)
	{
		c->ftype[j] = ft[j];
		c->fval[j] = fv[j];
	}
	char path[128], from[128];
	path_string(path, pt, pv, np);
	path_string(from, ft, fv, nf);
	/* the patch document is the client's own, untracked, and released before the event is written */
	json_object *patch = json_object_new_array();
	json_object *op = json_object_new_object();
	json_object_object_add(op, "op", json_object_new_string(nf ? "move" : "remove"));
	json_object_object_add(op, "path", json_object_new_string(path));
	if (nf)
		json_object_object_add(op, "from", json_object_new_string(from));
	json_object_array_add(patch, op);
	json_object *base = node[a];
	int rc = json_patch_apply(NULL, patch, &base, NULL);
	json_object_put(patch);
	c->ret = rc == 0 ? 0 : rc < 0 ? -1 : -8;
	if (base != node[a])
		c->ret = -9; /* a non-empty path never replaces or drops the document itself */
	emit(c);
}
static void op_end(void)
{
	/* release every reference the client holds, then nothing may remain allocated */
	for (int i = 1; i <= MAXID; i++)
		while (node[i] && held[i] > 0)
			op_put(i);
	vh_on_free = 0;
	ev_begin("op");
	ev_str("op", "end");
	ev_int("a", 0);
	ev_int("b", 0);
	ev_int("k", 0);
	ev_int("i", 0);
	ev_int("cnt", 0);
	ev_str("kind", "l");
	ev_int("tok", 0);
	ev_int("deflt", 0);
	ev_ints("newids", dead, 0);
	ev_open_arr("path");
	ev_close_arr();
	ev_open_arr("from");
	ev_close_arr();
	ev_int("ret", 0);
	ev_ints("dead", dead, 0);
	ev_ints("fired", dead, 0);
	ev_int("pid", 0);
	ev_str("pkind", "l");
	ev_ints("pkeys", dead, 0);
	ev_ints("pkids", dead, 0);
	int stray = 0;
	for (int i = 1; i <= MAXID; i++)
		if (node[i])
			stray++;
	ev_int("leak", (int)(vh_live - live0) + 1000 * stray);
	ev_end();
}

/* script ops separated by ';' :  N kind | G a | P a | O a b k | Q a b k | D a k | A a b | U a b i |
 *   I a b i | X a i cnt | B a k i | S a tok | C a deflt | T a b np (type val)*  */
static int wreplay_op(char op, const int *v, int n);
static void wreplay_observe(void);
static int replay(const char *path, long start)
{
	FILE *f = fopen(path, "r");
	if (!f)
		return 2;
	char *line = 0;
	size_t cap = 0;
	long idx = 0;
	while (getline(&line, &cap, f) > 0)
	{
		if (idx++ < start)
			continue;
		vh_srand((uint64_t)idx);
		fresh();
		char *save = 0;
		for (char *tok = strtok_r(line, ";\n", &save); tok; tok = strtok_r(0, ";\n", &save))
		{
			char op = tok[0];
			char *p = tok + 1;
			int v[24], n = 0;
			char kind = 'l';
			if (op == 'N')
			{
				while (*p == ' ')
					p++;
				kind = *p;
			}
			else
				while (n < 24)
				{
					while (*p == ' ')
						p++;
					if (!*p)
						break;
					v[n++] = (int)strtol(p, &p, 10);
				}
			switch (op)
			{
			case 'N': op_new(kind); break;
			case 'G': op_get(v[0]); break;
			case 'P': op_put(v[0]); break;
			case 'O': op_oadd(v[0], v[1], v[2], 0); break;
			case 'Q': op_oadd(v[0], v[1], v[2], 1); break;
			case 'D': op_odel(v[0], v[1]); break;
			case 'A': op_arr("aadd", v[0], v[1], 0, 0); break;
			case 'U': op_arr("aput", v[0], v[1], v[2], 0); break;
			case 'I': op_arr("ains", v[0], v[1], v[2], 0); break;
			case 'X': op_arr("adel", v[0], 0, v[1], v[2]); break;
			case 'B': op_borrow(v[0], v[1], v[2]); break;
			case 'S': op_setud(v[0], v[1]); break;
			case 'C': op_copy(v[0], v[1]); break;
			case 'T':
			{
				int pt[4], pv[4], np = v[2];
				for (int j = 0; j < np && j < 4; j++)
				{
					pt[j] = v[3 + 2 * j];
					pv[j] = v[4 + 2 * j];
				}
				op_ptrset(v[0], v[1], pt, pv, np, (int)(idx & 1));
				break;
			}
			case 'R':
			{
				int pt[4], pv[4], np = v[1];
				for (int j = 0; j < np && j < 4; j++)
				{
					pt[j] = v[2 + 2 * j];
					pv[j] = v[3 + 2 * j];
				}
				op_patch(v[0], NULL, NULL, 0, pt, pv, np);
				break;
			}
			case 'M':
			{
				int ft[4], fv[4], pt[4], pv[4], nf = v[1];
				for (int j = 0; j < nf && j < 4; j++)
				{
					ft[j] = v[2 + 2 * j];
					fv[j] = v[3 + 2 * j];
				}
				int np = v[2 + 2 * nf];
				for (int j = 0; j < np && j < 4; j++)
				{
					pt[j] = v[3 + 2 * nf + 2 * j];
					pv[j] = v[4 + 2 * nf + 2 * j];
				}
				op_patch(v[0], ft, fv, nf, pt, pv, np);
				break;
			}
			default:
				if (!wmode || wreplay_op(op, v, n))
				{
					fprintf(stderr, "bad op %s\n", tok);
					return 2;
				}
			}
			if (wmode)
				wreplay_observe();
		}
		op_end();
	}
	free(line);
	fclose(f);
	return 0;
}

/* ------------------------------------------------------------------ random client */
static int reaches(json_object *from, json_object *target)
{
	if (!from)
		return 0;
	if (from == target)
		return 1;
	if (json_object_get_type(from) == json_type_object)
	{
		json_object_object_foreach(from, key, val)
		{
			(void)key;
			if (reaches(val, target))
				return 1;
		}
	}
	else if (json_object_get_type(from) == json_type_array)
		for (size_t j = 0; j < json_object_array_length(from); j++)
			if (reaches(json_object_array_get_idx(from, j), target))
				return 1;
	return 0;
}
static int disjoint(int a, int b)
{
	for (int x = 1; x <= MAXID; x++)
		if (node[x] && reaches(node[a], node[x]) && reaches(node[b], node[x]))
			return 0;
	return 1;
}
static int pick_held(int type /* 0 any, 1 object, 2 array, 3 container */)
{
	int cand[MAXID], n = 0;
	for (int i = 1; i <= MAXID; i++)
		if (node[i] && held[i] > 0)
		{
			json_type t = json_object_get_type(node[i]);
			if (type == 0 || (type == 1 && t == json_type_object) || (type == 2 && t == json_type_array) ||
			    (type == 3 && (t == json_type_object || t == json_type_array)))
				cand[n++] = i;
		}
	return n ? cand[vh_below((uint32_t)n)] : 0;
}
static int nheld(void)
{
	int n = 0;
	for (int i = 1; i <= MAXID; i++)
		if (node[i] && held[i] > 0)
			n += held[i];
	return n;
}
static int nlive(void)
{
	int n = 0;
	for (int i = 1; i <= MAXID; i++)
		if (node[i])
			n++;
	return n;
}
/* a value the client may give to container a: null, or a held node from which a is not reachable */
static int pick_give(int a)
{
	if (vh_below(8) == 0)
		return 0;
	for (int t = 0; t < 6; t++)
	{
		int b = pick_held(0);
		if (b && b != a && !reaches(node[b], node[a]))
			return b;
	}
	return 0;
}
static int unfolded_size(json_object *o, int depth)
{
	int n = 1;
	if (!o)
		return 0;
	if (depth > 40)
		return 100000;
	if (json_object_get_type(o) == json_type_object)
	{
		json_object_object_foreach(o, key, val)
		{
			(void)key;
			n += unfolded_size(val, depth + 1);
			if (n > 100000)
				return n;
		}
	}
	else if (json_object_get_type(o) == json_type_array)
		for (size_t j = 0; j < json_object_array_length(o) && n <= 100000; j++)
			n += unfolded_size(json_object_array_get_idx(o, j), depth + 1);
	return n;
}
/* every node below o is linked exactly once (no sharing) */
static int count_links(json_object *root, json_object *target)
{
	int n = 0;
	if (!root)
		return 0;
	if (json_object_get_type(root) == json_type_object)
	{
		json_object_object_foreach(root, key, val)
		{
			(void)key;
			if (val)
				n += (val == target) + count_links(val, target);
		}
	}
	else if (json_object_get_type(root) == json_type_array)
		for (size_t j = 0; j < json_object_array_length(root); j++)
		{
			json_object *val = json_object_array_get_idx(root, j);
			if (val)
				n += (val == target) + count_links(val, target);
		}
	return n;
}
static int is_tree(json_object *root)
{
	for (int x = 1; x <= MAXID; x++)
		if (node[x] && count_links(root, node[x]) > 1)
			return 0;
	return 1;
}
/* walk up to *np existing steps down from o; tokens of the steps taken */
static void rand_walk(json_object *o, int *pt, int *pv, int *np)
{
	int want = *np, n = 0;
	while (n < want && o)
	{
		if (json_object_get_type(o) == json_type_object && json_object_object_length(o) > 0)
		{
			int j = (int)vh_below((uint32_t)json_object_object_length(o)), i = 0;
			json_object *next = NULL;
			int found = 0;
			json_object_object_foreach(o, key, val)
			{
				if (i++ == j)
				{
					if (key[0] != 'k')
						break; /* members created through pointer tokens ("0", "-"): not walked */
					pt[n] = 0;
					pv[n] = atoi(key + 1);
					next = val;
					found = 1;
					break;
				}
			}
			if (!found)
				break;
			n++;
			o = next;
		}
		else if (json_object_get_type(o) == json_type_array && json_object_array_length(o) > 0)
		{
			int j = (int)vh_below((uint32_t)json_object_array_length(o));
			pt[n] = 1;
			pv[n] = j;
			n++;
			o = json_object_array_get_idx(o, (size_t)j);
		}
		else
			break;
	}
	*np = n;
}
/* ============================================================================================
 * world mode: the same client, but leaves carry values of every type and the client also OBSERVES:
 * typed dumps with node identities, serialization under a flag set, equality, pointer lookups,
 * visitor order, lengths, array sort, and it parses texts into new trees.  Judged by TraceWorld.tla
 * against the composed model World.tla (RefHeap + leaf values + JsonValue + Serializer + Grammar). */
#include "json_object_private.h"
#include "json_visit.h"
#include "json_object_iterator.h"
#include "linkhash.h"
#include <inttypes.h>
#include <float.h>
#include <sys/mman.h>
#include <unistd.h>
#include "json_util.h"
typedef struct
{
	int t; /* 0 int64, 1 uint64, 2 bool, 3 string, 4 double */
	int64_t i;
	uint64_t u;
	int b;
	char s[160];
	int slen;
	double d;
	char ret[64];
} wval_t;
static wval_t wpending;
static void w_rand_val(wval_t *v, int type)
{
	static const int64_t ints[] = {0, 1, -1, 7, -42, 2147483647, -2147483648LL, 2147483648LL, INT64_MAX, INT64_MIN, 4294967296LL, 1000000007};
	static const double dbls[] = {0.0, -0.0, 1.5, -2.5, 0.1, 1e21, 1e-7, 123456789.125, 5e-324, DBL_MAX, 1e22, 3.0, -1e300, 2.2250738585072014e-308};
	memset(v, 0, sizeof *v);
	v->t = type >= 0 ? type : (int)vh_below(5);
	switch (v->t)
	{
	case 0: v->i = vh_below(3) ? ints[vh_below(sizeof ints / sizeof ints[0])] : (int64_t)vh_rand(); break;
	case 1: v->u = vh_below(2) ? UINT64_MAX - vh_below(3) : vh_below(2) ? (uint64_t)INT64_MAX + vh_below(3) : vh_rand(); break;
	case 2: v->b = (int)vh_below(2); break;
	case 3:
	{
		static const char alphabet[] = "ab\"\\/\b\n\x01\x7f\xc3\xa9\xf0 k1";
		v->slen = vh_below(8) == 0 ? 100 + (int)vh_below(50) : (int)vh_below(12);
		for (int j = 0; j < v->slen; j++)
			v->s[j] = vh_below(6) == 0 ? (char)vh_below(256) : alphabet[vh_below(sizeof alphabet - 1)];
		break;
	}
	default:
		if (vh_below(3) == 0)
		{
			/* any finite bit pattern */
			uint64_t bits = vh_rand();
			if (((bits >> 52) & 0x7ff) == 0x7ff)
				bits &= ~(1ull << 62);
			memcpy(&v->d, &bits, 8);
		}
		else
			v->d = dbls[vh_below(sizeof dbls / sizeof dbls[0])];
		/* now and then the node is made with a text of its own (as the parser does) */
		if (vh_below(3) == 0)
			snprintf(v->ret, sizeof v->ret, vh_below(2) ? "%.20e" : "%.17g", v->d);
		/* (a double's own text always shows that it is one - as the parser's does) */
		if (v->ret[0] && !strpbrk(v->ret, ".eE"))
			strcat(v->ret, vh_below(2) ? ".000" : ".0");
		break;
	}
}
static json_object *w_construct(const wval_t *v)
{
	switch (v->t)
	{
	case 0: return (v->i >= INT32_MIN && v->i <= INT32_MAX && vh_below(2)) ? json_object_new_int((int32_t)v->i) : json_object_new_int64(v->i);
	case 1: return json_object_new_uint64(v->u);
	case 2: return json_object_new_boolean(v->b);
	case 3: return json_object_new_string_len(v->s, v->slen);
	default: return v->ret[0] ? json_object_new_double_s(v->d, v->ret) : json_object_new_double(v->d);
	}
}
static void w_emit_val(const char *key, const wval_t *v)
{
	char buf[48];
	ev_open_obj(key);
	switch (v->t)
	{
	case 0:
	case 1:
		ev_str("t", "int");
		if (v->t == 0 && v->i < 0)
		{
			ev_bool("neg", 1);
			snprintf(buf, sizeof buf, "%" PRIu64, (uint64_t)0 - (uint64_t)v->i);
		}
		else
		{
			ev_bool("neg", 0);
			snprintf(buf, sizeof buf, "%" PRIu64, v->t == 0 ? (uint64_t)v->i : v->u);
		}
		ev_digits("d", buf);
		break;
	case 2:
		ev_str("t", "bool");
		ev_bool("b", v->b);
		break;
	case 3:
		ev_str("t", "string");
		ev_bytes("s", v->s, (size_t)v->slen);
		break;
	default:
	{
		ev_str("t", "double");
		ev_dbl("bits", v->d);
		int fl = snprintf(buf, sizeof buf, "%.17g", v->d);
		ev_bytes("fmt", buf, (size_t)fl);
		ev_bytes("ret", v->ret, strlen(v->ret));
		break;
	}
	}
	ev_close_obj();
}
/* the leaf values of the bounded model MCWorld.tla (LeafSeq): 0, -7, the string a", true, 1.5 */
static int w_forced = -1;
static void w_model_val(wval_t *v, int k)
{
	memset(v, 0, sizeof *v);
	switch (k)
	{
	case 0: v->t = 0; v->i = 0; break;
	case 1: v->t = 0; v->i = -7; break;
	case 2: v->t = 3; memcpy(v->s, "a\"", 2); v->slen = 2; break;
	case 3: v->t = 2; v->b = 1; break;
	default: v->t = 4; v->d = 1.5; break;
	}
}
static json_object *w_new_leaf(void)
{
	if (w_forced >= 0)
		w_model_val(&wpending, w_forced);
	else
		w_rand_val(&wpending, -1);
	return w_construct(&wpending);
}
/* "wleaf": the value node a was constructed with;  "wset": json_object_set_<type>(a, value) returned ret */
static void w_declare(const char *op, int a, int ret)
{
	ev_begin("op");
	ev_str("op", op);
	ev_int("a", a);
	w_emit_val("val", &wpending);
	ev_int("ret", ret);
	ev_end();
}
static int w_type_of(json_object *o) /* wval_t.t of a leaf node; -1 otherwise */
{
	switch (json_object_get_type(o))
	{
	case json_type_int: return 0;
	case json_type_boolean: return 2;
	case json_type_string: return 3;
	case json_type_double: return 4;
	default: return -1;
	}
}
static void w_set(int a)
{
	json_object *o = node[a];
	int own = w_type_of(o);
	if (own < 0)
		return;
	int t = vh_below(8) == 0 ? (int)vh_below(5) : own == 0 ? (int)vh_below(2) : own;
	if (w_forced >= 0)
	{
		w_model_val(&wpending, w_forced);
		t = wpending.t;
	}
	else
		w_rand_val(&wpending, t);
	wpending.ret[0] = 0; /* a set value has no text of its own */
	int ret;
	switch (t)
	{
	case 0: ret = (wpending.i >= INT32_MIN && wpending.i <= INT32_MAX && vh_below(2)) ? json_object_set_int(o, (int)wpending.i) : json_object_set_int64(o, wpending.i); break;
	case 1: ret = json_object_set_uint64(o, wpending.u); break;
	case 2: ret = json_object_set_boolean(o, wpending.b); break;
	case 3: ret = vh_below(2) && !memchr(wpending.s, 0, (size_t)wpending.slen) ? json_object_set_string(o, wpending.s) : json_object_set_string_len(o, wpending.s, wpending.slen); break;
	default: ret = json_object_set_double(o, wpending.d); break;
	}
	w_declare("wset", a, ret);
}
/* typed dump; the members of an object are walked by one of four iteration forms */
static void w_dump(const char *key, json_object *o)
{
	ev_open_obj(key);
	switch (json_object_get_type(o))
	{
	case json_type_null: ev_str("t", "null"); break;
	case json_type_boolean:
		ev_str("t", "bool");
		ev_bool("b", json_object_get_boolean(o));
		break;
	case json_type_int:
	{
		char buf[40];
		ev_str("t", "int");
		int64_t s = json_object_get_int64(o);
		uint64_t u = json_object_get_uint64(o);
		ev_bool("neg", s < 0);
		snprintf(buf, sizeof buf, "%" PRIu64, s < 0 ? (uint64_t)0 - (uint64_t)s : u);
		ev_digits("d", buf);
		break;
	}
	case json_type_double:
	{
		char fb[64];
		double d = json_object_get_double(o);
		ev_str("t", "double");
		ev_dbl("bits", d);
		int fl = snprintf(fb, sizeof fb, "%.17g", d);
		ev_bytes("fmt", fb, (size_t)fl);
		/* (in world mode a double never carries a destructor cookie: user data on it is its retained text) */
		const char *ud = o->_to_json_string == json_object_double_to_json_string ? NULL : (const char *)json_object_get_userdata(o);
		ev_bytes("ret", ud ? ud : "", ud ? strlen(ud) : 0);
		break;
	}
	case json_type_string:
		ev_str("t", "string");
		ev_bytes("s", json_object_get_string(o), (size_t)json_object_get_string_len(o));
		break;
	case json_type_array:
	{
		ev_str("t", "array");
		ev_open_arr("e");
		size_t n = json_object_array_length(o);
		for (size_t i = 0; i < n; i++)
			w_dump(NULL, json_object_array_get_idx(o, i));
		ev_close_arr();
		break;
	}
	case json_type_object:
	{
		ev_str("t", "object");
		ev_open_arr("m");
#define W_MEMBER(k, v) \
	do \
	{ \
		ev_open_obj(NULL); \
		ev_bytes("k", (k), strlen(k)); \
		w_dump("v", (v)); \
		ev_close_obj(); \
	} while (0)
		switch (vh_below(4))
		{
		case 0:
		{
			json_object_object_foreach(o, k, v) W_MEMBER(k, v);
			break;
		}
		case 1:
		{
			struct json_object_iterator it = json_object_iter_begin(o), end = json_object_iter_end(o);
			for (; !json_object_iter_equal(&it, &end); json_object_iter_next(&it))
				W_MEMBER(json_object_iter_peek_name(&it), json_object_iter_peek_value(&it));
			break;
		}
		case 2:
		{
			struct lh_entry *e;
			lh_foreach(json_object_get_object(o), e) W_MEMBER((const char *)lh_entry_k(e), (json_object *)lh_entry_v(e));
			break;
		}
		default:
		{
			struct json_object_iter it;
			json_object_object_foreachC(o, it) W_MEMBER(it.key, it.val);
			break;
		}
		}
		ev_close_arr();
		break;
	}
	}
	ev_close_obj();
}
static void w_ids(json_object *o, long long *out, int *n, int cap)
{
	if (!o)
		return;
	if (*n < cap)
		out[(*n)++] = id_of(o);
	if (json_object_get_type(o) == json_type_object)
	{
		json_object_object_foreach(o, k, v)
		{
			(void)k;
			w_ids(v, out, n, cap);
		}
	}
	else if (json_object_get_type(o) == json_type_array)
		for (size_t j = 0; j < json_object_array_length(o); j++)
			w_ids(json_object_array_get_idx(o, j), out, n, cap);
}
static int w_flags(int f)
{
	return (f & 1 ? JSON_C_TO_STRING_SPACED : 0) | (f & 2 ? JSON_C_TO_STRING_PRETTY : 0) | (f & 4 ? JSON_C_TO_STRING_NOZERO : 0) |
	       (f & 8 ? JSON_C_TO_STRING_PRETTY_TAB : 0) | (f & 16 ? JSON_C_TO_STRING_NOSLASHESCAPE : 0) | (f & 32 ? JSON_C_TO_STRING_COLOR : 0);
}
static void w_obs(int a)
{
	static long long ids[512];
	int n = 0;
	if (unfolded_size(node[a], 0) > 300)
		return;
	w_ids(node[a], ids, &n, 512);
	ev_begin("op");
	ev_str("op", "obs");
	ev_int("a", a);
	w_dump("dump", node[a]);
	ev_ints("ids", ids, (size_t)n);
	ev_end();
}
static void w_ser(int a)
{
	if (unfolded_size(node[a], 0) > 25)
		return;
	int f = (int)vh_below(64);
	size_t len = 0;
	const char *t = json_object_to_json_string_length(node[a], w_flags(f), &len);
	if (!t || len > 600)
		return;
	static char fdtext[1024];
	if (vh_below(3) == 0)
	{
		/* the same through a descriptor: what arrives there is the text (json_object_to_fd on an in-memory file) */
		int fd = memfd_create("vh_world_ser", 0);
		if (fd >= 0)
		{
			int rc = json_object_to_fd(fd, node[a], w_flags(f));
			ssize_t got = rc == 0 ? pread(fd, fdtext, sizeof fdtext - 1, 0) : -1;
			close(fd);
			if (got < 0)
				got = 0;
			fdtext[got] = 0;
			t = fdtext;
			len = (size_t)got;
		}
	}
	ev_begin("op");
	ev_str("op", "ser");
	ev_int("a", a);
	ev_int("f", f);
	ev_bytes("text", t, strlen(t));
	ev_int("len", (long long)len);
	ev_end();
}
static void w_eq(int a, int b)
{
	ev_begin("op");
	ev_str("op", "eq");
	ev_int("a", a);
	ev_int("b", b);
	ev_bool("res", json_object_equal(node[a], node[b]));
	ev_bool("res2", json_object_equal(node[b], node[a]));
	ev_end();
}
static void w_ptrget(int a)
{
	int pt[4], pv[4], np = (int)vh_below(4);
	rand_walk(node[a], pt, pv, &np);
	if (np < 3 && vh_below(3) == 0)
	{
		/* one more token that may or may not exist */
		pt[np] = (int)vh_below(3);
		pv[np] = pt[np] == 0 ? 1 + (int)vh_below(4) : (int)vh_below(3);
		np++;
	}
	char path[128];
	path_string(path, pt, pv, np);
	json_object *res = (json_object *)&path; /* (must be overwritten on success) */
	int rc = vh_below(2) ? json_pointer_get(node[a], path, &res) : json_pointer_getf(node[a], &res, "%s", path);
	ev_begin("op");
	ev_str("op", "ptrget");
	ev_int("a", a);
	ev_open_arr("path");
	for (int j = 0; j < np; j++)
	{
		ev_open_obj(NULL);
		ev_str("t", pt[j] == 0 ? "k" : pt[j] == 1 ? "i" : "-");
		ev_int("v", pv[j]);
		ev_close_obj();
	}
	ev_close_arr();
	ev_int("ret", rc == 0 ? 0 : -1);
	ev_int("b", rc == 0 ? id_of(res) : 0);
	ev_end();
}
static long long wcalls[1024];
static int nwcalls;
static int w_visit_cb(json_object *jso, int flags, json_object *parent, const char *key, size_t *index, void *arg)
{
	(void)parent;
	(void)key;
	(void)index;
	(void)arg;
	if (nwcalls < 1024)
		wcalls[nwcalls++] = (flags & JSON_C_VISIT_SECOND) ? -(long long)id_of(jso) : (long long)id_of(jso);
	return JSON_C_VISIT_RETURN_CONTINUE;
}
static void w_visit(int a)
{
	if (unfolded_size(node[a], 0) > 400)
		return;
	nwcalls = 0;
	int rc = json_c_visit(node[a], 0, w_visit_cb, NULL);
	ev_begin("op");
	ev_str("op", "visit");
	ev_int("a", a);
	ev_ints("calls", wcalls, (size_t)nwcalls);
	ev_int("ret", rc);
	ev_end();
}
static void w_len(int a)
{
	json_object *o = node[a];
	ev_begin("op");
	ev_str("op", "len");
	ev_int("a", a);
	ev_int("len", json_object_get_type(o) == json_type_object ? json_object_object_length(o) : (long long)json_object_array_length(o));
	ev_end();
}
static int w_cmp_id(const void *x, const void *y)
{
	int a = id_of(*(json_object *const *)x), b = id_of(*(json_object *const *)y);
	return a < b ? -1 : a > b;
}
static void w_asort(int a)
{
	json_object_array_sort(node[a], w_cmp_id);
	ev_begin("op");
	ev_str("op", "asort");
	ev_int("a", a);
	ev_end();
}
/* serialize a held tree (any layout flags, no colour), now and then with extra white space or a repeated member, and
 * parse the text: a new tree of fresh nodes */
static int w_parse_flags = -1; /* >= 0: exactly the text the serializer gives under these flags */
static void w_parse(int a)
{
	if (unfolded_size(node[a], 0) > 20 || nlive() > 150)
		return;
	size_t len = 0;
	const char *t = json_object_to_json_string_length(node[a], w_flags(w_parse_flags >= 0 ? w_parse_flags : (int)vh_below(32)), &len);
	if (!t || len > 500 || len != strlen(t))
		return;
	char text[700];
	size_t n = 0;
	if (w_parse_flags < 0 && vh_below(3) == 0)
		text[n++] = " \t\n\r"[vh_below(4)];
	memcpy(text + n, t, len);
	n += len;
	if (w_parse_flags < 0 && text[n - 1] == '}' && n > 2 && vh_below(3) == 0)
	{
		/* a repeated member name: the first position is kept, the last value wins */
		/* (the repeated name is one the object has - whatever value it holds there, null included - or k1 / k2) */
		static char extrabuf[64];
		const char *extra = vh_below(2) ? ",\"k1\":[7]}" : ", \"k2\" : \"z\\u00e9\"}";
		if (json_object_get_type(node[a]) == json_type_object && json_object_object_length(node[a]) > 0 && vh_below(3))
		{
			int j = (int)vh_below((uint32_t)json_object_object_length(node[a])), i = 0;
			json_object_object_foreach(node[a], key, val)
			{
				(void)val;
				if (i++ == j && strlen(key) < 8)
				{
					snprintf(extrabuf, sizeof extrabuf, ",\"%s\":%s}", key, vh_below(2) ? "2" : "null");
					extra = extrabuf;
				}
			}
		}
		if (text[n - 2] == '{' || (n >= 3 && text[n - 2] == ' ' && text[n - 3] == '{'))
			extra++; /* (an empty object: no comma) */
		n--;
		memcpy(text + n, extra, strlen(extra));
		n += strlen(extra);
	}
	if (w_parse_flags < 0 && vh_below(3) == 0)
		text[n++] = ' ';
	text[n] = 0;
	call_t *c = mk("parse");
	json_object *o;
	if (w_parse_flags >= 0 || vh_below(2))
		o = json_tokener_parse(text);
	else
	{
		/* the same text given to an incremental parser in pieces (the terminating NUL is the last byte given) */
		struct json_tokener *tk = json_tokener_new();
		size_t pos = 0, total = n + 1;
		o = NULL;
		while (pos < total)
		{
			size_t step = 1 + vh_below(vh_below(3) ? 7 : 40);
			if (step > total - pos)
				step = total - pos;
			o = json_tokener_parse_ex(tk, text + pos, (int)step);
			pos += step;
			if (json_tokener_get_error(tk) != json_tokener_continue)
				break;
		}
		if (json_tokener_get_error(tk) != json_tokener_success && o)
		{
			json_object_put(o);
			o = NULL;
		}
		json_tokener_free(tk);
	}
	ev_begin("op");
	ev_str("op", "parse");
	ev_bytes("text", text, n);
	if (o)
	{
		int from = 1;
		assign_ids(o, c, &from);
		held[(int)c->newids[0]] = 1;
	}
	ev_int("ret", o ? 0 : -1);
	ev_ints("newids", c->newids, (size_t)c->nnew);
	w_dump("dump", o);
	ev_end();
}
/* json_patch_apply in place with one copying operation (add / replace / copy): the document gets a subtree of fresh nodes */
static void w_patch_do(int a, int pop, const int *pt, const int *pv, int np, const int *ft, const int *fv, int nf, const char *vt);
static void w_patch(int a)
{
	static const char *vals[] = {"7", "\"s\"", "[1,\"x\"]", "{\"k1\":true,\"k2\":[null]}", "null", "1.5", "{}", "[]", "-0.0", "[[2.50]]"};
	int ft[3], fv[3], pt[4], pv[4], nf = 0, np = (int)vh_below(3);
	int pop = (int)vh_below(3); /* 0 add, 1 replace, 2 copy */
	rand_walk(node[a], pt, pv, &np);
	if (pop != 1 || np == 0 || vh_below(4) == 0)
	{
		/* last token: a new or existing member / index / "-" */
		pt[np] = (int)vh_below(3);
		pv[np] = pt[np] == 0 ? 1 + (int)vh_below(5) : (int)vh_below(4);
		np++;
	}
	if (pop == 2)
	{
		nf = 1 + (int)vh_below(3);
		rand_walk(node[a], ft, fv, &nf);
		if (nf == 0 || vh_below(8) == 0)
		{
			ft[0] = (int)vh_below(2);
			fv[0] = ft[0] == 0 ? 1 + (int)vh_below(5) : (int)vh_below(4);
			nf = 1;
		}
		if (vh_below(5) == 0)
		{
			/* a value copied onto its own location: the member / element there is REPLACED by (resp. gets in front of it) a
			 * fresh copy - new nodes, the old value released */
			memcpy(pt, ft, sizeof(int) * (size_t)nf);
			memcpy(pv, fv, sizeof(int) * (size_t)nf);
			np = nf;
		}
	}
	w_patch_do(a, pop, pt, pv, np, ft, fv, nf, vals[vh_below(sizeof vals / sizeof *vals)]);
}
static void w_patch_do(int a, int pop, const int *pt, const int *pv, int np, const int *ft, const int *fv, int nf, const char *vt)
{
	char path[160], from[160];
	path_string(path, pt, pv, np);
	path_string(from, ft, fv, nf);
	json_object *val = NULL;
	if (pop != 2)
		val = json_tokener_parse(vt);
	json_object *patch = json_object_new_array(), *op = json_object_new_object();
	json_object_object_add(op, "op", json_object_new_string(pop == 0 ? "add" : pop == 1 ? "replace" : "copy"));
	json_object_object_add(op, "path", json_object_new_string(path));
	if (pop == 2)
		json_object_object_add(op, "from", json_object_new_string(from));
	else
		json_object_object_add(op, "value", val);
	json_object_array_add(patch, op);
	call_t *c = mk("wpatch");
	ev_begin("op");
	ev_str("op", "wpatch");
	ev_int("a", a);
	ev_str("pop", pop == 0 ? "add" : pop == 1 ? "replace" : "copy");
	ev_open_arr("path");
	for (int j = 0; j < np; j++)
	{
		ev_open_obj(NULL);
		ev_str("t", pt[j] == 0 ? "k" : pt[j] == 1 ? "i" : "-");
		ev_int("v", pv[j]);
		ev_close_obj();
	}
	ev_close_arr();
	ev_open_arr("from");
	for (int j = 0; j < nf; j++)
	{
		ev_open_obj(NULL);
		ev_str("t", ft[j] == 0 ? "k" : ft[j] == 1 ? "i" : "-");
		ev_int("v", fv[j]);
		ev_close_obj();
	}
	ev_close_arr();
	w_dump("val", val);
	json_object *base = node[a];
	int rc = json_patch_apply(NULL, patch, &base, NULL);
	json_object_put(patch);
	if (base != node[a])
		rc = -9;
	if (rc == 0)
	{
		/* the placed subtree: the child of the parent location named by the last token ("-": the last element) */
		char ppath[160];
		path_string(ppath, pt, pv, np - 1);
		json_object *par = NULL, *placed = NULL;
		if (json_pointer_get(node[a], ppath, &par) == 0 && par)
		{
			if (json_object_get_type(par) == json_type_object)
			{
				char key[16];
				if (pt[np - 1] == 0)
					snprintf(key, sizeof key, "k%d", pv[np - 1]);
				else if (pt[np - 1] == 1)
					snprintf(key, sizeof key, "%d", pv[np - 1]);
				else
					strcpy(key, "-");
				json_object_object_get_ex(par, key, &placed);
			}
			else if (json_object_get_type(par) == json_type_array)
				placed = json_object_array_get_idx(par, pt[np - 1] == 2 ? json_object_array_length(par) - 1 : (size_t)pv[np - 1]);
		}
		int fromid = 1;
		assign_ids(placed, c, &fromid);
	}
	ev_int("ret", rc == 0 ? 0 : rc < 0 ? -1 : -8);
	ev_ints("newids", c->newids, (size_t)c->nnew);
	qsort(dead, (size_t)ndead, sizeof dead[0], cmp_ll);
	qsort(fired, (size_t)nfired, sizeof fired[0], cmp_ll);
	ev_ints("dead", dead, (size_t)ndead);
	ev_ints("fired", fired, (size_t)nfired);
	ndead = nfired = 0;
	ev_end();
}
static int pick_held_leaf(void)
{
	int cand[MAXID], n = 0;
	for (int i = 1; i <= MAXID; i++)
		if (node[i] && held[i] > 0 && w_type_of(node[i]) >= 0)
			cand[n++] = i;
	return n ? cand[vh_below((uint32_t)n)] : 0;
}
/* replayed model histories (MCWorld.tla):  L k = new leaf with model value k | W a k = set | Y a = sort | Z a f = parse the
 * serialization of a under flags f;  after EVERY replayed call each held node is dumped, one is serialized, two are compared */
static int wreplay_op(char op, const int *v, int n)
{
	(void)n;
	switch (op)
	{
	case 'L':
		w_forced = v[0];
		op_new('l');
		w_forced = -1;
		return 0;
	case 'W':
		w_forced = v[1];
		w_set(v[0]);
		w_forced = -1;
		return 0;
	case 'Y': w_asort(v[0]); return 0;
	case 'H':
	{
		/* H a pop vi np (type val)* nf (type val)*   - the copying patch operations of the model, values a", [0], null */
		int pt[4], pv[4], ft[4], fv[4], np = v[3], nf;
		for (int j = 0; j < np && j < 4; j++)
		{
			pt[j] = v[4 + 2 * j];
			pv[j] = v[5 + 2 * j];
		}
		nf = v[4 + 2 * np];
		for (int j = 0; j < nf && j < 4; j++)
		{
			ft[j] = v[5 + 2 * np + 2 * j];
			fv[j] = v[6 + 2 * np + 2 * j];
		}
		if (v[1] != 2)
			nf = 0;
		w_patch_do(v[0], v[1], pt, pv, np, ft, fv, nf, v[2] == 2 ? "\"a\\\"\"" : v[2] == 5 ? "[0]" : "null");
		return 0;
	}
	case 'Z':
		w_parse_flags = v[1];
		w_parse(v[0]);
		w_parse_flags = -1;
		return 0;
	default: return 1;
	}
}
static void wreplay_observe(void)
{
	int first = 0, second = 0;
	for (int i = 1; i <= 12; i++)
		if (node[i] && held[i] > 0)
		{
			w_obs(i);
			if (!first)
				first = i;
			else if (!second || vh_below(2))
				second = i;
		}
	if (first)
	{
		w_ser(vh_below(2) && second ? second : first);
		w_visit(first);
		if (second)
			w_eq(first, second);
	}
}
/* get hold of an existing child of container a (a borrowed reference the client then owns); returns its id or 0 */
static int w_borrow_child(int a)
{
	json_object *o = node[a];
	int k = 0, i = 0, found = 0;
	if (json_object_get_type(o) == json_type_object && json_object_object_length(o) > 0)
	{
		int j = (int)vh_below((uint32_t)json_object_object_length(o)), n = 0;
		json_object_object_foreach(o, key, val)
		{
			(void)val;
			if (n++ == j && key[0] == 'k')
			{
				k = atoi(key + 1);
				found = 1;
			}
		}
	}
	else if (json_object_get_type(o) == json_type_array && json_object_array_length(o) > 0)
	{
		i = (int)vh_below((uint32_t)json_object_array_length(o));
		found = 1;
	}
	if (!found)
		return 0;
	op_borrow(a, k, i);
	return C.b > 0 ? C.b : 0;
}
static void world_op(void)
{
	int a, b;
	uint32_t r = vh_below(100);
	if (r < 25)
	{
		if ((a = pick_held(0)))
			w_obs(a);
	}
	else if (r < 37)
	{
		if (vh_below(2) && (a = pick_held_leaf()))
			w_set(a);
		else if ((a = pick_held(3)))
		{
			/* a leaf inside a container (a parsed tree, a copy, ...): walk down a few levels, set it, let go of it again */
			int got[4], ng = 0, cur = a;
			while (ng < 3 && (b = w_borrow_child(cur)) > 0)
			{
				got[ng++] = b;
				if (w_type_of(node[b]) >= 0)
					break;
				cur = b;
			}
			if (ng && w_type_of(node[got[ng - 1]]) >= 0)
				w_set(got[ng - 1]);
			while (ng > 0)
				if (held[got[--ng]] > 1 || vh_below(3))
					op_put(got[ng]);
		}
	}
	else if (r < 47)
	{
		if ((a = pick_held(0)))
			w_ser(a);
	}
	else if (r < 57)
	{
		if ((a = pick_held(0)) && (b = pick_held(0)))
			w_eq(a, b);
	}
	else if (r < 67)
	{
		if ((a = pick_held(3)))
			w_ptrget(a);
	}
	else if (r < 75)
	{
		if ((a = pick_held(0)))
			w_visit(a);
	}
	else if (r < 80)
	{
		if ((a = pick_held(3)))
			w_len(a);
	}
	else if (r < 85)
	{
		if ((a = pick_held(2)))
			w_asort(a);
	}
	else if (r < 90)
	{
		if ((a = pick_held(vh_below(3) ? 3 : 0)))
			w_parse(a);
	}
	else if (r < 94)
	{
		if ((a = pick_held(3)) && is_tree(node[a]) && nlive() < 150)
			w_patch(a);
	}
	else
	{
		/* copy a tree, change a leaf inside the copy, look at both: the two are independent and each prints what it holds */
		if ((a = pick_held(3)) && nlive() < 150 && unfolded_size(node[a], 0) <= 40)
		{
			op_copy(a, 0);
			int c = C.ret == 0 && C.nnew > 0 ? (int)C.newids[0] : 0;
			if (!c)
				return;
			int got[4], ng = 0, cur = c;
			while (ng < 3 && (b = w_borrow_child(cur)) > 0)
			{
				got[ng++] = b;
				if (w_type_of(node[b]) >= 0)
					break;
				cur = b;
			}
			if (ng && w_type_of(node[got[ng - 1]]) >= 0)
				w_set(got[ng - 1]);
			w_obs(c);
			w_ser(c);
			w_obs(a);
			w_eq(a, c);
			while (ng > 0)
				op_put(got[--ng]);
		}
	}
}
static int drive(int start, int nexec, int nops)
{
	const char *seed = getenv("VERIF_SEED");
	uint64_t s0 = seed ? strtoull(seed, 0, 10) : 1;
	for (int x = start; x < nexec; x++)
	{
		vh_srand(s0 * 1000003ull + (uint64_t)x);
		fresh();
		for (int i = 0; i < nops; i++)
		{
			uint32_t r = vh_below(100);
			int pool = nheld();
			if (wmode && pool >= 2 && vh_below(100) < 38)
			{
				world_op();
				continue;
			}
			if (pool < 3 || (r < 22 && pool < 24 && nlive() < 120))
			{
				op_new("oal"[vh_below(3)]);
				continue;
			}
			int a;
			if (vh_below(60) == 0 && nlive() < 100 && (a = pick_held(1)))
			{
				/* a run of new members (the first one under a constant name): the table grows past its first size while
				 * it holds names of both kinds */
				for (int k = 20; k < 34; k++)
				{
					if (json_object_object_get_ex(node[a], keystr(k), NULL))
						continue;
					op_new('l');
					int b = last_new_id;
					force_const = k == 20;
					op_oadd(a, b, k, 0);
					force_const = 0;
				}
				continue;
			}
			/* now and then one of the next giving / copying call's first allocation requests fails */
			if (r >= 42 && vh_below(14) == 0)
				fault_k = (long)vh_below(r >= 90 && r < 93 ? 6 : 3);
			else
				fault_k = -2;
			if (r < 28)
			{
				if ((a = pick_held(0)) && held[a] < 3)
					op_get(a);
			}
			else if (r < 42)
			{
				if ((a = pick_held(0)))
					op_put(a);
			}
			else if (r < 55)
			{
				if ((a = pick_held(1)))
				{
					/* mostly a handful of names (replacements), now and then many (the table grows) */
					int k = 1 + (int)vh_below(vh_below(3) ? 4 : 16);
					int present = json_object_object_get_ex(node[a], keystr(k), NULL);
					int b = vh_below(20) == 0 ? a : pick_give(a); /* now and then the refused self-add */
					op_oadd(a, b, k, !present && b != a && vh_below(3) == 0);
				}
			}
			else if (r < 61)
			{
				if ((a = pick_held(1)))
					op_odel(a, 1 + (int)vh_below(4));
			}
			else if (r < 75)
			{
				if ((a = pick_held(2)))
				{
					int len = (int)json_object_array_length(node[a]);
					int b = pick_give(a);
					switch (vh_below(3))
					{
					case 0: op_arr("aadd", a, b, 0, 0); break;
					case 1: op_arr("aput", a, b, (int)vh_below((uint32_t)len + 3), 0); break;
					default: op_arr("ains", a, b, (int)vh_below((uint32_t)len + 2), 0); break;
					}
				}
			}
			else if (r < 80)
			{
				if ((a = pick_held(2)))
				{
					int len = (int)json_object_array_length(node[a]);
					op_arr("adel", a, 0, (int)vh_below((uint32_t)len + 2), 1 + (int)vh_below(3));
				}
			}
			else if (r < 86)
			{
				if ((a = pick_held(3)))
					op_borrow(a, 1 + (int)vh_below(4), (int)vh_below(4));
			}
			else if (r < 90)
			{
				if ((a = pick_held(0)))
					op_setud(a, !wmode && vh_below(4) == 0 ? 0 : 1000 + x % 7 * 1000 + i);
			}
			else if (r < 93)
			{
				/* (a copy unfolds shared nodes: bound the size of the copy, not only the number of live nodes) */
				if ((a = pick_held(0)) && nlive() < 150 && unfolded_size(node[a], 0) <= 100)
					op_copy(a, (int)vh_below(2));
			}
			else if (r < 97)
			{
				/* patch remove / move in place; only on trees (a node linked twice below a could be moved into itself) */
				if ((a = pick_held(3)) && is_tree(node[a]))
				{
					int ft[3], fv[3], pt[3], pv[3], nf = (int)vh_below(3), np = 1 + (int)vh_below(2);
					rand_walk(node[a], ft, fv, &nf);
					if (vh_below(3) == 0 || nf == 0)
					{
						if (nf == 0)
						{
							/* remove only: a location that may or may not exist */
							pt[0] = (int)vh_below(2);
							pv[0] = pt[0] == 0 ? 1 + (int)vh_below(4) : (int)vh_below(3);
							op_patch(a, NULL, NULL, 0, pt, pv, 1);
						}
						else
							op_patch(a, NULL, NULL, 0, ft, fv, nf);
					}
					else
					{
						np = (int)vh_below(2);
						rand_walk(node[a], pt, pv, &np);
						/* last token of the target: a new or existing member / index / "-" */
						pt[np] = (int)vh_below(3);
						pv[np] = pt[np] == 0 ? 1 + (int)vh_below(4) : (int)vh_below(3);
						np++;
						if (vh_below(8) == 0)
						{
							/* onto itself / into its own child */
							memcpy(pt, ft, sizeof(int) * (size_t)nf);
							memcpy(pv, fv, sizeof(int) * (size_t)nf);
							np = nf;
							if (vh_below(2) && np < 3)
							{
								pt[np] = 0;
								pv[np] = 1;
								np++;
							}
						}
						op_patch(a, ft, fv, nf, pt, pv, np);
					}
				}
			}
			else
			{
				if ((a = pick_held(3)))
				{
					int pt[3], pv[3], np = 1 + (int)vh_below(2);
					for (int j = 0; j < np; j++)
					{
						pt[j] = (int)vh_below(j == np - 1 ? 3 : 2);
						pv[j] = pt[j] == 0 ? 1 + (int)vh_below(4) : (int)vh_below(3);
					}
					/* the library walks the path itself; pick a value that cannot close a cycle anywhere below a */
					int b = 0;
					for (int t = 0; t < 6 && !b; t++)
					{
						int cnd = pick_held(0);
						if (cnd && cnd != a && disjoint(a, cnd))
							b = cnd;
					}
					op_ptrset(a, b, pt, pv, np, (int)vh_below(2));
				}
			}
		}
		op_end();
	}
	return 0;
}

int c05_main(int argc, char **argv)
{
	int r = 2;
	if (argc >= 3 && !strcmp(argv[0], "replay"))
		r = replay(argv[1], atol(argv[2]));
	else if (argc >= 4 && !strcmp(argv[0], "drive"))
		r = drive(atoi(argv[1]), atoi(argv[2]), atoi(argv[3]));
	else if (argc >= 3 && !strcmp(argv[0], "wreplay"))
	{
		wmode = 1;
		w_notok = 1;
		r = replay(argv[1], atol(argv[2]));
	}
	else if (argc >= 4 && !strcmp(argv[0], "world"))
	{
		wmode = 1;
		r = drive(atoi(argv[1]), atoi(argv[2]), atoi(argv[3]));
	}
	vh_on_free = 0;
	return r;
}
