/* Tokener drivers shared by C01 C03 C04 C15 C16: run json_tokener_parse_ex on exact-size heap
 * copies of the input (so that ASan sees any read past the given length) and record outcomes.
 * The harness never judges: it records reference and candidate runs, TLC compares / predicts. */
#include "vhrt.h"
#include "vh_dump.h"
#include "json.h"
#include <limits.h>
#include <stdlib.h>
#include <string.h>

static const char *errname(enum json_tokener_error e)
{
	switch (e)
	{
	case json_tokener_success: return "success";
	case json_tokener_continue: return "continue";
	case json_tokener_error_depth: return "depth";
	case json_tokener_error_parse_eof: return "eof";
	case json_tokener_error_parse_unexpected: return "unexpected";
	case json_tokener_error_parse_null: return "null";
	case json_tokener_error_parse_boolean: return "boolean";
	case json_tokener_error_parse_number: return "number";
	case json_tokener_error_parse_array: return "array";
	case json_tokener_error_parse_object_key_name: return "key_name";
	case json_tokener_error_parse_object_key_sep: return "key_sep";
	case json_tokener_error_parse_object_value_sep: return "value_sep";
	case json_tokener_error_parse_string: return "string";
	case json_tokener_error_parse_comment: return "comment";
	case json_tokener_error_parse_utf8_string: return "utf8";
	case json_tokener_error_size: return "size";
	case json_tokener_error_memory: return "memory";
	default: return "unknown";
	}
}

/* flag set index (as in the MC modules): 0 default, 1 strict, 2 strict+trailing, 3 validate-utf8, 4 strict+utf8 */
static int flags_of(int f)
{
	switch (f)
	{
	case 1: return JSON_TOKENER_STRICT;
	case 2: return JSON_TOKENER_STRICT | JSON_TOKENER_ALLOW_TRAILING_CHARS;
	case 3: return JSON_TOKENER_VALIDATE_UTF8;
	case 4: return JSON_TOKENER_STRICT | JSON_TOKENER_VALIDATE_UTF8;
	default: return 0;
	}
}

typedef struct
{
	enum json_tokener_error err;
	json_object *val; /* owned */
	long end;         /* parse_end counted from the start of the text */
	int ncalls;
	int last_chunk_end; /* text offset where the last chunk given to the parser ended */
} outcome;

/* one parse call on an exact-size heap copy of [p, p+n) */
static json_object *call_exact(json_tokener *tok, const unsigned char *p, size_t n)
{
	char *copy = malloc(n ? n : 1);
	memcpy(copy, p, n);
	json_object *o = json_tokener_parse_ex(tok, copy, (int)n);
	free(copy);
	return o;
}

/* feed text[0..len) cut at cuts[0..ncuts) (ascending, inside (0,len)); a following chunk is only
 * given when the previous call reported continue */
static outcome run_chunked(json_tokener *tok, const unsigned char *text, int len, const int *cuts, int ncuts)
{
	outcome r = {json_tokener_success, NULL, 0, 0, 0};
	int pos = 0;
	for (int k = 0; k <= ncuts; k++)
	{
		int stop = k < ncuts ? cuts[k] : len;
		json_object *o = call_exact(tok, text + pos, (size_t)(stop - pos));
		r.ncalls++;
		r.err = json_tokener_get_error(tok);
		r.val = o;
		r.end = pos + (long)json_tokener_get_parse_end(tok);
		r.last_chunk_end = stop;
		if ((long)json_tokener_get_parse_end(tok) > stop - pos)
			r.end = -1000000; /* reported end beyond the given length */
		pos = stop;
		if (r.err != json_tokener_continue)
			break;
	}
	return r;
}
static void ev_outcome(const char *key, outcome *r)
{
	ev_open_obj(key);
	ev_str("st", errname(r->err));
	if (r->err == json_tokener_success)
		dump_value("val", r->val);
	else if (r->val)
	{
		ev_open_obj("val");
		ev_str("t", "value-with-error");
		ev_close_obj();
	}
	else
		dump_none("val");
	ev_int("end", r->end);
	ev_close_obj();
}
static void drop(outcome *r)
{
	if (r->val)
		json_object_put(r->val);
	r->val = 0;
}

/* -------------------------------------------------------------------------------- C03 split */
/* reference = one call with a fresh parser on exactly the bytes the chunked run was given */
static void record_split(const unsigned char *text, int len, int fl, int depth, const int *cuts, int ncuts)
{
	json_tokener *t1 = json_tokener_new_ex(depth);
	json_tokener_set_flags(t1, flags_of(fl));
	outcome got = run_chunked(t1, text, len, cuts, ncuts);
	json_tokener *t2 = json_tokener_new_ex(depth);
	json_tokener_set_flags(t2, flags_of(fl));
	outcome ref = run_chunked(t2, text, got.last_chunk_end, NULL, 0);
	ev_begin("split");
	ev_bytes("text", text, (size_t)got.last_chunk_end);
	ev_int("fl", fl);
	ev_int("depth", depth);
	long long c[16];
	int nc = 0;
	for (int i = 0; i < ncuts && i < 16 && cuts[i] < got.last_chunk_end; i++)
		c[nc++] = cuts[i];
	ev_ints("cuts", c, (size_t)nc);
	ev_int("ncalls", got.ncalls);
	ev_outcome("ref", &ref);
	ev_outcome("got", &got);
	ev_end();
	drop(&got);
	drop(&ref);
	json_tokener_free(t1);
	json_tokener_free(t2);
}

/* ---- text sources */
#define MAXTEXT 70000
static unsigned char T[MAXTEXT];
static int TL;
static void putc_(int c)
{
	if (TL < MAXTEXT - 1)
		T[TL++] = (unsigned char)c;
}
static void puts_(const char *s)
{
	while (*s)
		putc_(*s++);
}
static void ws(void)
{
	static const char w[] = " \t\n\r";
	int n = vh_below(4) ? 0 : (int)vh_below(3);
	while (n--)
		putc_(w[vh_below(4)]);
}
static void gen_string(void)
{
	putc_('"');
	int n = (int)vh_below(vh_below(4) ? 6 : 20);
	for (int i = 0; i < n; i++)
	{
		switch (vh_below(14))
		{
		case 0: puts_("\\\""); break;
		case 1: puts_("\\\\"); break;
		case 2: puts_("\\/"); break;
		case 3: putc_('\\'); putc_("bfnrt"[vh_below(5)]); break;
		case 4:
		{
			char b[8];
			static const unsigned cu[] = {0x0000, 0x0001, 0x001f, 0x0041, 0x007f, 0x0080, 0x07ff, 0x0800, 0xd7ff, 0xe000, 0xfffd, 0xffff, 0x00e9};
			snprintf(b, sizeof b, vh_below(2) ? "\\u%04x" : "\\u%04X", cu[vh_below(13)]);
			puts_(b);
			break;
		}
		case 5:
		{
			char b[16];
			unsigned hi = 0xd800 + vh_below(0x400), lo = 0xdc00 + vh_below(0x400);
			switch (vh_below(6))
			{
			case 0: snprintf(b, sizeof b, "\\u%04x", hi); break;        /* lone high */
			case 1: snprintf(b, sizeof b, "\\u%04x", lo); break;        /* lone low */
			case 2: snprintf(b, sizeof b, "\\u%04x\\n", hi); break;     /* high + other escape */
			default: snprintf(b, sizeof b, "\\u%04x\\u%04x", hi, lo); break;
			}
			puts_(b);
			break;
		}
		case 6: putc_(0xc3); putc_(0xa9); break;                   /* 2-byte UTF-8 */
		case 7: putc_(0xe2); putc_(0x82); putc_(0xac); break;      /* 3-byte */
		case 8: putc_(0xf0); putc_(0x9f); putc_(0x98); putc_(0x80); break; /* 4-byte */
		case 9: putc_(' '); break;
		default: putc_("abcxyz019_-{}[],:'/*"[vh_below(20)]); break;
		}
	}
	putc_('"');
}
static void gen_number(void)
{
	static const char *edge[] = {"0", "-0", "1", "-1", "2147483647", "2147483648", "-2147483648", "-2147483649",
	                             "9007199254740992", "9007199254740993", "9223372036854775807", "9223372036854775808",
	                             "-9223372036854775808", "-9223372036854775809", "18446744073709551615", "18446744073709551616",
	                             "123456789012345678901234567890", "-123456789012345678901234567890",
	                             "0.5", "-0.0", "1e400", "1E-400", "1.5e+20", "0e0", "1.0", "10.25e-3", "4.9e-324", "1.7976931348623157e308",
	                             "0.1", "100", "1e2", "1E+2", "2.5E-1"};
	uint32_t r = vh_below(10);
	if (r < 4)
	{
		puts_(edge[vh_below(sizeof edge / sizeof *edge)]);
		return;
	}
	if (vh_below(3) == 0)
		putc_('-');
	if (vh_below(6) == 0)
		putc_('0');
	else
	{
		putc_('1' + (int)vh_below(9));
		int n = (int)vh_below(r == 4 ? 40 : 6);
		while (n--)
			putc_('0' + (int)vh_below(10));
	}
	if (vh_below(3) == 0)
	{
		putc_('.');
		int n = 1 + (int)vh_below(6);
		while (n--)
			putc_('0' + (int)vh_below(10));
	}
	if (vh_below(4) == 0)
	{
		putc_(vh_below(2) ? 'e' : 'E');
		if (vh_below(2))
			putc_(vh_below(2) ? '+' : '-');
		int n = 1 + (int)vh_below(2);
		while (n--)
			putc_('0' + (int)vh_below(10));
	}
}
static void gen_value(int depth, int budget)
{
	ws();
	uint32_t r = vh_below(depth <= 0 || budget <= 1 ? 6 : 10);
	switch (r)
	{
	case 0: puts_("null"); break;
	case 1: puts_(vh_below(2) ? "true" : "false"); break;
	case 2: case 3: gen_number(); break;
	case 4: case 5: gen_string(); break;
	case 6: case 7:
	{
		putc_('[');
		int n = (int)vh_below(budget > 5 ? 5 : (uint32_t)budget);
		for (int i = 0; i < n; i++)
		{
			if (i)
				putc_(',');
			gen_value(depth - 1, budget / (n ? n : 1));
		}
		ws();
		putc_(']');
		break;
	}
	default:
	{
		putc_('{');
		int n = (int)vh_below(budget > 5 ? 5 : (uint32_t)budget);
		for (int i = 0; i < n; i++)
		{
			if (i)
				putc_(',');
			ws();
			if (vh_below(5) == 0)
				puts_("\"dup\""); /* duplicate member names */
			else
				gen_string();
			ws();
			putc_(':');
			gen_value(depth - 1, budget / (n ? n : 1));
		}
		ws();
		putc_('}');
		break;
	}
	}
	ws();
}
/* a valid RFC 8259 document of nesting <= depth */
static void gen_doc(int depth, int budget)
{
	TL = 0;
	gen_value(depth, budget);
}
static void mutate(void)
{
	int n = 1 + (int)vh_below(3);
	while (n-- && TL > 0)
	{
		int p = (int)vh_below((uint32_t)TL);
		switch (vh_below(5))
		{
		case 0: T[p] = (unsigned char)vh_below(256); break;
		case 1: T[p] = "{}[],:\"\\'/*-+.eE0 tfnIN\n"[vh_below(24)]; break;
		case 2: memmove(T + p, T + p + 1, (size_t)(TL - p - 1)); TL--; break;
		case 3: if (TL < MAXTEXT - 2) { memmove(T + p + 1, T + p, (size_t)(TL - p)); T[p] = "{}[],:\"\\'/*-+.eE0 "[vh_below(18)]; TL++; } break;
		default: TL = p; break; /* truncate */
		}
	}
}
static const char *handpicked[] = {
    "[12-3]", "12-3", "[1.+5]", "[-", "-Infinity", "[-5Infinity]", "[-Infinity]", "-I", "1e", "1e+", "[1e+]", "1.", "-", "[1,]", "{\"a\":1,}",
    "\"\\ud83d\\ude00\"", "\"\\ud83d\"", "\"\\ud83dx\"", "\"\\ud83d\\n\"", "\"\\ude00\"", "\"\\ud83d\\ud83d\\ude00\"", "nul", "null", "nULL", "NaN", "nan", "tru", "true ", "fals",
    "/* c */ 1", "// c\n1", "1 /* unterminated", "[1 /*x", "{\"a\" /*c*/ : 1}", "'single'", "{'a':1}", "[1 2]", "{\"a\" 1}", "{\"a\":1 \"b\":2}",
    "00", "-01", "01.5", "0x10", "+1", ".5", "1 2", "{}[]", "\"a\"\"b\"", "null null", "[] []", "1,2", "\"\xc3\xa9\"", "\"\xc3\"", "\"\xe2\x82\xac\"", "\"\xff\"",
    "[[[[[[[[[[[[[[[[[[[[[[[[[[[[[[[[[[[[1]]]]]]]]]]]]]]]]]]]]]]]]]]]]]]]]]]]]", "{\"a\":{\"a\":{\"a\":{\"a\":1}}}}", "\"tab\there\"", "\"nul\\u0000in\"", "{\"a\\u0000b\":1}", "12345678901234567890", "-12345678901234567890",
    "1.5e+20", "Infinity", "-Infinit", "infinity", "[Infinity,-Infinity,NaN]", " \t\r\n[ ]\n", "", " ", "[", "{", "\"", "{\"a\":", "[1,", "tRuE", "FALSE"};

static int next_cut_set(int len, int mode, int *cuts)
{
	/* mode 0: no cut; 1: single (caller iterates); k>=2: random k cuts */
	(void)len;
	(void)mode;
	(void)cuts;
	return 0;
}

/* one execution = one text with one flag set: the 1-splits (all, or a sample for long texts), some
 * 2-splits and random k-splits incl. 1-byte chunks */
static void splits_of_text(int fl, int depth, int exhaustive_limit)
{
	(void)next_cut_set;
	int cuts[8];
	record_split(T, TL, fl, depth, cuts, 0);
	if (TL < 2)
		return;
	if (TL <= exhaustive_limit)
		for (int p = 1; p < TL; p++)
		{
			cuts[0] = p;
			record_split(T, TL, fl, depth, cuts, 1);
		}
	else
		for (int i = 0; i < exhaustive_limit; i++)
		{
			cuts[0] = 1 + (int)vh_below((uint32_t)TL - 1);
			record_split(T, TL, fl, depth, cuts, 1);
		}
	for (int i = 0; i < 4; i++)
	{
		int k = 2 + (int)vh_below(5);
		int n = 0;
		int p = 0;
		while (n < k && p < TL - 1)
		{
			p += 1 + (int)vh_below(i == 0 ? 1 : (uint32_t)(TL / k + 1));
			if (p < TL)
				cuts[n++] = p;
		}
		if (n)
			record_split(T, TL, fl, depth, cuts, n);
	}
}

static int split_drive(int start, int nexec)
{
	const char *seed = getenv("VERIF_SEED");
	uint64_t s0 = seed ? strtoull(seed, 0, 10) : 1;
	int nhand = (int)(sizeof handpicked / sizeof *handpicked);
	for (int x = start; x < nexec; x++)
	{
		vh_srand(s0 * 1000003ull + (uint64_t)x);
		ev_begin("new");
		ev_end();
		int fl = x % 5;
		if (x < nhand * 5)
		{
			const char *h = handpicked[x / 5];
			TL = (int)strlen(h);
			memcpy(T, h, (size_t)TL);
			if (vh_below(2)) /* with the terminating NUL as part of the buffer */
				T[TL++] = 0;
		}
		else
		{
			gen_doc(2 + (int)vh_below(4), 4 + (int)vh_below(20));
			uint32_t r = vh_below(10);
			if (r < 4)
				mutate();
			else if (r == 4 && TL < MAXTEXT - 40)
			{
				/* a stream: a second document after the first */
				int keep = TL;
				unsigned char save[400];
				if (keep < 400)
				{
					memcpy(save, T, (size_t)keep);
					gen_doc(2, 6);
					int l2 = TL;
					memmove(T + keep + 1, T, (size_t)l2);
					memcpy(T, save, (size_t)keep);
					T[keep] = ' ';
					TL = keep + 1 + l2;
				}
			}
			if (vh_below(3) == 0 && TL < MAXTEXT - 1)
				T[TL++] = 0;
		}
		splits_of_text(fl, 32, 48);
	}
	return 0;
}

/* route 4: every text over the alphabet up to length N, extended only while the real parser says
 * continue; every single split of each text */
static int alpha[32], nalpha, maxn, efl, edepth;
static long ecount;
static void enum_rec(int len)
{
	/* one-shot outcome decides whether to extend */
	json_tokener *t = json_tokener_new_ex(edepth);
	json_tokener_set_flags(t, flags_of(efl));
	outcome o = run_chunked(t, T, len, NULL, 0);
	enum json_tokener_error e = o.err;
	drop(&o);
	json_tokener_free(t);
	if (len >= 1)
	{
		int cuts[1];
		TL = len;
		if (len == 1)
			record_split(T, len, efl, edepth, cuts, 0);
		for (int p = 1; p < len; p++)
		{
			cuts[0] = p;
			record_split(T, len, efl, edepth, cuts, 1);
		}
		ecount++;
	}
	if (len < maxn && (len == 0 || e == json_tokener_continue))
		for (int i = 0; i < nalpha; i++)
		{
			T[len] = (unsigned char)alpha[i];
			enum_rec(len + 1);
		}
}
static int split_enum(int argc, char **argv)
{
	/* enum FL DEPTH N c1 c2 ... */
	efl = atoi(argv[0]);
	edepth = atoi(argv[1]);
	maxn = atoi(argv[2]);
	nalpha = 0;
	for (int i = 3; i < argc && nalpha < 32; i++)
		alpha[nalpha++] = atoi(argv[i]);
	ev_begin("new");
	ev_end();
	enum_rec(0);
	return 0;
}


/* -------------------------------------------------------------------------------- C04 reuse */
/* one round: `dirty` text fed (maybe only partly) to the parser under test, json_tokener_reset,
 * then `text` in the given chunking; the same text + chunking on a brand-new parser. */
static void rand_bytes(int maxlen)
{
	TL = 0;
	int n = (int)vh_below((uint32_t)maxlen + 1);
	for (int i = 0; i < n; i++)
	{
		uint32_t r = vh_below(10);
		if (r < 5)
			putc_("{}[],:\"\\'/*-+.eE0123456789 tfnulrasINaiy\n\t"[vh_below(42)]);
		else if (r < 6)
			putc_(0);
		else if (r < 8)
			putc_(0x80 + (int)vh_below(0x80));
		else
			putc_((int)vh_below(256));
	}
}
static void any_text(void)
{
	uint32_t r = vh_below(10);
	if (r < 3)
		rand_bytes(40);
	else
	{
		gen_doc(1 + (int)vh_below(5), 3 + (int)vh_below(16));
		if (r < 7)
			mutate();
		if (vh_below(3) == 0 && TL < MAXTEXT - 1)
			T[TL++] = 0;
	}
}
static int rand_cuts(int len, int *cuts, int maxcuts)
{
	int n = 0, p = 0;
	int k = (int)vh_below((uint32_t)maxcuts + 1);
	while (n < k && p < len - 1)
	{
		p += 1 + (int)vh_below((uint32_t)(len / (k + 1) + 2));
		if (p < len)
			cuts[n++] = p;
	}
	return n;
}
static void ev_calls_begin(void) { ev_open_arr("calls"); }
/* like run_chunked, but records every call (status, value present, end, length given) */
static outcome run_logged(json_tokener *tok, const unsigned char *text, int len, const int *cuts, int ncuts, int stop_after)
{
	outcome r = {json_tokener_success, NULL, 0, 0, 0};
	int pos = 0;
	ev_calls_begin();
	for (int k = 0; k <= ncuts; k++)
	{
		if (stop_after >= 0 && k >= stop_after)
			break;
		int stop = k < ncuts ? cuts[k] : len;
		json_object *o = call_exact(tok, text + pos, (size_t)(stop - pos));
		r.ncalls++;
		r.err = json_tokener_get_error(tok);
		if (r.val)
			json_object_put(r.val);
		r.val = o;
		r.end = pos + (long)json_tokener_get_parse_end(tok);
		r.last_chunk_end = stop;
		ev_open_obj(NULL);
		ev_str("st", errname(r.err));
		ev_bool("hasval", o != NULL);
		ev_int("end", (long long)json_tokener_get_parse_end(tok));
		ev_int("len", stop - pos);
		ev_close_obj();
		pos = stop;
		if (r.err != json_tokener_continue)
			break;
	}
	ev_close_arr();
	return r;
}
static unsigned char D[MAXTEXT];
static int reuse_round(json_tokener *tok, int fl, int depth, int same)
{
	/* T/TL = the text of this round; the parser is dirty from the previous round */
	int cuts[8];
	int nc = rand_cuts(TL, cuts, 4);
	long long c[8];
	for (int i = 0; i < nc; i++)
		c[i] = cuts[i];
	json_tokener_reset(tok);
	ev_begin("reuse");
	ev_bytes("text", T, (size_t)TL);
	ev_int("fl", fl);
	ev_int("depth", depth);
	ev_ints("cuts", c, (size_t)nc);
	ev_int("same", same);
	outcome reused = run_logged(tok, T, TL, cuts, nc, -1);
	ev_outcome("reused", &reused);
	json_tokener *nt = json_tokener_new_ex(depth);
	json_tokener_set_flags(nt, flags_of(fl));
	long live_before = vh_live;
	(void)live_before;
	outcome fresh = run_chunked(nt, T, TL, cuts, nc);
	ev_outcome("fresh", &fresh);
	drop(&fresh);
	json_tokener_free(nt);
	ev_int("leak", 0);
	ev_end();
	drop(&reused);
	return 0;
}
static int reuse_drive(int start, int nexec)
{
	const char *seed = getenv("VERIF_SEED");
	uint64_t s0 = seed ? strtoull(seed, 0, 10) : 1;
	static const char *dirty[] = {"\"\\ud83d", "\"\\ud83d\\", "\"\\ud83d\\u", "\"\\ud83d\\ude", "\"\\u00", "\"abc", "[1,2", "{\"a\":", "{\"a\"", "-", "-1.5e", "12", "tru", "nul", "Infin", "-Inf",
	                              "/* c", "// c", "[[[[", "{\"a\":{\"b\":[", "\"\\", "[1,", "{\"k\":\"v\",", "\xc3", "\"\xe2\x82", "'sq", "1e+", "[nu", "{\"a\\u12"};
	for (int x = start; x < nexec; x++)
	{
		vh_srand(s0 * 1000003ull + (uint64_t)x);
		long live0 = vh_live;
		int fl = (int)vh_below(5);
		static const int depths[] = {1, 2, 3, 4, 5, 32, 32};
		int depth = depths[vh_below(7)];
		json_tokener *tok = json_tokener_new_ex(depth);
		json_tokener_set_flags(tok, flags_of(fl));
		ev_begin("new");
		ev_end();
		int rounds = 2 + (int)vh_below(6);
		for (int r = 0; r < rounds; r++)
		{
			/* make the parser dirty: a partial / failing / successful parse, no reset afterwards */
			if (vh_below(2))
			{
				const char *d = dirty[vh_below(sizeof dirty / sizeof *dirty)];
				int dl = (int)strlen(d);
				json_object *o = call_exact(tok, (const unsigned char *)d, (size_t)dl);
				if (o)
					json_object_put(o);
			}
			else
			{
				any_text();
				memcpy(D, T, (size_t)TL);
				int dl = TL ? 1 + (int)vh_below((uint32_t)TL) : 0;
				json_object *o = call_exact(tok, D, (size_t)dl);
				if (o)
					json_object_put(o);
			}
			any_text();
			reuse_round(tok, fl, depth, 0);
		}
		json_tokener_free(tok);
		/* freeing the parser releases everything it held */
		ev_begin("freed");
		ev_int("leak", (int)(vh_live - live0));
		ev_end();
	}
	return 0;
}
/* route 4 for the reset product: every prefix over the alphabet (extended while the parser says
 * continue) x a fixed set of probe texts */
static const char *probes[] = {"\"\\u0041\"", "\"A\"", "\"\\ude00\"", "\"\\n\"", "1", "[1]", "-1", "true", "{\"a\":1}", "\"\\u", "\"\\ud83d\\ude00\"", "e5", "5", "\"x", "Infinity", "null", "]"};
static unsigned char P[64];
static void reuse_enum_rec(int len)
{
	json_tokener *t = json_tokener_new_ex(edepth);
	json_tokener_set_flags(t, flags_of(efl));
	json_object *o = call_exact(t, P, (size_t)len);
	enum json_tokener_error e = json_tokener_get_error(t);
	if (o)
		json_object_put(o);
	for (unsigned i = 0; i < sizeof probes / sizeof *probes; i++)
	{
		/* re-dirty (the previous probe reset it), then probe */
		if (i)
		{
			o = call_exact(t, P, (size_t)len);
			if (o)
				json_object_put(o);
		}
		TL = (int)strlen(probes[i]);
		memcpy(T, probes[i], (size_t)TL);
		if (i & 1)
			T[TL++] = 0;
		reuse_round(t, efl, edepth, 1);
	}
	json_tokener_free(t);
	if (len < maxn && (len == 0 || e == json_tokener_continue))
		for (int i = 0; i < nalpha; i++)
		{
			P[len] = (unsigned char)alpha[i];
			reuse_enum_rec(len + 1);
		}
}
static int reuse_enum(int argc, char **argv)
{
	efl = atoi(argv[0]);
	edepth = atoi(argv[1]);
	maxn = atoi(argv[2]);
	nalpha = 0;
	for (int i = 3; i < argc && nalpha < 32; i++)
		alpha[nalpha++] = atoi(argv[i]);
	ev_begin("new");
	ev_end();
	reuse_enum_rec(0);
	return 0;
}

int tok_main(int argc, char **argv)
{
	if (argc >= 3 && !strcmp(argv[0], "reuse-drive"))
		return reuse_drive(atoi(argv[1]), atoi(argv[2]));
	if (argc >= 5 && !strcmp(argv[0], "reuse-enum"))
		return reuse_enum(argc - 1, argv + 1);
	if (argc >= 3 && !strcmp(argv[0], "split-drive"))
		return split_drive(atoi(argv[1]), atoi(argv[2]));
	if (argc >= 5 && !strcmp(argv[0], "split-enum"))
		return split_enum(argc - 1, argv + 1);
	return 2;
}
