/* Tokener drivers shared by C01 C03 C04 C15 C16: run json_tokener_parse_ex on exact-size heap
 * copies of the input (so that ASan sees any read past the given length) and record outcomes.
 * The harness never judges: it records reference and candidate runs, TLC compares / predicts. */
#include "vhrt.h"
#include "vh_dump.h"
#include "json.h"
#include <limits.h>
#include <stdlib.h>
#include <string.h>

static const char *errname(enum json_tokener_error e)
{
	switch (e)
	{
	case json_tokener_success: return "success";
	case json_tokener_continue: return "continue";
	case json_tokener_error_depth: return "depth";
	case json_tokener_error_parse_eof: return "eof";
	case json_tokener_error_parse_unexpected: return "unexpected";
	case json_tokener_error_parse_null: return "null";
	case json_tokener_error_parse_boolean: return "boolean";
	case json_tokener_error_parse_number: return "number";
	case json_tokener_error_parse_array: return "array";
	case json_tokener_error_parse_object_key_name: return "key_name";
	case json_tokener_error_parse_object_key_sep: return "key_sep";
	case json_tokener_error_parse_object_value_sep: return "value_sep";
	case json_tokener_error_parse_string: return "string";
	case json_tokener_error_parse_comment: return "comment";
	case json_tokener_error_parse_utf8_string: return "utf8";
	case json_tokener_error_size: return "size";
	case json_tokener_error_memory: return "memory";
	default: return "unknown";
	}
}

/* flag set index (as in the MC modules): 0 default, 1 strict, 2 strict+trailing, 3 validate-utf8, 4 strict+utf8 */
static int flags_of(int f)
{
	switch (f)
	{
	case 1: return JSON_TOKENER_STRICT;
	case 2: return JSON_TOKENER_STRICT | JSON_TOKENER_ALLOW_TRAILING_CHARS;
	case 3: return JSON_TOKENER_VALIDATE_UTF8;
	case 4: return JSON_TOKENER_STRICT | JSON_TOKENER_VALIDATE_UTF8;
	default: return 0;
	}
}

typedef struct
{
	enum json_tokener_error err;
	json_object *val; /* owned */
	long end;         /* parse_end counted from the start of the text */
	int ncalls;
	int last_chunk_end; /* text offset where the last chunk given to the parser ended */
} outcome;

/* one parse call on an exact-size heap copy of [p, p+n) */
static json_object *call_exact(json_tokener *tok, const unsigned char *p, size_t n)
{
	char *copy = malloc(n ? n : 1);
	memcpy(copy, p, n);
	json_object *o = json_tokener_parse_ex(tok, copy, (int)n);
	free(copy);
	return o;
}

/* feed text[0..len) cut at cuts[0..ncuts) (ascending, inside (0,len)); a following chunk is only
 * given when the previous call reported continue */
static outcome run_chunked(json_tokener *tok, const unsigned char *text, int len, const int *cuts, int ncuts)
{
	outcome r = {json_tokener_success, NULL, 0, 0, 0};
	int pos = 0;
	for (int k = 0; k <= ncuts; k++)
	{
		int stop = k < ncuts ? cuts[k] : len;
		json_object *o = call_exact(tok, text + pos, (size_t)(stop - pos));
		r.ncalls++;
		r.err = json_tokener_get_error(tok);
		r.val = o;
		r.end = pos + (long)json_tokener_get_parse_end(tok);
		r.last_chunk_end = stop;
		if ((long)json_tokener_get_parse_end(tok) > stop - pos)
			r.end = -1000000; /* reported end beyond the given length */
		pos = stop;
		if (r.err != json_tokener_continue)
			break;
	}
	return r;
}
static void ev_outcome(const char *key, outcome *r)
{
	ev_open_obj(key);
	ev_str("st", errname(r->err));
	if (r->err == json_tokener_success)
		dump_value("val", r->val);
	else if (r->val)
	{
		ev_open_obj("val");
		ev_str("t", "value-with-error");
		ev_close_obj();
	}
	else
		dump_none("val");
	ev_int("end", r->end);
	ev_close_obj();
}
static void drop(outcome *r)
{
	if (r->val)
		json_object_put(r->val);
	r->val = 0;
}

/* -------------------------------------------------------------------------------- C03 split */
/* reference = one call with a fresh parser on exactly the bytes the chunked run was given */
static void record_split(const unsigned char *text, int len, int fl, int depth, const int *cuts, int ncuts)
{
	json_tokener *t1 = json_tokener_new_ex(depth);
	json_tokener_set_flags(t1, flags_of(fl));
	outcome got = run_chunked(t1, text, len, cuts, ncuts);
	json_tokener *t2 = json_tokener_new_ex(depth);
	json_tokener_set_flags(t2, flags_of(fl));
	outcome ref = run_chunked(t2, text, got.last_chunk_end, NULL, 0);
	ev_begin("split");
	ev_bytes("text", text, (size_t)got.last_chunk_end);
	ev_int("fl", fl);
	ev_int("depth", depth);
	long long c[16];
	int nc = 0;
	for (int i = 0; i < ncuts && i < 16 && cuts[i] < got.last_chunk_end; i++)
		c[nc++] = cuts[i];
	ev_ints("cuts", c, (size_t)nc);
	ev_int("ncalls", got.ncalls);
	ev_outcome("ref", &ref);
	ev_outcome("got", &got);
	ev_end();
	drop(&got);
	drop(&ref);
	json_tokener_free(t1);
	json_tokener_free(t2);
}

/* ---- text sources */
#define MAXTEXT 70000
static unsigned char T[MAXTEXT];
static int TL;
/* metadata of the last generated document (for C16 injections) */
#define MAXTOK 4000
enum { TK_STR, TK_KEY, TK_INT, TK_DBL, TK_LIT, TK_OPEN, TK_CLOSE_NONEMPTY, TK_CLOSE_EMPTY, TK_PUNCT };
static struct { int kind, start, end, plain; } tokv[MAXTOK];
static int ntok;
static void tok_add(int kind, int start, int end, int plain)
{
	if (ntok < MAXTOK)
	{
		tokv[ntok].kind = kind;
		tokv[ntok].start = start;
		tokv[ntok].end = end;
		tokv[ntok].plain = plain;
		ntok++;
	}
}
static void putc_(int c)
{
	if (TL < MAXTEXT - 1)
		T[TL++] = (unsigned char)c;
}
static void puts_(const char *s)
{
	while (*s)
		putc_(*s++);
}
static void ws(void)
{
	static const char w[] = " \t\n\r";
	int n = vh_below(4) ? 0 : (int)vh_below(3);
	while (n--)
		putc_(w[vh_below(4)]);
}
static int gen_plain_pos;
static int allow_nul_names = 1; /* member names with an escaped U+0000 (known finding D01a) only where C01 looks */
static void gen_string_k(int kind)
{
	int start = TL;
	gen_plain_pos = -1;
	putc_('"');
	int n = (int)vh_below(vh_below(4) ? 6 : 20);
	for (int i = 0; i < n; i++)
	{
		switch (vh_below(14))
		{
		case 0: puts_("\\\""); break;
		case 1: puts_("\\\\"); break;
		case 2: puts_("\\/"); break;
		case 3: putc_('\\'); putc_("bfnrt"[vh_below(5)]); break;
		case 4:
		{
			char b[8];
			static const unsigned cu[] = {0x0000, 0x0001, 0x001f, 0x0041, 0x007f, 0x0080, 0x07ff, 0x0800, 0xd7ff, 0xe000, 0xfffd, 0xffff, 0x00e9};
			unsigned u = cu[vh_below(13)];
			if (u == 0 && kind == TK_KEY && !allow_nul_names)
				u = 1;
			snprintf(b, sizeof b, vh_below(2) ? "\\u%04x" : "\\u%04X", u);
			puts_(b);
			break;
		}
		case 5:
		{
			char b[16];
			unsigned hi = 0xd800 + vh_below(0x400), lo = 0xdc00 + vh_below(0x400);
			switch (vh_below(6))
			{
			case 0: snprintf(b, sizeof b, "\\u%04x", hi); break;        /* lone high */
			case 1: snprintf(b, sizeof b, "\\u%04x", lo); break;        /* lone low */
			case 2: snprintf(b, sizeof b, "\\u%04x\\n", hi); break;     /* high + other escape */
			default: snprintf(b, sizeof b, "\\u%04x\\u%04x", hi, lo); break;
			}
			puts_(b);
			break;
		}
		case 6: putc_(0xc3); putc_(0xa9); break;                   /* 2-byte UTF-8 */
		case 7: putc_(0xe2); putc_(0x82); putc_(0xac); break;      /* 3-byte */
		case 8: putc_(0xf0); putc_(0x9f); putc_(0x98); putc_(0x80); break; /* 4-byte */
		case 9: gen_plain_pos = TL; putc_(' '); break;
		default: gen_plain_pos = TL; putc_("abcxyz019_-{}[],:'/*"[vh_below(20)]); break;
		}
	}
	putc_('"');
	tok_add(kind, start, TL, gen_plain_pos);
}
static void gen_string(void) { gen_string_k(TK_STR); }
static void gen_number(void)
{
	static const char *edge[] = {"0", "-0", "1", "-1", "2147483647", "2147483648", "-2147483648", "-2147483649",
	                             "9007199254740992", "9007199254740993", "9223372036854775807", "9223372036854775808",
	                             "-9223372036854775808", "-9223372036854775809", "18446744073709551615", "18446744073709551616",
	                             "123456789012345678901234567890", "-123456789012345678901234567890",
	                             "0.5", "-0.0", "1e400", "1E-400", "1.5e+20", "0e0", "1.0", "10.25e-3", "4.9e-324", "1.7976931348623157e308",
	                             "0.1", "100", "1e2", "1E+2", "2.5E-1"};
	uint32_t r = vh_below(10);
	int start = TL;
	if (r < 4)
	{
		const char *e = edge[vh_below(sizeof edge / sizeof *edge)];
		puts_(e);
		tok_add(strpbrk(e, ".eE") ? TK_DBL : TK_INT, start, TL, strpbrk(e, "eE") ? 1 : 0);
		return;
	}
	if (r == 5)
	{
		/* plain decimals around the limits of exact arithmetic: 1..17 significant digits behind 0..29 zeros of a fraction
		 * of 15..30 digits (10^22 is the last power of ten a double holds exactly, 2^53 the last exact mantissa) */
		if (vh_below(3) == 0)
			putc_('-');
		if (vh_below(3))
			putc_('0');
		else
			putc_('1' + (int)vh_below(9));
		putc_('.');
		int nfrac = 15 + (int)vh_below(16), nsig = 1 + (int)vh_below(17);
		if (nsig > nfrac)
			nsig = nfrac;
		for (int i = 0; i < nfrac - nsig; i++)
			putc_('0');
		putc_('1' + (int)vh_below(9));
		for (int i = 1; i < nsig; i++)
			putc_('0' + (int)vh_below(10));
		tok_add(TK_DBL, start, TL, 0);
		return;
	}
	int isd = 0, hasexp = 0;
	if (vh_below(3) == 0)
		putc_('-');
	if (vh_below(6) == 0)
		putc_('0');
	else
	{
		putc_('1' + (int)vh_below(9));
		int n = (int)vh_below(r == 4 ? 40 : 6);
		while (n--)
			putc_('0' + (int)vh_below(10));
	}
	if (vh_below(3) == 0)
	{
		isd = 1;
		putc_('.');
		int n = 1 + (int)vh_below(6);
		while (n--)
			putc_('0' + (int)vh_below(10));
	}
	if (vh_below(4) == 0)
	{
		isd = hasexp = 1;
		putc_(vh_below(2) ? 'e' : 'E');
		if (vh_below(2))
			putc_(vh_below(2) ? '+' : '-');
		int n = 1 + (int)vh_below(2);
		while (n--)
			putc_('0' + (int)vh_below(10));
	}
	tok_add(isd ? TK_DBL : TK_INT, start, TL, hasexp);
}
static void gen_value(int depth, int budget)
{
	ws();
	uint32_t r = vh_below(depth <= 0 || budget <= 1 ? 6 : 10);
	switch (r)
	{
	case 0: tok_add(TK_LIT, TL, TL + 4, 0); puts_("null"); break;
	case 1: if (vh_below(2)) { tok_add(TK_LIT, TL, TL + 4, 0); puts_("true"); } else { tok_add(TK_LIT, TL, TL + 5, 0); puts_("false"); } break;
	case 2: case 3: gen_number(); break;
	case 4: case 5: gen_string(); break;
	case 6: case 7:
	{
		tok_add(TK_OPEN, TL, TL + 1, 0);
		putc_('[');
		int n = (int)vh_below(budget > 5 ? 5 : (uint32_t)budget);
		for (int i = 0; i < n; i++)
		{
			if (i)
			{
				tok_add(TK_PUNCT, TL, TL + 1, 0);
				putc_(',');
			}
			gen_value(depth - 1, budget / (n ? n : 1));
		}
		ws();
		tok_add(n ? TK_CLOSE_NONEMPTY : TK_CLOSE_EMPTY, TL, TL + 1, 0);
		putc_(']');
		break;
	}
	default:
	{
		tok_add(TK_OPEN, TL, TL + 1, 0);
		putc_('{');
		int n = (int)vh_below(budget > 5 ? 5 : (uint32_t)budget);
		for (int i = 0; i < n; i++)
		{
			if (i)
			{
				tok_add(TK_PUNCT, TL, TL + 1, 0);
				putc_(',');
			}
			ws();
			int isdup = vh_below(5) == 0;
			if (isdup)
			{
				tok_add(TK_KEY, TL, TL + 5, TL + 2);
				puts_("\"dup\""); /* duplicate member names */
			}
			else
				gen_string_k(TK_KEY);
			ws();
			tok_add(TK_PUNCT, TL, TL + 1, 0);
			putc_(':');
			if (isdup && vh_below(2))
			{
				/* repeated names often carry the SAME small value again (null over null, 0 over 0, ...) */
				static const char *small[] = {"null", "null", "false", "0", "\"\"", "[]", "{}"};
				static const int kind[] = {TK_LIT, TK_LIT, TK_LIT, TK_INT, TK_STR, -1, -1};
				int w = (int)vh_below(7);
				ws();
				if (kind[w] >= 0)
					tok_add(kind[w], TL, TL + (int)strlen(small[w]), kind[w] == TK_STR ? -1 : 0);
				else
				{
					tok_add(TK_OPEN, TL, TL + 1, 0);
					tok_add(TK_CLOSE_EMPTY, TL + 1, TL + 2, 0);
				}
				puts_(small[w]);
				ws();
			}
			else
				gen_value(depth - 1, budget / (n ? n : 1));
		}
		ws();
		tok_add(n ? TK_CLOSE_NONEMPTY : TK_CLOSE_EMPTY, TL, TL + 1, 0);
		putc_('}');
		break;
	}
	}
	ws();
}
/* a valid RFC 8259 document of nesting <= depth */
static void gen_doc(int depth, int budget)
{
	TL = 0;
	ntok = 0;
	gen_value(depth, budget);
}
static void mutate(void)
{
	int n = 1 + (int)vh_below(3);
	while (n-- && TL > 0)
	{
		int p = (int)vh_below((uint32_t)TL);
		switch (vh_below(5))
		{
		case 0: T[p] = (unsigned char)vh_below(256); break;
		case 1: T[p] = "{}[],:\"\\'/*-+.eE0 tfnIN\n"[vh_below(24)]; break;
		case 2: memmove(T + p, T + p + 1, (size_t)(TL - p - 1)); TL--; break;
		case 3: if (TL < MAXTEXT - 2) { memmove(T + p + 1, T + p, (size_t)(TL - p)); T[p] = "{}[],:\"\\'/*-+.eE0 "[vh_below(18)]; TL++; } break;
		default: TL = p; break; /* truncate */
		}
	}
}
static const char *handpicked[] = {
    "[12-3]", "12-3", "[1.+5]", "[-", "-Infinity", "[-5Infinity]", "[-Infinity]", "-I", "1e", "1e+", "[1e+]", "1.", "-", "[1,]", "{\"a\":1,}",
    "\"\\ud83d\\ude00\"", "\"\\ud83d\"", "\"\\ud83dx\"", "\"\\ud83d\\n\"", "\"\\ude00\"", "\"\\ud83d\\ud83d\\ude00\"", "nul", "null", "nULL", "NaN", "nan", "tru", "true ", "fals",
    "/* c */ 1", "// c\n1", "1 /* unterminated", "[1 /*x", "{\"a\" /*c*/ : 1}", "'single'", "{'a':1}", "[1 2]", "{\"a\" 1}", "{\"a\":1 \"b\":2}",
    "00", "-01", "01.5", "0x10", "+1", ".5", "1 2", "{}[]", "\"a\"\"b\"", "null null", "[] []", "1,2", "\"\xc3\xa9\"", "\"\xc3\"", "\"\xe2\x82\xac\"", "\"\xff\"",
    "[[[[[[[[[[[[[[[[[[[[[[[[[[[[[[[[[[[[1]]]]]]]]]]]]]]]]]]]]]]]]]]]]]]]]]]]]", "{\"a\":{\"a\":{\"a\":{\"a\":1}}}}", "\"tab\there\"", "\"nul\\u0000in\"", "{\"a\\u0000b\":1}", "12345678901234567890", "-12345678901234567890",
    "1.5e+20", "Infinity", "-Infinit", "infinity", "[Infinity,-Infinity,NaN]", " \t\r\n[ ]\n", "", " ", "[", "{", "\"", "{\"a\":", "[1,", "tRuE", "FALSE"};

static int next_cut_set(int len, int mode, int *cuts)
{
	/* mode 0: no cut; 1: single (caller iterates); k>=2: random k cuts */
	(void)len;
	(void)mode;
	(void)cuts;
	return 0;
}

/* one execution = one text with one flag set: the 1-splits (all, or a sample for long texts), some
 * 2-splits and random k-splits incl. 1-byte chunks */
static void splits_of_text(int fl, int depth, int exhaustive_limit)
{
	(void)next_cut_set;
	int cuts[8];
	record_split(T, TL, fl, depth, cuts, 0);
	if (TL < 2)
		return;
	if (TL <= exhaustive_limit)
		for (int p = 1; p < TL; p++)
		{
			cuts[0] = p;
			record_split(T, TL, fl, depth, cuts, 1);
		}
	else
		for (int i = 0; i < exhaustive_limit; i++)
		{
			cuts[0] = 1 + (int)vh_below((uint32_t)TL - 1);
			record_split(T, TL, fl, depth, cuts, 1);
		}
	for (int i = 0; i < 4; i++)
	{
		int k = 2 + (int)vh_below(5);
		int n = 0;
		int p = 0;
		while (n < k && p < TL - 1)
		{
			p += 1 + (int)vh_below(i == 0 ? 1 : (uint32_t)(TL / k + 1));
			if (p < TL)
				cuts[n++] = p;
		}
		if (n)
			record_split(T, TL, fl, depth, cuts, n);
	}
}

/* a document with ONE token longer than the parser's scratch buffer starts out (32 bytes, doubling): a string / member
 * name / number / comment of a length around 32, 64, 128, 256, whose first bytes are of every interesting kind
 * (an escaped NUL first, an escape, a multi-byte character, plain) - the buffer grows in the middle of the token */
static void gen_long_token(int validonly)
{
	static const int lens[] = {28, 30, 31, 32, 33, 34, 40, 62, 63, 64, 65, 66, 100, 126, 127, 128, 129, 200, 255, 256, 257};
	static const char *firsts[] = {"\\u0000", "\\u0000\\u0000", "\\n", "\\\\", "\xc3\xa9", "\xf0\x9f\x98\x80", "a", "\\u00e9", "\\ud83d\\ude00", " "};
	int L = lens[vh_below(sizeof lens / sizeof *lens)];
	int kind = (int)vh_below(5);
	if (validonly && kind == 3)
		kind = 0;
	TL = 0;
	ntok = 0;
	int wrap = (int)vh_below(3);
	if (wrap == 0)
		puts_("[");
	else if (wrap == 1)
		puts_(kind == 1 ? "{" : "{\"k\": ");
	switch (kind)
	{
	case 0: /* string value */
	case 1: /* member name (wrap 1) or string */
	{
		putc_('"');
		puts_(firsts[vh_below(sizeof firsts / sizeof *firsts)]);
		for (int i = 0; i < L; i++)
		{
			uint32_t r = vh_below(28);
			if (r == 0)
				puts_("\\u0000");
			else if (r == 1)
				puts_("\\t");
			else if (r == 2)
				puts_("\xe2\x82\xac");
			else if (r == 3)
				puts_("\\ud800\\n"); /* a lone high surrogate followed by another escape: 3 replacement bytes + 1 */
			else if (r == 4)
				puts_("\\udbff\\udfff");
			else if (r == 5)
				puts_("\\ud83dx");
			else
				putc_("abcdefghijklmnopqrstuvwxyzABCDEFGHIJ 0123456789"[vh_below(47)]);
		}
		putc_('"');
		if (wrap == 1 && kind == 1)
			puts_(":1");
		break;
	}
	case 2: /* long integer / fraction / exponent digits */
		if (vh_below(2))
			putc_('-');
		putc_('1' + (int)vh_below(9));
		for (int i = 0; i < L; i++)
			putc_('0' + (int)vh_below(10));
		if (vh_below(2))
		{
			putc_('.');
			for (int i = 0; i < L / 2 + 1; i++)
				putc_('0' + (int)vh_below(10));
		}
		if (vh_below(3) == 0)
			puts_("e-12");
		else if (!validonly && vh_below(3) == 0)
		{
			/* an exponent part of several KiB, then a second exponent marker in the digit run (not a number any more:
			 * where it stops being one must not depend on the chunking either) */
			static const int el[] = {100, 4090, 4095, 4096, 4097, 5000, 8200};
			int n = el[vh_below(7)];
			putc_('e');
			for (int i = 0; i < n; i++)
				putc_('0');
			if (vh_below(2))
				puts_("e5");
		}
		break;
	case 3: /* long comment before a value (ignored in strict mode: an error there, which must not depend on the split either) */
		puts_(vh_below(2) ? "/*" : "//");
		{
			int block = T[TL - 1] == '*';
			for (int i = 0; i < L; i++)
			{
				char ch = "abc *x/ \"{["[vh_below(11)];
				if (ch == '/' && block && T[TL - 1] == '*')
					ch = ' ';
				putc_(ch);
			}
			puts_(block ? "*/" : "\n");
		}
		puts_("7");
		break;
	default: /* long run of white space, then a literal */
		for (int i = 0; i < L; i++)
			putc_(" \t\n\r"[vh_below(4)]);
		puts_("true");
		break;
	}
	if (wrap == 0)
		puts_(", 7]");
	else if (wrap == 1)
		puts_("}");
	if (!validonly && vh_below(2))
		putc_(0);
}
static int split_drive(int start, int nexec)
{
	const char *seed = getenv("VERIF_SEED");
	uint64_t s0 = seed ? strtoull(seed, 0, 10) : 1;
	int nhand = (int)(sizeof handpicked / sizeof *handpicked);
	for (int x = start; x < nexec; x++)
	{
		vh_srand(s0 * 1000003ull + (uint64_t)x);
		ev_begin("new");
		ev_end();
		int fl = x % 5;
		if (x < nhand * 5)
		{
			const char *h = handpicked[x / 5];
			TL = (int)strlen(h);
			memcpy(T, h, (size_t)TL);
			if (vh_below(2)) /* with the terminating NUL as part of the buffer */
				T[TL++] = 0;
		}
		else
		{
			if (x % 4 == 3)
			{
				gen_long_token(0);
				splits_of_text(fl, 32, TL > 1500 ? 12 : TL > 600 ? 100 : 400); /* (a several-KiB text travels with every event) */
				continue;
			}
			gen_doc(2 + (int)vh_below(4), 4 + (int)vh_below(20));
			uint32_t r = vh_below(10);
			if (r < 4)
				mutate();
			else if (r == 4 && TL < MAXTEXT - 40)
			{
				/* a stream: a second document after the first */
				int keep = TL;
				unsigned char save[400];
				if (keep < 400)
				{
					memcpy(save, T, (size_t)keep);
					gen_doc(2, 6);
					int l2 = TL;
					memmove(T + keep + 1, T, (size_t)l2);
					memcpy(T, save, (size_t)keep);
					T[keep] = ' ';
					TL = keep + 1 + l2;
				}
			}
			if (vh_below(3) == 0 && TL < MAXTEXT - 1)
				T[TL++] = 0;
		}
		splits_of_text(fl, 32, 48);
	}
	return 0;
}

/* -------------------------------------------------------------------------------- C03 streams */
/* several documents in one buffer, parsed by ONE parser that is resumed at the reported end position (no reset):
 * the chunked run (a later chunk only after "continue"; after a success the rest of the current chunk is given
 * next) against the same loop without cuts.  Mirrors Tokener!StreamRun. */
#define MAXOUT 24
static int run_stream(json_tokener *tok, const unsigned char *text, int len, const int *cuts, int ncuts, outcome *out)
{
	int n = 0, pos = 0, fuel = 64;
	while (pos < len && fuel-- > 0 && n < MAXOUT)
	{
		int stop = len;
		for (int k = 0; k < ncuts; k++)
			if (cuts[k] > pos)
			{
				stop = cuts[k];
				break;
			}
		json_object *o = call_exact(tok, text + pos, (size_t)(stop - pos));
		enum json_tokener_error e = json_tokener_get_error(tok);
		long pe = (long)json_tokener_get_parse_end(tok);
		outcome r = {e, o, pe > stop - pos ? -1000000 : pos + pe, 0, stop};
		if (e == json_tokener_continue)
		{
			if (stop == len)
			{
				out[n++] = r;
				break;
			}
			if (o)
				json_object_put(o);
			pos = stop;
			continue;
		}
		out[n++] = r;
		if (e != json_tokener_success || pe < 0 || pe > stop - pos)
			break;
		pos += (int)pe;
	}
	return n;
}
static void ev_outcomes(const char *key, outcome *o, int n)
{
	ev_open_arr(key);
	for (int i = 0; i < n; i++)
		ev_outcome(NULL, &o[i]);
	ev_close_arr();
}
static void record_stream(int fl, int depth, const int *cuts, int ncuts, int clean, int ndocs, const int *dstart, const int *dend)
{
	outcome got[MAXOUT], ref[MAXOUT];
	json_tokener *t1 = json_tokener_new_ex(depth);
	json_tokener_set_flags(t1, flags_of(fl));
	int ng = run_stream(t1, T, TL, cuts, ncuts, got);
	json_tokener *t2 = json_tokener_new_ex(depth);
	json_tokener_set_flags(t2, flags_of(fl));
	/* the reference sees exactly the bytes the chunked run was given (it may have stopped early on an error) */
	int given = ng ? got[ng - 1].last_chunk_end : TL;
	int nr = run_stream(t2, T, given, NULL, 0, ref);
	ev_begin("stream");
	ev_int("given", given);
	ev_bytes("text", T, (size_t)TL);
	ev_int("fl", fl);
	ev_int("depth", depth);
	long long c[16];
	for (int i = 0; i < ncuts; i++)
		c[i] = cuts[i];
	ev_ints("cuts", c, (size_t)ncuts);
	ev_bool("clean", clean);
	/* each document parsed alone by a fresh parser (text + NUL) */
	ev_open_arr("alone");
	for (int i = 0; i < ndocs; i++)
	{
		unsigned char buf[MAXTEXT];
		int n = dend[i] - dstart[i];
		memcpy(buf, T + dstart[i], (size_t)n);
		buf[n] = 0;
		json_tokener *t3 = json_tokener_new_ex(depth);
		json_tokener_set_flags(t3, flags_of(fl));
		outcome a = run_chunked(t3, buf, n + 1, NULL, 0);
		a.end = dstart[i] + a.end;
		ev_outcome(NULL, &a);
		drop(&a);
		json_tokener_free(t3);
	}
	ev_close_arr();
	ev_outcomes("ref", ref, nr);
	ev_outcomes("got", got, ng);
	ev_end();
	for (int i = 0; i < ng; i++)
		drop(&got[i]);
	for (int i = 0; i < nr; i++)
		drop(&ref[i]);
	json_tokener_free(t1);
	json_tokener_free(t2);
}
static int stream_drive(int start, int nexec)
{
	const char *seed = getenv("VERIF_SEED");
	uint64_t s0 = seed ? strtoull(seed, 0, 10) : 1;
	static unsigned char acc[MAXTEXT];
	for (int x = start; x < nexec; x++)
	{
		vh_srand(s0 * 1000003ull + 77 + (uint64_t)x);
		ev_begin("new");
		ev_end();
		int fl = x % 5;
		int ndocs = 2 + (int)vh_below(4);
		int dstart[8], dend[8], al = 0;
		for (int d = 0; d < ndocs; d++)
		{
			if (x % 3 == 1)
			{
				/* a string (or a one-member object) made of a few escape units: what one document leaves behind in the
				 * escape decoder - a pending surrogate, a half-read \uXXXX - must not reach the next document */
				static const char *units[] = {"\\ud834", "\\udd1e", "\\u0041", "\\ud83d\\ude00", "\\n", "x", "\\udbff", "\\u00e9", "\\\\", "\\ud800\\u0042"};
				TL = 0;
				int asname = vh_below(4) == 0;
				if (asname)
					puts_("{");
				putc_('"');
				for (int u = 1 + (int)vh_below(4); u > 0; u--)
					puts_(units[vh_below(sizeof units / sizeof *units)]);
				putc_('"');
				if (asname)
					puts_(":1}");
			}
			else
				gen_doc(1 + (int)vh_below(3), 1 + (int)vh_below(8));
			/* strip the generator's own surrounding white space so that the document boundaries are exact */
			int a = 0, b = TL;
			while (a < b && strchr(" \t\n\r", T[a]))
				a++;
			while (b > a && strchr(" \t\n\r", T[b - 1]))
				b--;
			if (al + (b - a) + 4 > 600)
			{
				ndocs = d;
				break;
			}
			/* separator: optional after a self-delimiting value, required otherwise */
			if (d > 0)
			{
				int selfd = strchr("]}\"", acc[al - 1]) != NULL && strchr("[{\"", T[a]) != NULL;
				int nsep = selfd ? (int)vh_below(3) : 1 + (int)vh_below(2);
				while (nsep--)
					acc[al++] = (unsigned char)" \n\t\r"[vh_below(4)];
			}
			dstart[d] = al;
			memcpy(acc + al, T + a, (size_t)(b - a));
			al += b - a;
			dend[d] = al;
		}
		if (ndocs < 2)
			continue;
		memcpy(T, acc, (size_t)al);
		TL = al;
		int clean = 1;
		uint32_t r = vh_below(10);
		if (r == 0)
		{
			mutate();
			clean = 0;
		}
		else if (r < 4)
			T[TL++] = (unsigned char)" \n\t"[vh_below(3)];
		T[TL++] = 0; /* the terminating NUL is part of the buffer: tells "nothing pending" from "inside a document" at the end */
		int cuts[8];
		record_stream(fl, 32, cuts, 0, clean, clean ? ndocs : 0, dstart, dend);
		if (TL <= 40)
			for (int p = 1; p < TL; p++)
			{
				cuts[0] = p;
				record_stream(fl, 32, cuts, 1, clean, 0, dstart, dend);
			}
		else
			for (int i = 0; i < 24; i++)
			{
				/* cuts at and next to the document boundaries, and anywhere */
				int d = (int)vh_below((uint32_t)ndocs);
				int p = vh_below(2) ? dend[d] + (int)vh_below(3) - 1 : 1 + (int)vh_below((uint32_t)TL - 1);
				if (p < 1 || p >= TL)
					continue;
				cuts[0] = p;
				record_stream(fl, 32, cuts, 1, clean, 0, dstart, dend);
			}
		for (int i = 0; i < 6; i++)
		{
			int k = 2 + (int)vh_below(5), n = 0, p = 0;
			while (n < k && p < TL - 1)
			{
				p += 1 + (int)vh_below(i == 0 ? 1 : (uint32_t)(TL / k + 1));
				if (p < TL)
					cuts[n++] = p;
			}
			if (n)
				record_stream(fl, 32, cuts, n, clean, 0, dstart, dend);
		}
	}
	return 0;
}

/* -------------------------------------------------------------------------------- C08 on generated documents */
/* every allocation request made while parsing a generated (valid, mutated, or multi-chunk) document is failed in
 * turn (all of them up to 48 requests, a sample beyond): the outcome must be the fault-free outcome or "no value,
 * out-of-memory status", and after freeing the parser (and the value) nothing may remain allocated */
static outcome parse_once(int fl, const int *cuts, int ncuts, long fail_at, long *nreq, int *hit)
{
	json_tokener *t = json_tokener_new_ex(32);
	outcome o = {json_tokener_error_memory, NULL, 0, 0, 0};
	vh_alloc_arm(fail_at);
	if (t)
	{
		json_tokener_set_flags(t, flags_of(fl));
		o = run_chunked(t, T, TL, cuts, ncuts);
	}
	*nreq = vh_nalloc;
	*hit = fail_at >= 0 && vh_nalloc > fail_at;
	vh_alloc_disarm();
	if (t)
		json_tokener_free(t);
	return o;
}
static int fault_drive(int start, int nexec)
{
	const char *seed = getenv("VERIF_SEED");
	uint64_t s0 = seed ? strtoull(seed, 0, 10) : 1;
	allow_nul_names = 0;
	for (int x = start; x < nexec; x++)
	{
		vh_srand(s0 * 1000003ull + 808 + (uint64_t)x);
		ev_begin("new");
		ev_end();
		int fl = x % 5;
		if (x % 3 == 2)
			gen_long_token(0); /* the allocation that fails is then a growth of the scratch buffer in mid-token */
		else
		{
			gen_doc(2 + (int)vh_below(4), 4 + (int)vh_below(24));
			if (vh_below(4) == 0)
				mutate();
			if (vh_below(2) && TL < MAXTEXT - 1)
				T[TL++] = 0;
		}
		int cuts[4], ncuts = 0;
		if (vh_below(2) && TL > 2)
		{
			int k = 1 + (int)vh_below(3), p = 0;
			while (ncuts < k && p < TL - 1)
			{
				p += 1 + (int)vh_below((uint32_t)(TL / k + 1));
				if (p < TL)
					cuts[ncuts++] = p;
			}
		}
		long live0 = vh_live, n = 0;
		int hit = 0;
		outcome clean = parse_once(fl, cuts, ncuts, -1, &n, &hit);
		long long c[4];
		for (int i = 0; i < ncuts; i++)
			c[i] = cuts[i];
		{
			/* dumping a value makes json-c allocate its cached print buffers: do that once, unrecorded, so that the
			 * accounts of the faulted runs below only see their own allocations */
			FILE *keep = ev_out, *nul = fopen("/dev/null", "w");
			ev_out = nul;
			ev_begin("warm");
			ev_outcome("clean", &clean);
			ev_end();
			ev_out = keep;
			fclose(nul);
		}
		for (long j = 0; j < n && j < 64; j++)
		{
			long k = n <= 64 ? j : (j < 24 ? j : (long)vh_below((uint32_t)n));
			long nk = 0, live1 = vh_live;
			int hk = 0;
			outcome got = parse_once(fl, cuts, ncuts, k, &nk, &hk);
			ev_begin("pfault");
			ev_bytes("text", T, (size_t)(TL > 200 ? 200 : TL));
			ev_int("len", TL);
			ev_int("fl", fl);
			ev_ints("cuts", c, (size_t)ncuts);
			ev_int("k", k);
			ev_int("n", n);
			ev_bool("hit", hk);
			ev_str("site", hk ? vh_fail_site : "");
			ev_outcome("clean", &clean);
			ev_outcome("got", &got);
			drop(&got);
			/* parser freed, value released: nothing of this run may remain */
			ev_int("leak", (int)(vh_live - live1));
			ev_end();
		}
		drop(&clean);
		ev_begin("pfault");
		ev_bytes("text", T, (size_t)(TL > 200 ? 200 : TL));
		ev_int("len", TL);
		ev_int("fl", fl);
		ev_ints("cuts", c, (size_t)ncuts);
		ev_int("k", -1);
		ev_int("n", n);
		ev_bool("hit", 0);
		ev_open_obj("clean");
		ev_str("st", "same");
		ev_close_obj();
		ev_open_obj("got");
		ev_str("st", "same");
		ev_close_obj();
		ev_int("leak", (int)(vh_live - live0));
		ev_end();
	}
	return 0;
}

/* route 4: every text over the alphabet up to length N, extended only while the real parser says
 * continue; every single split of each text */
static int alpha[32], nalpha, maxn, efl, edepth;
static long ecount;
static void enum_rec(int len)
{
	/* one-shot outcome decides whether to extend */
	json_tokener *t = json_tokener_new_ex(edepth);
	json_tokener_set_flags(t, flags_of(efl));
	outcome o = run_chunked(t, T, len, NULL, 0);
	enum json_tokener_error e = o.err;
	drop(&o);
	json_tokener_free(t);
	if (len >= 1)
	{
		int cuts[1];
		TL = len;
		if (len == 1)
			record_split(T, len, efl, edepth, cuts, 0);
		for (int p = 1; p < len; p++)
		{
			cuts[0] = p;
			record_split(T, len, efl, edepth, cuts, 1);
		}
		ecount++;
	}
	if (len < maxn && (len == 0 || e == json_tokener_continue))
		for (int i = 0; i < nalpha; i++)
		{
			T[len] = (unsigned char)alpha[i];
			enum_rec(len + 1);
		}
}
static int split_enum(int argc, char **argv)
{
	/* enum FL DEPTH N c1 c2 ... */
	efl = atoi(argv[0]);
	edepth = atoi(argv[1]);
	maxn = atoi(argv[2]);
	nalpha = 0;
	for (int i = 3; i < argc && nalpha < 32; i++)
		alpha[nalpha++] = atoi(argv[i]);
	ev_begin("new");
	ev_end();
	enum_rec(0);
	return 0;
}


/* -------------------------------------------------------------------------------- C04 reuse */
/* one round: `dirty` text fed (maybe only partly) to the parser under test, json_tokener_reset,
 * then `text` in the given chunking; the same text + chunking on a brand-new parser. */
static void rand_bytes(int maxlen)
{
	TL = 0;
	int n = (int)vh_below((uint32_t)maxlen + 1);
	for (int i = 0; i < n; i++)
	{
		uint32_t r = vh_below(10);
		if (r < 5)
			putc_("{}[],:\"\\'/*-+.eE0123456789 tfnulrasINaiy\n\t"[vh_below(42)]);
		else if (r < 6)
			putc_(0);
		else if (r < 8)
			putc_(0x80 + (int)vh_below(0x80));
		else
			putc_((int)vh_below(256));
	}
}
static void any_text(void)
{
	uint32_t r = vh_below(10);
	if (r < 3)
		rand_bytes(40);
	else
	{
		gen_doc(1 + (int)vh_below(5), 3 + (int)vh_below(16));
		if (r < 7)
			mutate();
		if (vh_below(3) == 0 && TL < MAXTEXT - 1)
			T[TL++] = 0;
	}
}
static int rand_cuts(int len, int *cuts, int maxcuts)
{
	int n = 0, p = 0;
	int k = (int)vh_below((uint32_t)maxcuts + 1);
	while (n < k && p < len - 1)
	{
		p += 1 + (int)vh_below((uint32_t)(len / (k + 1) + 2));
		if (p < len)
			cuts[n++] = p;
	}
	return n;
}
static void ev_calls_begin(void) { ev_open_arr("calls"); }
/* like run_chunked, but records every call (status, value present, end, length given) */
static outcome run_logged(json_tokener *tok, const unsigned char *text, int len, const int *cuts, int ncuts, int stop_after)
{
	outcome r = {json_tokener_success, NULL, 0, 0, 0};
	int pos = 0;
	ev_calls_begin();
	for (int k = 0; k <= ncuts; k++)
	{
		if (stop_after >= 0 && k >= stop_after)
			break;
		int stop = k < ncuts ? cuts[k] : len;
		json_object *o = call_exact(tok, text + pos, (size_t)(stop - pos));
		r.ncalls++;
		r.err = json_tokener_get_error(tok);
		if (r.val)
			json_object_put(r.val);
		r.val = o;
		r.end = pos + (long)json_tokener_get_parse_end(tok);
		r.last_chunk_end = stop;
		ev_open_obj(NULL);
		ev_str("st", errname(r.err));
		ev_bool("hasval", o != NULL);
		ev_int("end", (long long)json_tokener_get_parse_end(tok));
		ev_int("len", stop - pos);
		ev_close_obj();
		pos = stop;
		if (r.err != json_tokener_continue)
			break;
	}
	ev_close_arr();
	return r;
}
static unsigned char D[MAXTEXT];
static int reuse_round(json_tokener *tok, int fl, int depth, int same)
{
	/* T/TL = the text of this round; the parser is dirty from the previous round */
	int cuts[8];
	int nc = rand_cuts(TL, cuts, 4);
	long long c[8];
	for (int i = 0; i < nc; i++)
		c[i] = cuts[i];
	json_tokener_reset(tok);
	ev_begin("reuse");
	ev_bytes("text", T, (size_t)TL);
	ev_int("fl", fl);
	ev_int("depth", depth);
	ev_ints("cuts", c, (size_t)nc);
	ev_int("same", same);
	outcome reused = run_logged(tok, T, TL, cuts, nc, -1);
	ev_outcome("reused", &reused);
	json_tokener *nt = json_tokener_new_ex(depth);
	json_tokener_set_flags(nt, flags_of(fl));
	long live_before = vh_live;
	(void)live_before;
	outcome fresh = run_chunked(nt, T, TL, cuts, nc);
	ev_outcome("fresh", &fresh);
	drop(&fresh);
	json_tokener_free(nt);
	ev_int("leak", 0);
	ev_end();
	drop(&reused);
	return 0;
}
static int reuse_drive(int start, int nexec)
{
	const char *seed = getenv("VERIF_SEED");
	uint64_t s0 = seed ? strtoull(seed, 0, 10) : 1;
	static const char *dirty[] = {"\"\\ud83d", "\"\\ud83d\\", "\"\\ud83d\\u", "\"\\ud83d\\ude", "\"\\u00", "\"abc", "[1,2", "{\"a\":", "{\"a\"", "-", "-1.5e", "12", "tru", "nul", "Infin", "-Inf",
	                              "/* c", "// c", "[[[[", "{\"a\":{\"b\":[", "\"\\", "[1,", "{\"k\":\"v\",", "\xc3", "\"\xe2\x82", "'sq", "1e+", "[nu", "{\"a\\u12",
	                              /* a complete value inside a container, then a comment that the data ends in */
	                              "[\"a\" /*", "[1/*", "{\"a\":7 // x", "[[2]/* c", "[true/*", "{\"k\":null//", "[1,\"\"/* *", "{\"a\":[]/*"};
	/* documents given next WITHOUT a reset (the documented use after a success; after anything else the parser simply goes on) */
	static const char *nexts[] = {"\"\" ", "5 ", "[1]", "{\"a\":1}", "true ", "[]", "\"s\"", "-2.5e3 ", "null ", "]", "}", ",", "7"};
	for (int x = start; x < nexec; x++)
	{
		vh_srand(s0 * 1000003ull + (uint64_t)x);
		long live0 = vh_live;
		int fl = (int)vh_below(5);
		static const int depths[] = {1, 2, 3, 4, 5, 32, 32};
		int depth = depths[vh_below(7)];
		json_tokener *tok = json_tokener_new_ex(depth);
		json_tokener_set_flags(tok, flags_of(fl));
		ev_begin("new");
		ev_end();
		int rounds = 2 + (int)vh_below(6);
		for (int r = 0; r < rounds; r++)
		{
			/* make the parser dirty: a partial / failing / successful parse, no reset afterwards */
			int huge = vh_below(12) == 0;
			if (huge)
			{
				/* ... among them one whose token (string, comment, number) is larger than 64 KiB, complete or cut off:
				 * whatever the parser's scratch buffer went through, the parser must afterwards be as good as new */
				static unsigned char big[72000];
				int n = 65000 + (int)vh_below(6000), k = (int)vh_below(3), m = 0;
				big[m++] = '[';
				if (k == 0)
					big[m++] = '"';
				else if (k == 1)
				{
					big[m++] = '/';
					big[m++] = '*';
				}
				for (int i = 0; i < n; i++)
					big[m++] = (unsigned char)(k == 2 ? '0' + (i % 9) + 1 : "abcdefghij klmnop"[i % 17]);
				if (vh_below(2))
				{
					if (k == 0)
						big[m++] = '"';
					else if (k == 1)
					{
						big[m++] = '*';
						big[m++] = '/';
						big[m++] = '1';
					}
					big[m++] = ']';
				}
				int half = (int)vh_below(2) ? m / 2 : m;
				json_object *o = call_exact(tok, big, (size_t)half);
				if (!o && half < m && json_tokener_get_error(tok) == json_tokener_continue)
					o = call_exact(tok, big + half, (size_t)(m - half));
				if (o)
					json_object_put(o);
			}
			else if (vh_below(5) == 0)
			{
				/* a document with one long token, parsed while one of the call's first allocation requests fails (the
				 * scratch buffer's growth among them): whatever the failed call left behind, the reset parser is as good
				 * as new - the next round parses a long-token document again */
				gen_long_token(0);
				memcpy(D, T, (size_t)TL);
				vh_alloc_arm((long)vh_below(3));
				json_object *o = call_exact(tok, D, (size_t)TL);
				vh_alloc_disarm();
				if (o)
					json_object_put(o);
				huge = 1;
			}
			else if (vh_below(2))
			{
				const char *d = dirty[vh_below(sizeof dirty / sizeof *dirty)];
				/* (one time in three the terminating NUL is part of the data given) */
				int dl = (int)strlen(d) + (vh_below(3) == 0);
				json_object *o = call_exact(tok, (const unsigned char *)d, (size_t)dl);
				if (o)
					json_object_put(o);
				for (int more = (int)vh_below(3); more > 0; more--)
				{
					const char *nx = nexts[vh_below(sizeof nexts / sizeof *nexts)];
					o = call_exact(tok, (const unsigned char *)nx, strlen(nx) + (vh_below(2) == 0));
					if (o)
						json_object_put(o);
				}
			}
			else
			{
				any_text();
				memcpy(D, T, (size_t)TL);
				int dl = TL ? 1 + (int)vh_below((uint32_t)TL) : 0;
				json_object *o = call_exact(tok, D, (size_t)dl);
				if (o)
					json_object_put(o);
			}
			if (huge || vh_below(10) == 0)
				gen_long_token(0);
			else
				any_text();
			reuse_round(tok, fl, depth, 0);
		}
		json_tokener_free(tok);
		/* freeing the parser releases everything it held */
		ev_begin("freed");
		ev_int("leak", (int)(vh_live - live0));
		ev_end();
	}
	return 0;
}
/* route 4 for the reset product: every prefix over the alphabet (extended while the parser says
 * continue) x a fixed set of probe texts */
static const char *probes[] = {"\"\\u0041\"", "\"A\"", "\"\\ude00\"", "\"\\n\"", "1", "[1]", "-1", "true", "{\"a\":1}", "\"\\u", "\"\\ud83d\\ude00\"", "e5", "5", "\"x", "Infinity", "null", "]"};
static unsigned char P[64];
static void reuse_enum_rec(int len)
{
	json_tokener *t = json_tokener_new_ex(edepth);
	json_tokener_set_flags(t, flags_of(efl));
	json_object *o = call_exact(t, P, (size_t)len);
	enum json_tokener_error e = json_tokener_get_error(t);
	if (o)
		json_object_put(o);
	for (unsigned i = 0; i < sizeof probes / sizeof *probes; i++)
	{
		/* re-dirty (the previous probe reset it), then probe */
		if (i)
		{
			o = call_exact(t, P, (size_t)len);
			if (o)
				json_object_put(o);
		}
		TL = (int)strlen(probes[i]);
		memcpy(T, probes[i], (size_t)TL);
		if (i & 1)
			T[TL++] = 0;
		reuse_round(t, efl, edepth, 1);
	}
	json_tokener_free(t);
	if (len < maxn && (len == 0 || e == json_tokener_continue))
		for (int i = 0; i < nalpha; i++)
		{
			P[len] = (unsigned char)alpha[i];
			reuse_enum_rec(len + 1);
		}
}
static int reuse_enum(int argc, char **argv)
{
	efl = atoi(argv[0]);
	edepth = atoi(argv[1]);
	maxn = atoi(argv[2]);
	nalpha = 0;
	for (int i = 3; i < argc && nalpha < 32; i++)
		alpha[nalpha++] = atoi(argv[i]);
	ev_begin("new");
	ev_end();
	reuse_enum_rec(0);
	return 0;
}

/* -------------------------------------------------------------------------------- C01 valid */
#include <locale.h>
#include <math.h>
static int doubles_ok(json_object *o)
{
	/* every double node holds strtod_C(its retained text): json-c handed strtod the exact token */
	if (!o)
		return 1;
	switch (json_object_get_type(o))
	{
	case json_type_double:
	{
		const char *t = json_object_to_json_string_ext(o, JSON_C_TO_STRING_PLAIN);
		double d = json_object_get_double(o);
		if (!strcmp(t, "NaN"))
			return isnan(d);
		if (!strcmp(t, "Infinity") || !strcmp(t, "-Infinity"))
			return isinf(d) && (t[0] == '-') == (d < 0);
		char *end;
		double r = strtod(t, &end);
		return *end == 0 && memcmp(&r, &d, sizeof d) == 0;
	}
	case json_type_array:
		for (size_t i = 0; i < json_object_array_length(o); i++)
			if (!doubles_ok(json_object_array_get_idx(o, i)))
				return 0;
		return 1;
	case json_type_object:
	{
		json_object_object_foreach(o, k, v)
		{
			(void)k;
			if (!doubles_ok(v))
				return 0;
		}
		return 1;
	}
	default: return 1;
	}
}
/* parse T[0..TL) + NUL terminator in one call; event "parse" */
static void record_parse(const char *ev, int fl, int depth, const int *cuts, int ncuts)
{
	json_tokener *t = json_tokener_new_ex(depth);
	json_tokener_set_flags(t, flags_of(fl));
	int n = TL;
	T[n] = 0;
	outcome o = run_chunked(t, T, n + 1, cuts, ncuts);
	ev_begin(ev);
	ev_bytes("text", T, (size_t)n);
	ev_int("fl", fl);
	ev_int("depth", depth);
	long long c[8];
	for (int i = 0; i < ncuts && i < 8; i++)
		c[i] = cuts[i];
	ev_ints("cuts", c, (size_t)(ncuts < 8 ? ncuts : 8));
	ev_outcome("got", &o);
	ev_bool("dbl_ok", o.err != json_tokener_success || doubles_ok(o.val));
	ev_end();
	drop(&o);
	json_tokener_free(t);
}
/* the convenience doors: json_tokener_parse_verbose / json_tokener_parse on the NUL-terminated text (a fresh default
 * parser inside), and the message table */
static void record_conv(void)
{
	T[TL] = 0;
	enum json_tokener_error err = (enum json_tokener_error)-7;
	json_object *v = json_tokener_parse_verbose((const char *)T, &err);
	json_object *p = json_tokener_parse((const char *)T);
	const char *desc = json_tokener_error_desc(err);
	ev_begin("conv");
	ev_bytes("text", T, (size_t)TL);
	ev_str("st", errname(err));
	ev_bool("has", v != NULL);
	ev_bool("plain_has", p != NULL);
	if (err == json_tokener_success)
		dump_value("val", v); /* (the document null is the NULL pointer) */
	else
		dump_none("val");
	ev_bool("plain_same", (v == NULL) == (p == NULL) && (!v || json_object_equal(v, p)));
	ev_bool("desc_ok", desc && *desc && !strstr(desc, "Unknown error"));
	/* values outside the enumeration get the fixed "unknown" text, never a wild read */
	const char *d1 = json_tokener_error_desc((enum json_tokener_error)-1), *d2 = json_tokener_error_desc((enum json_tokener_error)(17 + (int)vh_below(1000)));
	ev_bool("desc_unknown_ok", d1 && d2 && d1 == d2 && strstr(d1, "Unknown error") != NULL);
	ev_end();
	if (v)
		json_object_put(v);
	if (p)
		json_object_put(p);
}
static void nest_doc(int levels, int mix, int leaf);
static int valid_drive(int start, int nexec)
{
	const char *seed = getenv("VERIF_SEED");
	uint64_t s0 = seed ? strtoull(seed, 0, 10) : 1;
	for (int x = start; x < nexec; x++)
	{
		vh_srand(s0 * 1000003ull + (uint64_t)x);
		ev_begin("new");
		ev_end();
		int deep = vh_below(8) == 0;
		if (x % 6 == 5)
			gen_long_token(1); /* one token longer than the scratch buffer's first sizes */
		else if (x % 6 == 2 && vh_below(2))
			/* valid texts nested right up to the default limit: arrays, objects or a mix around a leaf or an empty container */
			nest_doc(28 + (int)vh_below(5), (int)vh_below(3), (int)vh_below(4));
		else
			gen_doc(deep ? 20 + (int)vh_below(11) : 2 + (int)vh_below(5), deep ? 60 : 4 + (int)vh_below(40));
		record_parse("parse", 0, 32, NULL, 0);
		record_parse("parse", 1, 32, NULL, 0);
		record_conv();
	}
	return 0;
}
/* the number lattice: every fraction length 1..40 x every count 1..17 of significant digits (plain decimals), every decimal
 * exponent -30..30 x 1..17 mantissa digits, integer parts of 14..20 digits with short fractions - one array per row, both
 * modes.  (Conversions that take short cuts - exact powers of ten end at 10^22, exact mantissas at 2^53 - have their
 * corners somewhere in this grid.) */
static void num_digits(int n)
{
	putc_('1' + (int)vh_below(9));
	for (int i = 1; i < n; i++)
		putc_('0' + (int)vh_below(10));
}
static int valid_numbers(int reps)
{
	ev_begin("new");
	ev_end();
	for (int rep = 0; rep < reps; rep++)
		for (int row = 0; row < 40 + 61 + 35; row++)
		{
			TL = 0;
			putc_('[');
			for (int nsig = 1; nsig <= 17; nsig++)
			{
				if (nsig > 1)
					putc_(',');
				if (vh_below(4) == 0)
					putc_('-');
				if (row < 40)
				{
					int nfrac = row + 1, ns = nsig > nfrac ? nfrac : nsig;
					putc_('0');
					putc_('.');
					for (int i = 0; i < nfrac - ns; i++)
						putc_('0');
					num_digits(ns);
				}
				else if (row < 101)
				{
					int e = row - 40 - 30;
					char eb[8];
					num_digits(1);
					if (nsig > 1)
					{
						putc_('.');
						num_digits(nsig - 1);
					}
					snprintf(eb, sizeof eb, "%c%s%d", vh_below(2) ? 'e' : 'E', e < 0 ? "-" : vh_below(2) ? "+" : "", e < 0 ? -e : e);
					puts_(eb);
				}
				else
				{
					int r2 = row - 101, nint = 14 + r2 / 5, nfrac = 1 + r2 % 5;
					num_digits(nint);
					putc_('.');
					for (int i = 0; i < nfrac; i++)
						putc_('0' + (int)vh_below(10));
				}
			}
			putc_(']');
			record_parse("parse", 0, 32, NULL, 0);
			record_parse("parse", 1, 32, NULL, 0);
		}
	return 0;
}
/* every single \uXXXX code unit in [lo,hi), and surrogate combinations */
static int valid_escapes(int lo, int hi, int stride)
{
	ev_begin("new");
	ev_end();
	for (int u = lo; u < hi; u += stride)
	{
		char b[40];
		TL = snprintf(b, sizeof b, (u & 1) ? "\"\\u%04x\"" : "\"\\u%04X\"", (unsigned)u);
		memcpy(T, b, (size_t)TL);
		record_parse("parse", u & 1, 32, NULL, 0);
	}
	return 0;
}
static int valid_pairs(int n, int exhaustive_hi)
{
	/* exhaustive_hi >= 0: all 1024 lows for that one high; else n random combinations */
	ev_begin("new");
	ev_end();
	for (int i = 0; i < n; i++)
	{
		char b[64];
		unsigned hi = exhaustive_hi >= 0 ? 0xd800u + (unsigned)exhaustive_hi : 0xd800u + vh_below(0x400);
		unsigned lo = exhaustive_hi >= 0 ? 0xdc00u + (unsigned)i : 0xdc00u + vh_below(0x400);
		switch (exhaustive_hi >= 0 ? 0 : vh_below(8))
		{
		case 1: TL = snprintf(b, sizeof b, "\"\\u%04x\\u%04x\"", hi, hi); break;                 /* high high */
		case 2: TL = snprintf(b, sizeof b, "\"\\u%04x\\u%04x\"", lo, hi); break;                 /* low high */
		case 3: TL = snprintf(b, sizeof b, "\"\\u%04xx\\u%04x\"", hi, lo); break;                /* high, plain, low */
		case 4: TL = snprintf(b, sizeof b, "\"\\u%04x\\t\\u%04x\"", hi, lo); break;              /* high, escape, low */
		case 5: TL = snprintf(b, sizeof b, "\"\\u%04x\\u%04x\\u%04x\"", hi, hi, lo); break;      /* high high low */
		case 6: TL = snprintf(b, sizeof b, "{\"\\u%04x\\u%04x\":\"\\u%04x\"}", hi, lo, hi); break; /* in a name */
		default: TL = snprintf(b, sizeof b, "\"\\u%04x\\u%04x\"", hi, lo); break;
		}
		memcpy(T, b, (size_t)TL);
		record_parse("parse", i & 1, 32, NULL, 0);
	}
	return 0;
}

/* -------------------------------------------------------------------------------- C15 depth */
static int leaf_off, leaf_len; /* where nest_doc put the innermost value */
static void nest_doc(int levels, int mix, int leaf)
{
	/* `levels` containers around one innermost value (or an empty container when leaf = 0) */
	TL = 0;
	ntok = 0;
	char kinds[4096];
	for (int i = 0; i < levels; i++)
	{
		kinds[i] = mix == 0 ? '[' : mix == 1 ? '{' : (vh_below(2) ? '[' : '{');
		if (vh_below(4) == 0)
			putc_(' ');
		if (kinds[i] == '[')
		{
			putc_('[');
			if (vh_below(3) == 0 && i + 1 < levels)
				puts_("1,"); /* the deep value is not the first element */
		}
		else
		{
			puts_("{");
			if (vh_below(3) == 0 && i + 1 < levels)
				puts_("\"p\":null,");
			puts_("\"a\":");
		}
	}
	leaf_off = TL;
	switch (leaf)
	{
	case 0: /* innermost container empty: remove the pending member of an object */
		if (levels && kinds[levels - 1] == '{')
			TL -= 4;
		leaf_off = -1;
		break;
	case 1: puts_("1"); break;
	case 2: puts_("\"s\""); break;
	default: puts_("null"); break;
	}
	leaf_len = leaf_off >= 0 ? TL - leaf_off : 0;
	for (int i = levels - 1; i >= 0; i--)
	{
		if (vh_below(3) == 0 && i + 1 < levels)
			puts_(kinds[i] == '[' ? ",2" : ",\"z\":[]");
		putc_(kinds[i] == '[' ? ']' : '}');
	}
}
#include "json_util.h"
#include <unistd.h>
/* the text in T parsed by json_object_from_fd_ex(fd, D) from a temporary file */
static void depth_via_fd(int D)
{
	char tmpl[] = "/tmp/vh_depth_XXXXXX";
	int fd = mkstemp(tmpl);
	if (fd < 0)
		return;
	unlink(tmpl);
	if (write(fd, T, (size_t)TL) != (ssize_t)TL)
	{
		close(fd);
		return;
	}
	lseek(fd, 0, SEEK_SET);
	json_object *o = json_object_from_fd_ex(fd, D);
	close(fd);
	const char *msg = o ? "" : json_util_get_last_err();
	ev_begin("depthfd");
	ev_bytes("text", T, (size_t)TL);
	ev_int("D", D < -1000 ? -1000 : D);
	ev_bool("has", o != NULL);
	ev_bool("too_deep", msg && strstr(msg, "nesting too deep") != NULL);
	if (o)
		dump_value("val", o);
	else
		dump_none("val");
	ev_end();
	if (o)
		json_object_put(o);
}
static int depth_drive(int start, int nexec)
{
	allow_nul_names = 0;
	const char *seed = getenv("VERIF_SEED");
	uint64_t s0 = seed ? strtoull(seed, 0, 10) : 1;
	for (int x = start; x < nexec; x++)
	{
		vh_srand(s0 * 1000003ull + (uint64_t)x);
		ev_begin("new");
		ev_end();
		int D = x % 41 == 0 ? 32 : 1 + x % 40;
		/* documents with maximal nesting D-2 .. D+3 (the innermost value is enclosed by `levels` containers) */
		for (int delta = -2; delta <= 3; delta++)
		{
			int levels = D - 1 + delta;
			if (levels < 1)
				continue;
			nest_doc(levels, (int)vh_below(3), (int)vh_below(4));
			int cuts[4], nc = vh_below(2) ? rand_cuts(TL + 1, cuts, 3) : 0;
			record_parse("depth", (int)vh_below(2), D, cuts, nc);
			if (delta >= 0 && leaf_off >= 0)
			{
				/* the value that is too deep spelled in one of json-c's other ways (NaN, Infinity, a single-quoted
				 * string, a literal in capitals): too deep is too deep, at the same place, however the value is spelled */
				static const char *alts[] = {"NaN", "Infinity", "-Infinity", "'s'", "TRUE", "Null", "False", "nan", "-1e5", "\"\\u0041\""};
				static unsigned char R[MAXTEXT];
				int RL = TL;
				memcpy(R, T, (size_t)TL);
				const char *alt = alts[vh_below(sizeof alts / sizeof *alts)];
				int al = (int)strlen(alt);
				json_tokener *t1 = json_tokener_new_ex(D), *t2 = json_tokener_new_ex(D);
				R[RL] = 0;
				outcome r1 = run_chunked(t1, R, RL + 1, NULL, 0);
				/* T := R with the leaf replaced */
				memcpy(T, R, (size_t)leaf_off);
				memcpy(T + leaf_off, alt, (size_t)al);
				memcpy(T + leaf_off + al, R + leaf_off + leaf_len, (size_t)(RL - leaf_off - leaf_len));
				TL = RL - leaf_len + al;
				T[TL] = 0;
				outcome r2 = run_chunked(t2, T, TL + 1, NULL, 0);
				ev_begin("depthalt");
				ev_int("D", D);
				ev_bytes("text", R, (size_t)RL);
				ev_bytes("alt", T, (size_t)TL);
				ev_int("leaf", leaf_off);
				ev_outcome("rfc", &r1);
				ev_outcome("got", &r2);
				ev_end();
				drop(&r1);
				drop(&r2);
				json_tokener_free(t1);
				json_tokener_free(t2);
				memcpy(T, R, (size_t)RL);
				TL = RL;
			}
			/* the same limit configured through the other entry point that takes one: the file / descriptor reader */
			if (delta >= -1 && delta <= 1)
				depth_via_fd(vh_below(6) ? D : (int[]){0, -2, -33, INT_MIN + 1}[vh_below(4)]);
		}
		/* a generated document against a small limit */
		gen_doc(6, 30);
		record_parse("depth", 0, 1 + (int)vh_below(6), NULL, 0);
	}
	return 0;
}
/* hostile input: K openers, never closed.  The parser must stop at the limit and use no more memory for larger K */
static int depth_hostile(void)
{
	ev_begin("new");
	ev_end();
	static const int Ds[] = {1, 2, 3, 5, 8, 32, 40};
	for (unsigned di = 0; di < sizeof Ds / sizeof *Ds; di++)
		for (int pat = 0; pat < 2; pat++)
		{
			int D = Ds[di];
			ev_begin("hostile");
			ev_int("D", D);
			ev_int("pat", pat);
			ev_open_arr("runs");
			int Ks[] = {D, D + 1, 2 * D + 1, 10 * D, 1000, 100000};
			for (unsigned ki = 0; ki < 6; ki++)
			{
				int K = Ks[ki];
				size_t unit = pat == 0 ? 1 : 5;
				unsigned char *buf = malloc(K * unit + 1);
				for (int i = 0; i < K; i++)
					if (pat == 0)
						buf[i] = '[';
					else
						memcpy(buf + i * 5, "{\"a\":", 5);
				json_tokener *t = json_tokener_new_ex(D);
				long live0 = vh_live;
				vh_peak_live = vh_live;
				json_object *o = json_tokener_parse_ex(t, (const char *)buf, (int)(K * unit));
				ev_open_obj(NULL);
				ev_int("K", K);
				ev_str("st", errname(json_tokener_get_error(t)));
				ev_int("end", (long long)json_tokener_get_parse_end(t));
				ev_int("peak", vh_peak_live - live0);
				ev_close_obj();
				if (o)
					json_object_put(o);
				json_tokener_free(t);
				free(buf);
			}
			ev_close_arr();
			ev_end();
		}
	static const int bad[] = {0, -1, -32, INT_MIN + 1};
	for (int i = 0; i < 4; i++)
	{
		json_tokener *t = json_tokener_new_ex(bad[i]);
		ev_begin("newex");
		ev_int("D", bad[i] < -1000 ? -1000 : bad[i]);
		ev_bool("refused", t == NULL);
		ev_end();
		if (t)
			json_tokener_free(t);
	}
	return 0;
}

/* -------------------------------------------------------------------------------- C16 inject */
static unsigned char O[MAXTEXT], Q[MAXTEXT];
static int OL, QL;
static void splice(int at, int del, const char *ins, int inslen)
{
	/* T := O with `del` bytes at `at` replaced by ins */
	memcpy(T, O, (size_t)at);
	memcpy(T + at, ins, (size_t)inslen);
	memcpy(T + at + inslen, O + at + del, (size_t)(OL - at - del));
	TL = OL - del + inslen;
}
static void three_runs(const char *kind, int pos)
{
	unsigned char X[MAXTEXT];
	int XL = TL;
	memcpy(X, T, (size_t)TL);
	outcome r[4];
	for (int f = 0; f < 4; f++)
	{
		json_tokener *t = json_tokener_new_ex(32);
		json_tokener_set_flags(t, flags_of(f == 0 ? 1 : f == 1 ? 2 : f == 2 ? 0 : 4));
		X[XL] = 0;
		r[f] = run_chunked(t, X, XL + 1, NULL, 0);
		json_tokener_free(t);
	}
	ev_begin("inject");
	ev_str("kind", kind);
	ev_int("pos", pos);
	ev_bytes("orig", O, (size_t)OL);
	ev_bytes("equiv", Q, (size_t)QL);
	ev_bytes("text", X, (size_t)XL);
	ev_outcome("strict", &r[0]);
	ev_outcome("trail", &r[1]);
	ev_outcome("deflt", &r[2]);
	ev_outcome("strict_utf8", &r[3]); /* strict together with UTF-8 validation (the generated texts are valid UTF-8) */
	ev_end();
	for (int f = 0; f < 4; f++)
		drop(&r[f]);
}
static int inject_drive(int start, int nexec)
{
	allow_nul_names = 0;
	const char *seed = getenv("VERIF_SEED");
	uint64_t s0 = seed ? strtoull(seed, 0, 10) : 1;
	for (int x = start; x < nexec; x++)
	{
		vh_srand(s0 * 1000003ull + (uint64_t)x);
		ev_begin("new");
		ev_end();
		gen_doc(2 + (int)vh_below(4), 4 + (int)vh_below(16));
		OL = TL;
		memcpy(O, T, (size_t)TL);
		memcpy(Q, O, (size_t)OL);
		QL = OL;
		/* comments at EVERY token boundary (before each token, and after the last) */
		for (int i = 0; i <= ntok; i++)
		{
			int at = i < ntok ? tokv[i].start : OL;
			/* block comments whose body is any text without the terminator (stars, slashes, quotes, brackets, line
			 * ends, "/ *", a run of stars right before the end), the empty one, and line comments */
			char cm[40];
			int n = 0;
			if (vh_below(3))
			{
				static const char body[] = " c*/\n\"{[,'\\*";
				int bl = (int)vh_below(4) * (int)vh_below(4);
				cm[n++] = '/';
				cm[n++] = '*';
				for (int j = 0; j < bl; j++)
				{
					char ch = body[vh_below(sizeof body - 1)];
					if (ch == '/' && cm[n - 1] == '*')
						ch = ' ';
					cm[n++] = ch;
				}
				cm[n++] = '*';
				cm[n++] = '/';
			}
			else
			{
				static const char body[] = " c*/\"{['\\\r";
				int bl = (int)vh_below(6);
				cm[n++] = '/';
				cm[n++] = '/';
				for (int j = 0; j < bl; j++)
					cm[n++] = body[vh_below(sizeof body - 1)];
				cm[n++] = '\n';
			}
			cm[n] = 0;
			splice(at, 0, cm, n);
			three_runs("comment", at);
		}
		for (int i = 0; i < ntok; i++)
		{
			int st = tokv[i].start, en = tokv[i].end;
			memcpy(Q, O, (size_t)OL);
			QL = OL;
			switch (tokv[i].kind)
			{
			case TK_STR:
			case TK_KEY:
			{
				int clean = 1;
				for (int j = st + 1; j < en - 1; j++)
					if (O[j] == '\'' || O[j] == '"')
						clean = 0;
				if (clean)
				{
					memcpy(T, O, (size_t)OL);
					TL = OL;
					T[st] = '\'';
					T[en - 1] = '\'';
					three_runs(tokv[i].kind == TK_KEY ? "single_quote_name" : "single_quote", st);
				}
				if (tokv[i].plain > 0)
				{
					/* a raw control character instead of a plain one; the RFC spelling of the same string uses \u00XX */
					static const char ctl[] = {1, 9, 10, 13, 31, 8};
					char ch = ctl[vh_below(6)];
					char esc[8];
					snprintf(esc, sizeof esc, "\\u%04x", ch);
					splice(tokv[i].plain, 1, &ch, 1);
					memcpy(Q, O, (size_t)tokv[i].plain);
					memcpy(Q + tokv[i].plain, esc, 6);
					memcpy(Q + tokv[i].plain + 6, O + tokv[i].plain + 1, (size_t)(OL - tokv[i].plain - 1));
					QL = OL + 5;
					three_runs(tokv[i].kind == TK_KEY ? "raw_control_name" : "raw_control", tokv[i].plain);
				}
				break;
			}
			case TK_INT:
			{
				int d0 = st + (O[st] == '-');
				/* one, two, or so many that the token outgrows every fixed-width assumption about integer texts */
				static const char *zs[] = {"0", "00", "0", "00", "000000000000000000000", "0000000000000000000000000000000000000000"};
				const char *z = zs[vh_below(6)];
				splice(d0, 0, z, (int)strlen(z));
				three_runs("leading_zero", d0);
				break;
			}
			case TK_DBL:
				if (!tokv[i].plain) /* no exponent yet */
				{
					static const char *tails[] = {"e", "E", "e+", "e-", "E+"};
					const char *tl = tails[vh_below(5)];
					splice(en, 0, tl, (int)strlen(tl));
					three_runs("dangling_exponent", en);
				}
				break;
			case TK_LIT:
			{
				memcpy(T, O, (size_t)OL);
				TL = OL;
				int any = 0;
				for (int j = st; j < en; j++)
					if (vh_below(2) || (j == en - 1 && !any))
					{
						T[j] = (unsigned char)(T[j] - 32);
						any = 1;
					}
				three_runs("literal_case", st);
				break;
			}
			case TK_CLOSE_NONEMPTY:
				splice(st, 0, ",", 1);
				three_runs(O[st] == ']' ? "trailing_comma_array" : "trailing_comma_object", st);
				break;
			default: break;
			}
		}
		/* trailing non-white-space after the value */
		memcpy(Q, O, (size_t)OL);
		QL = OL;
		{
			static const char *tr[] = {"x", " x", "]", " 1", "\n{}", ",", "\"", " null"};
			const char *t = tr[vh_below(8)];
			/* a top-level number or literal needs a delimiter before the garbage, else it is another token */
			int bare = ntok == 1 && (tokv[0].kind == TK_INT || tokv[0].kind == TK_DBL || tokv[0].kind == TK_LIT);
			char buf[16];
			snprintf(buf, sizeof buf, "%s%s", bare && t[0] != ' ' && t[0] != '\n' ? " " : "", t);
			splice(OL, 0, buf, (int)strlen(buf));
			three_runs("trailing_chars", OL);
		}
		/* ... and trailing bytes that begin with a slash (a path, something that looks like a comment) */
		memcpy(Q, O, (size_t)OL);
		QL = OL;
		{
			static const char *tr[] = {"/var/log/next", " /* record 2 */ [3,4]", "\n// eof", "/", " //", "/*", "\t/x"};
			const char *t = tr[vh_below(7)];
			splice(OL, 0, t, (int)strlen(t));
			three_runs("trailing_slash", OL);
		}
	}
	return 0;
}

int tok_main(int argc, char **argv)
{
	if (argc >= 3 && !strcmp(argv[0], "valid-drive"))
		return valid_drive(atoi(argv[1]), atoi(argv[2]));
	if (argc >= 2 && !strcmp(argv[0], "valid-numbers"))
		return valid_numbers(atoi(argv[1]));
	if (argc >= 4 && !strcmp(argv[0], "valid-escapes"))
		return valid_escapes(atoi(argv[1]), atoi(argv[2]), atoi(argv[3]));
	if (argc >= 3 && !strcmp(argv[0], "valid-pairs"))
		return valid_pairs(atoi(argv[1]), atoi(argv[2]));
	if (argc >= 3 && !strcmp(argv[0], "depth-drive"))
		return depth_drive(atoi(argv[1]), atoi(argv[2]));
	if (argc >= 1 && !strcmp(argv[0], "depth-hostile"))
		return depth_hostile();
	if (argc >= 3 && !strcmp(argv[0], "inject-drive"))
		return inject_drive(atoi(argv[1]), atoi(argv[2]));
	if (argc >= 3 && !strcmp(argv[0], "reuse-drive"))
		return reuse_drive(atoi(argv[1]), atoi(argv[2]));
	if (argc >= 5 && !strcmp(argv[0], "reuse-enum"))
		return reuse_enum(argc - 1, argv + 1);
	if (argc >= 3 && !strcmp(argv[0], "fault-drive"))
		return fault_drive(atoi(argv[1]), atoi(argv[2]));
	if (argc >= 3 && !strcmp(argv[0], "stream-drive"))
		return stream_drive(atoi(argv[1]), atoi(argv[2]));
	if (argc >= 3 && !strcmp(argv[0], "split-drive"))
		return split_drive(atoi(argv[1]), atoi(argv[2]));
	if (argc >= 5 && !strcmp(argv[0], "split-enum"))
		return split_enum(argc - 1, argv + 1);
	return 2;
}
