/* C09 equality and deep copy: generated pairs (independent, single mutations, member permutations,
 * the same number in the other integer store, +-0, NaN) and copy sources; typed dumps with IEEE
 * bits + every result. */
#include "vhrt.h"
#include "vh_dump.h"
#include "json.h"
#include "printbuf.h"
#include "linkhash.h"
#include <math.h>
#include <stdint.h>
#include <stdlib.h>
#include <string.h>

static const char *keys[] = {"a", "b", "c", "", "k\x01", "zz", "a b"};
/* names whose home slot, under this process's hash seed, is one of the last two of a 16-slot table: their probe
 * sequences run into the end of the table and wrap round to slot 0 */
static char wrapkeys[10][12];
static int nwrap;
static void find_wrapkeys(void)
{
	json_object *o = json_object_new_object();
	struct lh_table *t = json_object_get_object(o);
	for (int c = 0; c < 100000 && nwrap < 10; c++)
	{
		char cand[12];
		snprintf(cand, sizeof cand, "w%d", c);
		if (lh_get_hash(t, cand) % 16 >= 14)
			strcpy(wrapkeys[nwrap++], cand);
	}
	json_object_put(o);
}
static const char *pick_key(void)
{
	if (nwrap && vh_below(3) == 0)
		return wrapkeys[vh_below((uint32_t)nwrap)];
	return keys[vh_below(7)];
}
/* now and then a container is wide: more members than the first table size holds (growth, longer probe sequences),
 * more elements than the first array capacity */
static int wide_n(void) { return vh_below(25) == 0 ? 12 + (int)vh_below(30) : (int)vh_below(4); }
static const char *wide_key(int i)
{
	static char kb[8][12];
	static int rot;
	char *k = kb[rot++ & 7];
	snprintf(k, 12, "m%d", i);
	return k;
}
static json_object *gen(int depth)
{
	uint32_t r = vh_below(depth <= 0 ? 9 : 13);
	switch (r)
	{
	case 0: return NULL;
	case 1: return json_object_new_boolean((int)vh_below(2));
	case 2:
	{
		static const int64_t v[] = {0, 1, -1, 5, INT64_MAX, INT64_MIN, 2147483647, 4294967296LL};
		return json_object_new_int64(v[vh_below(8)]);
	}
	case 3:
	{
		static const uint64_t v[] = {0, 1, 5, (uint64_t)INT64_MAX, (uint64_t)INT64_MAX + 1, UINT64_MAX, 4294967296ULL};
		return json_object_new_uint64(v[vh_below(7)]);
	}
	case 4:
	{
		static const double v[] = {0.0, -0.0, 1.0, 1.5, -2.25, 1e300, 4.9e-324, 5.0};
		return json_object_new_double(v[vh_below(8)]);
	}
	case 5:
		switch (vh_below(8))
		{
		case 0: return json_object_new_double(NAN);
		case 1: return json_object_new_double(INFINITY);
		case 2: return json_object_new_double_s(1.5, "1.50");
		case 3: return json_object_new_double_s(1.5, "15e-1");
		default: return json_object_new_double((double)vh_below(4));
		}
	case 6: return json_object_new_string(vh_below(2) ? "s" : "");
	case 7: return json_object_new_string_len("a\0b", 3);
	case 8: return vh_below(2) ? json_object_new_string_len("a\0c", 3) : json_object_new_string_len("a", 1);
	case 9: case 10:
	{
		json_object *a = json_object_new_array();
		int n = wide_n();
		for (int i = 0; i < n; i++)
			json_object_array_add(a, gen(n > 4 ? 0 : depth - 1));
		return a;
	}
	default:
	{
		json_object *o = json_object_new_object();
		int n = wide_n();
		for (int i = 0; i < n; i++)
			json_object_object_add(o, n > 4 ? wide_key(i) : pick_key(), gen(n > 4 ? 0 : depth - 1));
		return o;
	}
	}
}
/* a structurally equal value built differently: members permuted, integers in the other store */
static json_object *twin(json_object *o)
{
	if (!o)
		return NULL;
	switch (json_object_get_type(o))
	{
	case json_type_int:
	{
		int64_t s = json_object_get_int64(o);
		uint64_t u = json_object_get_uint64(o);
		if (s >= 0 && u <= (uint64_t)INT64_MAX)
			return vh_below(2) ? json_object_new_uint64(u) : json_object_new_int64(s);
		return s < 0 ? json_object_new_int64(s) : json_object_new_uint64(u);
	}
	case json_type_double:
	{
		double d = json_object_get_double(o);
		if (d == 0)
			return json_object_new_double(vh_below(2) ? 0.0 : -0.0);
		return json_object_new_double(d);
	}
	case json_type_boolean: return json_object_new_boolean(json_object_get_boolean(o));
	case json_type_string: return json_object_new_string_len(json_object_get_string(o), json_object_get_string_len(o));
	case json_type_array:
	{
		json_object *a = json_object_new_array();
		for (size_t i = 0; i < json_object_array_length(o); i++)
			json_object_array_add(a, twin(json_object_array_get_idx(o, i)));
		return a;
	}
	case json_type_object:
	{
		json_object *n = json_object_new_object();
		/* reversed member order */
		const char *ks[64];
		json_object *vs[64];
		int c = 0;
		json_object_object_foreach(o, k, v)
		{
			if (c < 64)
			{
				ks[c] = k;
				vs[c] = v;
				c++;
			}
		}
		for (int i = c - 1; i >= 0; i--)
			json_object_object_add(n, ks[i], twin(vs[i]));
		return n;
	}
	default: return NULL;
	}
}
/* a structurally equal value reached through a DIFFERENT HISTORY: strings created with other contents and then set
 * (moved to a separate buffer, shrunk back, emptied and refilled), objects that once held many more members (table grown,
 * tombstones left) or had members deleted and re-added, arrays that were longer / built by insert and put and then
 * trimmed or shrunk, numbers and booleans reached by set / increment */
json_object *c09_twin_h(json_object *o);
static json_object *twin_h(json_object *o) { return c09_twin_h(o); }
json_object *c09_twin_h(json_object *o)
{
	if (!o)
		return NULL;
	switch (json_object_get_type(o))
	{
	case json_type_int:
	{
		int64_t s = json_object_get_int64(o);
		uint64_t u = json_object_get_uint64(o);
		json_object *n = json_object_new_int64((int64_t)vh_below(100) - 50);
		if (s < 0 || u <= (uint64_t)INT64_MAX)
		{
			if (vh_below(2))
				json_object_set_int64(n, s);
			else
			{
				json_object_set_int64(n, s / 2);
				json_object_int_inc(n, s - s / 2);
			}
		}
		else if (vh_below(2))
			json_object_set_uint64(n, u);
		else
		{
			json_object_set_int64(n, INT64_MAX);
			json_object_int_inc(n, (int64_t)(u - (uint64_t)INT64_MAX));
		}
		return n;
	}
	case json_type_double:
	{
		double d = json_object_get_double(o);
		json_object *n;
		if (d == 0 && vh_below(2))
			/* the zero of the other sign, with retained text, then set: same magnitude, another value */
			n = signbit(d) ? json_object_new_double_s(0.0, "0.0") : json_object_new_double_s(-0.0, "-0.0");
		else
			n = vh_below(2) ? json_object_new_double(7.25) : json_object_new_double_s(7.25, "7.250");
		json_object_set_double(n, d);
		return n;
	}
	case json_type_boolean:
	{
		json_object *n = json_object_new_boolean(!json_object_get_boolean(o));
		json_object_set_boolean(n, json_object_get_boolean(o));
		return n;
	}
	case json_type_string:
	{
		const char *t = json_object_get_string(o);
		int len = json_object_get_string_len(o);
		static const char fill[] = "a considerably longer string than anything the generator makes: it forces a separate buffer";
		json_object *n;
		switch (vh_below(4))
		{
		case 0: /* grown into a separate buffer */
			n = json_object_new_string("");
			json_object_set_string_len(n, fill, (int)sizeof fill - 1);
			json_object_set_string_len(n, t, len);
			break;
		case 1: /* created long, shrunk in place */
			n = json_object_new_string(fill);
			json_object_set_string_len(n, t, len);
			break;
		case 2: /* grown, emptied, refilled */
			n = json_object_new_string("x");
			json_object_set_string_len(n, fill, 40);
			json_object_set_string(n, "");
			json_object_set_string_len(n, t, len);
			break;
		default: /* grown to exactly its final length from a shorter one */
			n = json_object_new_string_len(t, len > 0 ? len - 1 : 0);
			json_object_set_string_len(n, t, len);
			break;
		}
		return n;
	}
	case json_type_array:
	{
		size_t len = json_object_array_length(o);
		json_object *a = vh_below(2) ? json_object_new_array() : json_object_new_array_ext(1 + (int)vh_below(40));
		uint32_t how = vh_below(4);
		if (how == 0)
		{
			/* junk in front and behind, then trimmed */
			int pre = (int)vh_below(4), post = (int)vh_below(40);
			for (int i = 0; i < pre; i++)
				json_object_array_add(a, json_object_new_int(i));
			for (size_t i = 0; i < len; i++)
				json_object_array_add(a, twin_h(json_object_array_get_idx(o, i)));
			for (int i = 0; i < post; i++)
				json_object_array_add(a, json_object_new_string("junk"));
			if (post)
				json_object_array_del_idx(a, (size_t)pre + len, (size_t)post);
			if (pre)
				json_object_array_del_idx(a, 0, (size_t)pre);
		}
		else if (how == 1)
		{
			/* built back to front by insertion at 0 */
			for (size_t i = len; i > 0; i--)
				json_object_array_insert_idx(a, 0, twin_h(json_object_array_get_idx(o, i - 1)));
		}
		else if (how == 2)
		{
			/* last element put first (gap of nulls), then the gap overwritten */
			for (size_t i = len; i > 0; i--)
				json_object_array_put_idx(a, i - 1, twin_h(json_object_array_get_idx(o, i - 1)));
		}
		else
		{
			for (size_t i = 0; i < len; i++)
				json_object_array_add(a, twin_h(json_object_array_get_idx(o, i)));
			json_object_array_shrink(a, (int)vh_below(3));
		}
		return a;
	}
	case json_type_object:
	{
		json_object *n = json_object_new_object();
		const char *ks[64];
		json_object *vs[64];
		int c = 0;
		json_object_object_foreach(o, k, v)
		{
			if (c < 64)
			{
				ks[c] = k;
				vs[c] = v;
				c++;
			}
		}
		uint32_t how = vh_below(3);
		int junk = how == 0 ? 12 + (int)vh_below(40) : (int)vh_below(4);
		char jk[16];
		/* junk members first (the table grows past its initial size when there are 12 or more), or interleaved */
		for (int i = 0; i < junk; i++)
		{
			snprintf(jk, sizeof jk, "junk%d", i);
			json_object_object_add(n, jk, json_object_new_int(i));
			if (how == 2 && i < c)
				json_object_object_add(n, ks[i], json_object_new_string("to be replaced"));
		}
		for (int i = 0; i < c; i++)
			json_object_object_add(n, ks[(i + (int)how) % c], twin_h(vs[(i + (int)how) % c]));
		for (int i = 0; i < junk; i++)
		{
			snprintf(jk, sizeof jk, "junk%d", i);
			json_object_object_del(n, jk);
		}
		if (vh_below(2))
		{
			/* a random program of adds and deletes over a small pool of other names (slots reused, tombstones coming and
			 * going, the newest entry deleted again and again), then every real member stored once more under its own
			 * name: a replacement in place - unless the table has lost track of it */
			int usewrap = nwrap && vh_below(2);
			for (int i = 0; i < 60; i++)
			{
				if (usewrap)
					snprintf(jk, sizeof jk, "%s", wrapkeys[vh_below((uint32_t)nwrap)]);
				else
					snprintf(jk, sizeof jk, "p%u", vh_below(10));
				int real = 0;
				for (int q = 0; q < c; q++)
					if (!strcmp(ks[q], jk))
						real = 1;
				if (real)
					continue;
				if (vh_below(2))
					json_object_object_add(n, jk, json_object_new_int(i));
				else
					json_object_object_del(n, jk);
			}
			for (int i = 0; i < 10; i++)
			{
				snprintf(jk, sizeof jk, "p%d", i);
				json_object_object_del(n, jk);
			}
			for (int i = 0; i < nwrap; i++)
			{
				int real = 0;
				for (int q = 0; q < c; q++)
					if (!strcmp(ks[q], wrapkeys[i]))
						real = 1;
				if (!real)
					json_object_object_del(n, wrapkeys[i]);
			}
			for (int i = 0; i < c; i++)
			{
				json_object *cur = NULL;
				if (json_object_object_get_ex(n, ks[i], &cur))
					json_object_object_add(n, ks[i], json_object_get(cur));
			}
		}
		if (how == 1 && c > 0)
		{
			/* delete one real member and add it again */
			json_object *keep = json_object_get(json_object_object_get(n, ks[0]));
			json_object_object_del(n, ks[0]);
			json_object_object_add(n, ks[0], keep);
		}
		return n;
	}
	default: return NULL;
	}
}
/* change one thing somewhere inside o (o is a container or a mutable scalar); returns 1 if changed.
 * (values carry a running number: a value may be mutated more than once, every mutation must take effect) */
static int mut_ctr = 1000;
static json_object *changed_string(void)
{
	char b[32];
	snprintf(b, sizeof b, "changed%d", mut_ctr++);
	return json_object_new_string(b);
}
static int mutate(json_object *o)
{
	if (!o)
		return 0;
	json_type t = json_object_get_type(o);
	if (t == json_type_object)
	{
		if (json_object_object_length(o) > 0 && vh_below(2))
		{
			int j = (int)vh_below((uint32_t)json_object_object_length(o)), i = 0;
			json_object_object_foreach(o, k, v)
			{
				if (i++ == j)
				{
					if (v && vh_below(2) && mutate(v))
						return 1;
					if (vh_below(2))
						json_object_object_del(o, k);
					else
						json_object_object_add(o, k, changed_string());
					return 1;
				}
			}
		}
		json_object_object_add(o, "added", json_object_new_int(mut_ctr++));
		return 1;
	}
	if (t == json_type_array)
	{
		size_t n = json_object_array_length(o);
		if (n && vh_below(2))
		{
			json_object *e = json_object_array_get_idx(o, vh_below((uint32_t)n));
			if (e && mutate(e))
				return 1;
			json_object_array_put_idx(o, vh_below((uint32_t)n), changed_string());
			return 1;
		}
		json_object_array_add(o, json_object_new_int(1));
		return 1;
	}
	if (t == json_type_int)
		return json_object_set_int64(o, json_object_get_int64(o) == 77 ? 78 : 77);
	if (t == json_type_double)
		return json_object_set_double(o, json_object_get_double(o) == 77.5 ? 78.5 : 77.5);
	if (t == json_type_string)
		return json_object_set_string(o, strcmp(json_object_get_string(o), "changed-string-longer-than-inline") ? "changed-string-longer-than-inline"
		                                                                                                   : "changed again");
	if (t == json_type_boolean)
		return json_object_set_boolean(o, !json_object_get_boolean(o));
	return 0;
}
static void *ptrs[2][8192];
static int np[2];
static void collect(json_object *o, int w)
{
	if (!o)
		return;
	if (np[w] < 8192)
		ptrs[w][np[w]++] = o;
	if (json_object_get_type(o) == json_type_object)
	{
		json_object_object_foreach(o, k, v)
		{
			(void)k;
			collect(v, w);
		}
	}
	else if (json_object_get_type(o) == json_type_array)
		for (size_t i = 0; i < json_object_array_length(o); i++)
			collect(json_object_array_get_idx(o, i), w);
}
static int disjoint(json_object *a, json_object *b)
{
	np[0] = np[1] = 0;
	collect(a, 0);
	collect(b, 1);
	for (int i = 0; i < np[0]; i++)
		for (int j = 0; j < np[1]; j++)
			if (ptrs[0][i] == ptrs[1][j])
				return 0;
	return 1;
}

static void ev_eq(json_object *a, json_object *b)
{
	ev_begin("eq");
	dump_value("a", a);
	dump_value("b", b);
	ev_bool("ab", json_object_equal(a, b));
	ev_bool("ba", json_object_equal(b, a));
	ev_bool("aa", json_object_equal(a, a));
	ev_end();
}
static void ev_copy(json_object *src)
{
	json_object *copy = NULL;
	ev_begin("copy");
	dump_value("src", src);
	int rc = src ? json_object_deep_copy(src, &copy, NULL) : -1;
	ev_int("rc", rc);
	dump_value("copy", copy);
	ev_bool("eq", json_object_equal(src, copy) && json_object_equal(copy, src));
	ev_bool("disjoint", disjoint(src, copy));
	int same = 1;
	for (int f = 0; f < 64 && rc == 0; f++)
	{
		int flags = (f & 1 ? JSON_C_TO_STRING_SPACED : 0) | (f & 2 ? JSON_C_TO_STRING_PRETTY : 0) | (f & 4 ? JSON_C_TO_STRING_NOZERO : 0) |
		            (f & 8 ? JSON_C_TO_STRING_PRETTY_TAB : 0) | (f & 16 ? JSON_C_TO_STRING_NOSLASHESCAPE : 0) | (f & 32 ? JSON_C_TO_STRING_COLOR : 0);
		size_t la = 0, lb = 0;
		const char *ta = json_object_to_json_string_length(src, flags, &la);
		char *keep = ta ? strndup(ta, la) : NULL;
		const char *tb = json_object_to_json_string_length(copy, flags, &lb);
		if (!keep || !tb || la != lb || memcmp(keep, tb, la))
			same = 0;
		free(keep);
	}
	ev_bool("ser_same", same);
	/* mutate one side, the other must not change; then destroy the mutated side */
	int which = (int)vh_below(2);
	int changed = rc == 0 && mutate(which ? copy : src);
	ev_int("mutated", which);
	ev_bool("changed", changed);
	dump_value("src_after", src);
	dump_value("copy_after", copy);
	ev_end();
	if (copy)
		json_object_put(copy);
}

/* a custom serializer that needs no user data, registered on a random node of the tree: a deep copy made with the default
 * shallow copy "copies over the serializer function" (json_object.h), so source and copy still print alike */
static int c09_stateless_ser(struct json_object *jso, struct printbuf *pb, int level, int flags)
{
	(void)jso;
	(void)level;
	(void)flags;
	return printbuf_memappend(pb, "\"custom\"", 8) < 0 ? -1 : 8;
}
static void set_stateless(json_object *o)
{
	for (int hops = (int)vh_below(3); hops > 0 && o; hops--)
	{
		json_object *next = NULL;
		if (json_object_get_type(o) == json_type_array && json_object_array_length(o) > 0)
			next = json_object_array_get_idx(o, vh_below((uint32_t)json_object_array_length(o)));
		else if (json_object_get_type(o) == json_type_object && json_object_object_length(o) > 0)
		{
			int j = (int)vh_below((uint32_t)json_object_object_length(o)), i = 0;
			json_object_object_foreach(o, k, v)
			{
				(void)k;
				if (i++ == j)
					next = v;
			}
		}
		if (!next)
			break;
		o = next;
	}
	/* (a double made from a text keeps that text in its user data: leave those alone) */
	if (o && !(json_object_get_type(o) == json_type_double && json_object_get_userdata(o)))
		json_object_set_serializer(o, c09_stateless_ser, NULL, NULL);
}
/* an object whose member names were handed over as "constant" keys (JSON_C_OBJECT_ADD_CONSTANT_KEY: not copied by the object;
 * the caller keeps the memory alive as long as THAT object) is deep-copied; then the source goes away and the name memory is
 * reused: the copy is a tree of its own - names included - and stays what it was */
static void ev_constkey_copy(void)
{
	static char names[3][8];
	strcpy(names[0], "alpha");
	strcpy(names[1], "beta");
	strcpy(names[2], "gamma");
	json_object *src = json_object_new_object(), *inner = json_object_new_object(), *copy = NULL;
	json_object_object_add_ex(inner, names[2], json_object_new_int(3), JSON_C_OBJECT_ADD_CONSTANT_KEY | JSON_C_OBJECT_ADD_KEY_IS_NEW);
	json_object_object_add_ex(src, names[0], json_object_new_string("v"), JSON_C_OBJECT_ADD_CONSTANT_KEY);
	json_object_object_add_ex(src, names[1], inner, JSON_C_OBJECT_ADD_CONSTANT_KEY);
	json_object_object_add(src, "plain", NULL);
	ev_begin("ckcopy");
	dump_value("src", src);
	int rc = json_object_deep_copy(src, &copy, NULL);
	ev_int("rc", rc);
	dump_value("copy", copy);
	json_object_put(src);
	strcpy(names[0], "ALPHA");
	strcpy(names[1], "BETA");
	strcpy(names[2], "GAMMA");
	dump_value("copy_after", copy);
	json_object *got = NULL;
	ev_bool("lookup", copy && json_object_object_get_ex(copy, "alpha", &got) && json_object_object_get_ex(copy, "beta", &got));
	ev_end();
	if (copy)
		json_object_put(copy);
}
static int drive(int start, int nexec)
{
	const char *seed = getenv("VERIF_SEED");
	uint64_t s0 = seed ? strtoull(seed, 0, 10) : 1;
	dump_bits = 1;
	find_wrapkeys();
	for (int x = start; x < nexec; x++)
	{
		vh_srand(s0 * 1000003ull + (uint64_t)x);
		ev_begin("new");
		ev_end();
		/* the two sides of a comparison may have been created under different global string hashes (each table keeps
		 * the hash function it was created with) */
		json_global_set_string_hash(vh_below(4) == 0 ? JSON_C_STR_HASH_PERLLIKE : JSON_C_STR_HASH_DFLT);
		json_object *a = gen(3), *b = gen(3);
		ev_eq(a, b);
		json_global_set_string_hash(vh_below(4) == 0 ? JSON_C_STR_HASH_PERLLIKE : JSON_C_STR_HASH_DFLT);
		json_object *t = twin(a);
		ev_eq(a, t);
		json_object *t2 = twin(t);
		ev_eq(t, t2);
		if (t2 && mutate(t2))
			ev_eq(a, t2);
		ev_copy(a);
		/* the same value reached through another history */
		json_object *th = twin_h(a);
		ev_eq(a, th);
		ev_eq(th, t);
		ev_copy(th);
		json_object_put(th);
		if (x % 16 == 0)
			ev_constkey_copy();
		json_object *c = gen(2);
		if (c && vh_below(3) == 0)
			set_stateless(c);
		ev_copy(c);
		json_object_put(a);
		json_object_put(b);
		json_object_put(t);
		json_object_put(t2);
		json_object_put(c);
	}
	return 0;
}
int c09_main(int argc, char **argv)
{
	if (argc >= 3 && !strcmp(argv[0], "drive"))
		return drive(atoi(argv[1]), atoi(argv[2]));
	return 2;
}
