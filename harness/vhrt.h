/* harness runtime: allocator / io / locale interposition control + ndjson event writer */
#ifndef VHRT_H
#define VHRT_H
#include <stddef.h>
#include <stdint.h>
#include <stdio.h>
#include <locale.h>
#include <sys/types.h>

/* ---- allocator ---- */
extern long vh_live;        /* live blocks allocated by json-c through the wrappers */
extern long vh_nalloc;      /* number of allocation requests since vh_alloc_arm() */
extern long vh_fail_at;     /* index of the request to fail (-1 = none) */
extern long vh_fail_at2;    /* second failing index (-1 = none) */
extern const char *vh_fail_site; /* __func__ of the failed request */
extern long vh_peak_live;
void vh_alloc_arm(long fail_at);      /* reset counter, set failing index */
void vh_alloc_disarm(void);
/* observe frees of registered pointers (node destruction) */
typedef void (*vh_free_observer)(void *p);
extern vh_free_observer vh_on_free;
/* ---- io ---- */
#define VH_IO_MAX 4096
extern int vh_io_fd;              /* fd under script (-1 none) */
extern int vh_io_n;               /* script length */
extern int vh_io_pos;             /* next script entry */
extern int vh_io_script[VH_IO_MAX]; /* >0: transfer at most that many bytes; <0: fail with errno=-v ; 0: pass through */
extern int vh_io_calls;
extern int vh_io_errs;             /* failures actually returned to the library since the script was installed */
/* ---- locale ---- */
extern int vh_loc_dup_fail, vh_loc_new_fail; /* fail the next dup/new */
extern long vh_loc_live;          /* locale objects created by json-c and not freed */
extern long vh_loc_calls;
extern int vh_loc_used_c;         /* a uselocale(non-NULL) happened */
extern char vh_loc_log[64];       /* q use(NULL) u use(obj) d/D dup ok/fail n/N new ok/fail f free */
extern int vh_loc_logn;

/* ---- PRNG ---- */
uint64_t vh_rand(void);
void vh_srand(uint64_t s);
uint32_t vh_below(uint32_t n);

/* ---- ndjson writer ---- */
void ev_begin(const char *name);           /* {"e":"name" */
void ev_int(const char *k, long long v);   /* must fit 31 bits, aborts otherwise */
void ev_bool(const char *k, int v);
void ev_str(const char *k, const char *v); /* plain ascii string */
void ev_bytes(const char *k, const void *p, size_t n); /* array of ints 0..255 */
void ev_ints(const char *k, const long long *v, size_t n);
void ev_raw(const char *k, const char *json);
void ev_u64limbs(const char *k, uint64_t v); /* [l0,l1,l2,l3] 16-bit limbs, little endian */
void ev_i64(const char *k, int64_t v);       /* {"neg":bool,"m":[limbs]} */
void ev_u64(const char *k, uint64_t v);
void ev_dbl(const char *k, double d);        /* bits as limbs */
void ev_digits(const char *k, const char *dec); /* array of digit ints from a decimal string */
void ev_open_arr(const char *k);
void ev_close_arr(void);
void ev_open_obj(const char *k);
void ev_close_obj(void);
void ev_end(void);
extern FILE *ev_out;
extern long ev_count;
#endif
