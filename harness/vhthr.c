/* C18 threaded-build harness (own binary, linked against json-c configured with
 * ENABLE_THREADING=ON; the same source is also linked against a non-threaded build by the
 * development self-test to show that lost updates are detected).
 *   vhthr counter T M K     T threads x M balanced get/put on K shared nodes
 *   vhthr seed T            T threads released by a barrier into their first lh_get_hash; the seed
 *                           candidate of each thread is distinct (OVERRIDE_GET_RANDOM_SEED)
 *   vhthr disjoint T M      T threads each churning a private tree
 *   vhthr lastrefs T R      R rounds: a node with exactly T references, one per thread, all released at the same
 *                           instant (nobody else holds one): destroyed exactly once, exactly one put reports 1 */
#define _GNU_SOURCE
#include "vhrt.h"
#include "json.h"
#include "linkhash.h"
#include <pthread.h>
#include <sched.h>
#include <stdlib.h>
#include <string.h>
#include <unistd.h>

static pthread_barrier_t bar;
static int T, M, K;
static json_object **shared;
static volatile int destroyed[64];
static void on_destroy(json_object *o, void *ud)
{
	(void)o;
	__sync_add_and_fetch(&destroyed[(intptr_t)ud], 1);
}
static __thread int my_tid = 0;
/* the first `sentinel_draws` candidates drawn in the process are -1, the value json-c uses for "no seed chosen yet":
 * a draw of the sentinel must be repeated, never published (else the seed would be chosen a second time later) */
static int sentinel_draws;
int vh_seed_candidate(void)
{
	if (sentinel_draws > 0 && __sync_fetch_and_sub(&sentinel_draws, 1) > 0)
		return -1;
	/* distinct per thread; dawdle so that several threads are inside the window together */
	for (int i = 0; i < 50; i++)
		sched_yield();
	return 1000 + my_tid;
}
typedef struct
{
	int tid;
	long gets, puts;
	unsigned long early, late;
} targ;
static void *counter_thread(void *a)
{
	targ *t = a;
	my_tid = t->tid;
	uint64_t x = 88172645463325252ull ^ ((uint64_t)t->tid << 32);
	json_object *myarr = json_object_new_array(), *myobj = json_object_new_object();
	pthread_barrier_wait(&bar);
	for (int i = 0; i < M; i++)
	{
		x ^= x << 13;
		x ^= x >> 7;
		x ^= x << 17;
		json_object *n = shared[x % (uint64_t)K];
		json_object_get(n);
		t->gets++;
		if ((x >> 20) & 1)
			sched_yield();
		/* the thread's reference is released through one of the doors that release references: json_object_put itself,
		 * or a container of the thread's own that was given the reference and drops it again (element deleted or
		 * overwritten, member deleted or replaced).  Never the last reference: the main thread holds one */
		switch ((x >> 24) % 6)
		{
		case 0:
			json_object_array_add(myarr, n);
			json_object_array_del_idx(myarr, 0, 1);
			break;
		case 1:
			json_object_array_put_idx(myarr, 0, n);
			json_object_array_put_idx(myarr, 0, NULL);
			json_object_array_del_idx(myarr, 0, 1);
			break;
		case 2:
			json_object_object_add(myobj, "k", n);
			json_object_object_del(myobj, "k");
			break;
		case 3:
			json_object_object_add(myobj, "r", n);
			json_object_object_add(myobj, "r", NULL);
			break;
		default: json_object_put(n); break;
		}
		t->puts++;
	}
	json_object_put(myarr);
	json_object_put(myobj);
	return NULL;
}
static int run_counter(void)
{
	shared = calloc((size_t)K, sizeof *shared);
	for (int k = 0; k < K; k++)
	{
		shared[k] = k & 1 ? json_object_new_object() : json_object_new_string("shared");
		json_object_set_userdata(shared[k], (void *)(intptr_t)k, on_destroy);
	}
	/* (the hash seed is fixed before the threads exist: this run is about the counts; the first-use race has its own run) */
	json_object *warm = json_object_new_object();
	json_object_object_add(warm, "w", NULL);
	json_object_put(warm);
	pthread_t th[64];
	targ ta[64];
	pthread_barrier_init(&bar, NULL, (unsigned)T);
	for (int i = 0; i < T; i++)
	{
		ta[i].tid = i + 1;
		ta[i].gets = ta[i].puts = 0;
		pthread_create(&th[i], NULL, counter_thread, &ta[i]);
	}
	for (int i = 0; i < T; i++)
		pthread_join(th[i], NULL);
	long long early[64], fin[64], dest[64], gets[64], puts[64];
	for (int k = 0; k < K; k++)
		early[k] = destroyed[k];
	for (int k = 0; k < K; k++)
		fin[k] = early[k] ? -1 : json_object_put(shared[k]); /* the main thread's own reference */
	for (int k = 0; k < K; k++)
		dest[k] = destroyed[k];
	for (int i = 0; i < T; i++)
	{
		gets[i] = ta[i].gets > 2000000000 ? 2000000000 : ta[i].gets;
		puts[i] = ta[i].puts > 2000000000 ? 2000000000 : ta[i].puts;
	}
	ev_begin("counter");
	ev_int("threads", T);
	ev_int("ops", M);
	ev_ints("gets", gets, (size_t)T);
	ev_ints("puts", puts, (size_t)T);
	ev_ints("destroyed_before_final", early, (size_t)K);
	ev_ints("final_put", fin, (size_t)K);
	ev_ints("destroyed", dest, (size_t)K);
	ev_end();
	return 0;
}
/* ---- lastrefs: the LAST references of a node released concurrently */
static json_object *round_node;
static int round_go, round_done;
static volatile long freed_reports, destroyed_total, stray_destroy;
static void on_destroy_round(json_object *o, void *ud)
{
	(void)o;
	(void)ud;
	__sync_add_and_fetch(&destroyed_total, 1);
}
static int R;
static void *lastrefs_thread(void *a)
{
	targ *t = a;
	my_tid = t->tid;
	for (int r = 1; r <= R; r++)
	{
		while (__atomic_load_n(&round_go, __ATOMIC_ACQUIRE) < r)
			; /* spin: released together (acquire/release pairs: the harness itself must be race free) */
		json_object *n = __atomic_load_n(&round_node, __ATOMIC_ACQUIRE);
		if (json_object_put(n) == 1)
			__sync_add_and_fetch(&freed_reports, 1);
		__atomic_add_fetch(&round_done, 1, __ATOMIC_ACQ_REL);
	}
	return NULL;
}
static int run_lastrefs(void)
{
	pthread_t th[64];
	targ ta[64];
	for (int i = 0; i < T; i++)
	{
		ta[i].tid = i + 1;
		pthread_create(&th[i], NULL, lastrefs_thread, &ta[i]);
	}
	long bad_rounds = 0;
	for (int r = 1; r <= R; r++)
	{
		json_object *n = r & 1 ? json_object_new_object() : json_object_new_string("last references");
		json_object_set_userdata(n, NULL, on_destroy_round);
		for (int i = 1; i < T; i++)
			json_object_get(n); /* T references in all: the creator's is handed to thread 1 */
		long d0 = destroyed_total;
		__atomic_store_n(&round_node, n, __ATOMIC_RELEASE);
		__atomic_store_n(&round_done, 0, __ATOMIC_RELEASE);
		__atomic_store_n(&round_go, r, __ATOMIC_RELEASE);
		while (__atomic_load_n(&round_done, __ATOMIC_ACQUIRE) < T)
			;
		if (destroyed_total - d0 != 1)
			bad_rounds++;
	}
	for (int i = 0; i < T; i++)
		pthread_join(th[i], NULL);
	ev_begin("lastrefs");
	ev_int("threads", T);
	ev_int("rounds", R);
	ev_int("destroyed", destroyed_total);
	ev_int("freed_reports", freed_reports);
	ev_int("bad_rounds", bad_rounds);
	ev_end();
	return 0;
}

/* ---- highcount: a node shared so widely that its count is beyond 2^31 (counts are 32-bit unsigned; the harness sets
 * the field instead of performing two thousand million gets).  A release that is not the last one neither reports
 * 'freed' nor destroys, whatever the magnitude of the count; two threads hammer get/put around that magnitude. */
#include "json_object_private.h"
static json_object *high_node;
static void *high_thread(void *a)
{
	(void)a;
	for (int i = 0; i < 20000; i++)
	{
		json_object_get(high_node);
		if (json_object_put(high_node) == 1)
			__sync_add_and_fetch(&freed_reports, 1);
	}
	return NULL;
}
static int run_highcount(void)
{
	static const uint32_t bases[] = {0x7ffffff0u, 0x7fffffffu, 0x80000000u, 0x80000001u, 0xc0000000u, 0xfffffff0u};
	long long early[8], reports[8], after[8];
	for (int b = 0; b < 6; b++)
	{
		destroyed_total = 0;
		freed_reports = 0;
		json_object *n = json_object_new_object();
		json_object_object_add(n, "k", json_object_new_int(1));
		json_object_set_userdata(n, NULL, on_destroy_round);
		((struct json_object *)n)->_ref_count = bases[b]; /* that many holders */
		high_node = n;
		long rep = 0;
		for (int i = 0; i < 3; i++)
			if (json_object_put(n) == 1) /* three of the holders let go */
				rep++;
		pthread_t th[2];
		for (int i = 0; i < 2; i++)
			pthread_create(&th[i], NULL, high_thread, NULL);
		for (int i = 0; i < 2; i++)
			pthread_join(th[i], NULL);
		early[b] = destroyed_total;
		reports[b] = rep + freed_reports;
		/* everybody else lets go: the harness sets the count to 1 and releases the last reference */
		if (!destroyed_total)
		{
			((struct json_object *)n)->_ref_count = 1;
			json_object_put(n);
		}
		after[b] = destroyed_total;
	}
	ev_begin("highcount");
	ev_ints("destroyed_early", early, 6);
	ev_ints("early_freed_reports", reports, 6);
	ev_ints("destroyed", after, 6);
	ev_end();
	return 0;
}

static void *seed_thread(void *a)
{
	targ *t = a;
	my_tid = t->tid;
	struct lh_table *tab = lh_kchar_table_new(4, NULL);
	pthread_barrier_wait(&bar);
	t->early = lh_get_hash(tab, "the same key in every thread");
	for (int i = 0; i < 20; i++)
		sched_yield();
	t->late = lh_get_hash(tab, "the same key in every thread");
	lh_table_free(tab);
	return NULL;
}
static int run_seed(void)
{
	pthread_t th[64];
	targ ta[64];
	pthread_barrier_init(&bar, NULL, (unsigned)T);
	for (int i = 0; i < T; i++)
	{
		ta[i].tid = i + 1;
		pthread_create(&th[i], NULL, seed_thread, &ta[i]);
	}
	for (int i = 0; i < T; i++)
		pthread_join(th[i], NULL);
	long long e[64], l[64];
	int same = 1;
	for (int i = 0; i < T; i++)
	{
		e[i] = (long long)(ta[i].early & 0x3fffffff);
		l[i] = (long long)(ta[i].late & 0x3fffffff);
		if (ta[i].early != ta[0].early || ta[i].late != ta[0].early)
			same = 0;
	}
	/* and once more from the main thread, later */
	struct lh_table *tab = lh_kchar_table_new(4, NULL);
	unsigned long mainh = lh_get_hash(tab, "the same key in every thread");
	lh_table_free(tab);
	ev_begin("seed");
	ev_int("threads", T);
	ev_ints("early", e, (size_t)T);
	ev_ints("late", l, (size_t)T);
	ev_int("main", (long long)(mainh & 0x3fffffff));
	ev_bool("all_same_full_width", same && mainh == ta[0].early);
	ev_end();
	return 0;
}
static void *disjoint_thread(void *a)
{
	targ *t = a;
	my_tid = t->tid;
	uint64_t x = 0x9E3779B97F4A7C15ull * (uint64_t)t->tid;
	json_object *o = json_object_new_object();
	pthread_barrier_wait(&bar);
	long sum = 0;
	for (int i = 0; i < M; i++)
	{
		x ^= x << 13;
		x ^= x >> 7;
		x ^= x << 17;
		char k[16];
		snprintf(k, sizeof k, "k%u", (unsigned)(x % 40));
		if ((x >> 8) % 3)
			json_object_object_add(o, k, json_object_new_int(i));
		else
			json_object_object_del(o, k);
	}
	/* the private tree must be internally consistent: every listed key is found, the length matches */
	int n = 0, ok = 1;
	json_object_object_foreach(o, key, val)
	{
		json_object *f = NULL;
		if (!json_object_object_get_ex(o, key, &f) || f != val)
			ok = 0;
		n++;
		sum += json_object_get_int(val);
	}
	if (n != json_object_object_length(o))
		ok = 0;
	const char *s = json_object_to_json_string(o);
	json_object *back = json_tokener_parse(s);
	if (!back || !json_object_equal(o, back))
		ok = 0;
	if (back)
		json_object_put(back);
	t->gets = ok;
	t->puts = json_object_put(o);
	return NULL;
}
static int run_disjoint(void)
{
	pthread_t th[64];
	targ ta[64];
	pthread_barrier_init(&bar, NULL, (unsigned)T);
	for (int i = 0; i < T; i++)
	{
		ta[i].tid = i + 1;
		pthread_create(&th[i], NULL, disjoint_thread, &ta[i]);
	}
	for (int i = 0; i < T; i++)
		pthread_join(th[i], NULL);
	long long ok[64], freed[64];
	for (int i = 0; i < T; i++)
	{
		ok[i] = ta[i].gets;
		freed[i] = ta[i].puts;
	}
	ev_begin("disjoint");
	ev_int("threads", T);
	ev_ints("consistent", ok, (size_t)T);
	ev_ints("freed", freed, (size_t)T);
	ev_end();
	return 0;
}
int main(int argc, char **argv)
{
	ev_out = stdout;
	if (argc >= 5 && !strcmp(argv[1], "counter"))
	{
		T = atoi(argv[2]);
		M = atoi(argv[3]);
		K = atoi(argv[4]);
		return run_counter();
	}
	if (argc >= 4 && !strcmp(argv[1], "lastrefs"))
	{
		T = atoi(argv[2]);
		R = atoi(argv[3]);
		return run_lastrefs();
	}
	if (argc >= 2 && !strcmp(argv[1], "highcount"))
		return run_highcount();
	if (argc >= 3 && !strcmp(argv[1], "seed"))
	{
		T = atoi(argv[2]);
		sentinel_draws = argc >= 4 ? atoi(argv[3]) : 0;
		return run_seed();
	}
	if (argc >= 4 && !strcmp(argv[1], "disjoint"))
	{
		T = atoi(argv[2]);
		M = atoi(argv[3]);
		return run_disjoint();
	}
	return 2;
}
