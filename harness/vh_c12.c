/* C12 JSON Pointer: trees with adversarial member names; every pointer string of a small space
 * (enum) and generated valid / malformed / dangling pointers (drive); get, getf, set, setf.
 * Events: "tree" (the document with node ids), "get", "set" (with the document afterwards). */
#include "vhrt.h"
#include "json.h"
#include "json_pointer.h"
#include <errno.h>
#include <stdlib.h>
#include <string.h>

#define MAXN 400
typedef struct
{
	char kind; /* o a l */
	int nk;
	const char *keys[128];
	int kids[128]; /* ids, 0 = null */
} spec_t;
static spec_t S[MAXN + 1];
static int nspec;
static json_object *node[MAXN + 1];
static json_object *root;
static json_object *value; /* the node being set: id 99 */
static char keystore[MAXN * 24][12];
static int nkeystore;

static json_object *build(int id)
{
	if (id == 0)
		return NULL;
	spec_t *s = &S[id];
	json_object *o;
	if (s->kind == 'l')
		o = json_object_new_int(id);
	else if (s->kind == 'a')
	{
		o = json_object_new_array();
		for (int i = 0; i < s->nk; i++)
			json_object_array_add(o, build(s->kids[i]));
	}
	else
	{
		o = json_object_new_object();
		for (int i = 0; i < s->nk; i++)
			json_object_object_add(o, s->keys[i], build(s->kids[i]));
	}
	node[id] = o;
	return o;
}
static int id_of(json_object *o)
{
	if (!o)
		return 0;
	if (o == value)
		return 99;
	for (int i = 1; i <= nspec; i++)
		if (node[i] == o)
			return i;
	return -1;
}
static void dump_nodes(const char *key, json_object *o)
{
	/* reachable nodes in pre-order, each with its id */
	static json_object *stack[4096];
	int sp = 0;
	ev_open_arr(key);
	if (o)
		stack[sp++] = o;
	while (sp)
	{
		json_object *n = stack[--sp];
		ev_open_obj(NULL);
		ev_int("id", id_of(n));
		json_type t = json_object_get_type(n);
		ev_str("kind", t == json_type_object ? "o" : t == json_type_array ? "a" : "l");
		ev_open_arr("keys");
		if (t == json_type_object)
		{
			json_object_object_foreach(n, k, v)
			{
				(void)v;
				ev_bytes(NULL, k, strlen(k));
			}
		}
		ev_close_arr();
		long long kids[256];
		json_object *kp[256];
		int nk = 0;
		if (t == json_type_object)
		{
			json_object_object_foreach(n, k, v)
			{
				(void)k;
				if (nk < 256)
				{
					kp[nk] = v;
					kids[nk] = id_of(v);
					nk++;
				}
			}
		}
		else if (t == json_type_array)
			for (size_t i = 0; i < json_object_array_length(n) && nk < 256; i++)
			{
				kp[nk] = json_object_array_get_idx(n, i);
				kids[nk] = id_of(kp[nk]);
				nk++;
			}
		ev_ints("kids", kids, (size_t)nk);
		ev_close_obj();
		for (int i = nk - 1; i >= 0; i--)
			if (kp[i] && sp < 4096)
				stack[sp++] = kp[i];
	}
	ev_close_arr();
}
static void fresh_tree(void)
{
	if (root)
		json_object_put(root);
	memset(node, 0, sizeof node);
	root = build(1);
}
static void emit_tree(void)
{
	ev_begin("tree");
	dump_nodes("nodes", root);
	ev_end();
}
static const char *errname(int e) { return e == ENOENT ? "ENOENT" : e == EINVAL ? "EINVAL" : e == 0 ? "0" : "other"; }

/* errno as some earlier library call (a saturating number conversion, a failed allocation) may have left it */
static int ambient_errno(void)
{
	static const int vals[] = {0, 0, ERANGE, ENOMEM, EINVAL, ENOENT, EDOM};
	return vals[vh_below(sizeof vals / sizeof *vals)];
}
static void do_get(const char *ptr, int f)
{
	json_object *res = (json_object *)(intptr_t)-1;
	errno = ambient_errno();
	int rc = f ? json_pointer_getf(root, &res, "%s", ptr) : json_pointer_get(root, ptr, &res);
	int e = errno;
	ev_begin("get");
	ev_bytes("ptr", ptr, strlen(ptr));
	ev_int("f", f);
	ev_int("ret", rc);
	ev_str("errno", rc ? errname(e) : "0");
	ev_int("node", rc == 0 ? (res == (json_object *)(intptr_t)-1 ? -2 : id_of(res)) : 0);
	ev_end();
}
static void do_set(const char *ptr, int f)
{
	/* on a fresh copy of the tree; value = a new leaf (id 99) */
	fresh_tree();
	emit_tree();
	value = json_object_new_int(99);
	json_object *r = root;
	errno = ambient_errno();
	int rc = f ? json_pointer_setf(&r, value, "%s", ptr) : json_pointer_set(&r, ptr, value);
	int e = errno;
	ev_begin("set");
	ev_bytes("ptr", ptr, strlen(ptr));
	ev_int("f", f);
	ev_int("ret", rc);
	ev_str("errno", rc ? errname(e) : "0");
	ev_bool("rootkept", r == root);
	dump_nodes("after", r);
	json_object *back = NULL;
	int same = rc == 0 && json_pointer_get(r, ptr, &back) == 0 && back == value;
	ev_bool("same", same);
	ev_end();
	root = r;
	if (rc != 0)
		json_object_put(value); /* a failed set leaves ownership with the caller */
	value = NULL;
}

/* the same set with the k-th allocation request of the call failing, k = 0, 1, ... until the call no longer reaches request k:
 * the call either completes as usual or fails, and then the document is what it was, the value is still the caller's
 * (and intact), and nothing the call allocated remains */
static void do_set_faulted(const char *ptr, int f)
{
	for (long k = 0; k < 16; k++)
	{
		fresh_tree();
		emit_tree();
		long live_a = vh_live;
		value = json_object_new_int(99);
		json_object *r = root;
		vh_alloc_arm(k);
		int rc = f ? json_pointer_setf(&r, value, "%s", ptr) : json_pointer_set(&r, ptr, value);
		int hit = vh_nalloc > k;
		const char *site = vh_fail_site;
		vh_alloc_disarm();
		if (!hit)
		{
			root = r;
			if (rc != 0)
				json_object_put(value);
			value = NULL;
			break;
		}
		ev_begin("fset");
		ev_bytes("ptr", ptr, strlen(ptr));
		ev_int("f", f);
		ev_int("k", k);
		ev_str("site", site ? site : "");
		ev_int("ret", rc);
		ev_bool("rootkept", r == root);
		dump_nodes("after", r);
		json_object *back = NULL;
		ev_bool("same", rc == 0 && json_pointer_get(r, ptr, &back) == 0 && back == value);
		root = r;
		int intact = 1;
		if (rc != 0)
		{
			intact = json_object_get_int(value) == 99;
			json_object_put(value);
		}
		value = NULL;
		ev_bool("intact", intact);
		ev_int("leak", rc != 0 ? (int)(vh_live - live_a) : 0);
		ev_end();
	}
}

/* ---- the fixed trees of MCPointer.tla */
static void spec_reset(void)
{
	memset(S, 0, sizeof S);
	nspec = 0;
}
static void mk(int id, char kind, int nk, const char **keys, const int *kids)
{
	S[id].kind = kind;
	S[id].nk = nk;
	for (int i = 0; i < nk; i++)
	{
		S[id].keys[i] = keys ? keys[i] : NULL;
		S[id].kids[i] = kids[i];
	}
	if (id > nspec)
		nspec = id;
}
static void tree_fixed(int which)
{
	spec_reset();
	switch (which)
	{
	case 0:
	{
		static const char *k1[] = {"", "a", "/", "~", "0", "01", "-", "a/b", "~1", "n", "~0"};
		static const int c1[] = {2, 3, 7, 8, 9, 10, 11, 12, 13, 0, 14};
		static const int c3[] = {4, 0, 5};
		static const char *k5[] = {"b"};
		static const int c5[] = {6};
		mk(1, 'o', 11, k1, c1);
		mk(3, 'a', 3, NULL, c3);
		mk(5, 'o', 1, k5, c5);
		for (int i = 2; i <= 14; i++)
			if (i != 3 && i != 5)
				mk(i, 'l', 0, NULL, NULL);
		break;
	}
	case 1:
	{
		static const int c1[] = {2, 0, 3, 5};
		static const int c3[] = {4};
		static const char *k5[] = {"0", "-", ""};
		static const int c5[] = {6, 7, 0};
		mk(1, 'a', 4, NULL, c1);
		mk(3, 'a', 1, NULL, c3);
		mk(5, 'o', 3, k5, c5);
		mk(2, 'l', 0, NULL, NULL);
		mk(4, 'l', 0, NULL, NULL);
		mk(6, 'l', 0, NULL, NULL);
		mk(7, 'l', 0, NULL, NULL);
		break;
	}
	case 2: mk(1, 'l', 0, NULL, NULL); break;
	default: mk(1, 'a', 0, NULL, NULL); break;
	}
}
static int alpha[16], nalpha, maxn;
static char P[32];
static void enum_rec(int len, int doset)
{
	P[len] = 0;
	if (!doset)
	{
		do_get(P, 0);
		do_get(P, 1);
	}
	else
	{
		do_set(P, len & 1);
	}
	if (len < maxn)
		for (int i = 0; i < nalpha; i++)
		{
			P[len] = (char)alpha[i];
			enum_rec(len + 1, doset);
		}
}
static int run_enum(int argc, char **argv)
{
	/* enum WHICH DOSET N c1 c2 .. */
	int which = atoi(argv[0]), doset = atoi(argv[1]);
	maxn = atoi(argv[2]);
	nalpha = 0;
	for (int i = 3; i < argc && nalpha < 16; i++)
		alpha[nalpha++] = atoi(argv[i]);
	tree_fixed(which);
	ev_begin("new");
	ev_end();
	fresh_tree();
	emit_tree();
	enum_rec(0, doset);
	return 0;
}

/* ---- random trees and pointers */
/* (names of every tail length of a 12-byte-block hash, and short names of lengths 1..5 in front of them: a reference
 * token is hashed where it sits inside the pointer string, at whatever alignment that is) */
static const char *advkeys[] = {"", "a", "/", "~", "~0", "~1", "0", "01", "-", "a/b", "m~n", "1", "b", "~01", "//", "10", "k",
                                "elevenchars", "twenty-three characters", "a key of thirty-five characters ...", "twelve chars",
                                "ab", "abc", "abcd", "abcde", "member_0042", "thirteen char"};
static int gen(int budget, int depth)
{
	int id = ++nspec;
	if (id == 99)
		id = ++nspec; /* (99 is the identity of the value that set operations place) */
	uint32_t r = vh_below(10);
	if (budget <= 1 || depth > 4 || r < 3 || nspec > MAXN - 30)
	{
		S[id].kind = 'l';
		S[id].nk = 0;
		return id;
	}
	S[id].kind = r < 7 ? 'o' : 'a';
	int n = 1 + (int)vh_below(5);
	if (S[id].kind == 'a' && vh_below(6) == 0 && nspec < MAXN - 150)
	{
		/* an array wide enough for index tokens of two (now and then three) digits; its elements are leaves and nulls */
		n = vh_below(6) == 0 ? 101 + (int)vh_below(3) : 11 + (int)vh_below(4);
		budget = n;
	}
	int used[27] = {0};
	S[id].nk = 0;
	for (int i = 0; i < n && nspec < MAXN - 10; i++)
	{
		int k = (int)vh_below(27);
		if (S[id].kind == 'o')
		{
			if (used[k])
				continue;
			used[k] = 1;
		}
		int kid = vh_below(6) == 0 ? 0 : gen(budget / n, depth + 1);
		S[id].keys[S[id].nk] = advkeys[k];
		S[id].kids[S[id].nk] = kid;
		S[id].nk++;
	}
	return id;
}
static void esc_append(char *out, const char *key)
{
	size_t n = strlen(out);
	for (; *key; key++)
	{
		if (*key == '~')
		{
			out[n++] = '~';
			out[n++] = '0';
		}
		else if (*key == '/')
		{
			out[n++] = '~';
			out[n++] = '1';
		}
		else
			out[n++] = *key;
	}
	out[n] = 0;
}
/* a pointer to a random node (or into a random nonexistent place) */
static void rand_pointer(char *out)
{
	out[0] = 0;
	int cur = 1;
	int steps = (int)vh_below(6);
	for (int s = 0; s < steps; s++)
	{
		if (cur == 0 || S[cur].kind == 'l' || S[cur].nk == 0)
			break;
		int j = (int)vh_below((uint32_t)S[cur].nk);
		strcat(out, "/");
		if (S[cur].kind == 'o')
			esc_append(out, S[cur].keys[j]);
		else
			sprintf(out + strlen(out), "%d", j);
		cur = S[cur].kids[j];
	}
	/* variations: dangling / malformed tails */
	switch (vh_below(14))
	{
	case 0: strcat(out, "/nope"); break;
	case 1: strcat(out, "/-"); break;
	case 2: strcat(out, "/"); break;
	case 3: strcat(out, "/01"); break;
	case 4: sprintf(out + strlen(out), "/%d", 2 + (int)vh_below(6)); break;
	case 5: strcat(out, "/~"); break;
	case 6: strcat(out, "x"); break;
	case 7:
	case 11:
	{
		/* index tokens around the widths an implementation may compute in: 2^31, 2^32, 2^63, 2^64 (+ small
		 * offsets, so that a value reduced modulo the width would be a valid index) and longer ones */
		static const char *big[] = {"1152921504606846976", "2147483647", "2147483648", "4294967295", "4294967296", "4294967297", "4294967298",
		                            "9223372036854775807", "9223372036854775808", "9223372036854775809", "18446744073709551615",
		                            "18446744073709551616", "18446744073709551617", "18446744073709551618", "18446744073709551619",
		                            "2305843009213693951", "2305843009213693952", "2305843009213693953", "4611686018427387904", "9999999999999999999",
		                            "36893488147419103232", "36893488147419103233", "184467440737095516160", "184467440737095516161",
		                            "340282366920938463463374607431768211456", "340282366920938463463374607431768211457",
		                            "100000000000000000000", "99999999999999999999", "00", "000000000000000000000"};
		strcat(out, "/");
		strcat(out, big[vh_below(sizeof big / sizeof *big)]);
		if (vh_below(3) == 0)
			strcat(out, "/a");
		break;
	}
	case 8: strcat(out, "/~2"); break;
	case 9: strcat(out, "/a~1b"); break;
	case 10: strcat(out, "/0"); break;
	default: break;
	}
}
/* an index token of 9 or more digits below 2^64: json_pointer_set would really pad the array with that many nulls */
static int pads_gigabytes(const char *p)
{
	while (*p)
	{
		if (*p == '/')
			p++;
		const char *t = p;
		size_t n = strcspn(p, "/");
		p += n;
		/* (from 2^61 on the element array cannot even be sized: such a set is refused without allocating, and what
		 * happens to the value on that path is worth seeing) */
		if (n >= 9 && strspn(t, "0123456789") >= n && t[0] != '0')
			if (n < 19 || (n == 19 && strncmp(t, "2305843009213693952", 19) < 0))
				return 1;
	}
	return 0;
}
static int drive(int start, int nexec, int nops)
{
	const char *seed = getenv("VERIF_SEED");
	uint64_t s0 = seed ? strtoull(seed, 0, 10) : 1;
	for (int x = start; x < nexec; x++)
	{
		vh_srand(s0 * 1000003ull + (uint64_t)x);
		spec_reset();
		gen(12 + (int)vh_below(30), 0);
		ev_begin("new");
		ev_end();
		fresh_tree();
		emit_tree();
		char p[512];
		for (int i = 0; i < nops; i++)
		{
			rand_pointer(p);
			if (p[0] == 0 && vh_below(2))
				continue;
			if (vh_below(3) || pads_gigabytes(p))
				do_get(p, (int)vh_below(2));
			else if (p[0])
			{
			{
				int f = (int)vh_below(2);
				do_set(p, f);
				if (vh_below(3) == 0)
					do_set_faulted(p, f);
			}
				fresh_tree();
				emit_tree();
			}
		}
	}
	return 0;
}

int c12_main(int argc, char **argv)
{
	int r = 2;
	if (argc >= 5 && !strcmp(argv[0], "enum"))
		r = run_enum(argc - 1, argv + 1);
	else if (argc >= 4 && !strcmp(argv[0], "drive"))
		r = drive(atoi(argv[1]), atoi(argv[2]), atoi(argv[3]));
	if (root)
		json_object_put(root);
	root = NULL;
	return r;
}
